\* C12 quick tier, empty clusters: 1-D rows on a SPARSE value set, 2..6 rows, k = 3, one
\* assignment step.  ShowEmpty makes TLC list (INFO lines) the data sets for which some seeding
\* leaves a cluster without members; the check has the harness refit exactly those data sets many
\* times and demands that empty-cluster fits were actually observed (and had finite centroids).
CONSTANTS
    Dim = 1
    Vals = {0, 3, 10, 11, 18}
    MaxN = 6
    Ks = {3}
    MaxIters = {1}
    FullLayer = FALSE
    ShowSwap = FALSE
    RowSum = 0
    ShowEmpty = TRUE
    Replay = FALSE
SPECIFICATION Spec
INVARIANT FitCorrect
INVARIANT SeedingSound
INVARIANT Monotone
INVARIANT Bounded
INVARIANT EmitEmpty
CHECK_DEADLOCK FALSE
