\* thorough: 2-D 2x2 lattice, Manhattan, all sequences of 1..4 points, every query order; printed for replay
CONSTANTS W = 2  H = 2  MaxN = 4  EpsSet = {1, 2}  MinPtsSet = {1, 2, 3, 4}
          Key = "man"  Order = "any"  Emit = TRUE
SPECIFICATION Spec
INVARIANT ModelSatisfiesProperty
INVARIANT TypeOK
INVARIANT QueuedArePending
INVARIANT StackNeverUndefined
INVARIANT OutlierIsNonCore
INVARIANT PrefixSettled
INVARIANT LabelsBelowK
INVARIANT ClosedClusters
INVARIANT LabelledHasWitness
INVARIANT StackBounded
INVARIANT NoProvisionalLeft
INVARIANT CompMatchesDefinition
INVARIANT ReplayOut
CHECK_DEADLOCK FALSE
