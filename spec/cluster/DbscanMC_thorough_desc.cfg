\* thorough: 1-D {0..3}, all sequences of 1..6 points, descending query order
CONSTANTS W = 4  H = 0  MaxN = 6  EpsSet = {1, 2, 3}  MinPtsSet = {1, 2, 3, 4}
          Key = "man"  Order = "desc"  Emit = FALSE
SPECIFICATION Spec
INVARIANT ModelSatisfiesProperty
INVARIANT TypeOK
INVARIANT QueuedArePending
INVARIANT StackNeverUndefined
INVARIANT OutlierIsNonCore
INVARIANT PrefixSettled
INVARIANT LabelsBelowK
INVARIANT ClosedClusters
INVARIANT LabelledHasWitness
INVARIANT StackBounded
INVARIANT NoProvisionalLeft
CHECK_DEADLOCK FALSE
