\* C12 quick tier: 1-D rows on {0..3}, 1..4 rows in canonical order (69 multisets) x every
\* ordered pair of centroids on the half-integer grid -1.5 .. 4.5 (169 pairs, including
\* coincident pairs, centroids on / between data points and outside the data range)
CONSTANTS
    Dim = 1
    Vals = {0, 1, 2, 3}
    MaxN = 4
    CBelow = 3
    CHi = 9
    Ks = {2}
    Ordered = TRUE
    Adjacent = FALSE
    FixCutoff = FALSE
    Replay = FALSE
    RMod = 1
SPECIFICATION Spec
INVARIANT FilterCorrect
INVARIANT BuildSafe
INVARIANT TreeWellFormed
INVARIANT FilterSafe
CHECK_DEADLOCK FALSE
