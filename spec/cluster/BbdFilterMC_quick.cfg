\* C12 quick tier: 1-D rows on {0..3}, every sequence of 1..4 rows (340 data sets) x every
\* ordered pair of centroids on the half-integer grid -1 .. 4 (121 pairs, including
\* coincident pairs, centroids on / between data points and outside the data range)
CONSTANTS
    Dim = 1
    Vals = {0, 1, 2, 3}
    MaxN = 4
    CBelow = 2
    CHi = 8
    Ks = {2}
    Ordered = FALSE
    Replay = FALSE
    RMod = 1
SPECIFICATION Spec
INVARIANT FilterCorrect
INVARIANT BuildSafe
INVARIANT TreeWellFormed
INVARIANT FilterSafe
CHECK_DEADLOCK FALSE
