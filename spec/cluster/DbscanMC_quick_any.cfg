\* quick: 1-D {0..3}, all sequences of 1..4 points, EVERY order a radius query may return its rows in; terminal states printed for spec->impl replay
CONSTANTS W = 4  H = 0  MaxN = 4  EpsSet = {1, 2}  MinPtsSet = {1, 2, 3}
          Key = "man"  Order = "any"  Emit = TRUE
SPECIFICATION Spec
INVARIANT ModelSatisfiesProperty
INVARIANT TypeOK
INVARIANT QueuedArePending
INVARIANT StackNeverUndefined
INVARIANT OutlierIsNonCore
INVARIANT PrefixSettled
INVARIANT LabelsBelowK
INVARIANT ClosedClusters
INVARIANT LabelledHasWitness
INVARIANT StackBounded
INVARIANT NoProvisionalLeft
INVARIANT CompMatchesDefinition
INVARIANT ReplayOut
CHECK_DEADLOCK FALSE
