\* C12 thorough tier: 1-D rows on {0..5}, 2..6 rows (canonical order, at least k distinct),
\* k in {2, 3}, max_iter in {1, 2, 3, 4}; every seeding; every tie resolution
CONSTANTS
    Dim = 1
    Vals = {0, 1, 2, 3, 4, 5}
    MaxN = 6
    Ks = {2, 3}
    MaxIters = {1, 2, 3, 4}
    FullLayer = FALSE
    ShowSwap = FALSE
    RowSum = 0
    ShowEmpty = FALSE
    Replay = FALSE
SPECIFICATION Spec
INVARIANT FitCorrect
INVARIANT SeedingSound
INVARIANT Monotone
INVARIANT Bounded
CHECK_DEADLOCK FALSE
