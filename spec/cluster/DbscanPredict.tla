---------------------------- MODULE DbscanPredict ----------------------------
(***************************************************************************)
(* C13, design model (A) of                                                *)
(*     smartcore::cluster::dbscan::DBSCAN::predict   (one query row)       *)
(*                                                                         *)
(*   neighbors = find_radius(row, eps)                                     *)
(*   label = [0; num_classes + 1]            -- last bucket = noise        *)
(*   for nb in neighbors: label[ y[nb] < 0 ? num_classes : y[nb] ] += 1    *)
(*   class = which_max(label)                -- FIRST index of the maximum *)
(*   result = (class != num_classes && label[class] > 0) ? class : -1      *)
(*                                                                         *)
(* The model is independent of `fit`: the fitted labelling is ANY          *)
(* labelling that satisfies IsDensityClustering for the data (enumerated   *)
(* from the predicate itself), so what is checked is                       *)
(*   "for every data set, every density-based clustering of it and every   *)
(*    query row, the vote returns a label PredictOK accepts".              *)
(*                                                                         *)
(* Mode = "guarded"  : the code as it is (since fix 7f8bc2c): a winning    *)
(*                     bucket with zero votes -- i.e. no training point    *)
(*                     within eps -- means noise.  PredictOK holds         *)
(*                     (DbscanPredictMC_*.cfg, run by the check).          *)
(* Mode = "unguarded": the regression shape, i.e. the vote without the     *)
(*                     `label[class] > 0` guard, as the code was before    *)
(*                     7f8bc2c.  With an empty neighbourhood every bucket  *)
(*                     is 0, which_max returns bucket 0, and bucket 0 is a *)
(*                     cluster whenever num_classes >= 1: TLC reports the  *)
(*                     counterexample (pts = <<0>>, y = <<0>>, q = 2,      *)
(*                     out = 0).  DbscanPredict_unguarded_regression.cfg   *)
(*                     is EXPECTED TO FAIL with PredictEmptyIsNoise and is *)
(*                     not part of the check; it documents what the        *)
(*                     EmptyNbhdNotNoise clause of the trace spec guards   *)
(*                     against.                                            *)
(***************************************************************************)
EXTENDS DbscanProps

CONSTANTS W, H, MaxN, EpsSet, MinPtsSet, Key, Mode

Lattice == IF H = 0 THEN {<<a>> : a \in 0..(W - 1)}
           ELSE {<<a, b>> : a \in 0..(W - 1), b \in 0..(H - 1)}
(* query rows: the lattice, its rim, and rows far from everything *)
Queries == IF H = 0 THEN {<<a>> : a \in (-1..W) \cup {3 * W + 10}}
           ELSE {<<a, b>> : a \in -1..W, b \in -1..H} \cup {<<3 * W + 10, 3 * H + 10>>}

VARIABLES pts, eps, minPts, y, k,   \* data, parameters, a fitted labelling
          q,                        \* the query row
          label,                    \* the vote table, buckets 1..k (clusters 0..k-1) and k+1 (noise)
          out, pc
vars == <<pts, eps, minPts, y, k, q, label, out, pc>>

Labellings(m) == [1..m -> -1..(m - 1)]
NClasses(yy) == Cardinality(UsedLabels(yy))
(* all density-based clusterings of a data set, enumerated from the predicate  *)
(* (staged so that neighbourhoods, core set and components are computed once)  *)
DCL4(m, cnb, core, comp) == {yy \in Labellings(m) : IsDCWith(m, cnb, core, comp, yy, NClasses(yy))}
DCL3(m, cnb, core) == DCL4(m, cnb, core, CompOf(m, cnb, core))
DCL2(m, nb, core) == DCL3(m, CoreNb(nb, core), core)
DCL1(m, nb, mp) == DCL2(m, nb, CoreOf(nb, mp))
DCLabellings(p, e, mp) == DCL1(Len(p), NbOf(p, Key, e), mp)

Init == /\ pts \in UNION {[1..m -> Lattice] : m \in 1..MaxN}
        /\ eps \in EpsSet
        /\ minPts \in MinPtsSet
        /\ y \in DCLabellings(pts, eps, minPts)
        /\ k = NClasses(y)
        /\ q \in Queries
        /\ label = <<>> /\ out = -9 /\ pc = "vote"

(* the counting loop *)
Vote == /\ pc = "vote"
        /\ label' = [b \in 1..(k + 1) |->
                        Cardinality({j \in QueryNb(pts, Key, eps, q) :
                                        IF y[j] < 0 THEN b = k + 1 ELSE b = y[j] + 1})]
        /\ pc' = "pick"
        /\ UNCHANGED <<pts, eps, minPts, y, k, q, out>>

(* which_max: the first bucket holding the maximum *)
WhichMax(v) == CHOOSE b \in DOMAIN v : /\ \A c \in DOMAIN v : v[c] <= v[b]
                                       /\ \A c \in DOMAIN v : c < b => v[c] < v[b]

Pick == /\ pc = "pick"
        /\ out' = IF /\ WhichMax(label) # k + 1
                     /\ (Mode = "unguarded" \/ label[WhichMax(label)] > 0)
                  THEN WhichMax(label) - 1 ELSE -1
        /\ pc' = "done"
        /\ UNCHANGED <<pts, eps, minPts, y, k, q, label>>

Next == Vote \/ Pick
Spec == Init /\ [][Next]_vars

PredictSatisfiesProperty == pc = "done" => PredictOK(pts, Key, eps, y, k, q, out)
(* the table the code builds is the Votes function of the predicates, re-indexed *)
TableIsVotes == pc = "pick" =>
    LET v == Votes(QueryNb(pts, Key, eps, q), y, k) IN
    /\ \A c \in 0..(k - 1) : label[c + 1] = v[c]
    /\ label[k + 1] = v[-1]
=============================================================================
