---------------------------- MODULE DbscanProps ----------------------------
(***************************************************************************)
(* C13 -- DBSCAN labels satisfy the definition of density-based clusters.  *)
(*                                                                         *)
(* Property predicates (P), written from the property statement, not from  *)
(* the code.  They are used twice:                                         *)
(*   - as the INVARIANT of the design model Dbscan.tla (the transcribed    *)
(*     `fit` loop), checked exhaustively by TLC on small lattices;         *)
(*   - as the acceptance condition of DbscanTrace.tla, which validates     *)
(*     what the real smartcore::cluster::dbscan::DBSCAN returned.          *)
(*                                                                         *)
(* DATA.  A data set is a sequence `pts` of points; a point is a sequence  *)
(* of integer coordinates (all of the same length d >= 1).  Rows are       *)
(* numbered 1..n here (the code numbers them 0..n-1).  The distance is     *)
(* represented by an integer *key* that is an exact monotone image of the  *)
(* floating-point distance the library computes on such data:              *)
(*    key = "man"  : Manhattan distance,        neighbour  <=>  key <= eps *)
(*    key = "euc2" : squared Euclidean distance, neighbour <=> key <= eps  *)
(*                   where `eps` is the *square* of the radius given to    *)
(*                   the library (the harness passes sqrt(eps); sqrt is    *)
(*                   monotone and distinct integers below 2^20 have        *)
(*                   distinct correctly rounded roots, so                  *)
(*                   sqrt(k) <= sqrt(eps)  <=>  k <= eps exactly).         *)
(* Uniform scaling of all coordinates and of the radius by a power of two  *)
(* is exact in binary floating point and does not change any comparison,   *)
(* so the dyadic ("continuous-looking") family 2^s * lattice is covered by *)
(* the same integer predicates.                                            *)
(*                                                                         *)
(* LABELS.  y[i] \in -1 .. c-1;  -1 is noise.  `k` is the model's          *)
(* num_classes field.                                                      *)
(*                                                                         *)
(* TLC NOTE.  TLC re-evaluates LET definitions and lazily built functions  *)
(* at every use.  Every expensive intermediate (distance matrix,           *)
(* neighbourhoods, core set, component map) is therefore computed once,    *)
(* forced with TLCEval, and threaded through operator *parameters*.        *)
(***************************************************************************)
EXTENDS Integers, Sequences, FiniteSets, TLC

Abs(x) == IF x < 0 THEN -x ELSE x

RECURSIVE ManFrom(_, _, _), Euc2From(_, _, _)
ManFrom(a, b, d)  == IF d > Len(a) THEN 0 ELSE Abs(a[d] - b[d]) + ManFrom(a, b, d + 1)
Euc2From(a, b, d) == IF d > Len(a) THEN 0
                     ELSE (a[d] - b[d]) * (a[d] - b[d]) + Euc2From(a, b, d + 1)

(* the integer key of the distance between two points *)
KeyDist(key, a, b) == IF key = "man" THEN ManFrom(a, b, 1) ELSE Euc2From(a, b, 1)

(***************************************************************************)
(* Neighbourhoods.  "Within eps" is <= (the boundary belongs to the        *)
(* neighbourhood) and every point is its own neighbour ("itself            *)
(* included").  DistMatrix / NbOfD are the once-only computed forms.       *)
(***************************************************************************)
DistMatrix(pts, key) ==
    TLCEval([i \in 1..Len(pts) |-> TLCEval([j \in 1..Len(pts) |-> KeyDist(key, pts[i], pts[j])])])

NbOfD(D, eps) ==
    TLCEval([i \in DOMAIN D |-> TLCEval({j \in DOMAIN D : D[i][j] <= eps})])

NbOf(pts, key, eps) == NbOfD(DistMatrix(pts, key), eps)

(* core point: at least minPts points within eps, itself included *)
CoreOf(nb, minPts) == TLCEval({i \in DOMAIN nb : Cardinality(nb[i]) >= minPts})

(* nb restricted to core points: the edges of the "core graph" *)
CoreNb(nb, core) == TLCEval([i \in DOMAIN nb |-> TLCEval(nb[i] \cap core)])

(***************************************************************************)
(* Density-connectivity.  In the original definition p is directly         *)
(* density-reachable from a core point q when p is within eps of q;        *)
(* density-reachable is the transitive closure (every point of the chain   *)
(* but the last is core); p and q are density-connected when both are      *)
(* density-reachable from a common point o.  For two *core* points this is *)
(* the same as being connected in the undirected graph on the core points  *)
(* whose edges join core points within eps of each other: a chain from o   *)
(* to a core point consists of core points only, and edges between core    *)
(* points are symmetric.  (For p = q = o the chain is empty.)              *)
(*                                                                         *)
(* `DensityConnected` is that definition, stated directly with a bounded   *)
(* path quantifier; it is exponential and only used by the model-checking  *)
(* configs to cross-check the efficient `CompOf` on every small input.     *)
(***************************************************************************)
RECURSIVE ReachWithin(_, _, _)
ReachWithin(cnb, S, steps) ==       \* core points reachable from S in <= steps edges
    IF steps = 0 THEN S
    ELSE ReachWithin(cnb, S \cup UNION {cnb[i] : i \in S}, steps - 1)

DensityConnected(cnb, core, p, q) ==
    /\ p \in core /\ q \in core
    /\ q \in ReachWithin(cnb, {p}, Cardinality(core) - 1)

(* CompOf: function 1..n -> 0..n; 0 for non-core points, otherwise the      *)
(* smallest row number of the point's connected component of the core       *)
(* graph (breadth-first search from each not-yet-assigned core point in     *)
(* ascending order, so the start point is the minimum of its component).    *)
RECURSIVE Grow(_, _, _)
GrowStep(cnb, seen, new) == Grow(cnb, seen \cup new, new)
Grow(cnb, seen, frontier) ==
    IF frontier = {} THEN seen
    ELSE GrowStep(cnb, seen, UNION {cnb[i] : i \in frontier} \ seen)

RECURSIVE CompLoop(_, _, _, _)
CompAssign(cnb, core, i, acc, C) ==
    CompLoop(cnb, core, i + 1, TLCEval([j \in DOMAIN acc |-> IF j \in C THEN i ELSE acc[j]]))
CompLoop(cnb, core, i, acc) ==
    IF i > Len(acc) THEN acc
    ELSE IF i \notin core \/ acc[i] # 0 THEN CompLoop(cnb, core, i + 1, acc)
    ELSE CompAssign(cnb, core, i, acc, Grow(cnb, {i}, {i}))

CompOf(n, cnb, core) == CompLoop(cnb, core, 1, [j \in 1..n |-> 0])

(***************************************************************************)
(* The clauses of the statement, one operator each (the trace spec names   *)
(* the clause that failed).  n = number of rows, nb = neighbourhoods,      *)
(* core = set of core rows, cnb = CoreNb, comp = CompOf.                   *)
(***************************************************************************)

(* a label per row; nothing below -1 (no provisional state may leak out)   *)
WellFormed(n, y) ==
    /\ Len(y) = n
    /\ \A i \in 1..n : y[i] >= -1

(* "every core point ... belongs to a cluster" *)
CoreClustered(core, y) == \A i \in core : y[i] >= 0

(* "two core points carry the same label exactly when they are             *)
(*  density-connected"                                                     *)
SameLabelIffConnected(core, comp, y) ==
    \A i \in core : \A j \in core : (y[i] = y[j]) <=> (comp[i] = comp[j])

(* "every non-core point within eps of some core point carries the label   *)
(*  of one such core point" -- ANY adjacent core point's label is accepted *)
(*  (a border point between two clusters may go to either)                 *)
BorderJoinsNeighbourCluster(n, cnb, core, y) ==
    \A i \in (1..n) \ core : (cnb[i] # {}) => \E j \in cnb[i] : y[i] = y[j]

(* "and all remaining points are noise" *)
RestIsNoise(n, cnb, core, y) ==
    \A i \in (1..n) \ core : (cnb[i] = {}) => y[i] = -1

(* "cluster labels are 0..c-1 without gaps" *)
UsedLabels(y) == {y[i] : i \in DOMAIN y} \ {-1}
GapFree(y) == UsedLabels(y) = 0..(Cardinality(UsedLabels(y)) - 1)

(* the fitted model's num_classes is that c (predict sizes its vote table  *)
(* with it; observable through the serde dump)                             *)
NumClassesIsC(y, k) == k = Cardinality(UsedLabels(y))

IsDCWith(n, cnb, core, comp, y, k) ==
    /\ WellFormed(n, y)
    /\ CoreClustered(core, y)
    /\ SameLabelIffConnected(core, comp, y)
    /\ BorderJoinsNeighbourCluster(n, cnb, core, y)
    /\ RestIsNoise(n, cnb, core, y)
    /\ GapFree(y)
    /\ NumClassesIsC(y, k)

(* staging operators: each intermediate is an *argument*, hence evaluated once *)
IsDCCnb(n, cnb, core, y, k) == IsDCWith(n, cnb, core, CompOf(n, cnb, core), y, k)
IsDCNb(n, nb, core, y, k)   == IsDCCnb(n, CoreNb(nb, core), core, y, k)
IsDCFromNb(n, nb, minPts, y, k) == IsDCNb(n, nb, CoreOf(nb, minPts), y, k)

(* THE property: labelling y (with num_classes k) of pts is a density-based *)
(* clustering for radius eps and density threshold minPts.                  *)
IsDensityClustering(pts, key, eps, minPts, y, k) ==
    IsDCFromNb(Len(pts), NbOf(pts, key, eps), minPts, y, k)

(***************************************************************************)
(* "core-point labels and the noise set do not depend on the search        *)
(*  backend": two labellings of the same data agree on every core row and  *)
(* have the same noise rows (border rows between two clusters may differ). *)
(***************************************************************************)
SameCoreLabels(core, y1, y2) == \A i \in core : y1[i] = y2[i]
SameNoiseSet(n, y1, y2) == \A i \in 1..n : (y1[i] = -1) <=> (y2[i] = -1)

(***************************************************************************)
(* predict: "labels a new row by plurality among the training points       *)
(* within eps of it (noise when there are none or unclustered points       *)
(* dominate)".  The vote has one bucket per cluster and one for noise;     *)
(* the answer must be a bucket of maximal count (ties: any of them), and   *)
(* noise when no training point is within eps.                             *)
(***************************************************************************)
QueryNb(pts, key, eps, q) == TLCEval({i \in 1..Len(pts) : KeyDist(key, q, pts[i]) <= eps})

Votes(qnb, y, k) ==   \* function -1..k-1 -> count
    TLCEval([l \in -1..(k - 1) |-> Cardinality({i \in qnb : y[i] = l})])

MaxVote(votes) == CHOOSE m \in {votes[l] : l \in DOMAIN votes} :
                      \A l \in DOMAIN votes : votes[l] <= m

PredictInRange(k, out) == out \in -1..(k - 1)
PredictEmptyIsNoise(qnb, out) == (qnb = {}) => out = -1
PredictPluralityV(qnb, votes, out) == (qnb # {}) => votes[out] = MaxVote(votes)

PredictOKWith(qnb, y, k, out) ==
    /\ PredictInRange(k, out)
    /\ PredictEmptyIsNoise(qnb, out)
    /\ PredictPluralityV(qnb, Votes(qnb, y, k), out)

PredictOK(pts, key, eps, y, k, q, out) == PredictOKWith(QueryNb(pts, key, eps, q), y, k, out)
=============================================================================
