\* quick tier: 1-D lattice {0..3}, every sequence of 1..5 points, EVERY order in which a
\* radius query may return its rows; terminal states are printed for the spec -> impl replay
CONSTANTS W = 4  H = 0  MaxN = 5  EpsSet = {1, 2}  MinPtsSet = {1, 2, 3}
          Key = "man"  Order = "any"  Emit = TRUE
SPECIFICATION Spec
INVARIANT ModelSatisfiesProperty
INVARIANT TypeOK
INVARIANT QueuedArePending
INVARIANT StackNeverUndefined
INVARIANT OutlierIsNonCore
INVARIANT PrefixSettled
INVARIANT LabelsBelowK
INVARIANT ClosedClusters
INVARIANT LabelledHasWitness
INVARIANT StackBounded
INVARIANT NoProvisionalLeft
INVARIANT CompMatchesDefinition
INVARIANT ReplayOut
CHECK_DEADLOCK FALSE
