\* NOT part of the check: the vote exactly as coded today.  EXPECTED TO FAIL -- TLC reports the
\* design-level counterexample of the known finding (a query row with no training point within
\* eps gets cluster 0 as soon as one cluster exists).
CONSTANTS W = 4  H = 0  MaxN = 3  EpsSet = {1}  MinPtsSet = {1, 2}
          Key = "man"  Mode = "ascoded"
SPECIFICATION Spec
INVARIANT PredictSatisfiesProperty
CHECK_DEADLOCK FALSE
