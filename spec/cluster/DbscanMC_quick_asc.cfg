\* quick: 1-D {0..3}, all sequences of 1..5 points, linear-search (ascending) order; printed for replay
CONSTANTS W = 4  H = 0  MaxN = 5  EpsSet = {1, 2}  MinPtsSet = {1, 2, 3}
          Key = "man"  Order = "asc"  Emit = TRUE
SPECIFICATION Spec
INVARIANT ModelSatisfiesProperty
INVARIANT TypeOK
INVARIANT QueuedArePending
INVARIANT StackNeverUndefined
INVARIANT OutlierIsNonCore
INVARIANT PrefixSettled
INVARIANT LabelsBelowK
INVARIANT ClosedClusters
INVARIANT LabelledHasWitness
INVARIANT StackBounded
INVARIANT NoProvisionalLeft
INVARIANT CompMatchesDefinition
INVARIANT ReplayOut
CHECK_DEADLOCK FALSE
