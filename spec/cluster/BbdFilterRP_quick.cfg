\* C12 quick tier, spec -> impl: 2-D rows on the 2x2 lattice, canonical order, 1..3 rows
\* (34 data sets) x every ordered pair of centroids on the half-integer grid -0.5 .. 1.5
\* (625 pairs); one terminal state in RMod is printed and replayed through the real BBDTree
CONSTANTS
    Dim = 2
    Vals = {0, 1}
    MaxN = 3
    CBelow = 1
    CHi = 3
    Ks = {2}
    Ordered = TRUE
    Adjacent = FALSE
    FixCutoff = FALSE
    Replay = TRUE
    RMod = 5
\* (TreeWellFormed / FilterSafe are checked by the MC configurations)
SPECIFICATION Spec
INVARIANT FilterCorrect
INVARIANT BuildSafe
INVARIANT Emit
CHECK_DEADLOCK FALSE
