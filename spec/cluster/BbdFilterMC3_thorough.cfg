\* C12 thorough tier (b): three centroids.  1-D rows on {0..3}, canonical order, 1..4 rows
\* (69 multisets) x every ordered triple of centroids on the half-integer grid -1 .. 4
\* (1331 triples: coincident pairs and triples, ties, centroids outside the data)
CONSTANTS
    Dim = 1
    Vals = {0, 1, 2, 3}
    MaxN = 4
    CBelow = 2
    CHi = 8
    Ks = {3}
    Ordered = TRUE
    Adjacent = FALSE
    FixCutoff = FALSE
    Replay = FALSE
    RMod = 1
SPECIFICATION Spec
INVARIANT FilterCorrect
INVARIANT BuildSafe
INVARIANT TreeWellFormed
INVARIANT FilterSafe
CHECK_DEADLOCK FALSE
