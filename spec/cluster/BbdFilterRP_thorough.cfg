\* C12 thorough tier, spec -> impl: 2-D rows on the 3x3 lattice, canonical order, 1..3 rows
\* (219 data sets) x every ordered pair of centroids on the half-integer grid -0.5 .. 1.5
\* squared (625 pairs); one terminal state in RMod is printed and replayed through the real tree
CONSTANTS
    Dim = 2
    Vals = {0, 1, 2}
    MaxN = 3
    CBelow = 1
    CHi = 3
    Ks = {2}
    Ordered = TRUE
    Adjacent = FALSE
    FixCutoff = FALSE
    Replay = TRUE
    RMod = 4
SPECIFICATION Spec
INVARIANT FilterCorrect
INVARIANT BuildSafe
INVARIANT TreeWellFormed
INVARIANT FilterSafe
INVARIANT Emit
CHECK_DEADLOCK FALSE
