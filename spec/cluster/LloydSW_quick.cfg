\* C12 quick tier, composition data: 2-D rows on the anti-diagonal x + y = 3 of the 4x4 lattice,
\* 2..6 rows, k = 2, up to three sweeps.  ShowSwap makes TLC list (INFO lines) the data sets on
\* which some sweep after the first exchanges members of a cluster without changing its count or
\* its coordinate total; the harness refits those data sets many times.
CONSTANTS
    Dim = 2
    Vals = {0, 1, 2, 3}
    MaxN = 6
    Ks = {2}
    MaxIters = {3}
    FullLayer = FALSE
    RowSum = 3
    ShowSwap = TRUE
    ShowEmpty = FALSE
    Replay = FALSE
SPECIFICATION Spec
INVARIANT FitCorrect
INVARIANT SeedingSound
INVARIANT Monotone
INVARIANT Bounded
INVARIANT EmitSwap
CHECK_DEADLOCK FALSE
