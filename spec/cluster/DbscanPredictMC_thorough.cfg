\* thorough: as quick, on the 2-D 3x2 lattice with the squared Euclidean key (a border row
\* between two clusters has two admissible labels, both are enumerated)
CONSTANTS W = 3  H = 2  MaxN = 4  EpsSet = {1, 2}  MinPtsSet = {1, 2, 3, 4}
          Key = "euc2"  Mode = "guarded"
SPECIFICATION Spec
INVARIANT PredictSatisfiesProperty
INVARIANT TableIsVotes
CHECK_DEADLOCK FALSE
