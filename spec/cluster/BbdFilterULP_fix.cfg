\* C12 what-if analysis, NOT run by the check.  Same scope as BbdFilterULP_bug.cfg with the
\* suggested repair (FixCutoff): BuildSafe holds, and the filtering clause still holds because
\* the tree stays a partition of the rows whatever cutoff inside (lo, hi] is used.
CONSTANTS
    Dim = 1
    Vals = {0, 1, 2, 3}
    MaxN = 3
    CBelow = 2
    CHi = 8
    Ks = {2}
    Ordered = FALSE
    Adjacent = TRUE
    FixCutoff = TRUE
    Replay = FALSE
    RMod = 1
SPECIFICATION Spec
INVARIANT BuildSafe
INVARIANT FilterCorrect
INVARIANT FilterSafe
CHECK_DEADLOCK FALSE
