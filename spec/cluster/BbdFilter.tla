------------------------------ MODULE BbdFilter ------------------------------
(***************************************************************************)
(* C12 -- design model (A) of the bounding-box tree that accelerates the   *)
(* assignment step of k-means:  src/algorithm/neighbour/bbd_tree.rs        *)
(*   BBDTree::new / build_node   (kd-style tree over the rows, every node  *)
(*                                caches count, bounding box, coordinate   *)
(*                                sum and the scatter "cost" of its rows)  *)
(*   BBDTree::clustering / filter / prune / node_cost                      *)
(*                               (Kanungo et al. filtering: walk the tree  *)
(*                                with a shrinking list of candidate       *)
(*                                centroids; a whole node is handed to the *)
(*                                candidate closest to the box centre as   *)
(*                                soon as every other candidate is pruned) *)
(*                                                                         *)
(* The model is implementation shaped: one action per branch of the code,  *)
(* the two recursions made explicit as stacks.  Arithmetic is exact:       *)
(*  - rows are lattice points (integers); box centre and radius are        *)
(*    (lo+hi)/2 and (hi-lo)/2, kept DOUBLED (center2 = lo+hi,              *)
(*    radius2 = hi-lo) so they stay integers;                              *)
(*  - centroids are integer or half-integer, kept doubled as well (cents); *)
(*  - the cached costs and the returned distortion are exact rationals     *)
(*    <<num, den>> (the code divides by node counts).                      *)
(* On such inputs every comparison the floating-point code makes is        *)
(* between exactly representable numbers, so the model and the code must   *)
(* take the same branches (any difference shows up as MODEL-DRIFT in the   *)
(* spec -> impl replay).                                                   *)
(*                                                                         *)
(* What TLC checks on every behaviour (all data sets x all centroid sets   *)
(* of the configured scope, including coincident centroids, centroids on   *)
(* data points, exactly between data points and far outside the data):     *)
(*   FilterCorrect   the property clause: membership is a nearest-centroid *)
(*                   assignment, counts / sums are those induced by it,    *)
(*                   distortion = SUM_i min_c |x_i - c|^2 (KMeansProps)    *)
(*   TreeWellFormed  design invariants of the built tree (ranges, boxes,   *)
(*                   cached sums and costs, split discipline)              *)
(*   BuildSafe       the partition loop never steps below index 0 and      *)
(*                   never produces an empty child (termination of the     *)
(*                   build recursion)                                      *)
(*   FilterSafe      the candidate list handed down is never empty and     *)
(*                   always contains a nearest centroid of every row of    *)
(*                   the node (the pruning invariant of the algorithm)     *)
(***************************************************************************)
EXTENDS KMeansProps, TLC, Json

CONSTANTS
    Dim,        \* number of coordinates of a row
    Vals,       \* lattice values a coordinate may take
    MaxN,       \* at most this many rows
    CBelow, CHi, \* a DOUBLED centroid coordinate ranges over -CBelow .. CHi (cfg files cannot hold negative numbers)
    Ks,         \* set of centroid counts explored
    Ordered,    \* TRUE: only lexicographically non-decreasing data sequences
    Adjacent,   \* FALSE: lattice arithmetic is exact (the scope of the check).  TRUE: what-if analysis of
                \*   floating-point rows ONE ULP APART: when the two extreme values of the split coordinate
                \*   are neighbouring lattice values they stand for neighbouring floats, whose midpoint is
                \*   not representable and rounds to either of them (see BbdFilterULP_*.cfg)
    FixCutoff,  \* TRUE: model the suggested repair (a cutoff that is not above the lower bound is
                \*   replaced by the upper bound) instead of the code as it is
    Replay,     \* TRUE: print one REPLAY line per selected terminal state
    RMod        \* replay sampling: 1 = every terminal state, m = about one in m

VARIABLES
    data,       \* sequence of rows
    index,      \* the tree's permutation of row numbers (1-based rows)
    nodes,      \* sequence of node records, in creation (post-) order
    bstack,     \* build recursion: frames [begin, end, phase, size, lower]
    ret,        \* node id returned by the last completed build_node call
    pc,         \* "build" | "built" | "filter" | "done" | "fault"
    cents,      \* sequence of doubled centroids (chosen when the tree is built)
    fstack,     \* filter recursion: frames [node, cands]
    sums, counts, member, dist,     \* outputs of clustering()
    tab         \* history variable for the invariants: 4 * squared distance of every row to every centroid

vars == <<data, index, nodes, bstack, ret, pc, cents, fstack, sums, counts, member, dist, tab>>

N == Len(data)
Point == [1..Dim -> Vals]
CVals == (0 - CBelow)..CHi
CPoint == [1..Dim -> CVals]

(* ---------------------------------------------------------------- rationals *)
RECURSIVE GCD(_, _)
GCD(a, b) == IF b = 0 THEN a ELSE GCD(b, a % b)
RNorm(r) == LET g == GCD(Abs(r[1]), r[2]) IN <<r[1] \div g, r[2] \div g>>
RAdd(p, q) == RNorm(<<p[1] * q[2] + q[1] * p[2], p[2] * q[2]>>)
RZero == <<0, 1>>

(* lexicographic order on rows, for the Ordered symmetry reduction *)
RECURSIVE LexLeq(_, _, _)
LexLeq(p, q, j) == IF j > Dim THEN TRUE
                   ELSE IF p[j] # q[j] THEN p[j] < q[j] ELSE LexLeq(p, q, j + 1)

SetMin(S) == CHOOSE a \in S : \A b \in S : a <= b
SetMax(S) == CHOOSE a \in S : \A b \in S : a >= b

(* ------------------------------------------------------------------- build *)
RowsOf(idx, b, e) == { idx[i] : i \in (b + 1)..e }      \* rows of the range [b, e)

Lo(idx, b, e) == [j \in 1..Dim |-> SetMin({ data[r][j] : r \in RowsOf(idx, b, e) })]
Hi(idx, b, e) == [j \in 1..Dim |-> SetMax({ data[r][j] : r \in RowsOf(idx, b, e) })]

(* `if node.radius[i] > max_radius` starting from -1: the FIRST widest coordinate *)
SplitDim(radius2) ==
    CHOOSE j \in 1..Dim : /\ \A o \in 1..Dim : radius2[o] <= radius2[j]
                          /\ \A o \in 1..(j - 1) : radius2[o] < radius2[j]

Swap(s, a, b) == [s EXCEPT ![a] = s[b], ![b] = s[a]]

(***************************************************************************)
(* The partition loop of build_node, transcribed literally (i1, i2 are the *)
(* code's 0-based positions).  Result <<index', size>>; size = -1 records  *)
(* that the code would have executed `i2 -= 1` with i2 = 0 (usize          *)
(* underflow: a panic in the dev profile, an out-of-bounds read otherwise).*)
(***************************************************************************)
RECURSIVE PartLoop(_, _, _, _, _, _)
PartLoop(idx, i1, i2, size, sd, cut2) ==
    IF i1 > i2 THEN <<idx, size>>
    ELSE LET g1 == 2 * data[idx[i1 + 1]][sd] < cut2
             g2 == 2 * data[idx[i2 + 1]][sd] >= cut2
             sw == ~g1 /\ ~g2
             idx2 == IF sw THEN Swap(idx, i1 + 1, i2 + 1) ELSE idx
             a1 == g1 \/ sw
             a2 == g2 \/ sw
         IN  IF a2 /\ i2 = 0 THEN <<idx2, -1>>
             ELSE PartLoop(idx2, IF a1 THEN i1 + 1 ELSE i1, IF a2 THEN i2 - 1 ELSE i2,
                           IF a1 THEN size + 1 ELSE size, sd, cut2)

VecAdd(a, b) == [j \in 1..Dim |-> a[j] + b[j]]
VecScale(a, m) == [j \in 1..Dim |-> a[j] * m]

(* node_cost(child, mean) with mean = psum / pcount:
   child.cost + child.count * | child.sum/child.count - psum/pcount |^2 *)
CostAtMean(child, psum, pcount) ==
    RAdd(child.cost,
         RNorm(<<SumTo([j \in 1..Dim |-> (child.sum[j] * pcount - psum[j] * child.count)
                                        * (child.sum[j] * pcount - psum[j] * child.count)], Dim),
                 child.count * pcount * pcount>>))

(* node_cost(node, centroid) with the centroid doubled (c2):
   node.cost + count * | sum/count - c2/2 |^2 *)
CostAtCentroid(nd, c2) ==
    RAdd(nd.cost,
         RNorm(<<SumTo([j \in 1..Dim |-> (2 * nd.sum[j] - c2[j] * nd.count)
                                        * (2 * nd.sum[j] - c2[j] * nd.count)], Dim),
                 4 * nd.count>>))

Top == bstack[Len(bstack)]
Pop(s) == SubSeq(s, 1, Len(s) - 1)
Frame(b, e) == [begin |-> b, end |-> e, phase |-> "enter", size |-> 0, lower |-> 0]

(* a call returns: hand the node id to the caller, or finish the build *)
Return(newNodes, stack) ==
    /\ nodes' = newNodes
    /\ ret' = Len(newNodes)
    /\ bstack' = stack
    /\ pc' = IF stack = <<>> THEN "built" ELSE "build"

(* build_node, first half, `max_radius < 1E-10` branch: all rows of the range
   coincide -> leaf whose sum is row * len and whose cost is 0 *)
BLeaf ==
    /\ pc = "build" /\ bstack # <<>> /\ Top.phase = "enter"
    /\ LET b == Top.begin   e == Top.end
           lo == Lo(index, b, e)   hi == Hi(index, b, e)
       IN  /\ \A j \in 1..Dim : hi[j] = lo[j]
           /\ Return(Append(nodes,
                        [count |-> e - b, begin |-> b,
                         center2 |-> VecAdd(lo, hi), radius2 |-> [j \in 1..Dim |-> hi[j] - lo[j]],
                         sum |-> VecScale(data[index[b + 1]], e - b),
                         cost |-> RZero, lower |-> 0, upper |-> 0]), Pop(bstack))
    /\ UNCHANGED <<data, index, cents, fstack, sums, counts, member, dist, tab>>

(***************************************************************************)
(* `split_cutoff = node.center[split_index]`, doubled.  On the lattice the *)
(* midpoint (lo+hi)/2 is exact.  With Adjacent = TRUE neighbouring lattice *)
(* values play the role of neighbouring floats: their midpoint has no      *)
(* representation and IEEE rounding returns one of the two (which one      *)
(* depends on the parity of the last mantissa bit), so both are explored.  *)
(* Repaired() is the suggested one-line fix of build_node.                 *)
(***************************************************************************)
Cutoffs(l, h) == IF Adjacent /\ h - l = 1 THEN {2 * l, 2 * h} ELSE {l + h}
Repaired(c2, l, h) == IF FixCutoff /\ c2 <= 2 * l THEN 2 * h ELSE c2

(* pr = <<index', size>> returned by the partition loop *)
SplitAt(b, e, sd, pr) ==
    IF pr[2] < 1 \/ pr[2] >= e - b
    THEN /\ pc' = "fault"          \* usize underflow, or an empty child: unbounded recursion
         /\ UNCHANGED <<index, bstack>>
    ELSE /\ index' = pr[1]
         /\ bstack' = Append([bstack EXCEPT ![Len(bstack)] =
                                  [@ EXCEPT !.phase = "lower", !.size = pr[2]]],
                             Frame(b, b + pr[2]))
         /\ pc' = "build"

(* build_node, first half, splitting branch: partition the range around the
   box centre of the widest coordinate, recurse into the lower part *)
BSplit ==
    /\ pc = "build" /\ bstack # <<>> /\ Top.phase = "enter"
    /\ LET b == Top.begin   e == Top.end
           lo == Lo(index, b, e)   hi == Hi(index, b, e)
           radius2 == [j \in 1..Dim |-> hi[j] - lo[j]]
           sd == SplitDim(radius2)
       IN  /\ \E j \in 1..Dim : hi[j] # lo[j]
           /\ \E raw \in Cutoffs(lo[sd], hi[sd]) :
                 SplitAt(b, e, sd, PartLoop(index, b, e - 1, 0, sd, Repaired(raw, lo[sd], hi[sd])))
    /\ ret' = 0
    /\ UNCHANGED <<data, nodes, cents, fstack, sums, counts, member, dist, tab>>

(* the lower child has been built: recurse into the upper part *)
BLowerDone ==
    /\ pc = "build" /\ bstack # <<>> /\ Top.phase = "lower" /\ ret # 0
    /\ bstack' = Append([bstack EXCEPT ![Len(bstack)] = [@ EXCEPT !.phase = "upper", !.lower = ret]],
                        Frame(Top.begin + Top.size, Top.end))
    /\ ret' = 0
    /\ UNCHANGED <<data, index, nodes, pc, cents, fstack, sums, counts, member, dist, tab>>

(* both children built: sum = lower.sum + upper.sum, cost = scatter of the two
   children around the node's own mean; add_node *)
BUpperDone ==
    /\ pc = "build" /\ bstack # <<>> /\ Top.phase = "upper" /\ ret # 0
    /\ LET b == Top.begin   e == Top.end
           lo == Lo(index, b, e)   hi == Hi(index, b, e)
           lw == nodes[Top.lower]   up == nodes[ret]
           s == VecAdd(lw.sum, up.sum)
       IN  Return(Append(nodes,
                     [count |-> e - b, begin |-> b,
                      center2 |-> VecAdd(lo, hi), radius2 |-> [j \in 1..Dim |-> hi[j] - lo[j]],
                      sum |-> s,
                      cost |-> RAdd(CostAtMean(lw, s, e - b), CostAtMean(up, s, e - b)),
                      lower |-> Top.lower, upper |-> ret]), Pop(bstack))
    /\ UNCHANGED <<data, index, cents, fstack, sums, counts, member, dist, tab>>

(* ------------------------------------------------------------------ filter *)
(* clustering(): any centroid set of the scope; counts / sums zeroed,
   all centroids candidates, start at the root *)
Choose ==
    /\ pc = "built"
    /\ \E k \in Ks : \E cs \in [1..k -> CPoint] :
          /\ cents' = cs
          /\ sums' = [c \in 1..k |-> [j \in 1..Dim |-> 0]]
          /\ counts' = [c \in 1..k |-> 0]
          /\ fstack' = << [node |-> ret, cands |-> [c \in 1..k |-> c]] >>
          /\ tab' = SqTable(data, cs, [c \in 1..k |-> 2])
    /\ member' = [i \in 1..N |-> 0]
    /\ dist' = RZero
    /\ pc' = "filter"
    /\ UNCHANGED <<data, index, nodes, bstack, ret>>

(* 4 * |centre - centroid|^2 *)
CDist(nd, c) == SumTo([j \in 1..Dim |-> (nd.center2[j] - cents[c][j]) * (nd.center2[j] - cents[c][j])], Dim)

(* first candidate (in list order) at minimal distance from the box centre:
   the loop keeps the incumbent unless the next one is strictly closer *)
Closest(nd, cands) ==
    LET p == CHOOSE p \in 1..Len(cands) :
                /\ \A o \in 1..Len(cands) : CDist(nd, cands[p]) <= CDist(nd, cands[o])
                /\ \A o \in 1..(p - 1) : CDist(nd, cands[o]) > CDist(nd, cands[p])
    IN  cands[p]

(***************************************************************************)
(* prune(): `test` cannot own any point of the box when even the box       *)
(* vertex that lies farthest in the direction best -> test is at least as  *)
(* close to `best`.  All quantities are 4x the code's (doubled operands).  *)
(***************************************************************************)
Prune(nd, best, test) ==
    IF best = test THEN FALSE
    ELSE LET diff == [j \in 1..Dim |-> cents[test][j] - cents[best][j]]
             lhs == SumTo([j \in 1..Dim |-> diff[j] * diff[j]], Dim)
             rhs == SumTo([j \in 1..Dim |->
                            IF diff[j] > 0
                            THEN (nd.center2[j] + nd.radius2[j] - cents[best][j]) * diff[j]
                            ELSE (nd.center2[j] - nd.radius2[j] - cents[best][j]) * diff[j]], Dim)
         IN  lhs >= 2 * rhs

Survivors(nd, cands, closest) == SelectSeq(cands, LAMBDA c : ~Prune(nd, closest, c))

(* more than one candidate survives at an internal node: recurse, lower first *)
FDescend ==
    /\ pc = "filter" /\ fstack # <<>>
    /\ LET f == Head(fstack)   nd == nodes[f.node]
           closest == Closest(nd, f.cands)
           newc == Survivors(nd, f.cands, closest)
       IN  /\ nd.lower # 0 /\ Len(newc) > 1
           /\ fstack' = << [node |-> nd.lower, cands |-> newc],
                           [node |-> nd.upper, cands |-> newc] >> \o Tail(fstack)
    /\ UNCHANGED <<data, index, nodes, bstack, ret, pc, cents, sums, counts, member, dist, tab>>

(* the whole node goes to `closest` *)
Absorb(nd, closest) ==
    /\ sums' = [sums EXCEPT ![closest] = VecAdd(@, nd.sum)]
    /\ counts' = [counts EXCEPT ![closest] = @ + nd.count]
    /\ member' = [i \in 1..N |->
                    IF \E p \in (nd.begin + 1)..(nd.begin + nd.count) : index[p] = i
                    THEN closest - 1 ELSE member[i]]
    /\ dist' = RAdd(dist, CostAtCentroid(nd, cents[closest]))
    /\ fstack' = Tail(fstack)
    /\ pc' = IF Tail(fstack) = <<>> THEN "done" ELSE "filter"
    /\ UNCHANGED <<data, index, nodes, bstack, ret, cents, tab>>

(* leaf: all rows coincide with the box centre *)
FAbsorbLeaf ==
    /\ pc = "filter" /\ fstack # <<>>
    /\ LET f == Head(fstack)   nd == nodes[f.node]
       IN  /\ nd.lower = 0
           /\ Absorb(nd, Closest(nd, f.cands))

(* internal node whose box is owned by a single candidate *)
FAbsorbPruned ==
    /\ pc = "filter" /\ fstack # <<>>
    /\ LET f == Head(fstack)   nd == nodes[f.node]
           closest == Closest(nd, f.cands)
       IN  /\ nd.lower # 0
           /\ Len(Survivors(nd, f.cands, closest)) <= 1
           /\ Absorb(nd, closest)

(* -------------------------------------------------------------------- spec *)
Init ==
    /\ \E n \in 1..MaxN : data \in [1..n -> Point]
    /\ Ordered => \A i \in 1..(Len(data) - 1) : LexLeq(data[i], data[i + 1], 1)
    /\ index = [i \in 1..Len(data) |-> i]
    /\ nodes = <<>>
    /\ bstack = << Frame(0, Len(data)) >>
    /\ ret = 0
    /\ pc = "build"
    /\ cents = <<>> /\ fstack = <<>> /\ sums = <<>> /\ counts = <<>> /\ member = <<>> /\ dist = RZero
    /\ tab = <<>>

Next == BLeaf \/ BSplit \/ BLowerDone \/ BUpperDone \/ Choose \/ FDescend \/ FAbsorbLeaf \/ FAbsorbPruned

Spec == Init /\ [][Next]_vars

(* -------------------------------------------------------------- invariants *)
K == Len(cents)
CdAll == [c \in 1..K |-> 2]

(* the property clause, through the very operators the trace spec uses *)
FilterCorrectAt(T, cd2) ==
    /\ NearestOK(T, cd2, member, N, K)
    /\ CountsOK(member, counts, N, K)
    /\ SumsOK(data, member, sums, K, Dim)
    /\ DistortionExactOK(T, N, K, 2, dist[1], dist[2])
    \* the fixed-point form used on recorded events accepts the exact value (S = 4)
    /\ DistortionFxOK(T, cd2, N, (2 * dist[1] * 16 + dist[2]) \div (2 * dist[2]), 4)

FilterCorrect == pc = "done" => FilterCorrectAt(tab, Sq(CdAll))

BuildSafe == pc # "fault"

(* exact scatter of the rows of a node around their own mean, times the count:
   count * SUM |x|^2 - |SUM x|^2 *)
ScatterTimesCount(nd) ==
    LET m == nd.count
        row(i) == data[index[nd.begin + i]]
        ssq == SumTo([i \in 1..m |-> SumTo([j \in 1..Dim |-> row(i)[j] * row(i)[j]], Dim)], m)
        sv == [j \in 1..Dim |-> SumTo([i \in 1..m |-> row(i)[j]], m)]
    IN  m * ssq - SumTo([j \in 1..Dim |-> sv[j] * sv[j]], Dim)

NodeOK(id) ==
    LET nd == nodes[id]
        R == RowsOf(index, nd.begin, nd.begin + nd.count)
        lo == Lo(index, nd.begin, nd.begin + nd.count)
        hi == Hi(index, nd.begin, nd.begin + nd.count)
    IN  /\ nd.count >= 1 /\ Cardinality(R) = nd.count
        /\ nd.center2 = VecAdd(lo, hi)
        /\ nd.radius2 = [j \in 1..Dim |-> hi[j] - lo[j]]
        /\ \A j \in 1..Dim : nd.sum[j] = SumTo([i \in 1..nd.count |-> data[index[nd.begin + i]][j]], nd.count)
        \* cached cost = SUM_{x in node} |x - mean|^2
        /\ nd.cost[1] * nd.count = nd.cost[2] * ScatterTimesCount(nd)
        /\ (nd.lower = 0) = (\A r, s \in R : data[r] = data[s])
        /\ (nd.lower = 0) = (nd.upper = 0)
        /\ nd.lower # 0 =>
              LET lw == nodes[nd.lower]   up == nodes[nd.upper]
                  sd == SplitDim(nd.radius2)
              IN  /\ lw.begin = nd.begin /\ up.begin = nd.begin + lw.count
                  /\ lw.count + up.count = nd.count
                  /\ \A p \in (lw.begin + 1)..(lw.begin + lw.count) : 2 * data[index[p]][sd] < nd.center2[sd]
                  /\ \A p \in (up.begin + 1)..(up.begin + up.count) : 2 * data[index[p]][sd] >= nd.center2[sd]

TreeWellFormed ==
    pc = "built" =>
        /\ { index[i] : i \in 1..N } = 1..N
        /\ ret = Len(nodes)
        /\ nodes[ret].begin = 0 /\ nodes[ret].count = N
        /\ \A id \in 1..Len(nodes) : NodeOK(id)

(* pruning invariant: whatever node is about to be visited, every row of it
   has one of its nearest centroids in the candidate list of the frame *)
FrameSafe(f, nd, cd2) ==
    /\ Len(f.cands) >= 1
    /\ \A p \in (nd.begin + 1)..(nd.begin + nd.count) :
          \E ci \in 1..Len(f.cands) : IsNearest(tab[index[p]], cd2, f.cands[ci])

FilterSafe ==
    pc = "filter" => \A fi \in 1..Len(fstack) : FrameSafe(fstack[fi], nodes[fstack[fi].node], Sq(CdAll))

(* spec -> impl: one line per selected terminal state, replayed through the
   real BBDTree by `c12 replay-spec`.  RMod > 1 takes a deterministic sample
   (a checksum of the inputs modulo RMod). *)
Selected ==
    (N + SumTo([i \in 1..N |-> SumTo([j \in 1..Dim |-> (i + j) * data[i][j]], Dim)], N)
       + SumTo([c \in 1..K |-> SumTo([j \in 1..Dim |-> (2 * c + j) * (cents[c][j] + CBelow)], Dim)], K)) % RMod = 0
Emit ==
    (Replay /\ pc = "done" /\ Selected) =>
        PrintT(<<"REPLAY", ToJson([X |-> data, c2 |-> cents, member |-> member, counts |-> counts,
                                   sums |-> sums, distNum |-> dist[1], distDen |-> dist[2]])>>)
=============================================================================
