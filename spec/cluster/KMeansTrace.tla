----------------------------- MODULE KMeansTrace -----------------------------
(***************************************************************************)
(* C12 trace validation (impl -> spec, and the second half of spec ->      *)
(* impl).  Consumes the ndjson file recorded by `c12 gen-fit`, `c12        *)
(* gen-bbd` and `c12 replay-spec` from the real KMeans::fit / predict and  *)
(* the real BBDTree::clustering, one independent event per line, and       *)
(* evaluates on every event the predicates of KMeansProps -- the same      *)
(* operators that are the invariants of Lloyd.tla and BbdFilter.tla.       *)
(*                                                                         *)
(* Event KMFit  (one fit + one predict call on query rows Q)               *)
(*   status       "ok" | "err" | "panic" | "abort" | "timeout".  Every     *)
(*                recorded fit is inside the domain of the statement       *)
(*                (>= k distinct rows, k >= 2, max_iter >= 1), so anything *)
(*                but "ok" fails clause FitStatus.                         *)
(*   finite       all k*d centroid coordinates are numbers   (Finite)      *)
(*   inrange      every quantised value fits; when FALSE (rows of huge     *)
(*                magnitude in the one-ulp class) only FitStatus / Finite  *)
(*                are decided and the event counts as Unconstrained        *)
(*   y, size, cfx Labels, Sizes, Shape, Means   (KMeansProps.FitFx)        *)
(*   Q8, c8, pred PredictFx -- fixed-point nearest-centroid clause over ALL  *)
(*                k reported centroids, with or without members.  After a   *)
(*                fit that ended with a memberless cluster the harness also *)
(*                predicts probe rows derived from the model (every         *)
(*                centroid as reported, midpoints towards the memberless    *)
(*                one); ProbeEmpty counts the fits where such a row was     *)
(*                labelled with the memberless centroid.                    *)
(*   Q, exact     PredictExact -- exact rational clause with ties, when    *)
(*                the data are lattice valued, double precision, n <=      *)
(*                ExactMaxN and every cluster has members (so that the     *)
(*                Means clause pins every centroid to sums/size exactly)   *)
(* Event Bbd    (one filtering step with centroids cn[c]/cd[c])            *)
(*   BbdStatus, Nearest, Counts, Sums, Distortion  (KMeansProps)           *)
(*   offmax       > 0 for offset families: the library saw X + off, Q + off *)
(*                (common offset per column up to 2^31); X, Q, cfx, c8 are  *)
(*                shifted back, all clauses are shift-equivariant           *)
(*   cls=refit    data sets for which Lloyd.tla reaches an empty cluster,   *)
(*                refitted many times; mult = multiplicity of the outcome   *)
(*   cls=ladder   one predict call on N rows, N around 64 .. 1024 and larger *)
(*                (internal block sizes), alternately through the inherent  *)
(*                methods and the api traits (entry)                        *)
(*   farexp       present on the outlier families (cls=outlier-first/-last/  *)
(*                -dup): one isolated row 2^farexp away in column 1, which   *)
(*                is recorded in units of 2^farexp (X 0/1, centroids scaled  *)
(*                exactly); Finite / Labels / Sizes / Means decided exactly, *)
(*                predict not decided                                        *)
(*   cls=geo      geometric coordinates (very deep BBD tree), see           *)
(*                KMeansProps: FitGeoClause; event BbdGeo for the filtering *)
(*                step on such data                                         *)
(*   cls=swap     data sets for which Lloyd.tla shows a sweep exchanging    *)
(*                members of a cluster at constant count and coordinate     *)
(*                total, refitted many times; cls=comp: other "composition" *)
(*                data (equal coordinate totals), refitted many times       *)
(*   cls=small1d  fits on the scope of Lloyd.tla: the final (y, size) must  *)
(*                be the end of some behaviour of that model, else DRIFT   *)
(*   exp          present on events replayed from BbdFilter.tla: the       *)
(*                model's own outputs.  A difference that does not falsify *)
(*                a predicate is MODEL-DRIFT (counted, not a violation).   *)
(*                                                                         *)
(* The spec never blocks: a failing event prints <<"BAD", l, run, ev,      *)
(* clause>> (clause = the FIRST failing clause in the order above) and the *)
(* next event is taken.  `hits` counts how often each clause was actually  *)
(* evaluated (vacuity guard); `nt` lists the lines whose case is           *)
(* non-trivial by the rule of DESIGN.md: an exact tie between two          *)
(* centroids for some row, an empty cluster, or coincident centroids.      *)
(***************************************************************************)
EXTENDS KMeansProps, TLC, Json, IOUtils

Rec == ndJsonDeserialize(IOEnv.TRACE)

(***************************************************************************)
(* Second input (may be an empty file): the terminal states of Lloyd.tla   *)
(* for its quick scope (1-D rows on {0..4}, 2..5 rows, k = 2, max_iter in  *)
(* 1..3), one JSON object per line as printed by Lloyd!Emit.  The harness  *)
(* fits exactly these data sets (cls = "small1d"); a real fit whose final  *)
(* (y, size) is not the end of any behaviour of the design model is        *)
(* MODEL-DRIFT: the model would then not over-approximate the code.        *)
(* Indexed once by (data, max_iter); both definitions are constant level,  *)
(* so TLC evaluates them a single time.                                    *)
(***************************************************************************)
Model == ndJsonDeserialize(IOEnv.MODEL)
ModelKeys == { <<Model[i].X, Model[i].maxIter>> : i \in 1..Len(Model) }
ModelIdx == [key \in ModelKeys |->
                { <<Model[i].y, Model[i].size>> : i \in { m \in 1..Len(Model) : <<Model[m].X, Model[m].maxIter>> = key } }]

InModelScope(e) == e.cls = "small1d" /\ e.k = 2 /\ <<e.X, e.maxIter>> \in ModelKeys
ReachedByModel(e) == <<e.y, e.size>> \in ModelIdx[<<e.X, e.maxIter>>]

ExactMaxN == 128
(* Offset families (offmax > 0): the library worked on rows carrying a common
   offset of up to 2^31 per column, where a centroid coordinate is only known
   to about 2^-23; the exact predict clause is then applied to n <= 16 only
   (a rational non-tie is at least 1/(8*8)^2 wide; the harness keeps d <= 3
   and |q - c| <= 32 there).  Means, PredictFx and the filtering clauses are
   shift-equivariant and are evaluated on the small integers as usual. *)
ExactMaxNOffset == 16

VARIABLES l, nbad, hits, nt, drift, empties
vars == <<l, nbad, hits, nt, drift, empties>>

HitNames == {"KMFit", "FitLattice", "FitCont", "FitF32", "Means", "PredictFx", "PredictExact", "PredictTie",
             "EmptyCluster", "Unconstrained", "FitNotOk", "FitModel", "FitOffset", "FitOffsetExact", "BbdOffset", "ProbeEmpty", "FitSwap", "FitComp", "PredictBackend", "FitGeo", "BbdGeo", "PredictLadder", "TraitEntry", "FitOutlier", "FitOutlierF32",
             "Bbd", "BbdTie", "BbdCoincident", "BbdEmpty", "BbdRational", "BbdModel", "Drift"}

AllPositive(v) == \A c \in 1..Len(v) : v[c] > 0

(* some row has two centroids at exactly minimal distance, given that ans[i]
   (0-based) is already known to be a nearest one *)
TieSeen(T, cd2, ans) ==
    \E i \in 1..Len(T) : \E o \in 1..Len(cd2) :
        o # ans[i] + 1 /\ RatLeq(T[i][o], cd2[o], T[i][ans[i] + 1], cd2[ans[i] + 1])

(* ------------------------------------------------------------------ KMFit *)
IsOutlierFamily(e) == "farexp" \in DOMAIN e

ExactApplies(e) ==
    /\ e.exact
    /\ ~IsOutlierFamily(e)
    /\ e.n <= (IF e.offmax = 0 THEN ExactMaxN ELSE ExactMaxNOffset)
    /\ (e.offmax # 0 => e.d <= 3)
    /\ AllPositive(e.size)

(* first failing clause of a fit whose labels are already known to be in range;
   sums = ClusterSums(X, y, k, d) is computed once and handed down *)
FitClause2(e, sums) ==
    IF ~SizesOK(e.y, e.size, e.n, e.k) THEN "Sizes"
    ELSE IF ~ShapeOK(e.cfx, e.k, e.d) THEN "Shape"
    ELSE IF ~MeansFx(sums, e.size, e.cfx, e.xs, e.k, e.d) THEN "Means"
    ELSE IF e.pstatus # "ok" THEN "PredictStatus"
    \* outlier families: column 1 is recorded in units of 2^farexp, which does not preserve
    \* distances -- the predict clauses are not decided there, only the range of the labels
    ELSE IF IsOutlierFamily(e)
         THEN (IF Len(e.pred) = Len(e.Q8) /\ \A i \in 1..Len(e.pred) : e.pred[i] \in 0..(e.k - 1)
               THEN "" ELSE "PredictRange")
    ELSE IF ~PredictFx(e.Q8, e.pred, e.c8) THEN "PredictFx"
    ELSE IF ExactApplies(e) /\ ~PredictExact(e.Q, e.pred, sums, e.size)
         THEN "PredictExact"
    \* the same query rows predicted through other matrix back ends (ndarray row-major and
    \* column-major, nalgebra): the clause does not depend on how the rows are stored
    ELSE IF \E a \in 1..Len(e.alt) :
               \/ e.alt[a].status # "ok"
               \/ ~PredictFx(e.Q8, e.alt[a].pred, e.c8)
               \/ (ExactApplies(e) /\ ~PredictExact(e.Q, e.alt[a].pred, sums, e.size))
         THEN "PredictBackend"
    ELSE ""

(* geometric family (cls = "geo"): column 1 of X holds exponents; the lattice columns
   are judged at 2^-12 as usual, the geometric column through (g0man, g0exp); the predict
   clause is not decided there (labels only checked for range) *)
FitGeoClause2(e, sums) ==
    IF ~SizesOK(e.y, e.size, e.n, e.k) THEN "Sizes"
    ELSE IF ~ShapeOK(e.cfx, e.k, e.d) THEN "Shape"
    ELSE IF ~MeansFxFrom(sums, e.size, e.cfx, e.xs, e.k, e.d) THEN "Means"
    ELSE IF ~(e.g0ok /\ GeoMeansOK(e.X, e.y, e.size, e.g0man, e.g0exp, e.k)) THEN "MeansGeo"
    ELSE IF e.pstatus # "ok" THEN "PredictStatus"
    ELSE IF ~(Len(e.pred) = e.n /\ \A i \in 1..e.n : e.pred[i] \in 0..(e.k - 1)) THEN "PredictRange"
    ELSE ""

FitGeoClause(e) ==
    IF e.status # "ok" THEN "FitStatus"
    ELSE IF ~e.finite THEN "Finite"
    ELSE IF ~e.inrange THEN "Finite"
    ELSE IF ~LabelsOK(e.y, e.n, e.k) THEN "Labels"
    ELSE FitGeoClause2(e, ClusterSums(e.X, e.y, e.k, e.d))

BbdGeoClause2(e, cs) ==
    IF ~GeoNearestOK(e.X, e.cg, e.member, e.n, e.k, e.d) THEN "Nearest"
    ELSE IF ~CountsOK(e.member, e.counts, e.n, e.k) THEN "Counts"
    ELSE IF ~(e.sumsOk /\ SumsFromOK(cs, e.sums, e.k, e.d)) THEN "Sums"
    ELSE IF ~GeoSumsOK(e.X, e.member, e.counts, e.s0man, e.s0exp, e.k) THEN "SumsGeo"
    ELSE ""

BbdGeoClause(e) ==
    IF e.status # "ok" THEN "BbdStatus"
    ELSE IF ~LabelsOK(e.member, e.n, e.k) THEN "Nearest"
    ELSE BbdGeoClause2(e, ClusterSums(e.X, e.member, e.k, e.d))

FitClause(e) ==
    IF e.status # "ok" THEN "FitStatus"
    ELSE IF ~e.finite THEN "Finite"
    ELSE IF ~e.inrange THEN ""
    ELSE IF ~LabelsOK(e.y, e.n, e.k) THEN "Labels"
    ELSE FitClause2(e, ClusterSums(e.X, e.y, e.k, e.d))

(* vacuity / non-triviality bookkeeping of a fit that passed *)
FitTags(e) ==
    IF e.status # "ok" THEN {"KMFit", "FitNotOk"}
    ELSE IF ~e.inrange THEN {"KMFit", "Unconstrained"}
    ELSE {"KMFit", "Means", "PredictFx"}
         \cup (IF e.xs = 1 THEN {"FitCont"} ELSE {"FitLattice"})
         \cup (IF e.prec = 32 THEN {"FitF32"} ELSE {})
         \cup (IF ~AllPositive(e.size) THEN {"EmptyCluster"} ELSE {})
         \* two-step sequence: the fit ended with a memberless cluster, and some row handed to predict
         \* afterwards (the harness adds probe rows at and around every reported centroid) was
         \* labelled -- admissibly, the event passed PredictFx -- with that memberless centroid
         \cup (IF \E i \in 1..Len(e.pred) : e.size[e.pred[i] + 1] = 0 THEN {"ProbeEmpty"} ELSE {})
         \cup (IF Len(e.alt) > 0 THEN {"PredictBackend"} ELSE {})
         \cup (IF e.cls = "ladder" /\ Len(e.pred) > 512 THEN {"PredictLadder"} ELSE {})
         \cup (IF e.cls = "ladder" /\ "entry" \in DOMAIN e /\ e.entry = "trait" THEN {"TraitEntry"} ELSE {})
         \cup (IF IsOutlierFamily(e) THEN {"FitOutlier"} ELSE {})
         \cup (IF IsOutlierFamily(e) /\ e.prec = 32 THEN {"FitOutlierF32"} ELSE {})
         \cup (IF e.cls = "swap" THEN {"FitSwap"} ELSE {})
         \cup (IF e.cls = "comp" THEN {"FitComp"} ELSE {})
         \cup (IF e.offmax # 0 THEN {"FitOffset"} ELSE {})
         \cup (IF e.offmax # 0 /\ ExactApplies(e) THEN {"FitOffsetExact"} ELSE {})
         \cup (IF InModelScope(e) THEN {"FitModel"} ELSE {})
         \cup (IF InModelScope(e) /\ ~ReachedByModel(e) THEN {"Drift"} ELSE {})
         \cup (IF ExactApplies(e)
               THEN {"PredictExact"} \cup
                    (LET sums == ClusterSums(e.X, e.y, e.k, e.d)
                     IN  IF TieSeen(SqTable(e.Q, sums, e.size), Sq(e.size), e.pred) THEN {"PredictTie"} ELSE {})
               ELSE {})

(* -------------------------------------------------------------------- Bbd *)
(* offset families: the tree was given rows + off; its sums were split exactly
   into sumsHi * off + sums.  The offset part must be counts[c] * off. *)
OffsetPartOK(e) ==
    e.offmax # 0 =>
        /\ ShapeOK(e.sumsHi, e.k, e.d)
        /\ \A c \in 1..e.k : \A j \in 1..e.d : e.sumsHi[c][j] = e.counts[c]

BbdClause2(e, T, cd2) ==
    IF ~NearestOK(T, cd2, e.member, e.n, e.k) THEN "Nearest"
    ELSE IF ~CountsOK(e.member, e.counts, e.n, e.k) THEN "Counts"
    ELSE IF ~(e.sumsInt /\ SumsOK(e.X, e.member, e.sums, e.k, e.d) /\ OffsetPartOK(e)) THEN "Sums"
    ELSE IF ~(e.distOk /\ DistortionFxOK(T, cd2, e.n, e.distFx, e.dS)) THEN "Distortion"
    ELSE ""

BbdClause(e) ==
    IF e.status # "ok" THEN "BbdStatus"
    ELSE BbdClause2(e, SqTable(e.X, e.cn, e.cd), Sq(e.cd))

Coincident(e) == \E a, b \in 1..e.k : a < b /\ e.cd[a] = e.cd[b] /\ e.cn[a] = e.cn[b]

IsModelEvent(e) == "exp" \in DOMAIN e

(* the real tree agrees with the design model on everything observable *)
AgreesWithModel(e) ==
    /\ e.member = e.exp.member
    /\ e.counts = e.exp.counts
    /\ e.sums = e.exp.sums
    /\ Abs(e.distFx * e.exp.distDen - Pow2(e.dS) * e.exp.distNum) <= e.exp.distDen

BbdTags(e) ==
    {"Bbd"}
    \cup (IF Coincident(e) THEN {"BbdCoincident"} ELSE {})
    \cup (IF \E c \in 1..e.k : e.cd[c] > 2 THEN {"BbdRational"} ELSE {})
    \cup (IF \E c \in 1..e.k : e.counts[c] = 0 THEN {"BbdEmpty"} ELSE {})
    \cup (IF TieSeen(SqTable(e.X, e.cn, e.cd), Sq(e.cd), e.member) THEN {"BbdTie"} ELSE {})
    \cup (IF e.offmax # 0 THEN {"BbdOffset"} ELSE {})
    \cup (IF IsModelEvent(e) THEN {"BbdModel"} ELSE {})
    \cup (IF IsModelEvent(e) /\ ~AgreesWithModel(e) THEN {"Drift"} ELSE {})

(* ------------------------------------------------------------------- step *)
NonTrivialTags == {"PredictTie", "EmptyCluster", "BbdTie", "BbdCoincident", "BbdEmpty"}

Bad(e, clause) == PrintT(<<"BAD", l, e.run, e.ev, clause>>)

Account(e, clause, tags) ==
    /\ IF clause = "" THEN nbad' = nbad ELSE Bad(e, clause) /\ nbad' = nbad + 1
    /\ hits' = [h \in HitNames |-> hits[h] + (IF h \in tags THEN 1 ELSE 0)]
    /\ nt' = IF clause = "" /\ tags \cap NonTrivialTags # {} THEN Append(nt, l) ELSE nt
    /\ drift' = IF "Drift" \in tags THEN Append(drift, l) ELSE drift
    \* lines of the fits that PASSED (finite centroids etc.) and ended with a cluster without members
    /\ empties' = IF clause = "" /\ "EmptyCluster" \in tags THEN Append(empties, l) ELSE empties

(* the clause is an operator ARGUMENT, hence evaluated once per event *)
AccountFit(e, clause) ==
    Account(e, clause, IF clause = "" \/ clause = "FitStatus" THEN FitTags(e) ELSE {"KMFit"})
AccountFitGeo(e, clause) ==
    Account(e, clause, IF clause = "" THEN {"KMFit", "FitGeo"} ELSE {"KMFit"})
AccountBbdGeo(e, clause) ==
    Account(e, clause, IF clause = "" THEN {"BbdGeo"} ELSE {})
AccountBbd(e, clause) ==
    Account(e, clause, IF clause = "" THEN BbdTags(e) ELSE {"Bbd"})

Step ==
    LET e == Rec[l] IN
    /\ l <= Len(Rec)
    /\ l' = l + 1
    /\ CASE e.ev = "KMFit" /\ e.cls = "geo" -> AccountFitGeo(e, FitGeoClause(e))
         [] e.ev = "BbdGeo" -> AccountBbdGeo(e, BbdGeoClause(e))
         [] e.ev = "KMFit" /\ e.cls # "geo" -> AccountFit(e, FitClause(e))
         [] e.ev = "Bbd" -> AccountBbd(e, BbdClause(e))
         [] OTHER -> Account(e, "unknown event", {})

Init == /\ l = 1 /\ nbad = 0 /\ nt = <<>> /\ drift = <<>> /\ empties = <<>>
        /\ hits = [h \in HitNames |-> 0]

Next == Step
Spec == Init /\ [][Next]_vars

(* printed exactly once, when the whole file has been consumed *)
AtEnd == (l = Len(Rec) + 1) =>
            PrintT(<<"VERDICT", ToJson([consumed |-> l - 1, bad |-> nbad, hits |-> hits,
                                        nontrivial |-> nt, drift |-> drift, empties |-> empties])>>)
=============================================================================
