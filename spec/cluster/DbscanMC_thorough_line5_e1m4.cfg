\* thorough: 1-D {0..4}, all sequences of 1..7 points, ascending order, eps = 1, minPts = 4 (one of four partitions run side by side; eps=1/minPts=4 contains the 7-point 'border row between two clusters' configurations)
CONSTANTS W = 5  H = 0  MaxN = 7  EpsSet = {1}  MinPtsSet = {4}
          Key = "man"  Order = "asc"  Emit = FALSE
SPECIFICATION Spec
INVARIANT ModelSatisfiesProperty
INVARIANT TypeOK
INVARIANT QueuedArePending
INVARIANT StackNeverUndefined
INVARIANT OutlierIsNonCore
INVARIANT PrefixSettled
INVARIANT LabelsBelowK
INVARIANT ClosedClusters
INVARIANT LabelledHasWitness
INVARIANT StackBounded
INVARIANT NoProvisionalLeft
CHECK_DEADLOCK FALSE
