\* C12 quick tier: 1-D rows on {0..4}, 2..5 rows (canonical order, at least k distinct),
\* k = 2, max_iter in {1, 2, 3}; every seeding the code can draw; ties in the assignment
\* step resolved every possible way
CONSTANTS
    Dim = 1
    Vals = {0, 1, 2, 3, 4}
    MaxN = 5
    Ks = {2}
    MaxIters = {1, 2, 3}
    FullLayer = FALSE
    ShowSwap = FALSE
    RowSum = 0
    ShowEmpty = FALSE
    Replay = TRUE
SPECIFICATION Spec
INVARIANT FitCorrect
INVARIANT SeedingSound
INVARIANT Monotone
INVARIANT Bounded
\* every terminal state is printed (REPLAY): KMeansTrace checks that the real fits on this scope end in one of them
INVARIANT Emit
CHECK_DEADLOCK FALSE
