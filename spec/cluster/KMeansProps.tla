----------------------------- MODULE KMeansProps -----------------------------
(***************************************************************************)
(* C12 -- property predicates (P) for k-means, written from the property   *)
(* statement, not from the code:                                           *)
(*                                                                         *)
(*   "k-means returns k finite centroids such that each centroid with      *)
(*    members is the mean of the training rows last assigned to it, and    *)
(*    the reported cluster sizes are the counts of those assignments and   *)
(*    sum to n.  Predicting assigns every row to a centroid at minimal     *)
(*    Euclidean distance.  The tree-accelerated assignment step ...        *)
(*    produces, for any set of centroids, an assignment in which every row *)
(*    is attached to one of its nearest centroids, together with per-      *)
(*    cluster sums, counts and total distortion equal to those of          *)
(*    exhaustive search."                                                  *)
(*                                                                         *)
(* The same operators are the INVARIANTs of the design models Lloyd.tla    *)
(* and BbdFilter.tla and the acceptance conditions of KMeansTrace.tla.     *)
(*                                                                         *)
(* Conventions                                                             *)
(*  - a data set X is a sequence of n rows, a row a sequence of d integers *)
(*    (lattice coordinates, or fixed-point integers for continuous data);  *)
(*  - cluster labels are 0-based (as in the code), sequences are 1-based,  *)
(*    so cluster c lives at position c+1 of size / centroids / sums;       *)
(*  - a centroid is an exact rational vector cn[c] / cd[c] (numerator      *)
(*    vector over ONE positive denominator): integer centroids have cd=1,  *)
(*    half-integer ones cd=2, means of m rows have cn = coordinate sums    *)
(*    and cd = m.  Squared distances are therefore exact rationals         *)
(*    D / cd^2 with D == SqNum(x, cn, cd) and are compared exactly, so     *)
(*    an exact tie between two centroids is recognised as a tie and BOTH   *)
(*    answers are accepted (the statement says "one of its nearest").      *)
(*  - TLC integers are 32 bit.  Rational comparison is done Euclid-style   *)
(*    (RatLess) so that no cross product is ever formed; the harness       *)
(*    only emits cases with d*(maxdiff*cd)^2 < 2^30.                       *)
(***************************************************************************)
EXTENDS Integers, Sequences, FiniteSets

Abs(x) == IF x < 0 THEN -x ELSE x

RECURSIVE Pow2(_)
Pow2(s) == IF s = 0 THEN 1 ELSE 2 * Pow2(s - 1)

(* sum of f[1..n] for a sequence / function f of integers *)
RECURSIVE SumTo(_, _)
SumTo(f, n) == IF n = 0 THEN 0 ELSE f[n] + SumTo(f, n - 1)
SumSeq(f) == SumTo(f, Len(f))

(***************************************************************************)
(* a/b < c/d  for a, c >= 0 and b, d > 0, without forming a*d or c*b.      *)
(* Compare the integer parts; when they agree compare the fractional parts *)
(* ra/b < rc/d, which (both non-zero) is d/rc < b/ra: the continued-       *)
(* fraction expansion is walked in lock step, as in Euclid's algorithm, so *)
(* no intermediate exceeds max(a, b, c, d).                                *)
(***************************************************************************)
RECURSIVE RatLess(_, _, _, _)
RatLess(a, b, c, d) ==
    IF b = d THEN a < c
    ELSE LET qa == a \div b
             qc == c \div d
         IN  IF qa # qc THEN qa < qc
             ELSE LET ra == a % b
                      rc == c % d
                  IN  IF rc = 0 THEN FALSE
                      ELSE IF ra = 0 THEN TRUE
                      ELSE RatLess(d, rc, b, ra)

RatLeq(a, b, c, d) == ~RatLess(c, d, a, b)

(***************************************************************************)
(* Numerator of the squared Euclidean distance between the integer row x   *)
(* and the rational centroid cn/cd:   |x - cn/cd|^2 = SqNum / cd^2.        *)
(***************************************************************************)
SqNum(x, cn, cd) ==
    SumTo([j \in 1..Len(x) |-> (x[j] * cd - cn[j]) * (x[j] * cd - cn[j])], Len(x))

(* D[i][c] for every row and centroid, computed once and passed around *)
SqTable(X, cn, cd) ==
    [i \in 1..Len(X) |-> [c \in 1..Len(cn) |-> SqNum(X[i], cn[c], cd[c])]]

Sq(v) == [c \in 1..Len(v) |-> v[c] * v[c]]

(* centroid position c (1-based) is a nearest centroid of the row whose
   distance numerators are Drow; cd2 = squares of the denominators *)
IsNearest(Drow, cd2, c) ==
    \A o \in 1..Len(cd2) : RatLeq(Drow[c], cd2[c], Drow[o], cd2[o])

(* position of some nearest centroid of the row (all of them are at the same
   distance, which is all that is used) *)
ArgNearest(Drow, cd2) == CHOOSE c \in 1..Len(cd2) : IsNearest(Drow, cd2, c)

(* the row has two different positions at exactly minimal distance *)
HasTie(Drow, cd2) == \E a, b \in 1..Len(cd2) : a < b /\ IsNearest(Drow, cd2, a) /\ IsNearest(Drow, cd2, b)

(***************************************************************************)
(* Clause "labels / sizes":  y has one label in 0..k-1 per row, size[c] is *)
(* the number of rows labelled c, and the sizes sum to n.                  *)
(***************************************************************************)
LabelsOK(y, n, k) == Len(y) = n /\ \A i \in 1..n : y[i] \in 0..(k-1)

CountOf(y, c) == Cardinality({i \in 1..Len(y) : y[i] = c})

SizesOK(y, size, n, k) ==
    /\ Len(size) = k
    /\ \A c \in 1..k : size[c] = CountOf(y, c - 1)
    /\ SumTo(size, k) = n

(***************************************************************************)
(* Coordinate sums of the rows of every cluster: a k x d matrix.           *)
(* One pass over the rows (labels must already be known to be in range).   *)
(***************************************************************************)
RECURSIVE AccSums(_, _, _, _)
AccSums(X, y, i, acc) ==
    IF i = 0 THEN acc
    ELSE AccSums(X, y, i - 1,
                 [acc EXCEPT ![y[i] + 1] = [j \in DOMAIN @ |-> @[j] + X[i][j]]])

ClusterSums(X, y, k, d) ==
    AccSums(X, y, Len(X), [c \in 1..k |-> [j \in 1..d |-> 0]])

(***************************************************************************)
(* Clause "each centroid with members is the mean of the rows last         *)
(* assigned to it".                                                        *)
(*  exact form (design models):  size[c] * centroid = sums[c], centroid    *)
(*     given as numerator vector cn[c] over cd[c];                         *)
(*  fixed-point form (recorded fits):  cfx[c][j] = round(centroid * 2^S);  *)
(*     xs = 2^S when X holds exact lattice integers, xs = 1 when X itself  *)
(*     is round(x * 2^S).  A quantised value is off by at most 1/2 unit,   *)
(*     so  | size*cfx - xs*sum |  <=  size/2 (centroid) + size/2 (rows,    *)
(*     only when xs = 1) ; the bound size[c] covers both cases and the     *)
(*     library's own rounding error (< 2^-40 units for the magnitudes      *)
(*     admitted) with room to spare.  Clusters without members are not     *)
(*     constrained (the statement is silent), only finite.                 *)
(***************************************************************************)
MeansExact(sums, size, cn, cd, k, d) ==
    \A c \in 1..k : size[c] > 0 =>
        \A j \in 1..d : size[c] * cn[c][j] = cd[c] * sums[c][j]

MeansFx(sums, size, cfx, xs, k, d) ==
    \A c \in 1..k : size[c] > 0 =>
        \A j \in 1..d : Abs(size[c] * cfx[c][j] - xs * sums[c][j]) <= size[c]

ShapeOK(m, k, d) == Len(m) = k /\ \A c \in 1..k : Len(m[c]) = d

(* the whole fit clause on a recorded (or modelled) final state; sums is the
   value of ClusterSums(X, y, k, d), computed once by the caller *)
FitFx(n, d, k, y, size, cfx, xs, sums) ==
    /\ SizesOK(y, size, n, k)
    /\ ShapeOK(cfx, k, d)
    /\ MeansFx(sums, size, cfx, xs, k, d)

(***************************************************************************)
(* Clause "predicting assigns every row to a centroid at minimal Euclidean *)
(* distance".                                                              *)
(*                                                                         *)
(* Exact form: usable when every cluster has members, because then the     *)
(* fit clause pins every centroid to the exact rational sums[c]/size[c].   *)
(* Ties are accepted.  (A rational non-tie is at least 1/(m1*m2)^2 wide,   *)
(* far above the rounding error of the double-precision scan for the       *)
(* admitted sizes, so a correct implementation can never be on the wrong   *)
(* side of it.)                                                            *)
(***************************************************************************)
(* T = SqTable(Q, sums, size) and cd2 = Sq(size) are operator ARGUMENTS: TLC
   evaluates an argument once, but a LET definition at every use. *)
PredictExactWith(T, cd2, out, nq, k) ==
    /\ Len(out) = nq
    /\ \A i \in 1..nq :
          /\ out[i] \in 0..(k - 1)
          /\ IsNearest(T[i], cd2, out[i] + 1)

PredictExact(Q, out, sums, size) ==
    PredictExactWith(SqTable(Q, sums, size), Sq(size), out, Len(Q), Len(size))

(***************************************************************************)
(* Fixed-point form, for continuous data and for fits with an empty        *)
(* cluster: q8, c8 are round(v * 2^S8).  With a = true scaled difference   *)
(* and |observed - a| <= 1 per coordinate,                                 *)
(*    | Dobs - Dtrue | <= SUM_j (2|a_j| + 1) <= SUM_j (2|aobs_j| + 3) = T  *)
(* so the answer `out` is admissible iff  Dobs(out) - T(out) <= Dobs(c) +  *)
(* T(c) for every c.  This accepts every true nearest centroid and rejects *)
(* every centroid that is farther by more than about 2^-(S8-2) relative.   *)
(***************************************************************************)
FxD(q, c) == SumTo([j \in 1..Len(q) |-> (q[j] - c[j]) * (q[j] - c[j])], Len(q))
FxT(q, c) == SumTo([j \in 1..Len(q) |-> 2 * Abs(q[j] - c[j]) + 3], Len(q))

FxAdmissible(q, c8, lo) == \A c \in 1..Len(c8) : lo <= FxD(q, c8[c]) + FxT(q, c8[c])

PredictFx(Q8, out, c8) ==
    /\ Len(out) = Len(Q8)
    /\ \A i \in 1..Len(Q8) :
          /\ out[i] \in 0..(Len(c8) - 1)
          /\ FxAdmissible(Q8[i], c8, FxD(Q8[i], c8[out[i] + 1]) - FxT(Q8[i], c8[out[i] + 1]))

(***************************************************************************)
(* The assignment step ("filtering") against exhaustive search.            *)
(*   NearestOK : every row is attached to ONE OF its nearest centroids     *)
(*   CountsOK  : counts are the counts induced by that membership          *)
(*   SumsOK    : sums are the coordinate sums induced by that membership   *)
(*   distortion: SUM_i min_c |x_i - c|^2 -- independent of how ties were   *)
(*               broken, hence "equal to that of exhaustive search"        *)
(* T = SqTable(X, cn, cd) and cd2 = Sq(cd) are computed once by the caller.*)
(***************************************************************************)
NearestOK(T, cd2, member, n, k) ==
    /\ LabelsOK(member, n, k)
    /\ \A i \in 1..n : IsNearest(T[i], cd2, member[i] + 1)

CountsOK(member, counts, n, k) == SizesOK(member, counts, n, k)

SumsOK(X, member, sums, k, d) ==
    /\ ShapeOK(sums, k, d)
    /\ sums = ClusterSums(X, member, k, d)

(* floor(2^S * a / b) for 0 <= a, b > 0, (a % b) * 2^S < 2^31 *)
FxDiv(a, b, S) == (a \div b) * Pow2(S) + ((a % b) * Pow2(S)) \div b
FxInexact(a, b, S) == ((a % b) * Pow2(S)) % b # 0

(* minimal distance of row i as (numerator, denominator) *)
MinPair(Drow, cd2) == LET c == ArgNearest(Drow, cd2) IN <<Drow[c], cd2[c]>>

(***************************************************************************)
(* distFx = round(distortion * 2^S) as recorded.  The spec sums, per row,  *)
(* floor(2^S * min distance); each inexact floor loses < 1 unit, the       *)
(* recorded value is off by <= 1/2 unit, the library's own rounding is far *)
(* below one unit for the admitted magnitudes:                             *)
(*      lower <= distFx <= lower + (#inexact rows) + 1.                    *)
(* For integer / half-integer centroids and S >= 2 nothing is inexact and  *)
(* the clause pins the distortion to within one unit of 2^-S.              *)
(***************************************************************************)
DistortionFxWith(mp, n, distFx, S) ==
    LET lower == SumTo([i \in 1..n |-> FxDiv(mp[i][1], mp[i][2], S)], n)
        slack == Cardinality({i \in 1..n : FxInexact(mp[i][1], mp[i][2], S)})
    IN  lower - 1 <= distFx /\ distFx <= lower + slack + 1

DistortionFxOK(T, cd2, n, distFx, S) ==
    DistortionFxWith([i \in 1..n |-> MinPair(T[i], cd2)], n, distFx, S)

(* exact form for the design model: all denominators equal (cdAll), the
   distortion is the rational num/den *)
TrueDistNum(T, n, k) ==
    SumTo([i \in 1..n |->
             LET m == CHOOSE c \in 1..k : \A o \in 1..k : T[i][c] <= T[i][o] IN T[i][m]], n)

DistortionExactOK(T, n, k, cdAll, num, den) == num * cdAll * cdAll = den * TrueDistNum(T, n, k)

(***************************************************************************)
(* Geometric coordinates ("deep tree" families).  Column 1 of a row holds   *)
(* an EXPONENT e: the real coordinate is 2^e, with pairwise distinct        *)
(* exponents spanning far more than 64 binary orders of magnitude; the      *)
(* other columns are small lattice integers and are judged as usual         *)
(* (MeansFxFrom / SumsFromOK below, columns 2..d).  Values of the geometric *)
(* column (a centroid coordinate, a cluster sum) are recorded as            *)
(* (man, ex) with value ~ man * 2^(ex - GS), 2^(GS-1) <= man <= 2^GS, and   *)
(* are compared with the exact sum of the members' powers of two relative   *)
(* to the LARGEST member: T = SUM 2^(e_i - emax + GS) over the members with *)
(* e_i >= emax - GS; the members dropped contribute less than one unit in   *)
(* total (distinct exponents), the mantissa rounding half a unit.           *)
(***************************************************************************)
GS == 20

MaxOf(S) == CHOOSE a \in S : \A b \in S : a >= b

GeoMembers(y, c) == { i \in 1..Len(y) : y[i] = c - 1 }        \* c = 1-based position

GeoT(X, M, emax) ==
    SumTo([i \in 1..Len(X) |-> IF i \in M /\ X[i][1] >= emax - GS THEN Pow2(X[i][1] - emax + GS) ELSE 0], Len(X))
GeoDropped(X, M, emax) == Cardinality({ i \in M : X[i][1] < emax - GS })

ShiftBy(v, sh) == IF sh >= 0 THEN v * Pow2(sh) ELSE v \div Pow2(0 - sh)

(* size * centroid = sum of the members, in units of 2^(emax - GS) *)
GeoMeanAt(X, M, emax, m, man, ex) ==
    /\ ex - emax \in (0 - 9)..1
    /\ Abs(ShiftBy(m * man, ex - emax) - GeoT(X, M, emax)) <= m + GeoDropped(X, M, emax) + 2

GeoMeansOK(X, y, size, man, ex, k) ==
    \A c \in 1..k : size[c] > 0 =>
        GeoMeanAt(X, GeoMembers(y, c), MaxOf({ X[i][1] : i \in GeoMembers(y, c) }), size[c], man[c], ex[c])

(* the recorded cluster sum itself *)
GeoSumAt(X, M, emax, man, ex) ==
    /\ ex - emax \in 1..2
    /\ Abs(man * Pow2(ex - emax) - GeoT(X, M, emax)) <= GeoDropped(X, M, emax) + 3

GeoSumsOK(X, member, counts, man, ex, k) ==
    \A c \in 1..k : counts[c] > 0 =>
        GeoSumAt(X, GeoMembers(member, c), MaxOf({ X[i][1] : i \in GeoMembers(member, c) }), man[c], ex[c])

(* the lattice columns 2..d *)
MeansFxFrom(sums, size, cfx, xs, k, d) ==
    \A c \in 1..k : size[c] > 0 =>
        \A j \in 2..d : Abs(size[c] * cfx[c][j] - xs * sums[c][j]) <= size[c]

SumsFromOK(cs, sums, k, d) ==
    /\ ShapeOK(sums, k, d)
    /\ \A c \in 1..k : \A j \in 2..d : sums[c][j] = cs[c][j]

(***************************************************************************)
(* Nearest centroid on geometric data, decided only where floating point    *)
(* can decide it: with D0 = |2^e - 2^g| in [2^(a-1), 2^a), a = max(e, g)    *)
(* (D0 = 0 when e = g) and s the squared distance in the lattice columns    *)
(* (s < 2^13 for the admitted inputs), centroid c is CLEARLY nearer than    *)
(* the reported one m when                                                 *)
(*   - c matches the exponent and m is at least 2^7 away in column 1, or    *)
(*   - both differ and D0(m) >= 2 * D0(c) with D0(m) >= 2^7, or             *)
(*   - both match the exponent and s(c) < s(m) (exact small integers).      *)
(* Anything closer than that is accepted: the 53-bit squared distance may   *)
(* not resolve it.                                                          *)
(***************************************************************************)
GeoA(e, g) == IF e = g THEN 0 - 1 ELSE IF e > g THEN e ELSE g
GeoS(x, c, d) == SumTo([j \in 1..d |-> IF j = 1 THEN 0 ELSE (x[j] - c[j]) * (x[j] - c[j])], d)

ClearlyNearer(ac, sc, am, sm) ==
    \/ ac = 0 - 1 /\ am >= 8
    \/ ac >= 0 /\ am >= 8 /\ ac < am - 1
    \/ ac = 0 - 1 /\ am = 0 - 1 /\ sc < sm

GeoRowOK(x, cg, m, d) ==
    \A c \in 1..Len(cg) :
        ~ClearlyNearer(GeoA(x[1], cg[c][1]), GeoS(x, cg[c], d), GeoA(x[1], cg[m][1]), GeoS(x, cg[m], d))

GeoNearestOK(X, cg, member, n, k, d) ==
    /\ LabelsOK(member, n, k)
    /\ \A i \in 1..n : GeoRowOK(X[i], cg, member[i] + 1, d)

(* the recorded form of the whole clause; which sub-clause fails is reported
   by the trace spec, in this order *)
FilterClauses == <<"Nearest", "Counts", "Sums", "Distortion">>

=============================================================================
