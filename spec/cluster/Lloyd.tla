-------------------------------- MODULE Lloyd --------------------------------
(***************************************************************************)
(* C12 -- design model (A) of KMeans::fit  (src/cluster/kmeans.rs):        *)
(*                                                                         *)
(*   y = kmeans_plus_plus(data, k)        seeding, unseeded thread RNG     *)
(*   size, centroids = counts / means of the seeding assignment            *)
(*   for _ in 1..=max_iter {                                               *)
(*       dist = bbd.clustering(&centroids, &mut sums, &mut size, &mut y);  *)
(*       centroids[c] = sums[c] / size[c]   for every c with size[c] > 0   *)
(*       if distortion <= dist { break } else { distortion = dist }        *)
(*   }                                                                     *)
(*                                                                         *)
(* The assignment step is represented by its CONTRACT (the one BbdFilter   *)
(* .tla establishes for the tree and KMeansTrace checks on the real tree): *)
(* every row goes to one of its nearest centroids -- ties resolved         *)
(* nondeterministically, which over-approximates the tree's choice -- and  *)
(* sums / size / dist are those induced.  The random draws of the seeding  *)
(* are nondeterministic choices, so every initialisation the code can      *)
(* produce is an initial segment of some behaviour.                        *)
(*                                                                         *)
(* Arithmetic is exact.  Rows are lattice points.  A centroid is the       *)
(* rational vector cnum[c] / cden[c].  A distortion is an exact rational   *)
(* <<num, den>>: all squared distances of one sweep are brought to the     *)
(* common denominator DenAll = PROD_c cden[c]^2; two distortions are       *)
(* compared Euclid-style (KMeansProps!RatLess) so that no cross product is *)
(* formed and 32-bit integers suffice for up to ~15 rows with k = 3.       *)
(* <<-1, 1>> stands for T::max_value().                                    *)
(*                                                                         *)
(* Checked by TLC on every behaviour of the scope:                         *)
(*   FitCorrect    every terminal state satisfies the property clause      *)
(*                 (KMeansProps: sizes are the counts of y and sum to n,   *)
(*                 each centroid with members is exactly the mean of the   *)
(*                 rows last assigned to it, all k centroids are finite)   *)
(*   SeedingSound  the seeding never leaves a cluster without a member     *)
(*                 when the data have at least k distinct rows (otherwise  *)
(*                 the unguarded division by size[i] would produce NaN)    *)
(*   Monotone      from the second iteration on the distortion never       *)
(*                 increases: the early stop fires exactly when it stayed  *)
(*                 the same (a fixed point), never because it went up      *)
(*   Bounded       at most max_iter assignment steps are made              *)
(*                                                                         *)
(* Not modelled: `cutoff == 0` (rng.gen::<f64>() returning exactly 0.0,    *)
(* probability 2^-53 per draw), in which case the code would pick row 0    *)
(* even if it is already a seed.                                           *)
(***************************************************************************)
EXTENDS KMeansProps, TLC, Json

CONSTANTS
    Dim,        \* coordinates per row
    Vals,       \* lattice values
    MaxN,       \* at most this many rows
    Ks,         \* set of k
    MaxIters,   \* set of max_iter values
    FullLayer,  \* TRUE: the one data set made of ALL rows of the scope, once each, in canonical order
                \*   (with RowSum > 0: every integer point of a simplex layer)
    Replay,     \* TRUE: print one REPLAY line per terminal state
    ShowEmpty,  \* TRUE: print one INFO line per state in which an assignment step left a cluster empty
    ShowSwap,   \* TRUE: print one INFO line per state in which a sweep exchanged members of a cluster
                \*   without changing its count or the total of its coordinate sums
    RowSum      \* > 0: only rows whose coordinates add up to RowSum ("composition" data: integer points
                \*   of a simplex layer, anti-diagonals); 0: no restriction


VARIABLES
    data, k, maxIter,
    pc,         \* "seed0" | "seed" | "assign" | "choose" | "update" | "done"
    j,          \* seeding: number of seeds drawn so far
    cur,        \* seeding: row number of the seed drawn last
    dmin,       \* seeding: d[i], squared distance to the nearest seed so far (-1 = max_value)
    y, size, cnum, cden, sums,
    distortion, \* best distortion so far, <<num, den>>; <<-1, 1>> = max_value
    newdist,    \* distortion returned by the assignment step of this iteration
    it,         \* number of assignment steps made
    tab, near   \* assignment step: distance table and per-row sets of nearest labels

vars == <<data, k, maxIter, pc, j, cur, dmin, y, size, cnum, cden, sums, distortion, newdist, it, tab, near>>

N == Len(data)
(* rows of the scope: all lattice points, or (RowSum > 0) only those on the layer x1 + .. + xd = RowSum *)
Point == { p \in [1..Dim -> Vals] : RowSum = 0 \/ SumTo(p, Dim) = RowSum }

RECURSIVE LexLeq(_, _, _)
LexLeq(p, q, c) == IF c > Dim THEN TRUE
                   ELSE IF p[c] # q[c] THEN p[c] < q[c] ELSE LexLeq(p, q, c + 1)

(* the rows of a set in lexicographic order *)
RECURSIVE SortedSeq(_)
SortedSeq(S) == IF S = {} THEN <<>>
                ELSE LET m == CHOOSE p \in S : \A q \in S : LexLeq(p, q, 1)
                     IN  <<m>> \o SortedSeq(S \ {m})

Distinct(X) == Cardinality({ X[i] : i \in 1..Len(X) })

(* squared distance between two rows *)
D2(a, b) == SumTo([c \in 1..Dim |-> (a[c] - b[c]) * (a[c] - b[c])], Dim)

(* `if dist < d[i] { d[i] = dist; y[i] = label }` for every row, against seed row s *)
Less(a, b) == b = -1 \/ (a < b)
UpdD(s) == [i \in 1..N |-> IF Less(D2(data[i], data[s]), dmin[i]) THEN D2(data[i], data[s]) ELSE dmin[i]]
UpdY(s, label) == [i \in 1..N |-> IF Less(D2(data[i], data[s]), dmin[i]) THEN label ELSE y[i]]

Zeros == [c \in 1..k |-> [d \in 1..Dim |-> 0]]

(* ----------------------------------------------------------------- seeding *)
(* `data.get_row_as_vec(rng.gen_range(0..n))` *)
SeedFirst ==
    /\ pc = "seed0"
    /\ \E i \in 1..N : cur' = i
    /\ j' = 1
    /\ pc' = "seed"
    /\ UNCHANGED <<data, k, maxIter, dmin, y, size, cnum, cden, sums, distortion, newdist, it, tab, near>>

(* one round of `for j in 1..k`: refresh d / y against the last seed, then draw
   the next seed with probability proportional to d -- any row with d > 0 *)
SeedNext ==
    /\ pc = "seed" /\ j < k
    /\ dmin' = UpdD(cur)
    /\ y' = UpdY(cur, j - 1)
    /\ \E i \in 1..N : dmin'[i] > 0 /\ cur' = i
    /\ j' = j + 1
    /\ UNCHANGED <<data, k, maxIter, pc, size, cnum, cden, sums, distortion, newdist, it, tab, near>>

(* last refresh (label k-1), then size[] and the initial centroids = means *)
SeedLast ==
    /\ pc = "seed" /\ j = k
    /\ dmin' = UpdD(cur)
    /\ y' = UpdY(cur, k - 1)
    /\ size' = [c \in 1..k |-> CountOf(y', c - 1)]
    /\ cnum' = ClusterSums(data, y', k, Dim)
    /\ cden' = size'                      \* division by size[c], unguarded in the code
    /\ pc' = "assign"
    /\ UNCHANGED <<data, k, maxIter, j, cur, sums, distortion, newdist, it, tab, near>>

(* --------------------------------------------------------- Lloyd iterations *)
(* bbd.clustering(), first half: the squared distances of every row to every
   centroid (numerators over cden^2) and, per row, the labels of its nearest
   centroids.  They are kept in state variables (tab, near) because TLC would
   re-evaluate a LET definition at every use inside the quantifier of Assign. *)
Measure ==
    /\ pc = "assign"
    /\ tab' = SqTable(data, cnum, cden)
    /\ near' = [i \in 1..N |-> { c \in 0..(k - 1) : IsNearest(tab'[i], Sq(cden), c + 1) }]
    /\ pc' = "choose"
    /\ UNCHANGED <<data, k, maxIter, j, cur, dmin, y, size, cnum, cden, sums, distortion, newdist, it>>

(* all labellings that give every row one of its nearest labels: the product of the sets near[i]
   (built row by row, so its cost is the number of admissible labellings, not k^N) *)
RECURSIVE Choices(_, _)
Choices(ns, i) == IF i = 0 THEN { <<>> }
                  ELSE { Append(s, c) : s \in Choices(ns, i - 1), c \in ns[i] }

(* common denominator of the squared distances of one sweep *)
RECURSIVE ProdSq(_, _)
ProdSq(v, i) == IF i = 0 THEN 1 ELSE v[i] * v[i] * ProdSq(v, i - 1)
DenAll == ProdSq(cden, k)

DMax == <<-1, 1>>
DLeq(a, b) == RatLeq(a[1], a[2], b[1], b[2])

(* bbd.clustering(), second half -- by contract: every row goes to ONE OF its
   nearest centroids (any), size / sums / dist are those induced *)
Assign ==
    /\ pc = "choose"
    /\ \E yy \in Choices(near, N) : y' = yy
    /\ newdist' = << SumTo([i \in 1..N |->
                              tab[i][y'[i] + 1] * (DenAll \div (cden[y'[i] + 1] * cden[y'[i] + 1]))], N),
                      DenAll >>
    /\ size' = [c \in 1..k |-> CountOf(y', c - 1)]
    /\ sums' = ClusterSums(data, y', k, Dim)
    /\ it' = it + 1
    /\ pc' = "update"
    /\ UNCHANGED <<data, k, maxIter, j, cur, dmin, cnum, cden, distortion, tab, near>>

(* centroids of the clusters that have members are recomputed BEFORE the stop
   test, so the returned centroids always belong to the returned y *)
NewNum == [c \in 1..k |-> IF size[c] > 0 THEN sums[c] ELSE cnum[c]]
NewDen == [c \in 1..k |-> IF size[c] > 0 THEN size[c] ELSE cden[c]]

(* `if distortion <= dist { break }` *)
UpdateStop ==
    /\ pc = "update"
    /\ distortion # DMax /\ DLeq(distortion, newdist)
    /\ cnum' = NewNum /\ cden' = NewDen
    /\ pc' = "done"
    /\ UNCHANGED <<data, k, maxIter, j, cur, dmin, y, size, sums, distortion, newdist, it, tab, near>>

(* `else { distortion = dist }`, next round of the for loop -- or its end *)
UpdateGo ==
    /\ pc = "update"
    /\ distortion = DMax \/ ~DLeq(distortion, newdist)
    /\ cnum' = NewNum /\ cden' = NewDen
    /\ distortion' = newdist
    /\ pc' = IF it = maxIter THEN "done" ELSE "assign"
    /\ UNCHANGED <<data, k, maxIter, j, cur, dmin, y, size, sums, newdist, it, tab, near>>

(* -------------------------------------------------------------------- spec *)
Init ==
    /\ k \in Ks
    /\ maxIter \in MaxIters
    /\ IF FullLayer
       THEN data = SortedSeq(Point)
       ELSE \E n \in 2..MaxN : data \in [1..n -> Point]
    /\ \A i \in 1..(Len(data) - 1) : LexLeq(data[i], data[i + 1], 1)   \* rows in canonical order
    /\ Distinct(data) >= k                       \* the domain of the property
    /\ pc = "seed0" /\ j = 0 /\ cur = 0
    /\ dmin = [i \in 1..Len(data) |-> -1]
    /\ y = [i \in 1..Len(data) |-> 0]
    /\ size = <<>> /\ cnum = <<>> /\ cden = <<>> /\ sums = <<>>
    /\ distortion = DMax /\ newdist = DMax /\ it = 0
    /\ tab = <<>> /\ near = <<>>

Next == SeedFirst \/ SeedNext \/ SeedLast \/ Measure \/ Assign \/ UpdateStop \/ UpdateGo
Spec == Init /\ [][Next]_vars

(* -------------------------------------------------------------- invariants *)
Done == pc = "done"

(* round(2^12 * cnum/cden), the projection the harness applies to the real centroids *)
Fx12(num, den) == IF num >= 0 THEN (2 * num * 4096 + den) \div (2 * den)
                  ELSE -((2 * (-num) * 4096 + den) \div (2 * den))

FitCorrect ==
    Done =>
        LET cs == ClusterSums(data, y, k, Dim) IN
        /\ LabelsOK(y, N, k)
        /\ SizesOK(y, size, N, k)
        /\ ShapeOK(cnum, k, Dim) /\ Len(cden) = k
        /\ \A c \in 1..k : cden[c] > 0                       \* k finite centroids
        /\ MeansExact(cs, size, cnum, cden, k, Dim)
        \* the recorded (fixed-point) form of the clause accepts the exact state
        /\ FitFx(N, Dim, k, y, size, [c \in 1..k |-> [d \in 1..Dim |-> Fx12(cnum[c][d], cden[c])]], 4096, cs)

SeedingSound == pc \in {"assign", "choose", "update", "done"} => \A c \in 1..k : cden[c] > 0

Monotone == (pc = "update" /\ distortion # DMax) => DLeq(newdist, distortion)

Bounded == it <= maxIter /\ (Done => it >= 1)

(***************************************************************************)
(* A cluster can lose all its members in an assignment step (the code then *)
(* keeps its previous centroid: NewNum / NewDen).  Which data sets and     *)
(* seedings do that is not obvious, and random testing meets them rarely.  *)
(* With ShowEmpty the model lists them: one INFO line (data, k, the seeds' *)
(* initial labelling is not needed) per state in which some size is 0.     *)
(* The check hands these data sets to the harness, which refits them many  *)
(* times (the seeding of the real code cannot be controlled) and reports   *)
(* how many real fits ended with an empty cluster.                         *)
(***************************************************************************)
SomeEmpty == pc \in {"update", "done"} /\ \E c \in 1..k : size[c] = 0
EmitEmpty ==
    (ShowEmpty /\ SomeEmpty) =>
        PrintT(<<"INFO", ToJson([X |-> data, k |-> k, it |-> it, y |-> y])>>)

(***************************************************************************)
(* A sweep (not the first) can move rows in and out of a cluster while its *)
(* count AND the total of all its coordinate sums stay the same -- on data *)
(* whose rows all have the same coordinate total (compositions) every      *)
(* equal-count exchange does.  Any shortcut that decides "this cluster did *)
(* not change" from such a fingerprint leaves a stale centroid behind.     *)
(* At pc = "update", cnum / cden still hold the sums / sizes of the        *)
(* previous sweep for every cluster that had members.  ShowSwap lists the  *)
(* data sets where this happens; the harness refits them many times.       *)
(***************************************************************************)
SwapSeen ==
    /\ pc = "update" /\ it >= 2
    \* no row was tied in this sweep: the exchange is forced by the centroids, not an artefact of
    \* the model resolving the same tie differently in two sweeps (the real tree is deterministic)
    /\ \A i \in 1..N : Cardinality(near[i]) = 1
    /\ \E c \in 1..k : /\ size[c] > 0 /\ size[c] = cden[c]
                       /\ SumTo(sums[c], Dim) = SumTo(cnum[c], Dim)
                       /\ sums[c] # cnum[c]
EmitSwap ==
    (ShowSwap /\ SwapSeen) =>
        PrintT(<<"INFO", ToJson([X |-> data, k |-> k, it |-> it, y |-> y])>>)

Emit ==
    (Replay /\ Done) =>
        PrintT(<<"REPLAY", ToJson([X |-> data, k |-> k, maxIter |-> maxIter, y |-> y, size |-> size,
                                   cnum |-> cnum, cden |-> cden])>>)
=============================================================================
