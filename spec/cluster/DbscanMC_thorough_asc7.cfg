\* thorough: 1-D {0..3}, all sequences of 1..7 points, ascending order, minPts 1..4 and 8 (all noise)
CONSTANTS W = 4  H = 0  MaxN = 7  EpsSet = {1, 2}  MinPtsSet = {1, 2, 3, 4, 8}
          Key = "man"  Order = "asc"  Emit = FALSE
SPECIFICATION Spec
INVARIANT ModelSatisfiesProperty
INVARIANT TypeOK
INVARIANT QueuedArePending
INVARIANT StackNeverUndefined
INVARIANT OutlierIsNonCore
INVARIANT PrefixSettled
INVARIANT LabelsBelowK
INVARIANT ClosedClusters
INVARIANT LabelledHasWitness
INVARIANT StackBounded
INVARIANT NoProvisionalLeft
CHECK_DEADLOCK FALSE
