\* thorough: 1-D {0..3}, ALL sequences of 1..7 points, ascending order, eps 1..2, minPts 2..4; terminal states printed: the real code is replayed on every one of these inputs
CONSTANTS W = 4  H = 0  MaxN = 7  EpsSet = {1, 2}  MinPtsSet = {2, 3, 4}
          Key = "man"  Order = "asc"  Emit = TRUE
SPECIFICATION Spec
INVARIANT ModelSatisfiesProperty
INVARIANT TypeOK
INVARIANT QueuedArePending
INVARIANT StackNeverUndefined
INVARIANT OutlierIsNonCore
INVARIANT PrefixSettled
INVARIANT LabelsBelowK
INVARIANT ClosedClusters
INVARIANT LabelledHasWitness
INVARIANT StackBounded
INVARIANT NoProvisionalLeft
INVARIANT ReplayOut
CHECK_DEADLOCK FALSE
