---------------------------- MODULE DbscanTrace ----------------------------
(***************************************************************************)
(* C13 trace validation (impl -> spec, and the return leg of spec -> impl).*)
(*                                                                         *)
(* Consumes the ndjson file recorded by `c13 gen-random` / `c13            *)
(* replay-spec` from the real smartcore DBSCAN.  One event per data set:   *)
(*                                                                         *)
(*  {run, ev:"Run", src, case, pts:[[c1,..,cd],..], key:"man"|"euc2",      *)
(*   eps, minPts, metric, ty, scaleExp, qs:[[..],..], enc:{M,L,K}, api,    *)
(*   fits:[{backend:"linear"|"cover", status:"ok"|"err"|"panic"|"timeout", *)
(*          y:[..], k, pstatus, pint, out:[..]}, ..]}                      *)
(*                                                                         *)
(* `y`/`k` are cluster_labels / num_classes read from the serde dump of    *)
(* the fitted model, `out` the labels predict returned for the query rows  *)
(* `qs` (pint = all of them were integers).  Coordinates, eps are the      *)
(* integers of DbscanProps (the harness fed 2^scaleExp times them).        *)
(*                                                                         *)
(* TWO-LEVEL CODES (multi-scale family).  When enc.M > 0 an integer c of   *)
(* pts / qs is a code for the real coordinate (c div M) * 2^K + (c mod M),  *)
(* with c mod M < L.  Under the side conditions of EncodingOK -- checked    *)
(* on every event -- "within eps" is the same relation on codes and on real *)
(* coordinates: two rows that agree in every (c div M) have equal code and  *)
(* real differences; two rows that differ in some (c div M) are farther     *)
(* than eps apart both as codes (>= M - L > eps) and as reals               *)
(* (>= 2^K - L >= M - L).  So the integer predicates judge the codes.       *)
(* `api` says whether the inherent methods or the smartcore::api trait      *)
(* methods were called; the property does not depend on it.                 *)
(*                                                                         *)
(* Every clause of the property is evaluated with the operators of         *)
(* DbscanProps -- the same ones the design model Dbscan.tla is checked     *)
(* against.  The spec never blocks: each failed clause is printed as       *)
(*     <<"BAD", line, run, ev, "<clause path>">>                           *)
(* and counted; at end of file one VERDICT line carries the totals, the    *)
(* per-situation hit counters (vacuity guard / evidence) and the list of   *)
(* runs that were non-trivial (a border row, a provisionally-noise row, or *)
(* at least two clusters).                                                 *)
(*                                                                         *)
(* Clause paths:  Fit/<backend>/NoResult/<n=1|allIdentical|other>          *)
(*                Fit/<backend>/<WellFormed|CoreClustered|                 *)
(*                      SameLabelIffConnected|BorderJoinsNeighbourCluster| *)
(*                      RestIsNoise|GapFree|NumClassesIsC>                 *)
(*                Predict/<backend>/<NoResult|Malformed|OutOfRange|        *)
(*                      EmptyNbhdNotNoise/out=<label>|NotPlurality>        *)
(*                Backend/<CoreLabelsDiffer|NoiseSetDiffers>               *)
(*                Harness/Encoding   (a two-level code breaks its contract) *)
(***************************************************************************)
EXTENDS DbscanProps, Json, IOUtils

Rec == ndJsonDeserialize(IOEnv.TRACE)

VARIABLES l, nbad, hits, nontriv
vars == <<l, nbad, hits, nontriv>>

HitNames == {"Run", "FitOk", "NoResult", "SingleRow", "AllIdentical", "Core", "Border", "Noise", "TwoClusters",
             "ProvisionalNoise", "AmbiguousBorder", "ExactEps", "Duplicates",
             "BackendPair", "BorderDiffers",
             "PredictEmpty", "PredictNoiseWins", "PredictContestedNoise", "PredictTie", "PredictPlurality",
             "ParamErr", "ParamOther"}

B2N(b) == IF b THEN 1 ELSE 0

(* ------------------------------------------------------------------------ *)
(* which clauses fail                                                        *)
(* ------------------------------------------------------------------------ *)
InputClass(n, D) == IF n = 1 THEN "n=1"
                    ELSE IF \A j \in 1..n : D[1][j] = 0 THEN "allIdentical"
                    ELSE "other"

Unless(ok, name) == IF ok THEN {} ELSE {name}

FitFails(f, n, D, cnb, core, comp) ==
    LET P == "Fit/" \o f.backend \o "/" IN
    IF f.status # "ok" THEN {P \o "NoResult/" \o InputClass(n, D)}
    ELSE IF ~WellFormed(n, f.y) THEN {P \o "WellFormed"}
    ELSE Unless(CoreClustered(core, f.y), P \o "CoreClustered")
         \cup Unless(SameLabelIffConnected(core, comp, f.y), P \o "SameLabelIffConnected")
         \cup Unless(BorderJoinsNeighbourCluster(n, cnb, core, f.y), P \o "BorderJoinsNeighbourCluster")
         \cup Unless(RestIsNoise(n, cnb, core, f.y), P \o "RestIsNoise")
         \cup Unless(GapFree(f.y), P \o "GapFree")
         \cup Unless(NumClassesIsC(f.y, f.k), P \o "NumClassesIsC")

(* one query row: qnb = training rows within eps of it, out = label returned *)
QueryFails(P, qnb, y, k, out) ==
    IF ~PredictInRange(k, out) THEN {P \o "OutOfRange"}
    ELSE IF ~PredictEmptyIsNoise(qnb, out) THEN {P \o "EmptyNbhdNotNoise/out=" \o ToString(out)}
    ELSE IF ~PredictPluralityV(qnb, Votes(qnb, y, k), out) THEN {P \o "NotPlurality"}
    ELSE {}

(* predict is judged against the labels of the model it was called on; only  *)
(* when those labels are at least well formed and k is non-negative           *)
PredictFails(f, n, qnbs) ==
    LET P == "Predict/" \o f.backend \o "/" IN
    IF f.status # "ok" \/ ~WellFormed(n, f.y) \/ f.k < 0 THEN {}
    ELSE IF f.pstatus # "ok" THEN {P \o "NoResult"}
    ELSE IF ~f.pint \/ Len(f.out) # Len(qnbs) THEN {P \o "Malformed"}
    ELSE UNION {QueryFails(P, qnbs[qi], f.y, f.k, f.out[qi]) : qi \in 1..Len(qnbs)}

Usable(f, n) == f.status = "ok" /\ WellFormed(n, f.y)

BackendFails(fits, n, core) ==
    UNION {IF Usable(fits[a], n) /\ Usable(fits[b], n)
           THEN Unless(SameCoreLabels(core, fits[a].y, fits[b].y), "Backend/CoreLabelsDiffer")
                \cup Unless(SameNoiseSet(n, fits[a].y, fits[b].y), "Backend/NoiseSetDiffers")
           ELSE {} : a \in 1..Len(fits), b \in 1..Len(fits)}

(* side conditions of the two-level code (see the header) *)
EncodingOK(e) ==
    \/ e.enc.M = 0
    \/ /\ e.enc.L > 0 /\ e.enc.L < e.enc.M /\ e.enc.M <= 1048576 /\ e.enc.K >= 20
       /\ \A i \in 1..Len(e.pts) : \A j \in 1..Len(e.pts[i]) :
              e.pts[i][j] >= 0 /\ (e.pts[i][j] % e.enc.M) < e.enc.L
       /\ \A i \in 1..Len(e.qs) : \A j \in 1..Len(e.qs[i]) :
              e.qs[i][j] >= 0 /\ (e.qs[i][j] % e.enc.M) < e.enc.L
       /\ IF e.key = "man" THEN e.eps < e.enc.M - e.enc.L
          ELSE e.enc.M - e.enc.L < 46000 /\ e.eps < (e.enc.M - e.enc.L) * (e.enc.M - e.enc.L)

AllFails(e, n, D, cnb, core, comp, qnbs) ==
    UNION {FitFails(e.fits[a], n, D, cnb, core, comp) \cup PredictFails(e.fits[a], n, qnbs)
           : a \in 1..Len(e.fits)}
    \cup BackendFails(e.fits, n, core)
    \cup Unless(EncodingOK(e), "Harness/Encoding")

(* ------------------------------------------------------------------------ *)
(* what kind of case it was (measurement only)                               *)
(* ------------------------------------------------------------------------ *)
Border(n, cnb, core) == {i \in (1..n) \ core : cnb[i] # {}}

(* a border row that the outer loop meets before any cluster it touches has  *)
(* been opened: it is first marked noise and must be relabelled later        *)
ProvisionalNoise(n, cnb, core, comp) ==
    \E i \in Border(n, cnb, core) : \A j \in cnb[i] : comp[j] > i
AmbiguousBorder(n, cnb, core, comp) ==
    \E i \in Border(n, cnb, core) : Cardinality({comp[j] : j \in cnb[i]}) >= 2
NComps(core, comp) == Cardinality({comp[i] : i \in core})

FirstUsable(fits, n) == IF \E a \in 1..Len(fits) : Usable(fits[a], n) /\ fits[a].k >= 0
                        THEN CHOOSE a \in 1..Len(fits) : Usable(fits[a], n) /\ fits[a].k >= 0
                        ELSE 0

(* number of buckets attaining the maximal vote *)
NMax(votes) == Cardinality({b \in DOMAIN votes : votes[b] = MaxVote(votes)})
QKind(qnb, y, k) ==
    IF qnb = {} THEN "PredictEmpty"
    ELSE LET v == Votes(qnb, y, k) IN
         IF NMax(v) >= 2 THEN "PredictTie"
         ELSE IF v[-1] = MaxVote(v)
              \* noise holds the plurality; "contested" when at least two clusters also have
              \* votes in the ball (noise must win although the clusters together may outnumber it)
              THEN IF Cardinality({b \in DOMAIN v : b >= 0 /\ v[b] > 0}) >= 2
                   THEN "PredictContestedNoise" ELSE "PredictNoiseWins"
              ELSE "PredictPlurality"
QKinds(fits, n, qnbs, a) ==
    IF a = 0 THEN <<>>
    ELSE [qi \in 1..Len(qnbs) |-> QKind(qnbs[qi], fits[a].y, fits[a].k)]
CountKind(kinds, name) == Cardinality({qi \in DOMAIN kinds : kinds[qi] = name})

NonTrivial(n, cnb, core, comp) ==
    Border(n, cnb, core) # {} \/ NComps(core, comp) >= 2

RunIncK(e, n, D, cnb, core, comp, kinds) ==
    [x \in HitNames |->
       CASE x = "Run" -> 1
         [] x = "FitOk" -> Cardinality({a \in 1..Len(e.fits) : e.fits[a].status = "ok"})
         [] x = "NoResult" -> Cardinality({a \in 1..Len(e.fits) : e.fits[a].status # "ok"})
         \* boundary data sets on which every back end returned a model (a single row, and
         \* two or more rows that are all identical): ordinary cases, judged like any other
         [] x = "SingleRow" -> B2N(n = 1 /\ \A a \in 1..Len(e.fits) : e.fits[a].status = "ok")
         [] x = "AllIdentical" -> B2N(n >= 2 /\ InputClass(n, D) = "allIdentical"
                                      /\ \A a \in 1..Len(e.fits) : e.fits[a].status = "ok")
         [] x = "Core" -> B2N(core # {})
         [] x = "Border" -> B2N(Border(n, cnb, core) # {})
         [] x = "Noise" -> B2N(\E i \in (1..n) \ core : cnb[i] = {})
         [] x = "TwoClusters" -> B2N(NComps(core, comp) >= 2)
         [] x = "ProvisionalNoise" -> B2N(ProvisionalNoise(n, cnb, core, comp))
         [] x = "AmbiguousBorder" -> B2N(AmbiguousBorder(n, cnb, core, comp))
         [] x = "ExactEps" -> B2N(\E i \in 1..n : \E j \in 1..n : D[i][j] = e.eps)
         [] x = "Duplicates" -> B2N(\E i \in 1..n : \E j \in 1..n : i < j /\ D[i][j] = 0)
         [] x = "BackendPair" -> B2N(Cardinality({a \in 1..Len(e.fits) : Usable(e.fits[a], n)}) >= 2)
         [] x = "BorderDiffers" -> B2N(\E a \in 1..Len(e.fits) : \E b \in 1..Len(e.fits) :
                                          Usable(e.fits[a], n) /\ Usable(e.fits[b], n) /\ e.fits[a].y # e.fits[b].y)
         [] x \in {"PredictEmpty", "PredictNoiseWins", "PredictContestedNoise", "PredictTie", "PredictPlurality"}
              -> CountKind(kinds, x)
         [] OTHER -> 0]

RunInc(e, n, D, cnb, core, comp, qnbs) ==
    RunIncK(e, n, D, cnb, core, comp, QKinds(e.fits, n, qnbs, FirstUsable(e.fits, n)))

(* ------------------------------------------------------------------------ *)
(* the step                                                                  *)
(* ------------------------------------------------------------------------ *)
Commit(e, F, inc, nt) ==
    /\ \A c \in F : PrintT(<<"BAD", l, e.run, e.ev, c>>)
    /\ nbad' = nbad + Cardinality(F)
    /\ hits' = [x \in HitNames |-> hits[x] + inc[x]]
    /\ nontriv' = IF nt THEN Append(nontriv, e.run) ELSE nontriv

(* staging: every intermediate is bound exactly once as an operator argument *)
Run5(e, n, D, cnb, core, comp, qnbs) ==
    Commit(e, TLCEval(AllFails(e, n, D, cnb, core, comp, qnbs)),
           TLCEval(RunInc(e, n, D, cnb, core, comp, qnbs)),
           NonTrivial(n, cnb, core, comp))
Run4(e, n, D, cnb, core) ==
    Run5(e, n, D, cnb, core, CompOf(n, cnb, core),
         TLCEval([qi \in 1..Len(e.qs) |-> QueryNb(e.pts, e.key, e.eps, e.qs[qi])]))
Run3(e, n, D, nb, core) == Run4(e, n, D, CoreNb(nb, core), core)
Run2(e, n, D, nb) == Run3(e, n, D, nb, CoreOf(nb, e.minPts))
Run1(e, D) == Run2(e, Len(e.pts), D, NbOfD(D, e.eps))
RunEvent(e) == Run1(e, DistMatrix(e.pts, e.key))

(* eps <= 0 or min_samples = 0: the statement quantifies over eps > 0 and     *)
(* min_samples >= 1 only and says nothing about other parameters, so nothing *)
(* is demanded; the outcome is only counted                                  *)
ParamEvent(e) ==
    LET allErr == \A a \in 1..Len(e.fits) : e.fits[a].status = "err" IN
    /\ hits' = [hits EXCEPT ![IF allErr THEN "ParamErr" ELSE "ParamOther"] = @ + 1]
    /\ UNCHANGED <<nbad, nontriv>>

Step ==
    LET e == Rec[l] IN
    /\ l <= Len(Rec)
    /\ l' = l + 1
    /\ CASE e.ev = "Run" -> RunEvent(e)
         [] e.ev = "BadParam" -> ParamEvent(e)
         [] OTHER -> /\ PrintT(<<"BAD", l, e.run, e.ev, "unknown event">>)
                     /\ nbad' = nbad + 1 /\ UNCHANGED <<hits, nontriv>>

Init == /\ l = 1 /\ nbad = 0 /\ nontriv = <<>>
        /\ hits = [x \in HitNames |-> 0]

Next == Step
Spec == Init /\ [][Next]_vars

(* printed exactly once, when the whole file has been consumed *)
AtEnd == (l = Len(Rec) + 1) =>
            PrintT(<<"VERDICT", ToJson([consumed |-> l - 1, bad |-> nbad, hits |-> hits,
                                        nontrivial |-> nontriv])>>)
=============================================================================
