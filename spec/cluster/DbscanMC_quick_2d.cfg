\* quick: 2-D 3x2 lattice, squared Euclidean key (1 = axis neighbours, 2 = +diagonals), all sequences of 1..4 points; printed for replay
CONSTANTS W = 3  H = 2  MaxN = 4  EpsSet = {1, 2}  MinPtsSet = {1, 2, 3}
          Key = "euc2"  Order = "asc"  Emit = TRUE
SPECIFICATION Spec
INVARIANT ModelSatisfiesProperty
INVARIANT TypeOK
INVARIANT QueuedArePending
INVARIANT StackNeverUndefined
INVARIANT OutlierIsNonCore
INVARIANT PrefixSettled
INVARIANT LabelsBelowK
INVARIANT ClosedClusters
INVARIANT LabelledHasWitness
INVARIANT StackBounded
INVARIANT NoProvisionalLeft
INVARIANT CompMatchesDefinition
INVARIANT ReplayOut
CHECK_DEADLOCK FALSE
