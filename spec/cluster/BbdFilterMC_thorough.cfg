\* C12 thorough tier (a): 1-D rows on {0..4}, canonical order, 1..5 rows (251 multisets) x
\* every ordered pair of centroids on the half-integer grid -1.5 .. 5.5 (225 pairs)
CONSTANTS
    Dim = 1
    Vals = {0, 1, 2, 3, 4}
    MaxN = 5
    CBelow = 3
    CHi = 11
    Ks = {2}
    Ordered = TRUE
    Adjacent = FALSE
    FixCutoff = FALSE
    Replay = FALSE
    RMod = 1
SPECIFICATION Spec
INVARIANT FilterCorrect
INVARIANT BuildSafe
INVARIANT TreeWellFormed
INVARIANT FilterSafe
CHECK_DEADLOCK FALSE
