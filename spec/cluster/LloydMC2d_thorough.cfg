\* C12 thorough tier, two dimensions: rows on the 3x3 lattice, 2..5 rows (canonical order, at
\* least k distinct), k in {2, 3}, max_iter in {1, 4}; every seeding; every tie resolution
CONSTANTS
    Dim = 2
    Vals = {0, 1, 2}
    MaxN = 5
    Ks = {2, 3}
    MaxIters = {1, 4}
    FullLayer = FALSE
    ShowSwap = FALSE
    RowSum = 0
    ShowEmpty = FALSE
    Replay = FALSE
SPECIFICATION Spec
INVARIANT FitCorrect
INVARIANT SeedingSound
INVARIANT Monotone
INVARIANT Bounded
CHECK_DEADLOCK FALSE
