\* thorough: 2-D 3x2 lattice, squared Euclidean key, all sequences of 1..6 points, eps2 = 2 (axis + diagonal neighbours)
CONSTANTS W = 3  H = 2  MaxN = 6  EpsSet = {2}  MinPtsSet = {2, 3, 4}
          Key = "euc2"  Order = "asc"  Emit = FALSE
SPECIFICATION Spec
INVARIANT ModelSatisfiesProperty
INVARIANT TypeOK
INVARIANT QueuedArePending
INVARIANT StackNeverUndefined
INVARIANT OutlierIsNonCore
INVARIANT PrefixSettled
INVARIANT LabelsBelowK
INVARIANT ClosedClusters
INVARIANT LabelledHasWitness
INVARIANT StackBounded
INVARIANT NoProvisionalLeft
CHECK_DEADLOCK FALSE
