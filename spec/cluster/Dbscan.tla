------------------------------- MODULE Dbscan -------------------------------
(***************************************************************************)
(* C13, design model (A): the loop of                                      *)
(*     smartcore::cluster::dbscan::DBSCAN::fit   (src/cluster/dbscan.rs)   *)
(* transcribed branch for branch, over integer lattice points.             *)
(*                                                                         *)
(* The Rust code (abridged; rows 0..n-1 there, 1..n here):                 *)
(*                                                                         *)
(*   y = [undefined; n]; k = 0                                             *)
(*   for i in rows:                                                        *)
(*     if y[i] == undefined:                           -- else: Skip       *)
(*       neighbors = find_radius(x[i], eps)                                *)
(*       if |neighbors| < min_samples: y[i] = outlier  -- MarkOutlier      *)
(*       else:                                         -- OpenCluster      *)
(*         y[i] = k                                                        *)
(*         for j in neighbors: if y[j]==undefined: y[j] = queued           *)
(*         while let Some(t) = neighbors.pop():        -- the stack        *)
(*           if y[t] == outlier: y[t] = k              -- RelabelBorder    *)
(*           if y[t] == undefined || y[t] == queued:                       *)
(*             y[t] = k                                                    *)
(*             sn = find_radius(x[t], eps)                                 *)
(*             if |sn| >= min_samples:                 -- ExpandCore       *)
(*               for j in sn:                                              *)
(*                 if y[j]==undefined: y[j] = queued                       *)
(*                 if it was undefined or outlier: neighbors.push(j)       *)
(*                                                     -- else AbsorbBorder*)
(*           (else: already in a cluster)              -- SkipLabelled     *)
(*         k += 1                                      -- CloseCluster     *)
(*                                                                         *)
(* The search structure is abstracted by its contract (it returns exactly  *)
(* the rows within eps, `nb`), but NOT the order in which it returns them, *)
(* because the order decides the stack discipline and hence which cluster  *)
(* a border point between two clusters joins:                              *)
(*   Order = "asc"   rows ascending  (LinearKNNSearch::find_radius)        *)
(*   Order = "desc"  rows descending                                       *)
(*   Order = "any"   every permutation, chosen anew at every query; this   *)
(*                   over-approximates the cover tree (whose order depends *)
(*                   on the tree shape) and any future search structure.   *)
(*                                                                         *)
(* TLC checks, for every input of the configured scope and every           *)
(* reachable state:                                                        *)
(*   ModelSatisfiesProperty  Done => IsDensityClustering (DbscanProps)     *)
(*   the structural invariants below, which are the reasons the loop is    *)
(*   right (queued rows are exactly the pending ones, an `outlier` mark is *)
(*   only ever put on a non-core row, finished clusters are closed under   *)
(*   neighbourhood of their core rows, ...)                                *)
(*   CompMatchesDefinition   the efficient component map used by the       *)
(*                           predicates equals the path definition of      *)
(*                           density-connectivity on every input.          *)
(* With Emit = TRUE every terminal state is printed as a REPLAY line       *)
(* (input + the model's labelling); the harness replays the inputs through *)
(* the real code with both back ends (spec -> impl binding).               *)
(***************************************************************************)
EXTENDS DbscanProps, Json

CONSTANTS W, H,        \* lattice: 1-D {0..W-1} when H = 0, else {0..W-1} x {0..H-1}
          MaxN,        \* data sets are all *sequences* of 1..MaxN lattice points
          EpsSet,      \* radii (keys: Manhattan radius, or squared Euclidean radius)
          MinPtsSet,   \* density thresholds
          Key,         \* "man" | "euc2"
          Order,       \* "asc" | "desc" | "any"
          Emit         \* print REPLAY lines for the terminal states

Lattice == IF H = 0 THEN {<<a>> : a \in 0..(W - 1)}
           ELSE {<<a, b>> : a \in 0..(W - 1), b \in 0..(H - 1)}

UNDEF   == -3          \* `undefined`
QUEUED  == -2          \* `queued`
OUTLIER == -1          \* `outlier`; also the final noise label

VARIABLES pts, eps, minPts,  \* the input (never changes)
          nb, core,          \* derived from the input: the search structure's contract
          y, k,              \* labels, number of clusters opened and closed so far
          i,                 \* outer loop row
          stack,             \* `neighbors` of the open cluster (popped from the back)
          pc                 \* "outer" | "expand" | "done"
vars == <<pts, eps, minPts, nb, core, y, k, i, stack, pc>>

n == Len(pts)

RECURSIVE Perms(_)
Perms(S) == IF S = {} THEN {<<>>}      \* all enumerations of S without repetition
            ELSE UNION {{<<a>> \o p : p \in Perms(S \ {a})} : a \in S}
RECURSIVE AscSeq(_)
AscSeq(S) == IF S = {} THEN <<>>
             ELSE LET m == CHOOSE a \in S : \A b \in S : a <= b IN <<m>> \o AscSeq(S \ {m})
Reverse(s) == [j \in 1..Len(s) |-> s[Len(s) + 1 - j]]

(* the sequences a radius query may return for the row set S *)
Orders(S) == CASE Order = "asc"  -> {AscSeq(S)}
               [] Order = "desc" -> {Reverse(AscSeq(S))}
               [] Order = "any"  -> Perms(S)

Range(s) == {s[j] : j \in DOMAIN s}

Init == /\ pts \in UNION {[1..m -> Lattice] : m \in 1..MaxN}
        /\ eps \in EpsSet
        /\ minPts \in MinPtsSet
        /\ nb = NbOf(pts, Key, eps)
        /\ core = CoreOf(NbOf(pts, Key, eps), minPts)
        /\ y = [j \in 1..Len(pts) |-> UNDEF]
        /\ k = 0 /\ i = 1 /\ stack = <<>> /\ pc = "outer"

(* ---- outer loop --------------------------------------------------------- *)
Skip == /\ pc = "outer" /\ i <= n /\ y[i] # UNDEF
        /\ i' = i + 1
        /\ UNCHANGED <<pts, eps, minPts, nb, core, y, k, stack, pc>>

MarkOutlier == /\ pc = "outer" /\ i <= n /\ y[i] = UNDEF
               /\ Cardinality(nb[i]) < minPts
               /\ y' = [y EXCEPT ![i] = OUTLIER]
               /\ i' = i + 1
               /\ UNCHANGED <<pts, eps, minPts, nb, core, k, stack, pc>>

OpenCluster == /\ pc = "outer" /\ i <= n /\ y[i] = UNDEF
               /\ Cardinality(nb[i]) >= minPts
               /\ \E s \in Orders(nb[i]) : stack' = s
               /\ y' = [j \in 1..n |-> IF j = i THEN k
                                       ELSE IF j \in nb[i] /\ y[j] = UNDEF THEN QUEUED
                                       ELSE y[j]]
               /\ pc' = "expand"
               /\ UNCHANGED <<pts, eps, minPts, nb, core, k, i>>

Finish == /\ pc = "outer" /\ i > n
          /\ pc' = "done"
          /\ UNCHANGED <<pts, eps, minPts, nb, core, y, k, i, stack>>

(* ---- expansion of the open cluster k ------------------------------------ *)
top  == stack[Len(stack)]
rest == SubSeq(stack, 1, Len(stack) - 1)

(* a row provisionally marked noise turns out to be a border row of cluster k *)
RelabelBorder == /\ pc = "expand" /\ stack # <<>> /\ y[top] = OUTLIER
                 /\ y' = [y EXCEPT ![top] = k]
                 /\ stack' = rest
                 /\ UNCHANGED <<pts, eps, minPts, nb, core, k, i, pc>>

(* a queued (or undefined) row that is not core joins k as a border row *)
AbsorbBorder == /\ pc = "expand" /\ stack # <<>> /\ y[top] \in {UNDEF, QUEUED}
                /\ Cardinality(nb[top]) < minPts
                /\ y' = [y EXCEPT ![top] = k]
                /\ stack' = rest
                /\ UNCHANGED <<pts, eps, minPts, nb, core, k, i, pc>>

(* a queued (or undefined) core row joins k and its unvisited / provisionally *)
(* noisy neighbours are pushed                                                *)
ExpandCore == /\ pc = "expand" /\ stack # <<>> /\ y[top] \in {UNDEF, QUEUED}
              /\ Cardinality(nb[top]) >= minPts
              /\ LET y1 == [y EXCEPT ![top] = k] IN
                 \* the rows pushed are those of the query result that are undefined or
                 \* provisional noise, in the order the query returned them; the order of
                 \* the other rows of the result is immaterial
                 /\ \E s \in Orders({j \in nb[top] : y1[j] \in {UNDEF, OUTLIER}}) :
                        stack' = rest \o s
                 /\ y' = [j \in 1..n |-> IF j \in nb[top] /\ y1[j] = UNDEF THEN QUEUED ELSE y1[j]]
              /\ UNCHANGED <<pts, eps, minPts, nb, core, k, i, pc>>

(* the popped row already belongs to a cluster (k itself or an earlier one) *)
SkipLabelled == /\ pc = "expand" /\ stack # <<>> /\ y[top] >= 0
                /\ stack' = rest
                /\ UNCHANGED <<pts, eps, minPts, nb, core, y, k, i, pc>>

CloseCluster == /\ pc = "expand" /\ stack = <<>>
                /\ k' = k + 1 /\ i' = i + 1 /\ pc' = "outer"
                /\ UNCHANGED <<pts, eps, minPts, nb, core, y, stack>>

Next == Skip \/ MarkOutlier \/ OpenCluster \/ Finish
        \/ RelabelBorder \/ AbsorbBorder \/ ExpandCore \/ SkipLabelled \/ CloseCluster
Spec == Init /\ [][Next]_vars

Done == pc = "done"

(* termination: under weak fairness of the loop every behaviour reaches "done"  *)
(* (checked as a temporal property in the *_live configurations; in the other   *)
(* configurations it follows from StackBounded and the finite, acyclic graph)   *)
FairSpec == Spec /\ WF_vars(Next)
Terminates == <>Done

(* ---- the property ------------------------------------------------------- *)
ModelSatisfiesProperty == Done => IsDCNb(n, nb, core, y, k)

(* ---- why the loop is right: structural invariants ----------------------- *)
TypeOK == /\ y \in [1..n -> UNDEF..n]
          /\ k \in 0..n /\ i \in 1..(n + 1)
          /\ pc \in {"outer", "expand", "done"}
          /\ \A j \in DOMAIN stack : stack[j] \in 1..n

(* `queued` marks exactly rows that are waiting on the stack *)
QueuedArePending == \A j \in 1..n : y[j] = QUEUED => (pc = "expand" /\ j \in Range(stack))
(* nothing undefined is ever on the stack: the `undefined` half of the test *)
(* in the expansion branch is dead code                                     *)
StackNeverUndefined == \A j \in Range(stack) : y[j] # UNDEF
(* the provisional noise mark is only given to non-core rows, so turning it *)
(* into a border label without expanding is sound                           *)
OutlierIsNonCore == \A j \in 1..n : y[j] = OUTLIER => j \notin core
(* rows before the outer index are settled; cluster numbers are dense *)
PrefixSettled == pc = "outer" => \A j \in 1..(i - 1) : y[j] >= OUTLIER
LabelsBelowK == \A j \in 1..n : y[j] < (IF pc = "expand" THEN k + 1 ELSE k)
(* between clusters: every neighbour of a clustered core row is clustered,  *)
(* and with the label of that core row if it is core itself                 *)
ClosedClusters == pc # "expand" =>
    \A j \in core : y[j] >= 0 =>
        \A m \in nb[j] : y[m] >= 0 /\ (m \in core => y[m] = y[j])
(* a clustered row is core or adjacent to a core row of its cluster *)
LabelledHasWitness == pc # "expand" =>
    \A j \in 1..n : y[j] >= 0 => \E m \in nb[j] \cap core : y[m] = y[j]
(* termination: a row is pushed at most once per core neighbour *)
StackBounded == Len(stack) <= n * n
NoProvisionalLeft == Done => \A j \in 1..n : y[j] >= OUTLIER

(* ---- cross-check of the predicates' component map ----------------------- *)
(* R = the core rows density-connected to p by the path definition *)
CompRowOK(comp, p, R) == \A q \in core : (comp[p] = comp[q]) <=> (q \in R)
CompAllOK(cnb, comp) ==
    /\ \A p \in core : CompRowOK(comp, p, {q \in core : DensityConnected(cnb, core, p, q)})
    /\ \A p \in (1..n) \ core : comp[p] = 0
CompMatchesDefinition ==
    (pc = "outer" /\ i = 1) => CompAllOK(CoreNb(nb, core), CompOf(n, CoreNb(nb, core), core))

(* ---- spec -> impl: one line per terminal state -------------------------- *)
ReplayOut == (Emit /\ Done) =>
    PrintT(<<"REPLAY", ToJson([pts |-> pts, key |-> Key, eps |-> eps, minPts |-> minPts,
                               y |-> y, k |-> k])>>)
=============================================================================
