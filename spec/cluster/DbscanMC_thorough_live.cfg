\* thorough: termination of the fit loop as a temporal property (every query order), 1-D {0..3}, 1..4 points
CONSTANTS W = 4  H = 0  MaxN = 4  EpsSet = {1, 2}  MinPtsSet = {1, 2, 3}
          Key = "man"  Order = "any"  Emit = FALSE
SPECIFICATION FairSpec
INVARIANT TypeOK
INVARIANT StackBounded
PROPERTY Terminates
CHECK_DEADLOCK FALSE
