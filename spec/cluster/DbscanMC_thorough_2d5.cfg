\* thorough: 2-D 3x2 lattice, squared Euclidean key, all sequences of 1..5 points, full eps / minPts range; printed for replay
CONSTANTS W = 3  H = 2  MaxN = 5  EpsSet = {1, 2, 4, 5}  MinPtsSet = {1, 2, 3, 4, 5}
          Key = "euc2"  Order = "asc"  Emit = TRUE
SPECIFICATION Spec
INVARIANT ModelSatisfiesProperty
INVARIANT TypeOK
INVARIANT QueuedArePending
INVARIANT StackNeverUndefined
INVARIANT OutlierIsNonCore
INVARIANT PrefixSettled
INVARIANT LabelsBelowK
INVARIANT ClosedClusters
INVARIANT LabelledHasWitness
INVARIANT StackBounded
INVARIANT NoProvisionalLeft
INVARIANT ReplayOut
CHECK_DEADLOCK FALSE
