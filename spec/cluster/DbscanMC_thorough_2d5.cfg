\* thorough: 2-D 3x2 lattice, squared Euclidean key (1 axis, 2 +diagonal, 4 +two apart), all sequences of 1..5 points, minPts 1..4; printed for replay
CONSTANTS W = 3  H = 2  MaxN = 5  EpsSet = {1, 2, 4}  MinPtsSet = {1, 2, 3, 4}
          Key = "euc2"  Order = "asc"  Emit = TRUE
SPECIFICATION Spec
INVARIANT ModelSatisfiesProperty
INVARIANT TypeOK
INVARIANT QueuedArePending
INVARIANT StackNeverUndefined
INVARIANT OutlierIsNonCore
INVARIANT PrefixSettled
INVARIANT LabelsBelowK
INVARIANT ClosedClusters
INVARIANT LabelledHasWitness
INVARIANT StackBounded
INVARIANT NoProvisionalLeft
INVARIANT ReplayOut
CHECK_DEADLOCK FALSE
