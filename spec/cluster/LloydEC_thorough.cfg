\* C12 thorough tier, empty clusters: as LloydEC_quick.cfg on a richer sparse value set and
\* with up to three assignment steps.
CONSTANTS
    Dim = 1
    Vals = {0, 3, 4, 10, 11, 18, 21}
    MaxN = 6
    Ks = {3}
    MaxIters = {1, 3}
    FullLayer = FALSE
    ShowSwap = FALSE
    RowSum = 0
    ShowEmpty = TRUE
    Replay = FALSE
SPECIFICATION Spec
INVARIANT FitCorrect
INVARIANT SeedingSound
INVARIANT Monotone
INVARIANT Bounded
INVARIANT EmitEmpty
CHECK_DEADLOCK FALSE
