\* NOT part of the check.  Regression shape: the vote WITHOUT the `label[class] > 0` guard, as the
\* code was before fix 7f8bc2c.  EXPECTED TO FAIL -- TLC reports the design-level counterexample
\* (a query row with no training point within eps gets cluster 0 as soon as one cluster exists).
CONSTANTS W = 4  H = 0  MaxN = 3  EpsSet = {1}  MinPtsSet = {1, 2}
          Key = "man"  Mode = "unguarded"
SPECIFICATION Spec
INVARIANT PredictSatisfiesProperty
CHECK_DEADLOCK FALSE
