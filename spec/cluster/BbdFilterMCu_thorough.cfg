\* C12 thorough tier (c): row ORDER matters for the tree's index permutation.  1-D rows on
\* {0..3}, every sequence of 1..4 rows (340 data sets) x every ordered pair of centroids on the
\* half-integer grid -1.5 .. 4.5 (169 pairs)
CONSTANTS
    Dim = 1
    Vals = {0, 1, 2, 3}
    MaxN = 4
    CBelow = 3
    CHi = 9
    Ks = {2}
    Ordered = FALSE
    Adjacent = FALSE
    FixCutoff = FALSE
    Replay = FALSE
    RMod = 1
SPECIFICATION Spec
INVARIANT FilterCorrect
INVARIANT BuildSafe
INVARIANT TreeWellFormed
INVARIANT FilterSafe
CHECK_DEADLOCK FALSE
