\* C12 thorough tier (a), composition data: the ONE data set made of all 15 integer points of the
\* simplex layer x + y + z = 4 (every row has the same coordinate total), k = 3, up to six sweeps,
\* every seeding, every tie resolution.  ShowSwap makes TLC list (INFO lines) the states in which a
\* tie-free sweep after the first exchanges members of a cluster without changing its count or
\* its coordinate total; the check has the harness refit the listed data sets many times.
\* (Exhaustive scopes with <= 6 rows on such layers contain no tie-free exchange at all, and the
\* 2-D layers are collinear, where an exchange is impossible: TLC reports 0 INFO lines there.)
CONSTANTS
    Dim = 3
    Vals = {0, 1, 2, 3, 4}
    MaxN = 6
    Ks = {3}
    MaxIters = {6}
    FullLayer = TRUE
    RowSum = 4
    ShowSwap = TRUE
    ShowEmpty = FALSE
    Replay = FALSE
SPECIFICATION Spec
INVARIANT FitCorrect
INVARIANT SeedingSound
INVARIANT Monotone
INVARIANT Bounded
INVARIANT EmitSwap
CHECK_DEADLOCK FALSE
