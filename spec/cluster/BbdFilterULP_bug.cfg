\* C12 what-if analysis, NOT run by the check (a design model that fails its invariant is a
\* tool error there).  Rows one ulp apart: TLC is EXPECTED to report `Invariant BuildSafe is
\* violated` -- the design-level reproduction of the known finding (known_findings/C12.json):
\* the midpoint of two neighbouring floats rounds to the lower one, no row is below the cutoff,
\* and build_node either decrements i2 below zero or recurses on an empty lower child.
\*   cd spec/cluster && java -cp $TLA_CP tlc2.TLC -config BbdFilterULP_bug.cfg BbdFilter.tla
CONSTANTS
    Dim = 1
    Vals = {0, 1, 2, 3}
    MaxN = 3
    CBelow = 0
    CHi = 1
    Ks = {1}
    Ordered = FALSE
    Adjacent = TRUE
    FixCutoff = FALSE
    Replay = FALSE
    RMod = 1
SPECIFICATION Spec
INVARIANT BuildSafe
CHECK_DEADLOCK FALSE
