\* quick: predict on every density-based clustering of every sequence of 1..4 points on {0..3},
\* every query row on the lattice, its rim and far away; the vote as coded (a winning bucket without votes is noise)
CONSTANTS W = 4  H = 0  MaxN = 4  EpsSet = {1, 2}  MinPtsSet = {1, 2}
          Key = "man"  Mode = "guarded"
SPECIFICATION Spec
INVARIANT PredictSatisfiesProperty
INVARIANT TableIsVotes
CHECK_DEADLOCK FALSE
