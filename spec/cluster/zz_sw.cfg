CONSTANTS
    Dim = 3
    Vals = {0, 1, 2, 3}
    MaxN = 6
    Ks = {3}
    MaxIters = {6}
    FullLayer = TRUE
    RowSum = 3
    ShowSwap = TRUE
    ShowEmpty = FALSE
    Replay = FALSE
SPECIFICATION Spec
INVARIANT FitCorrect
INVARIANT SeedingSound
INVARIANT Monotone
INVARIANT Bounded
INVARIANT EmitSwap
CHECK_DEADLOCK FALSE
