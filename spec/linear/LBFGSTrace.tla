----------------------------- MODULE LBFGSTrace -----------------------------
(***************************************************************************)
(* C09 trace validation (impl -> spec) for the optimiser.  Consumes the    *)
(* ndjson file written by `c09 gen-lbfgs`: for every run of the real       *)
(* LBFGS::optimize on a harness-supplied quadratic one Start event, one    *)
(* Iter event per accepted iterate and one Stop event.  Every event is     *)
(* checked against the guards of LBFGS.tla in the protocol state reached   *)
(* so far.  The spec never blocks: a failing clause is printed as          *)
(*     <<"BAD", line, run, event, clause>>                                 *)
(* and the rest of that run is skipped (its state is no longer meaningful).*)
(* Clause names: Start, Monotone, Budget, Terminates, Returned, Reduced.   *)
(* Disagreements with the design model that do not touch the property are  *)
(* only counted (the hits whose name starts with Drift).                   *)
(***************************************************************************)
EXTENDS LBFGS, Sequences, TLC, Json, IOUtils

CONSTANT RedBits       \* binary orders of magnitude demanded by Reduced

Rec == ndJsonDeserialize(IOEnv.TRACE)

VARIABLES l, st, live, nbad, hits
vars == <<l, st, live, nbad, hits>>

Bad(e, clause) == PrintT(<<"BAD", l, e.run, e.ev, clause>>)

HitNames == {"Start", "Iter", "StopFull", "StopTruncated", "ReducedByBits", "ReducedByAtol",
             "StartWithinAtol", "Skipped", "DriftIsLast", "DriftFx", "DriftCount", "DriftEvals"}
Bump(h, names) == [x \in HitNames |-> IF x \in names THEN h[x] + 1 ELSE h[x]]

(* first failing clause of an event, "" when all hold *)
IterFail(s, e) ==
    IF ~C_IterMonotone(s, e) THEN "Monotone"
    ELSE IF ~C_IterBudget(s, e) THEN "Budget" ELSE ""
StopFail(s, e) ==
    IF ~C_StopTerminates(s, e) THEN "Terminates"
    ELSE IF ~C_StopBudget(s, e) THEN "Budget"
    ELSE IF ~C_StopReturned(s, e) THEN "Returned"
    ELSE IF ~C_StopReduced(s, e, RedBits) THEN "Reduced" ELSE ""

StopHits(s, e) ==
    {IF s.full THEN "StopFull" ELSE "StopTruncated"}
    \cup (IF s.full /\ s.g0 <= s.atolEx THEN {"StartWithinAtol"}
          ELSE IF s.full /\ e.retGEx <= s.atolEx THEN {"ReducedByAtol"}
          ELSE IF s.full /\ e.retGEx <= s.g0 - RedBits THEN {"ReducedByBits"} ELSE {})
    \cup (IF D_StopIsLast(s, e) THEN {} ELSE {"DriftIsLast"})
    \cup (IF D_StopFx(s, e) THEN {} ELSE {"DriftFx"})
    \cup (IF D_StopCount(s, e) THEN {} ELSE {"DriftCount"})

Step ==
    LET e == Rec[l] IN
    /\ l <= Len(Rec)
    /\ l' = l + 1
    /\ CASE e.ev = "Start" ->
              IF G_Start(Idle, e)
              THEN /\ st' = E_Start(Idle, e) /\ live' = TRUE
                   /\ hits' = Bump(hits, {"Start"}) /\ UNCHANGED nbad
              ELSE /\ Bad(e, "Start") /\ nbad' = nbad + 1
                   /\ st' = Idle /\ live' = FALSE /\ UNCHANGED hits
         [] e.ev = "Iter" ->
              IF ~live THEN hits' = Bump(hits, {"Skipped"}) /\ UNCHANGED <<st, live, nbad>>
              ELSE LET c == IterFail(st, e) IN
                   IF c = ""
                   THEN /\ st' = E_Iter(st, e)
                        /\ hits' = Bump(hits, {"Iter"} \cup (IF D_IterEvals(st, e) THEN {} ELSE {"DriftEvals"}))
                        /\ UNCHANGED <<live, nbad>>
                   ELSE /\ Bad(e, c) /\ nbad' = nbad + 1
                        /\ st' = Idle /\ live' = FALSE /\ UNCHANGED hits
         [] e.ev = "Stop" ->
              IF ~live THEN hits' = Bump(hits, {"Skipped"}) /\ UNCHANGED <<st, live, nbad>>
              ELSE LET c == StopFail(st, e) IN
                   /\ st' = Idle /\ live' = FALSE
                   /\ IF c = ""
                      THEN hits' = Bump(hits, StopHits(st, e)) /\ UNCHANGED nbad
                      ELSE Bad(e, c) /\ nbad' = nbad + 1 /\ UNCHANGED hits
         [] OTHER -> Bad(e, "unknown event") /\ nbad' = nbad + 1 /\ UNCHANGED <<st, live, hits>>

Init == l = 1 /\ st = Idle /\ live = FALSE /\ nbad = 0 /\ hits = [x \in HitNames |-> 0]
Next == Step
Spec == Init /\ [][Next]_vars

AtEnd == (l = Len(Rec) + 1) =>
            PrintT(<<"VERDICT", ToJson([consumed |-> l - 1, bad |-> nbad, live |-> live, hits |-> hits])>>)
=============================================================================
