------------------------- MODULE LeastSquaresTrace -------------------------
(***************************************************************************)
(* C07 trace validation (impl -> spec).  Consumes the ndjson file written  *)
(* by `c07 gen`: one event per data set, carrying the results of fitting   *)
(* the real LinearRegression (QR, SVD) or RidgeRegression (Cholesky, SVD)  *)
(* and of calling predict on the training matrix.  Every event is judged   *)
(* by the contract operators of LeastSquares.tla; nothing is decided in    *)
(* the harness.  Event fields:                                             *)
(*   ev    "Ols" | "Ridge"          prec  "f64" | "f32"                    *)
(*   S     fixed-point scale        X, y  integer data (n x p, n)          *)
(*   aN, aE, normalize              (ridge) alpha = aN / 2^aE              *)
(*   backend "dense" | "api" | "ndarray": "api" = DenseMatrix through the   *)
(*         trait entry points api::SupervisedEstimator::fit and             *)
(*         api::Predictor::predict instead of the inherent methods;         *)
(*         "ndarray" = the matrix type the problem was given in             *)
(*         (ndarray: X column-major, y an Array1 with negative stride --    *)
(*         logically the same data, so the same contract applies)          *)
(*   fits  sequence of [solver, built, status, fin, W, B, Yhat]            *)
(*         built = how the parameter object was made: "literal" or the     *)
(*         order of the chained with_alpha / with_normalize / with_solver  *)
(*         calls (rotating per fit; all describe the same parameters, so   *)
(*         the same gradient clauses decide)                               *)
(*         status "ok" | "err" | "panic"; fin = all outputs finite and     *)
(*         inside the quantiser's range (W, B, Yhat are only meaningful    *)
(*         when status = "ok" and fin)                                     *)
(* The spec never blocks: a failing event prints BAD and is counted.       *)
(***************************************************************************)
EXTENDS LeastSquares, TLC, Json, IOUtils

Rec == ndJsonDeserialize(IOEnv.TRACE)

VARIABLES l, nbad, hits
vars == <<l, nbad, hits>>

\* name of the first clause a single fit violates, "" when it satisfies the contract.
\* R, M, Q2 are operator arguments so that they are computed once per fit.
OlsFitClause(X, f, R, M, Q2, prec) ==
    IF ~OlsNormalEq(X, R, LsNormMag(Q2, M), Q2, prec) THEN "OlsNormalEq"
    ELSE IF ~OlsSumZero(X, R, LsNormMag(Q2, M), Q2, prec) THEN "OlsSumZero"
    ELSE IF ~PredictIdentity(X, f.W, f.B, f.Yhat, M, Q2, prec) THEN "PredictIdentity"
    ELSE ""

RidgeFitClause(e, f, R, M, Q2) ==
    IF e.normalize
    THEN IF ~OlsSumZero(e.X, R, LsNormMag(Q2, M), Q2, e.prec) THEN "RidgeStdSumZero"
         ELSE IF ~RidgeStdGradient(e.X, f.W, R, LsNormMag(Q2, M), Q2, e.aN, e.aE, e.prec) THEN "RidgeStdGradient"
         ELSE IF ~PredictIdentity(e.X, f.W, f.B, f.Yhat, M, Q2, e.prec) THEN "PredictIdentity"
         ELSE ""
    ELSE IF ~RidgeRawIntercept(f.B) THEN "RidgeRawIntercept"
         ELSE IF ~RidgeRawGradient(e.X, f.W, R, LsNormMag(Q2, M), Q2, e.aN, e.aE, e.prec) THEN "RidgeRawGradient"
         ELSE IF ~PredictIdentity(e.X, f.W, f.B, f.Yhat, M, Q2, e.prec) THEN "PredictIdentity"
         ELSE ""

FitClause(e, f) ==
    IF f.status # "ok" THEN "Status_" \o f.status       \* the property promises a result
    ELSE IF ~f.fin THEN "NotFinite"
    ELSE IF Len(f.W) # LsNCols(e.X) THEN "Shape"
    ELSE IF e.ev = "Ols"
         THEN OlsFitClause(e.X, f, LsResid(e.X, e.y, f.W, f.B, e.S), LsMag(e.X, e.y, f.W, f.B, e.S), LsQ2(e.X), e.prec)
         ELSE RidgeFitClause(e, f, LsResid(e.X, e.y, f.W, f.B, e.S), LsMag(e.X, e.y, f.W, f.B, e.S), LsQ2(e.X))

RECURSIVE FirstFitClause(_, _)
FirstFitClause(e, i) ==
    IF i > Len(e.fits) THEN ""
    ELSE LET c == FitClause(e, e.fits[i]) IN
         IF c # "" THEN c \o "_" \o e.fits[i].solver ELSE FirstFitClause(e, i + 1)

EventClause(e) ==
    LET c == FirstFitClause(e, 1) IN
    IF c # "" THEN c
    ELSE IF e.prec = "f64" /\ Len(e.fits) = 2
              /\ ~Agree(e.fits[1].W, e.fits[1].B, e.fits[2].W, e.fits[2].B)
         THEN "SolversAgree"
         ELSE ""

HitName(e) ==
    IF e.ev = "Ols" THEN "Ols_" \o e.prec
    ELSE (IF e.normalize THEN "RidgeStd_" ELSE "RidgeRaw_") \o e.prec

HitNames == {"Ols_f64", "Ols_f32", "RidgeStd_f64", "RidgeStd_f32", "RidgeRaw_f64", "RidgeRaw_f32",
             "Backend_dense", "Backend_ndarray", "Backend_api"}                 \* second counter
ASSUME \A i \in 1..Len(Rec) : ~(Rec[i].ev = "Ridge" /\ Rec[i].normalize /\ Rec[i].prec = "f32")

Step ==
    /\ l <= Len(Rec)
    /\ LET e == Rec[l] c == EventClause(Rec[l]) IN
         /\ IF c = "" THEN nbad' = nbad
            ELSE PrintT(<<"BAD", l, e.run, e.ev, c>>) /\ nbad' = nbad + 1
         /\ hits' = [hits EXCEPT ![HitName(e)] = @ + 1, !["Backend_" \o e.backend] = @ + 1]
    /\ l' = l + 1

Init == l = 1 /\ nbad = 0 /\ hits = [x \in HitNames |-> 0]
Next == Step
Spec == Init /\ [][Next]_vars

AtEnd == (l = Len(Rec) + 1) =>
            PrintT(<<"VERDICT", ToJson([consumed |-> l - 1, bad |-> nbad, hits |-> hits])>>)
=============================================================================
