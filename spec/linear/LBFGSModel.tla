----------------------------- MODULE LBFGSModel -----------------------------
(***************************************************************************)
(* C09, part 2: implementation-shaped design model of                      *)
(*     src/optimization/first_order/lbfgs.rs   LBFGS::optimize,            *)
(*         update_state, two_loops, assess_convergence, update_hessian     *)
(*     src/optimization/line_search.rs         Backtracking::search        *)
(* One action per loop body / branch of the Rust code.  All floating-point *)
(* quantities are abstracted to what the control flow depends on:          *)
(*                                                                         *)
(*   objective values   levels 0..FTop (a dense rank: only <, = matter),   *)
(*                      Inf = FTop+1 stands for an overflowing trial value *)
(*   gradient norm      levels 0..GTop, level 0 = exactly zero             *)
(*   step length        level a = 0..AMax; every shrink of the search      *)
(*                      raises the level by 1 or 2 (the code shrinks by a  *)
(*                      factor in [plo, phi] = [0.1, 0.5]); level AMax is  *)
(*                      "alpha*s is absorbed: x + alpha*s = x in floating  *)
(*                      point" (in particular alpha underflowed to 0)      *)
(*   sign of df0        the directional derivative <g, s> along the        *)
(*                      two-loop direction s                               *)
(*   curvature dx.dg    pos / zero / neg, stored per history slot          *)
(*                                                                         *)
(* The ENVIRONMENT (the objective) chooses trial values, new gradient      *)
(* levels and curvatures nondeterministically, subject to the facts that   *)
(* hold for the objectives of the property:                                *)
(*   (E1) strictly convex  =>  dx.dg > 0 for every step that moved         *)
(*        (constant Convex = TRUE).  Then every stored pair has rho > 0,   *)
(*        the two-loop matrix is positive definite and df0 < 0 unless the  *)
(*        gradient is zero.  The code never checks the sign of rho; it     *)
(*        skips the update only when rho is infinite.                      *)
(*   (E2) a trial point that is bitwise the current point has the current  *)
(*        objective value (the objective is a function).                   *)
(*   (E3) overflow of the objective can happen only for the largest steps  *)
(*        (levels below InfTop).                                           *)
(*                                                                         *)
(* What TLC establishes on every behaviour (see the .cfg files):           *)
(*   ProtoOK    every Start / Iter / Stop event the model emits satisfies  *)
(*              the guards of LBFGS.tla -- in particular NoIncrease and    *)
(*              WithinBudget follow from the control structure + (E1),(E2) *)
(*   Monotone   [][cur' <= cur]_cur, the same fact as an action property   *)
(*   NoPanic    the "Linesearch failed to converge" panic is unreachable   *)
(*              when absorption sets in within the search's own budget     *)
(*              (AMax <= MaxLs); the argument is a floating-point one:     *)
(*              f0 + c1*alpha*df0 rounds to f0 and the trial value is f0   *)
(*   HistoryOK  the ring buffer: slot i mod m holds the pair of the latest *)
(*              non-skipped iteration congruent to i, never a later or a   *)
(*              misaligned one; two_loops reads exactly the window         *)
(*              max(it,m)-m .. it-1 (WindowOK) and takes its initial       *)
(*              scaling from slot (it-1) mod m (ScaleOK)                   *)
(*   AtDone     the loop ends because of convergence or an exhausted       *)
(*              budget; f_x is still NaN when no iteration was made        *)
(* What it does NOT establish: Reduced.  How far the gradient drops is a   *)
(* numerical fact about the two-loop recursion on a quadratic, not a       *)
(* consequence of the control structure (the environment above may keep    *)
(* the gradient level wherever it likes).  That clause is decided on the   *)
(* recorded runs of the real code only (LBFGSTrace.tla).  The model does   *)
(* show WHY a run may stop unreduced: x unchanged, or the objective value  *)
(* unchanged once (counter_f_tol jumps by 2 because both the absolute and  *)
(* the relative test fire with their default tolerance 0, and it is never  *)
(* reset), or the budget.                                                  *)
(*                                                                         *)
(* With Convex = FALSE (LBFGSModel_nonconvex.cfg) TLC finds the behaviour  *)
(* in which a negative-curvature pair is stored, the direction is uphill,  *)
(* Armijo's right-hand side lies ABOVE f0 and an increase is accepted:     *)
(* Monotone and ProtoOK are violated.  The check runs this configuration   *)
(* and insists on the counterexample, which shows the invariants are not   *)
(* vacuous.                                                                *)
(***************************************************************************)
EXTENDS LBFGS, Naturals, FiniteSets, TLC

CONSTANTS MaxIter,    \* LBFGS.max_iter
          Hist,       \* LBFGS.m, number of (dx, dg) pairs kept
          FTop, GTop, \* abstraction sizes
          AtolLv,     \* gradient level of g_atol
          SuccFTol,   \* LBFGS.successive_f_tol (default 1)
          MaxLs,      \* Backtracking.max_iterations (default 1000)
          MaxInf,     \* Backtracking.max_infinity_iterations (default 52)
          AMax,       \* step-length levels
          InfTop,     \* trial values may overflow only below this level
          Convex,     \* (E1)
          RedBits

NoScale == 0 - 2        \* two_loops at iteration 0: s = -q, no initial scaling
Inf == FTop + 1
NaNf == 0 - 1          \* state.x_f before the first iteration (T::nan())

VARIABLES pc, it, cur, xf, fp, g, conv, cnt, slots, negs, skipped, scaleTag,
          sign, a, lsn, infn, t, moved, st, ok
vars == <<pc, it, cur, xf, fp, g, conv, cnt, slots, negs, skipped, scaleTag,
          sign, a, lsn, infn, t, moved, st, ok>>

Min(x, y) == IF x < y THEN x ELSE y
Max(x, y) == IF x > y THEN x ELSE y

(* trial values the environment may return at step level lv  (E2), (E3) *)
Trials(lv) == IF lv >= AMax THEN {cur}
              ELSE (0..FTop) \cup (IF lv < InfTop THEN {Inf} ELSE {})

(* f0 + c1*alpha*df0 as the search sees it.  Below f0 (or equal after       *)
(* rounding) for a descent direction, equal for df0 = 0, above f0 (or equal *)
(* after rounding) for an ascent direction; exactly f0 once alpha*s is      *)
(* absorbed.                                                                *)
Thresholds(lv) == IF lv >= AMax \/ sign = 0 THEN {fp}
                  ELSE IF sign < 0 THEN {fp - 1, fp}
                  ELSE {fp, fp + 1}

Lower == Max(it, Hist) - Hist
Window == { slots[i % Hist] : i \in Lower .. (it - 1) }

Init ==
    /\ pc = "Start" /\ it = 0
    /\ cur \in 0..FTop            \* true objective level at x (what the call-back logs)
    /\ xf = NaNf /\ fp = NaNf     \* state.x_f, state.x_f_prev
    /\ g \in 0..GTop
    /\ conv = FALSE /\ cnt = 0
    /\ slots = [i \in 0..(Hist - 1) |-> 0 - 1]   \* -1: the initial clones of x0 with rho = 0
    /\ negs = {} /\ skipped = {} /\ scaleTag = NoScale
    /\ sign = 0 /\ a = 0 /\ lsn = 0 /\ infn = 0 /\ t = NaNf /\ moved = FALSE
    /\ st = Idle /\ ok = TRUE

(* optimize(): df(x0); converged = |g|_inf < g_atol   (strict, unlike assess_convergence) *)
Start ==
    /\ pc = "Start"
    /\ LET e == [fFin |-> TRUE, fRk |-> cur, gEx |-> g, maxIter |-> MaxIter, atolEx |-> AtolLv]
       IN  ok' = (ok /\ G_Start(st, e)) /\ st' = E_Start(st, e)
    /\ conv' = (g < AtolLv)
    /\ pc' = "Loop"
    /\ UNCHANGED <<it, cur, xf, fp, g, cnt, slots, negs, skipped, scaleTag, sign, a, lsn, infn, t, moved>>

(* while !converged && iteration < max_iter *)
LoopTest ==
    /\ pc = "Loop"
    /\ IF ~conv /\ it < MaxIter
       THEN pc' = "TwoLoops" /\ UNCHANGED <<st, ok>>
       ELSE /\ pc' = "Done"
            /\ LET e == [status |-> "ok", iters |-> it, retFFin |-> TRUE, retFRk |-> cur, retGEx |-> g]
               IN  ok' = (ok /\ G_Stop(st, e, RedBits)) /\ UNCHANGED st
    /\ UNCHANGED <<it, cur, xf, fp, g, conv, cnt, slots, negs, skipped, scaleTag, sign, a, lsn, infn, t, moved>>

(* update_state, first half: two_loops over the window, x_f_prev = f(x), df0 = <g, s> *)
TwoLoops ==
    /\ pc = "TwoLoops"
    /\ fp' = cur
    /\ sign' \in IF Window \cap negs = {}
                 THEN (IF g = 0 THEN {0} ELSE {0 - 1})       \* positive definite two-loop matrix
                 ELSE {0 - 1, 0, 1}
    (* `if state.iteration > 0 { scaling = dx.dg / dg.dg of slot (upper-1) mod m }`: the  *)
    (* slot is read whether or not iteration upper-1 actually stored a pair               *)
    /\ scaleTag' = IF it > 0 THEN slots[(it - 1) % Hist] ELSE NoScale
    /\ a' = 0 /\ lsn' = 0 /\ infn' = 0
    /\ pc' = "LsFirst"
    /\ UNCHANGED <<it, cur, xf, g, conv, cnt, slots, negs, skipped, t, moved, st, ok>>

(* Backtracking::search: fx1 = f(alpha) with alpha = 1 *)
LsFirst ==
    /\ pc = "LsFirst"
    /\ t' \in Trials(a)
    /\ pc' = "LsInf"
    /\ UNCHANGED <<it, cur, xf, fp, g, conv, cnt, slots, negs, skipped, scaleTag, sign, a, lsn, infn, moved, st, ok>>

(* while !fx1.is_finite() && iterfinite < max_infinity_iterations { halve } *)
LsInf ==
    /\ pc = "LsInf"
    /\ IF t = Inf /\ infn < MaxInf
       THEN /\ infn' = infn + 1
            /\ a' = Min(a + 1, AMax)
            /\ t' \in Trials(a')
            /\ pc' = "LsInf"
       ELSE pc' = "LsArmijo" /\ UNCHANGED <<infn, a, t>>
    /\ UNCHANGED <<it, cur, xf, fp, g, conv, cnt, slots, negs, skipped, scaleTag, sign, lsn, moved, st, ok>>

(* while fx1 > f0 + c1*a2*df0 { if iteration > max_iterations panic; shrink; fx1 = f(a2) } *)
LsArmijo ==
    /\ pc = "LsArmijo"
    /\ \E thr \in Thresholds(a) :
          IF t > thr
          THEN IF lsn > MaxLs
               THEN pc' = "Panic" /\ UNCHANGED <<a, t, lsn>>
               ELSE /\ \E d \in {1, 2} : a' = Min(a + d, AMax)
                    /\ t' \in Trials(a')
                    /\ lsn' = lsn + 1
                    /\ pc' = "LsArmijo"
          ELSE pc' = "Step" /\ UNCHANGED <<a, t, lsn>>
    /\ UNCHANGED <<it, cur, xf, fp, g, conv, cnt, slots, negs, skipped, scaleTag, sign, infn, moved, st, ok>>

(* update_state, second half: x += alpha*s; x_f = f(x); df(x).  The gradient call at a   *)
(* NEW point is the Iter event of the protocol (a repeated point is not a new iterate).  *)
Step ==
    /\ pc = "Step"
    /\ moved' \in IF a >= AMax THEN {FALSE} ELSE IF t = cur THEN BOOLEAN ELSE {TRUE}
    /\ cur' = t /\ xf' = t
    /\ g' \in IF moved' THEN 0..GTop ELSE {g}
    /\ IF moved'
       THEN LET e == [fFin |-> (t # Inf), fRk |-> t, gEx |-> g']
            IN  ok' = (ok /\ G_Iter(st, e)) /\ st' = E_Iter(st, e)
       ELSE UNCHANGED <<st, ok>>
    /\ pc' = "Assess"
    /\ UNCHANGED <<it, fp, conv, cnt, slots, negs, skipped, scaleTag, sign, a, lsn, infn, t>>

(* assess_convergence with the default tolerances x_atol = x_rtol = f_abstol = f_reltol = 0 *)
Assess ==
    /\ pc = "Assess"
    /\ LET c2 == cnt + (IF xf = fp THEN 2 ELSE 0)    \* both f-tests fire together
       IN  /\ cnt' = c2
           /\ conv' = ((g <= AtolLv) \/ ~moved \/ c2 > SuccFTol)
    /\ pc' = IF conv' THEN "Next" ELSE "Hessian"
    /\ skipped' = IF conv' THEN skipped \cup {it} ELSE skipped   \* `if !converged { update_hessian }`
    /\ UNCHANGED <<it, cur, xf, fp, g, slots, negs, scaleTag, sign, a, lsn, infn, t, moved, st, ok>>

(* update_hessian: rho = 1/(dx.dg); stored unless infinite -- whatever its sign *)
Hessian ==
    /\ pc = "Hessian"
    /\ \E c \in {"pos", "zero"} \cup (IF Convex THEN {} ELSE {"neg"}) :
          IF c = "zero"
          THEN skipped' = skipped \cup {it} /\ UNCHANGED <<slots, negs>>
          ELSE /\ slots' = [slots EXCEPT ![it % Hist] = it]
               /\ negs' = (negs \ {slots[it % Hist]}) \cup (IF c = "neg" THEN {it} ELSE {})
               /\ UNCHANGED skipped
    /\ pc' = "Next"
    /\ UNCHANGED <<it, cur, xf, fp, g, conv, cnt, scaleTag, sign, a, lsn, infn, t, moved, st, ok>>

NextIter ==
    /\ pc = "Next"
    /\ it' = it + 1
    /\ pc' = "Loop"
    /\ UNCHANGED <<cur, xf, fp, g, conv, cnt, slots, negs, skipped, scaleTag, sign, a, lsn, infn, t, moved, st, ok>>

Next == Start \/ LoopTest \/ TwoLoops \/ LsFirst \/ LsInf \/ LsArmijo \/ Step \/ Assess \/ Hessian \/ NextIter
Spec == Init /\ [][Next]_vars

(***************************************************************************)
(* Invariants                                                              *)
(***************************************************************************)
TypeOK ==
    /\ pc \in {"Start", "Loop", "TwoLoops", "LsFirst", "LsInf", "LsArmijo", "Step", "Assess",
               "Hessian", "Next", "Done", "Panic"}
    /\ it \in 0..MaxIter /\ cur \in 0..Inf /\ xf \in (0 - 1)..Inf /\ fp \in (0 - 1)..Inf
    /\ g \in 0..GTop /\ conv \in BOOLEAN /\ cnt \in 0..(2 * MaxIter)
    /\ a \in 0..AMax /\ lsn \in 0..(MaxLs + 1) /\ infn \in 0..MaxInf

ProtoOK == ok
Bounded == it <= MaxIter /\ st.it <= MaxIter
Monotone == [][cur' <= cur]_cur
NoPanic == (AMax <= MaxLs) => pc # "Panic"
NeverPanics == pc # "Panic"      \* false when MaxLs < AMax (LBFGSModel_panic.cfg, a negative test)

(* the latest non-skipped iteration <= i that is congruent to i modulo Hist, or -1 *)
RECURSIVE Latest(_)
Latest(i) == IF i < 0 THEN 0 - 1 ELSE IF i \notin skipped THEN i ELSE Latest(i - Hist)
Stored == IF pc = "Next" THEN it ELSE it - 1     \* last iteration whose pair may be stored
HistoryOK ==
    \A s \in 0..(Hist - 1) :
       LET top == CHOOSE i \in (Stored - Hist + 1)..Stored : i % Hist = s
       IN  slots[s] = Latest(top)
WindowOK ==       \* two_loops reads min(it, Hist) slots, all aligned with the indices it means
    pc = "LsFirst" => \A i \in Lower..(it - 1) : slots[i % Hist] = Latest(i)
(* The initial scaling is taken from the newest slot.  When iteration it-1 skipped its    *)
(* update the slot still holds an older pair (or, tag -1, the initial clones of x0 with   *)
(* rho = 0, for which the scaling is x0.x0 / x0.x0: 1, or 0/0 = NaN when x0 = 0).  With a *)
(* strictly convex objective a skip needs dx.dg = 0 in floating point, which the         *)
(* convergence test catches first (f unchanged), so the hazard lies outside C09; the     *)
(* model records it as the reachable state  scaleTag = -1 /\ it > 0.                     *)
ScaleOK == (pc = "LsFirst" /\ it > 0) => scaleTag = Latest(it - 1)
(* FALSE in the model (LBFGSModel_stalescale.cfg, a negative test): after a skipped first  *)
(* update two_loops scales by the never-written slot.  The real code does exactly this on  *)
(* un-penalised logistic regression of separable data (x0 = 0, gradient saturated so that *)
(* dg = 0 after a step that moved x): scaling = 0/0 and the fit comes back as NaN -- the   *)
(* finding listed in known_findings/C09.json.                                             *)
NeverScalesByInitialSlot == ~(pc = "LsFirst" /\ it > 0 /\ scaleTag = 0 - 1)

AtDone == pc = "Done" =>
    /\ conv \/ it = MaxIter
    /\ (it = 0 => xf = NaNf)
    /\ (it > 0 => xf = cur)
=============================================================================
