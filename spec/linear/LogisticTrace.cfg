CONSTANT StatBits = 8  Verbose = FALSE
SPECIFICATION Spec
INVARIANT AtEnd
CHECK_DEADLOCK FALSE
