------------------------------ MODULE LassoMC ------------------------------
(***************************************************************************)
(* Design model for C08.  With one regressor the (elastic-net) Lasso has   *)
(* the closed-form minimiser "soft threshold":                             *)
(*                                                                         *)
(*   raw :  w = sign(g) max(|x.yc| - lambda1/2, 0) / (x.x + lambda2)       *)
(*   std :  v = sign(g) max(|z.yc| - lambda1/2, 0) / (n + lambda2),        *)
(*          w = v / sigma        (z = (x - mu)/sigma, z.z = n)             *)
(*   b   =  mean(y)  (raw) ,  mean(y) - w mu  (std)                        *)
(*                                                                         *)
(* with lambda1 = n alpha l1, lambda2 = n alpha (1 - l1).  In integers,    *)
(* g = sum_i x_i (n y_i - sum y) = n x.yc, q = aE + l1E, m1 = l1N,         *)
(* m2 = 2^l1E - l1N:                                                       *)
(*   raw :  w = sign(g) max(2^(q+1) |g| - n^2 aN m1, 0)                    *)
(*                                   / (2 n (2^q x.x + n aN m2))           *)
(*   std :  w = sign(g) max(2^(q+1) |g| - n aN m1 sqrt(V), 0)              *)
(*                                   / (2 (2^q + aN m2) V)                 *)
(* (V = n^2 sigma^2; the standardised case is explored for the data sets   *)
(* whose V is a perfect square, where the minimiser is rational).          *)
(*                                                                         *)
(* TLC plays the exact solver: for every x, y in Vals^N (x not constant)   *)
(* and every parameter setting it computes the minimiser, rounds it to     *)
(* fixed point like the harness, and the invariants confront it with the   *)
(* contract of Lasso.tla:                                                  *)
(*   Sound  the contract accepts the exact minimiser at tol = 2^-TolE      *)
(*          (no false alarm on a correct answer, in particular in the      *)
(*          sparse regime w = 0 and for the bracketed square root);        *)
(*   Sharp  NearOptimal rejects the minimiser moved by Delta units, and    *)
(*          the intercept identity rejects the intercept moved by Delta;   *)
(*   Close  the minimiser is "close" to itself quantised at its own        *)
(*          rounding error, and not close to the minimiser moved by        *)
(*          BigDelta units (NearMinimisersClose, used for the relations).  *)
(***************************************************************************)
EXTENDS Lasso, TLC

CONSTANTS N, Vals, Params, S, TolE, Delta, BigDelta
\* Params: set of <<aN, aE, l1N, l1E>>

ValsQuick      == {-2, 0, 3}
ValsThorough   == {-3, 0, 4}
ParamsQuick    == {<<1, 3, 1, 0>>, <<3, 0, 1, 0>>, <<40, 0, 1, 0>>, <<1, 1, 1, 1>>, <<5, 0, 3, 2>>}
ParamsThorough == {<<1, 3, 1, 0>>, <<1, 0, 1, 0>>, <<10, 0, 1, 0>>, <<1, 2, 1, 2>>, <<7, 1, 1, 1>>}

VARIABLES x, y, pr, std, phase, W, B, Yhat
vars == <<x, y, pr, std, phase, W, B, Yhat>>

Idx == 1..N
Xm  == [i \in Idx |-> <<x[i]>>]
Prob == LaProblem(Xm, y, pr[1], pr[2], pr[3], pr[4], std, TolE)

RoundDiv(a, b) == (2 * a + b) \div (2 * b)               \* b > 0, half up

PerfectSquare(v) == LaISqrt(v) * LaISqrt(v) = v

Init == /\ x \in [Idx -> Vals] /\ y \in [Idx -> Vals] /\ pr \in Params /\ std \in BOOLEAN
        /\ \E i \in Idx : x[i] # x[1]
        /\ std => PerfectSquare(LsVarN2([i \in Idx |-> <<x[i]>>], 1))
        /\ phase = "input" /\ W = 0 /\ B = 0 /\ Yhat = [i \in Idx |-> 0]

\* exact minimiser  w = wn / wd  of the stated objective
SolveP(P) ==
    LET g  == LsDot(x, P.Yc)
        q  == P.q
        m1 == pr[3]
        m2 == LsP2(pr[4]) - pr[3]
        V  == P.V[1]
        thr == IF std THEN N * pr[1] * m1 * LaISqrt(V) ELSE N * N * pr[1] * m1
        num == LaMax(LsP2(q + 1) * LsAbs(g) - thr, 0)
        wn == IF g < 0 THEN -num ELSE num
        wd == IF std THEN 2 * (LsP2(q) + pr[1] * m2) * V
                     ELSE 2 * N * (LsP2(q) * LsDot(x, x) + N * pr[1] * m2)
        sx == LsSum(x)
        \* b = (sy - w sx) / n (std) or sy / n (raw);  yhat_i = x_i w + b
        bn == IF std THEN P.sy * wd - wn * sx ELSE P.sy * wd
    IN /\ W' = RoundDiv(wn * LsP2(S), wd)
       /\ B' = RoundDiv(bn * LsP2(S), N * wd)
       /\ Yhat' = [i \in Idx |-> RoundDiv((x[i] * wn * N + bn) * LsP2(S), N * wd)]
       /\ phase' = "done" /\ UNCHANGED <<x, y, pr, std>>

SolveLasso == phase = "input" /\ pr[3] = 1 /\ pr[4] = 0 /\ SolveP(Prob)
SolveEnet  == phase = "input" /\ ~(pr[3] = 1 /\ pr[4] = 0) /\ SolveP(Prob)
Next == SolveLasso \/ SolveEnet
Spec == Init /\ [][Next]_vars

\* The problem record P and the residual R of the reported W are operator *arguments*
\* everywhere below, so that TLC computes them once per state.
Near(P, w, R) == NearOptimal(P, <<w>>, LaGrad(P, R), LaGradErr2(P), LaPub(P, <<w>>, R, S), S)
NearAt(P, w) == Near(P, w, LaResid(P, <<w>>, S))

SoundP(P, R) ==
    /\ LaDataInRange(Xm, y, pr[1], pr[2], pr[3], pr[4])
    /\ LaInRange(P, <<W>>, B, Yhat, S)
    /\ LaGradInRange(P, R)
    /\ LaInterceptIdentity(P, <<W>>, B, S)
    /\ LaPredictIdentity(P, <<W>>, B, Yhat)
    /\ Near(P, W, R)
SharpP(P) ==
    /\ ~NearAt(P, W + Delta) /\ ~NearAt(P, W - Delta)
    /\ ~LaInterceptIdentity(P, <<W>>, B + Delta, S)
    /\ ~LaInterceptIdentity(P, <<W>>, B - Delta, S)
CloseP(P, pub) ==
    /\ NearMinimisersClose(P, <<W>>, <<W + 1>>, pub, S)
    /\ ~NearMinimisersClose(P, <<W>>, <<W + BigDelta>>, pub, S)

Sound == phase = "done" => SoundP(Prob, LaResid(Prob, <<W>>, S))
Sharp == phase = "done" => SharpP(Prob)
Close == phase = "done" => CloseP(Prob, LaPub(Prob, <<W>>, LaResid(Prob, <<W>>, S), S))
=============================================================================
