CONSTANTS Mode = "num"  StatBits = 8  GridStep = 256  NumStride = 4  TriFull = FALSE
SPECIFICATION Spec
INVARIANT NumOK
INVARIANT ModelOK
CHECK_DEADLOCK FALSE
