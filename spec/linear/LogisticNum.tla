----------------------------- MODULE LogisticNum -----------------------------
(***************************************************************************)
(* C09, part 3a: integer enclosures of exp and ln for the logistic-        *)
(* regression contracts.                                                   *)
(*                                                                         *)
(* TLA+ has no reals and TLC only 32-bit integers, yet the penalised       *)
(* likelihood of C09 is made of exp and ln.  The contracts of Logistic.tla *)
(* therefore work with FIXED-POINT ENCLOSURES: every transcendental value  *)
(* is computed here in integer arithmetic together with a proved bound on  *)
(* its error, the bounds are propagated through the formulas, and a        *)
(* contract is only ever rejected when it fails by more than the           *)
(* accumulated bound.  The enclosure is coarse (about 2^-11 per            *)
(* probability); it decides gross facts ("the gradient at the returned     *)
(* coefficients is below 1/256 of the gradient at zero, give or take the   *)
(* enclosure") and is blind to the last digits -- see Logistic.tla.        *)
(*                                                                         *)
(* Units.  Scores and their differences: 2^-12.  Values of exp and         *)
(* probabilities' numerators: 2^-15 (One = 32768).  All intermediate       *)
(* products stay below 2^31.                                               *)
(*                                                                         *)
(* The only trusted data is ExpTab, 177 integers round(2^15 * e^(-k/16)).  *)
(* It is not taken on faith: the ASSUMEs below make TLC verify, every time *)
(* the module is loaded, that the table is decreasing, that it is          *)
(* multiplicative (T[i]*T[j] = T[i+j] up to rounding -- so it is c^k for   *)
(* some c) and that T[16] agrees with 1/e = D8/8! +- 1/9! (D8 = 14833, the *)
(* eighth subfactorial) -- so c = e^(-1/16).                               *)
(***************************************************************************)
EXTENDS Integers, Sequences

One == 32768            \* 2^15

ExpTab == <<
    32768, 30783, 28918, 27166, 25520, 23974, 22521, 21157, 19875, 18671, 17539, 16477,
    15479, 14541, 13660, 12832, 12055, 11324, 10638,  9994,  9388,  8819,  8285,  7783,
     7312,  6869,  6452,  6061,  5694,  5349,  5025,  4721,  4435,  4166,  3914,  3676,
     3454,  3244,  3048,  2863,  2690,  2527,  2374,  2230,  2095,  1968,  1849,  1737,
     1631,  1533,  1440,  1352,  1271,  1194,  1121,  1053,   990,   930,   873,   820,
      771,   724,   680,   639,   600,   564,   530,   498,   467,   439,   412,   387,
      364,   342,   321,   302,   283,   266,   250,   235,   221,   207,   195,   183,
      172,   162,   152,   143,   134,   126,   118,   111,   104,    98,    92,    86,
       81,    76,    72,    67,    63,    59,    56,    52,    49,    46,    43,    41,
       38,    36,    34,    32,    30,    28,    26,    25,    23,    22,    21,    19,
       18,    17,    16,    15,    14,    13,    12,    12,    11,    10,    10,     9,
        9,     8,     8,     7,     7,     6,     6,     6,     5,     5,     5,     4,
        4,     4,     4,     3,     3,     3,     3,     3,     2,     2,     2,     2,
        2,     2,     2,     2,     1,     1,     1,     1,     1,     1,     1,     1,
        1,     1,     1,     1,     1,     1,     1,     1,     1
>>

TabTop == 176           \* last index k;  beyond 11.0 the value is below 2^-15.8

Abs(x) == IF x < 0 THEN 0 - x ELSE x

ASSUME TabDecreasing == \A k \in 1..TabTop : ExpTab[k + 1] <= ExpTab[k] /\ ExpTab[1] = One
ASSUME TabMultiplicative ==
    \A i \in 0..TabTop : \A j \in 0..(TabTop - i) :
        Abs((ExpTab[i + 1] * ExpTab[j + 1]) \div One - ExpTab[i + j + 1]) <= 2
ASSUME TabAnchored ==               \* | T[16]/2^15 - 14833/40320 | <= (1/2 + 1/9) / 2^15
    Abs(ExpTab[17] * 40320 - 14833 * One) <= 40320

(***************************************************************************)
(* ExpNeg(d) ~ 2^15 * e^(-d / 2^12)  for an integer d >= 0 (units 2^-12).  *)
(* d = 256 k + r:  table entry k times the cubic Taylor polynomial of      *)
(* e^(-r/4096), 0 <= r/4096 < 1/16.                                        *)
(* Error: table 1/2 (times the polynomial <= 1); polynomial: the two       *)
(* floors have opposite signs, so it is off by < 1, plus the remainder     *)
(* r^4/24 < 0.02 (times the table entry / 2^15 <= 1); final floor < 1:     *)
(*        | ExpNeg(d) - 2^15 e^(-d/4096) |  <  2.6  <=  ExpErr = 3 .       *)
(* (Exhaustive comparison with double-precision exp over 0 <= d < 50000    *)
(* when the table was generated: worst 1.86.)                              *)
(* For d >= 11 * 4096 the true value is < 0.55 and 0 is returned.          *)
(***************************************************************************)
ExpErr == 3
ExpNeg(d) ==
    IF d >= 256 * (TabTop + 1) THEN 0
    ELSE LET k == d \div 256
             r15 == (d % 256) * 8                  \* r in units 2^-15, < 2048
             q == (r15 * r15) \div 65536           \* r^2 / 2
             c == (q * r15) \div 98304             \* r^3 / 6
         IN  (ExpTab[k + 1] * (One - r15 + q - c)) \div One

(***************************************************************************)
(* Ln15(s) ~ 2^15 * ln(s / 2^15)  for 2^15 <= s <= 2^18 (i.e. 1 <= x <= 8):*)
(* halve until x < 2, then ln x = 2 atanh y, y = (x-1)/(x+1) < 1/3, by the *)
(* odd series up to y^9 (remainder < 10^-6).  Floors: y (error < 1, which  *)
(* d ln/dy <= 2.25 turns into < 2.25), four higher terms (< 1 each, plus   *)
(* the propagated error of y, negligible), the halvings (< 1/2 each,       *)
(* relative 2^-16, i.e. < 1 unit).  Doubled:                               *)
(*        | Ln15(s) - 2^15 ln(s/2^15) |  <=  LnErr = 16   (units 2^-15).   *)
(***************************************************************************)
Ln2 == 22713            \* round(2^15 ln 2) = 22713.05
LnErr == 16
LnM(m) ==               \* 2^15 <= m < 2^16
    LET y == ((m - One) * One) \div (m + One)
        y2 == (y * y) \div One
        y3 == (y2 * y) \div One
        y5 == (y3 * y2) \div One
        y7 == (y5 * y2) \div One
        y9 == (y7 * y2) \div One
    IN  2 * (y + y3 \div 3 + y5 \div 5 + y7 \div 7 + y9 \div 9)
Ln15(s) ==
    IF s < 2 * One THEN LnM(s)
    ELSE IF s < 4 * One THEN Ln2 + LnM(s \div 2)
    ELSE IF s < 8 * One THEN 2 * Ln2 + LnM(s \div 4)
    ELSE 3 * Ln2 + LnM(s \div 8)

(* ln k for the starting objective n ln k, k = 2..4, enclosed in units 2^-15 *)
LnKLo(k) == CASE k = 2 -> 22713 [] k = 3 -> 35999 [] k = 4 -> 45426      \* floor
LnKHi(k) == CASE k = 2 -> 22714 [] k = 3 -> 36000 [] k = 4 -> 45427      \* ceiling

(***************************************************************************)
(* Power of two and guarded rescaling between fixed-point units.           *)
(***************************************************************************)
RECURSIVE Pow2(_)
Pow2(i) == IF i <= 0 THEN 1 ELSE 2 * Pow2(i - 1)

(* floor(v / 2^s) without forming 2^s when it would not fit 32 bits (|v| < 2^31) *)
Shr(v, s) == IF s >= 31 THEN (IF v < 0 THEN 0 - 1 ELSE 0) ELSE v \div Pow2(s)

(* v in units 2^-from, result in units 2^-to, from >= to: floor division   *)
(* (error < 1 unit of the result).                                         *)
Down(v, from, to) == Shr(v, from - to)
=============================================================================
