---------------------------- MODULE LogisticTrace ----------------------------
(***************************************************************************)
(* C09 trace validation (impl -> spec) for LogisticRegression.  Consumes   *)
(* the ndjson file written by `c09 gen-logit`: one LogitFit event per call *)
(* of fit + predict on a generated training set.  For every event          *)
(*   step 0        Fits, Shape, Labels, Argmax are decided at once;        *)
(*   steps 1..n    the training rows are folded one per TLC step into the  *)
(*                 accumulator of Logistic.tla (gradient, its proved error,*)
(*                 the exact gradient at zero, objective, its error);      *)
(*   step n+1      Stationary (alpha > 0) and Objective (alpha >= 0) are   *)
(*                 decided from the accumulator.                           *)
(* The spec never blocks: a failing clause is printed as                   *)
(*     <<"BAD", line, run, "LogitFit", clause>>                            *)
(* and the next clause / event is looked at.                               *)
(* Clause names: Fits, Shape, Finite, Labels, Argmax, Stationary,          *)
(* Objective                                                               *)
(* (property) and HarnessInput (the generator broke its own promises: a    *)
(* tool error, not a violation).                                           *)
(* Events whose numbers do not fit the 32-bit fixed-point budget are not   *)
(* judged by the numerical clauses; they are counted (hits Unscorable,     *)
(* GradUnscorable, ObjUnscorable).                                         *)
(***************************************************************************)
EXTENDS Logistic, TLC, Json, IOUtils

CONSTANT StatBits,      \* Stationary: |g|_inf <= 2^-StatBits |g(0)|_inf (+ enclosure)
         Verbose        \* print one INFO line per judged event (the numbers behind the verdict)

Rec == ndJsonDeserialize(IOEnv.TRACE)

VARIABLES l, ri, acc, nbad, hits
vars == <<l, ri, acc, nbad, hits>>

Bad(e, clause) == PrintT(<<"BAD", l, e.run, e.ev, clause>>)

HitNames == {"Fit", "Labels", "Argmax", "ArgmaxDecidedRows", "Unscorable", "LongBatch", "LongTraining",
             "Stationary", "StationarySharp", "StationaryLoose", "GradUnscorable", "Alpha0",
             "Objective", "ObjectiveSharp", "ObjUnscorable"}
Add(h, name, d) == [h EXCEPT ![name] = @ + d]
NoAcc == [G |-> <<>>, T |-> <<>>, N |-> <<>>, F |-> 0, TF |-> 0, huge |-> FALSE]

(* the clauses decided without the fold; each yields the set of failing clause names *)
HeadFails(e) ==
    IF ~InputOK(e) THEN {"HarnessInput"}
    ELSE IF e.status # "ok" THEN {"Fits"}
    ELSE IF ~ShapeOK(e) THEN {"Shape"}
    ELSE IF ~FiniteOK(e) THEN {"Finite"}
    ELSE (IF LabelsOK(e) THEN {} ELSE {"Labels"})
         \cup (IF Scorable(e) /\ ~ArgmaxOK(e) THEN {"Argmax"} ELSE {})
Judged(e) == InputOK(e) /\ e.status = "ok" /\ ShapeOK(e) /\ FiniteOK(e)

TailFails(e, a) ==
    (IF e.alphaNum > 0 /\ GradScorable(e) /\ ~StationaryFrom(e, a, StatBits) THEN {"Stationary"} ELSE {})
    \cup (IF ObjScorable(e) /\ ~ObjectiveFrom(e, a) THEN {"Objective"} ELSE {})

PrintAll(e, fs) == \A c \in fs : Bad(e, c)

(* the numbers behind the verdict of one event: k|g(0)| (units 2^-xS), the largest      *)
(* |gradient coordinate| and the largest proved error (units 2^-(11+xS)), objective,     *)
(* penalty, their error and the starting objective (units 2^-12)                         *)
Info(e, a) ==
    IF ~Verbose THEN TRUE ELSE PrintT(<<"INFO", ToJson(
        [run |-> e.run, n0 |-> Norm0(e, a),
         gmax |-> MaxT([t \in 1..NCoord(e) |-> Abs(GradAt(e, a, t))], NCoord(e)),
         tolmax |-> MaxT([t \in 1..NCoord(e) |-> GradTol(e, a, t)], NCoord(e)),
         F |-> a.F, pen |-> IF ObjScorable(e) THEN Pen(e) ELSE 0 - 1, TF |-> a.TF,
         penT |-> IF ObjScorable(e) THEN PenT(e) ELSE 0 - 1, F0 |-> F0Hi(e)])>>)

EvHead ==
    LET e == Rec[l]
        fs == HeadFails(e)
    IN  /\ ri = 0
        /\ PrintAll(e, fs)
        /\ nbad' = nbad + Cardinality(fs)
        /\ IF Judged(e) /\ Scorable(e)
           THEN /\ ri' = 1 /\ acc' = AccInit(e) /\ l' = l
                /\ hits' = Add(Add(Add(Add(Add(Add(hits, "Fit", 1), "Labels", 1), "Argmax", 1),
                               "ArgmaxDecidedRows", ArgmaxDecided(e)),
                               "LongBatch", IF Len(e.Q) > 256 THEN 1 ELSE 0),
                               "LongTraining", IF e.n > 128 THEN 1 ELSE 0)
           ELSE /\ ri' = 0 /\ acc' = NoAcc /\ l' = l + 1
                /\ hits' = IF Judged(e) THEN Add(Add(Add(hits, "Fit", 1), "Labels", 1), "Unscorable", 1)
                           ELSE hits

EvRow ==
    LET e == Rec[l] IN
    /\ ri \in 1..e.n
    /\ acc' = AccRow(e, acc, ri)
    /\ ri' = ri + 1
    /\ UNCHANGED <<l, nbad, hits>>

EvTail ==
    LET e == Rec[l]
        fs == TailFails(e, acc)
        h1 == IF e.alphaNum = 0 THEN Add(hits, "Alpha0", 1)
              ELSE IF ~GradScorable(e) THEN Add(hits, "GradUnscorable", 1)
              ELSE Add(Add(hits, "Stationary", 1),
                       IF SharpFrom(e, acc) THEN "StationarySharp" ELSE "StationaryLoose", 1)
        h2 == IF ~ObjScorable(e) THEN Add(h1, "ObjUnscorable", 1)
              ELSE Add(Add(h1, "Objective", 1), "ObjectiveSharp", IF ObjSharpFrom(e, acc) THEN 1 ELSE 0)
    IN  /\ ri = e.n + 1
        /\ Info(e, acc)
        /\ PrintAll(e, fs)
        /\ nbad' = nbad + Cardinality(fs)
        /\ hits' = h2
        /\ ri' = 0 /\ acc' = NoAcc /\ l' = l + 1

Init == l = 1 /\ ri = 0 /\ acc = NoAcc /\ nbad = 0 /\ hits = [x \in HitNames |-> 0]
Next == l <= Len(Rec) /\ (EvHead \/ EvRow \/ EvTail)
Spec == Init /\ [][Next]_vars

AtEnd == (l = Len(Rec) + 1) =>
            PrintT(<<"VERDICT", ToJson([consumed |-> l - 1, bad |-> nbad, hits |-> hits])>>)
=============================================================================
