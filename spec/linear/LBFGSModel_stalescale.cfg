\* Negative test: when the first curvature update is skipped (dx.dg = 0) the next two_loops
\* takes its initial scaling from the history slot that was never written.  TLC must find it.
CONSTANTS MaxIter = 3  Hist = 2  FTop = 2  GTop = 2  AtolLv = 1  SuccFTol = 1
          MaxLs = 3  MaxInf = 1  AMax = 3  InfTop = 1  Convex = TRUE  RedBits = 10
SPECIFICATION Spec
INVARIANT NeverScalesByInitialSlot
CHECK_DEADLOCK FALSE
