------------------------------ MODULE Logistic ------------------------------
(***************************************************************************)
(* C09, part 3: the contracts of LogisticRegression::fit / predict.        *)
(*                                                                         *)
(* Property text (properties.jsonl, C09):                                  *)
(*  (a) "logistic regression returns coefficients and intercepts at which  *)
(*       the gradient of the penalised negative log-likelihood (sigmoid    *)
(*       model for two classes, softmax model with one weight vector per   *)
(*       class otherwise, intercepts unpenalised) is negligible compared   *)
(*       with its size at the all-zero starting point"   (alpha > 0)       *)
(*  (b) "for alpha >= 0 the final objective never exceeds the starting     *)
(*       objective"                                                        *)
(*  (c) "Predicted labels are original label values and equal the arg-max  *)
(*       (two classes: sign) of the fitted linear scores."                 *)
(*                                                                         *)
(* One recorded event (`LogitFit`) describes one call of fit followed by   *)
(* predict, in integers only:                                              *)
(*   n, p, k        rows, features, classes (k distinct labels)            *)
(*   labels2[1..k]  integer codes of the k distinct label values, ascending*)
(*                  (twice the value when all labels are half-integers,    *)
(*                  otherwise the rank 1..k: labels may be arbitrary       *)
(*                  floats, e.g. one ulp apart or scaled by 2^200; the     *)
(*                  exact values travel in labelBits / labelStr)           *)
(*   yc[1..n]       class index (1..k) of every training row               *)
(*   X[1..n][1..p]  features as integers, x = X / 2^xS   (exact)           *)
(*   Q[1..m][1..p]  query rows (the training rows and some fresh ones)     *)
(*   alphaNum, alphaS   alpha = alphaNum / 2^alphaS       (exact)          *)
(*   coef[1..k'][1..p]  fitted coefficients, column j rounded to           *)
(*                  round(w * 2^wS[j]);  k' = 1 for two classes, else k    *)
(*   icept[1..k']   fitted intercepts rounded to round(b * 2^bS)           *)
(*   coefRows, coefCols, iceptLen   the shape of what fit returned         *)
(*   wFin           all coefficients and intercepts are finite numbers     *)
(*   wOk            ... and below 2^15 after scaling (else coef, icept are *)
(*                  empty and the event is not judged numerically)         *)
(*   pred2[1..m]    for every query row the code of the training label the *)
(*                  prediction equals bit for bit, or a code that is no    *)
(*                  label's; predOk: all predictions are finite            *)
(*                                                                         *)
(* Conventions about the returned model that the statement leaves          *)
(* implicit and that are ASSUMED here (they are the documented meaning of  *)
(* `coefficients()` / `intercept()`): for k > 2 row c belongs to the c-th  *)
(* smallest label; for k = 2 the single row is the score of the LARGER     *)
(* label (positive score <=> larger label).                                *)
(*                                                                         *)
(* (c) is decided exactly up to the rounding of the recorded coefficients: *)
(* a row whose two best scores are closer than the rounding uncertainty    *)
(* may be given either label.                                              *)
(* (a) and (b) contain exp and ln.  They are decided only COARSELY, with   *)
(* the integer enclosures of LogisticNum.tla: the contract is rejected     *)
(* only if it fails by more than the enclosure's proved width, which is    *)
(* about 2^-9 of the gradient at zero (resp. 2^-9 of the objective at      *)
(* zero).  A gradient that is 10^-4 of the starting gradient is therefore  *)
(* indistinguishable from 10^-9 -- but a fit that stopped after a couple   *)
(* of iterations, penalised its intercept, dropped the penalty from the    *)
(* gradient, mixed up class rows or went uphill is not.                    *)
(***************************************************************************)
EXTENDS LogisticNum, FiniteSets

Range(s) == { s[i] : i \in DOMAIN s }

RECURSIVE SumT(_, _)
SumT(t, n) == IF n = 0 THEN 0 ELSE t[n] + SumT(t, n - 1)
RECURSIVE MaxT(_, _)
MaxT(t, n) == IF n = 1 THEN t[1] ELSE LET m == MaxT(t, n - 1) IN IF t[n] > m THEN t[n] ELSE m
(* force a function on 1..n into an explicit tuple (each element evaluated once) *)
RECURSIVE Tup(_, _)
Tup(f, n) == IF n = 0 THEN <<>> ELSE Append(Tup(f, n - 1), f[n])

(***************************************************************************)
(* Shape of the event and the magnitude budget of the 32-bit evaluation.   *)
(***************************************************************************)
Rows(e) == IF e.k = 2 THEN 1 ELSE e.k          \* k': rows of coef / icept

InputOK(e) ==      \* what the generator promises (anything else is a harness error)
    /\ e.k \in 2..4 /\ e.p \in 1..6 /\ e.n \in 1..600
    /\ Len(e.labels2) = e.k /\ \A c \in 1..(e.k - 1) : e.labels2[c] < e.labels2[c + 1]
    /\ Len(e.yc) = e.n /\ Len(e.X) = e.n
    /\ \A i \in 1..e.n : e.yc[i] \in 1..e.k /\ Len(e.X[i]) = e.p
    /\ \A c \in 1..e.k : \E i \in 1..e.n : e.yc[i] = c         \* every class occurs
    /\ \A i \in 1..Len(e.Q) : Len(e.Q[i]) = e.p
    /\ e.xS \in 0..12 /\ e.alphaS \in 0..10 /\ e.alphaNum \in 0..1024
    /\ \A i \in 1..e.n : \A j \in 1..e.p : Abs(e.X[i][j]) <= 4096
    (* the sums over the rows stay within 32 bits: n * max|X| <= 128 * 4096 (long training *)
    (* sets come with small features)                                                     *)
    /\ \A i \in 1..e.n : \A j \in 1..e.p : Abs(e.X[i][j]) * e.n <= 524288
    /\ \A i \in 1..Len(e.Q) : \A j \in 1..e.p : Abs(e.Q[i][j]) <= 4096

ShapeOK(e) ==      \* fit returned a model of the right shape, predict one label per query
    /\ e.coefRows = Rows(e) /\ e.coefCols = e.p /\ e.iceptLen = Rows(e)
    /\ (e.predOk => Len(e.pred2) = Len(e.Q))
FiniteOK(e) == e.wFin     \* ... made of numbers: at a NaN model no objective value is "not above the start"
RecordedOK(e) ==   \* the fixed-point copy of the model is present
    /\ e.wOk
    /\ Len(e.coef) = Rows(e) /\ Len(e.icept) = Rows(e) /\ Len(e.wS) = e.p
    /\ \A c \in 1..Rows(e) : Len(e.coef[c]) = e.p

(* the linear scores can be evaluated within 32 bits at 2^-12 resolution *)
Scorable(e) ==
    /\ RecordedOK(e) /\ e.predOk
    /\ e.bS \in 0..30
    /\ \A j \in 1..e.p : e.wS[j] \in 0..30 /\ e.wS[j] + e.xS >= 12
    /\ \A c \in 1..Rows(e) : Abs(e.icept[c]) < One /\ \A j \in 1..e.p : Abs(e.coef[c][j]) < One
(* ... and so can alpha*w in gradient units 2^-(11+xS); the coefficients are recorded  *)
(* finely enough (2^-16 of a feature unit) for the error sums to stay within 32 bits   *)
GradScorable(e) == \A j \in 1..e.p : e.alphaS + e.wS[j] - 11 - e.xS >= 0 - 5 /\ e.wS[j] + e.xS >= 16
(* ... and alpha/2 w^2 in objective units 2^-12 *)
ObjScorable(e) == e.alphaNum = 0 \/ (e.alphaS = 6 /\ \A j \in 1..e.p : e.wS[j] >= 10)

(***************************************************************************)
(* Linear scores, units 2^-12.  Class c of a two-class model: score 0 for  *)
(* c = 1 (smaller label), w.x + b for c = 2.                               *)
(***************************************************************************)
CoefRow(e, c) == IF e.k = 2 THEN e.coef[1] ELSE e.coef[c]
IceptOf(e, c) == IF e.k = 2 THEN e.icept[1] ELSE e.icept[c]

RECURSIVE Dot12(_, _, _, _)
Dot12(e, w, x, j) ==
    IF j = 0 THEN 0 ELSE Down(w[j] * x[j], e.wS[j] + e.xS, 12) + Dot12(e, w, x, j - 1)
B12(e, b) == IF e.bS >= 12 THEN Down(b, e.bS, 12) ELSE b * Pow2(12 - e.bS)
Score(e, x, c) == IF e.k = 2 /\ c = 1 THEN 0
                  ELSE Dot12(e, CoefRow(e, c), x, e.p) + B12(e, IceptOf(e, c))
Scores(e, x) ==     \* an explicit k-tuple
    CASE e.k = 2 -> <<0, Score(e, x, 2)>>
      [] e.k = 3 -> <<Score(e, x, 1), Score(e, x, 2), Score(e, x, 3)>>
      [] e.k = 4 -> <<Score(e, x, 1), Score(e, x, 2), Score(e, x, 3), Score(e, x, 4)>>

(* Uncertainty of one score (units 2^-12) caused by the rounding of the recorded        *)
(* coefficients (half a unit of 2^-wS[j] each, times |x_j|), of the intercept, and by   *)
(* the floors of Dot12 / B12 (one unit per term).                                       *)
RECURSIVE EZsum(_, _, _)
EZsum(e, x, j) ==
    IF j = 0 THEN 0
    ELSE Shr(Abs(x[j]) * 4096, e.wS[j] + e.xS + 1) + 2 + EZsum(e, x, j - 1)
EZ(e, x) == EZsum(e, x, e.p) + Shr(4096, e.bS + 1) + 2

(***************************************************************************)
(* (c)  Predicted labels.                                                  *)
(***************************************************************************)
LabelsOK(e) == e.predOk /\ \A i \in 1..Len(e.pred2) : e.pred2[i] \in Range(e.labels2)

(* classes whose score is within the uncertainty of the best one *)
NearMax(zs, k, tol) == LET mx == MaxT(zs, k) IN { c \in 1..k : zs[c] >= mx - tol }
RowArgmaxOK(e, x, lab2, zs, tol) == \E c \in NearMax(zs, e.k, tol) : e.labels2[c] = lab2
ArgmaxOK(e) ==
    \A i \in 1..Len(e.Q) : RowArgmaxOK(e, e.Q[i], e.pred2[i], Scores(e, e.Q[i]), 2 * EZ(e, e.Q[i]))
(* measurement: number of query rows on which the arg-max is unique beyond the tolerance *)
ArgmaxDecided(e) ==
    Cardinality({ i \in 1..Len(e.Q) :
                    Cardinality(NearMax(Scores(e, e.Q[i]), e.k, 2 * EZ(e, e.Q[i]))) = 1 })

(***************************************************************************)
(* Soft-max of a score tuple.  es[c] ~ 2^15 e^(z_c - max z), S = sum,      *)
(* pr[c] ~ 2^11 p_c.   (Two classes: p_2 = sigmoid(z).)                    *)
(* Error of pr[c] in units 2^-11:                                          *)
(*   from the scores: soft-max is 1/2-Lipschitz in the max norm, the       *)
(*     scores are uncertain by EZ (units 2^-12)        ->  EZ/4            *)
(*   from ExpNeg: | d(e_c / S) | <= (err_c + p_c sum_m err_m) / S          *)
(*     <= (3 + 4*3) / 2^15, in units 2^-11: 15/16 < 1;  floor of the       *)
(*     division: 1                                         ->  2           *)
(***************************************************************************)
ExpT(zs, k, mx) ==
    CASE k = 2 -> <<ExpNeg(mx - zs[1]), ExpNeg(mx - zs[2])>>
      [] k = 3 -> <<ExpNeg(mx - zs[1]), ExpNeg(mx - zs[2]), ExpNeg(mx - zs[3])>>
      [] k = 4 -> <<ExpNeg(mx - zs[1]), ExpNeg(mx - zs[2]), ExpNeg(mx - zs[3]), ExpNeg(mx - zs[4])>>
ProbT(es, k, S) ==
    CASE k = 2 -> <<(es[1] * 2048) \div S, (es[2] * 2048) \div S>>
      [] k = 3 -> <<(es[1] * 2048) \div S, (es[2] * 2048) \div S, (es[3] * 2048) \div S>>
      [] k = 4 -> <<(es[1] * 2048) \div S, (es[2] * 2048) \div S, (es[3] * 2048) \div S, (es[4] * 2048) \div S>>
EP(ez) == ez \div 4 + 1 + 2

(***************************************************************************)
(* Accumulation over the training rows.  The gradient has one coordinate   *)
(* per free class and per feature, plus one per free class for the         *)
(* intercept.  Free classes: all k for the soft-max model; class 2 only    *)
(* for the sigmoid model.  Coordinates are numbered                        *)
(*      t = (ci - 1) (p + 1) + j ,  j = p + 1 being the intercept.         *)
(*   G[t]   sum_i (pr_i[c] - [y_i = c] 2^11) xe_ij     units 2^-(11+xS)    *)
(*   T[t]   sum_i EP_i |xe_ij|                         proved error of G[t]*)
(*   N[t]   sum_i (1 - k [y_i = c]) xe_ij              k times the exact   *)
(*          gradient at the all-zero start (p = 1/k there), units 2^-xS    *)
(*   F      sum_i -ln p_i[y_i] = sum_i ln S_i + (max z_i - z_i[y_i])       *)
(*          units 2^-12;  TF its proved error; huge: some term alone       *)
(*          exceeds 1024, or the sum 244 000: more than any n ln k, n<=600 *)
(* where xe_ij = X[i][j] for a feature and 2^xS (i.e. 1) for the intercept.*)
(***************************************************************************)
NFree(e) == IF e.k = 2 THEN 1 ELSE e.k
ClassOf(e, ci) == IF e.k = 2 THEN 2 ELSE ci
NCoord(e) == NFree(e) * (e.p + 1)
TC(e, t) == ClassOf(e, ((t - 1) \div (e.p + 1)) + 1)
TJ(e, t) == ((t - 1) % (e.p + 1)) + 1
XE(e, x, j) == IF j = e.p + 1 THEN Pow2(e.xS) ELSE x[j]

AccInit(e) == [G |-> [t \in 1..NCoord(e) |-> 0], T |-> [t \in 1..NCoord(e) |-> 0],
               N |-> [t \in 1..NCoord(e) |-> 0], F |-> 0, TF |-> 0, huge |-> FALSE]

(* all intermediates are passed as arguments so that TLC evaluates them once *)
AccRow5(e, acc, x, y, zs, ez, mx, es, S, pr) ==
    LET L == NCoord(e)
        dz == mx - zs[y]
    IN  [G |-> Tup([t \in 1..L |-> acc.G[t]
                        + (pr[TC(e, t)] - (IF y = TC(e, t) THEN 2048 ELSE 0)) * XE(e, x, TJ(e, t))], L),
         T |-> Tup([t \in 1..L |-> acc.T[t] + EP(ez) * Abs(XE(e, x, TJ(e, t)))], L),
         N |-> Tup([t \in 1..L |-> acc.N[t]
                        + (1 - (IF y = TC(e, t) THEN e.k ELSE 0)) * XE(e, x, TJ(e, t))], L),
         F |-> IF acc.huge \/ dz > 4194304 \/ acc.F > 1000000000 THEN acc.F
               ELSE acc.F + Down(Ln15(S), 15, 12) + dz,
         TF |-> acc.TF + 2 * ez + 5,     \* 2 ez: -ln p_y is 2-Lipschitz in the scores; 5: ExpNeg, Ln15, floors
         huge |-> (acc.huge \/ dz > 4194304 \/ acc.F > 1000000000)]
AccRow4(e, acc, x, y, zs, ez, mx, es) == AccRow5(e, acc, x, y, zs, ez, mx, es, SumT(es, e.k), ProbT(es, e.k, SumT(es, e.k)))
AccRow3(e, acc, x, y, zs, ez, mx) == AccRow4(e, acc, x, y, zs, ez, mx, ExpT(zs, e.k, mx))
AccRow2(e, acc, x, y, zs) == AccRow3(e, acc, x, y, zs, EZ(e, x), MaxT(zs, e.k))
AccRow(e, acc, i) == AccRow2(e, acc, e.X[i], e.yc[i], Scores(e, e.X[i]))

RECURSIVE AccAll(_, _)          \* pure-function form (small n only; the trace spec steps row by row)
AccAll(e, i) == IF i = 0 THEN AccInit(e) ELSE AccRow(e, AccAll(e, i - 1), i)

(***************************************************************************)
(* (a)  Stationarity, coarse.                                              *)
(* Penalty part of coordinate (c, j), j <= p:  alpha w_cj in gradient      *)
(* units, with its rounding uncertainty.  Intercepts are NOT penalised.    *)
(***************************************************************************)
AlphaTerm(e, c, j) ==
    LET v == e.alphaNum * CoefRow(e, c)[j]
        s == e.alphaS + e.wS[j] - 11 - e.xS
    IN  IF s >= 0 THEN Shr(v, s) ELSE v * Pow2(0 - s)
AlphaTol(e, j) ==
    LET s == e.alphaS + e.wS[j] + 1 - 11 - e.xS
    IN  (IF s >= 0 THEN Shr(e.alphaNum, s) ELSE e.alphaNum * Pow2(0 - s)) + 2

GradAt(e, acc, t) == acc.G[t] + (IF TJ(e, t) <= e.p THEN AlphaTerm(e, TC(e, t), TJ(e, t)) ELSE 0)
GradTol(e, acc, t) == acc.T[t] + (IF TJ(e, t) <= e.p THEN AlphaTol(e, TJ(e, t)) ELSE 0)
(* k * |gradient at zero|_inf in units 2^-xS *)
Norm0(e, acc) == MaxT([t \in 1..NCoord(e) |-> Abs(acc.N[t])], NCoord(e))

(* |g_t| - tol  <=  2^-bits |g(0)|_inf , in units 2^-(11+xS), both sides divided by 8:   *)
(*   (|G_t| - T_t) / 8 * k  <=  (k |g0| 2^xS) 2^11 / 8 / 2^bits                            *)
(* (floor on the left and +1 on the right keep the inequality on the permissive side)    *)
CoordOK(e, acc, t, n0, bits) ==
    ((Abs(GradAt(e, acc, t)) - GradTol(e, acc, t)) \div 8) * e.k <= (n0 * 256) \div Pow2(bits) + 1
StationaryFrom(e, acc, bits) ==
    LET n0 == Norm0(e, acc) IN \A t \in 1..NCoord(e) : CoordOK(e, acc, t, n0, bits)
(* measurement: the enclosure is narrow enough to reject a gradient of 1/32 of the start *)
SharpFrom(e, acc) ==
    LET n0 == Norm0(e, acc) IN
    \A t \in 1..NCoord(e) : (GradTol(e, acc, t) \div 8) * e.k <= n0 * 4

(***************************************************************************)
(* (b)  Objective, coarse:  F(w) + alpha/2 |w|^2  <=  n ln k  (+ enclosure)*)
(***************************************************************************)
RECURSIVE PenSum(_, _, _)       \* alpha/2 sum w^2 over coordinates 1..u of the flattened coef, units 2^-12
PenSum(e, c, j) ==
    IF c = 0 THEN 0
    ELSE IF j = 0 THEN PenSum(e, c - 1, e.p)
    ELSE LET w == e.coef[c][j]
         IN  Down(e.alphaNum * ((w * w) \div One), 2 * e.wS[j] - 8, 12) + PenSum(e, c, j - 1)
RECURSIVE PenTol(_, _, _)
PenTol(e, c, j) ==
    IF c = 0 THEN 0
    ELSE IF j = 0 THEN PenTol(e, c - 1, e.p)
    ELSE Down(e.alphaNum * (Abs(e.coef[c][j]) + 1), 2 * e.wS[j] + 7, 12)
         + Down(e.alphaNum, 2 * e.wS[j] - 8, 12) + 3 + PenTol(e, c, j - 1)
Pen(e) == IF e.alphaNum = 0 THEN 0 ELSE PenSum(e, Rows(e), e.p)
PenT(e) == IF e.alphaNum = 0 THEN 0 ELSE PenTol(e, Rows(e), e.p)

F0Hi(e) == (e.n * LnKHi(e.k)) \div 8 + 1          \* n ln k, rounded up, units 2^-12
ObjectiveFrom(e, acc) == ~acc.huge /\ acc.F + Pen(e) - (acc.TF + PenT(e)) <= F0Hi(e)
ObjSharpFrom(e, acc) == (acc.TF + PenT(e)) * 16 <= F0Hi(e)
=============================================================================
