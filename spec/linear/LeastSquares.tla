---------------------------- MODULE LeastSquares ----------------------------
(***************************************************************************)
(* C07 -- ordinary least squares and ridge regression return the exact     *)
(* minimiser of their objective.  Contract specification (kind B).         *)
(*                                                                         *)
(* The property is a statement about the vector (w, b) a fit returns:      *)
(*                                                                         *)
(*   OLS      r = y - X w - b  satisfies   X^T r = 0   and   sum(r) = 0    *)
(*            (first-order conditions of ||y - Xw - b||^2; X has full      *)
(*            column rank, so they characterise the unique minimiser);     *)
(*            the QR and the SVD solver return the same (w, b).            *)
(*   Ridge    normalisation off:  X^T (y - X w) = alpha w   and   b = 0;   *)
(*            normalisation on :  with mu_j, sigma_j^2 the exact           *)
(*            (population) column moments,                                 *)
(*                (X_j - mu_j)^T r = alpha w_j sigma_j^2   for all j,      *)
(*                sum(r) = 0,                                              *)
(*            which is the gradient of                                     *)
(*                || y - Z v - b ||^2 + alpha ||v||^2 ,  Z = (X-mu)/sigma  *)
(*            at v_j = w_j sigma_j multiplied through by sigma_j, so that  *)
(*            no square root enters;  Cholesky and SVD solvers agree.      *)
(*   Both     predict(X)_i = X_i . w + b.                                  *)
(*                                                                         *)
(* ENCODING.  X and y are integers (the harness feeds X_j * 2^cexp[j] and  *)
(* y * 2^yexp to the library and undoes these exact power-of-two scalings  *)
(* on the outputs, so the specification only ever sees the integer         *)
(* problem).  Coefficients, intercept and predictions are fixed point:     *)
(* W = round(w 2^S) etc., S is a field of the event.  All quantities below *)
(* are in units of 2^-S.                                                   *)
(*                                                                         *)
(* TOLERANCE CALCULUS.  For an integer vector c (a column of X, the ones   *)
(* vector, a centred column) and the scaled residual                       *)
(*      R_i = y_i 2^S - sum_k X_ik W_k - B                                 *)
(* the exact value of c . R differs from 2^S (c . r) by at most            *)
(*      sum_i |c_i| (sum_k |X_ik| + 1) / 2        (each W_k, B is off by   *)
(* at most half a unit).  On top of that the floating-point solver is      *)
(* allowed the backward error of a stable algorithm: a relative 2^-K of    *)
(* the magnitudes that enter the sum,  sum_i |c_i| M_i  with               *)
(*      M_i = |y_i| 2^S + sum_k |X_ik| |W_k| + |B| ,                       *)
(* where 2^-K is a generous multiple (about 2^10) of the unit round-off:   *)
(* K = 14 for f32 ("f32 with scaled tolerance"); for f64 (K = 40) the term *)
(* is below one unit for every admitted magnitude and one unit is granted. *)
(* A deviation of the coefficients that changes X^T r by more than this    *)
(* (wrong pivot, sign, index, missing back-transformation, intercept not   *)
(* recovered, alpha applied to the wrong scale ...) is rejected; the loss  *)
(* of a few digits is not visible.                                         *)
(*                                                                         *)
(* TLC integers are 32 bit: the harness only emits events for which every  *)
(* intermediate of the operators below stays under 2^30 (it lowers S until *)
(* this holds) -- an overflow would make TLC stop with an error, it can    *)
(* never produce a wrong verdict.                                          *)
(***************************************************************************)
EXTENDS Integers, Sequences, SequencesExt

\* ---------------------------------------------------------------- helpers
LsAbs(a) == IF a < 0 THEN -a ELSE a

RECURSIVE LsP2(_)
LsP2(k) == IF k <= 0 THEN 1 ELSE 2 * LsP2(k - 1)

\* sum of an integer sequence (SequencesExt!FoldLeft: linear time, no deep recursion --
\* the size-ladder events have a thousand rows)
LsSum(s) == FoldLeft(LAMBDA a, b : a + b, 0, s)

LsDot(a, b)    == LsSum([k \in 1..Len(a) |-> a[k] * b[k]])
LsAbsDot(a, b) == LsSum([k \in 1..Len(a) |-> LsAbs(a[k]) * LsAbs(b[k])])
LsAbsSum(s)    == LsSum([k \in 1..Len(s) |-> LsAbs(s[k])])
LsCol(X, j)    == [i \in 1..Len(X) |-> X[i][j]]
LsOnes(n)      == [i \in 1..n |-> 1]
LsNCols(X)     == Len(X[1])

\* floor(a * b / c) for b >= 0, c > 0 without forming a * b  (|a| may be large, b and c small)
LsMulDiv(a, b, c) == (a \div c) * b + ((a % c) * b) \div c

\* ------------------------------------------------- exact column moments
LsColSum(X, j)  == LsSum(LsCol(X, j))
LsColSq(X, j)   == LsDot(LsCol(X, j), LsCol(X, j))
\* n^2 * (population variance of column j): an integer
LsVarN2(X, j)   == Len(X) * LsColSq(X, j) - LsColSum(X, j) * LsColSum(X, j)
\* n * (X_ij - mu_j): the centred column, an integer vector
LsCentredWith(X, j, s) == [i \in 1..Len(X) |-> Len(X) * X[i][j] - s]     \* s as an argument: evaluated once
LsCentred(X, j) == LsCentredWith(X, j, LsColSum(X, j))

\* ------------------------------------------------- residual and magnitudes
LsResid(X, y, W, B, S) == [i \in 1..Len(X) |-> y[i] * LsP2(S) - LsDot(X[i], W) - B]
LsMag(X, y, W, B, S)   == [i \in 1..Len(X) |-> LsAbs(y[i]) * LsP2(S) + LsAbsDot(X[i], W) + LsAbs(B)]
\* twice the quantisation error of R_i
LsQ2(X)                == [i \in 1..Len(X) |-> LsAbsSum(X[i]) + 1]

\* admissible floating-point backward error for a sum whose terms have total magnitude m
\* f32: 2^-14 of the magnitude; f64: 2^-40 of a magnitude that is below 2^30 units, i.e.
\* always less than one unit, so one unit is granted without forming 2^40 (32-bit TLC).
LsFloatSlack(prec, m) == IF prec = "f32" THEN m \div LsP2(14) + 1 ELSE 1
\* the same for a magnitude given as a product a * b (a large, 0 <= b small)
LsFloatSlackMul(prec, a, b) == IF prec = "f32" THEN LsMulDiv(a, b, LsP2(14)) + 1 ELSE 1

\* Norm-wise magnitude of the whole system, NM = sum_i (sum_k |X_ik| + 1) M_i.  The SVD
\* based solvers are backward stable only norm-wise (the perturbation of one column is
\* bounded by u ||X||, not by u times that column), so the f32 allowance of *every*
\* component of the first-order conditions is taken relative to NM, not to the
\* magnitudes of that component alone.
LsNormMag(Q2, M) == LsAbsDot(Q2, M)

\* tolerance for  c . R = (something exact): quantisation of W, B + floating-point allowance
LsOrthTol(c, Q2, NM, prec) == (LsAbsDot(c, Q2) + 1) \div 2 + LsFloatSlack(prec, NM)

\* ------------------------------------------------- OLS
\* first-order conditions; R, NM, Q2 are passed in so that TLC evaluates them once
OlsNormalEq(X, R, NM, Q2, prec) ==
    \A j \in 1..LsNCols(X) :
        LET c == LsCol(X, j) IN LsAbs(LsDot(c, R)) <= LsOrthTol(c, Q2, NM, prec)

OlsSumZero(X, R, NM, Q2, prec) ==
    LET c == LsOnes(Len(X)) IN LsAbs(LsSum(R)) <= LsOrthTol(c, Q2, NM, prec)

\* ------------------------------------------------- predict
\* Yhat_i = X_i . W + B up to the quantisation of W, B and of Yhat itself
PredictIdentity(X, W, B, Yhat, M, Q2, prec) ==
    /\ Len(Yhat) = Len(X)
    /\ \A i \in 1..Len(X) :
          LsAbs(Yhat[i] - (LsDot(X[i], W) + B)) <= (Q2[i] + 2) \div 2 + LsFloatSlack(prec, M[i])

\* ------------------------------------------------- ridge
\* alpha = aN / 2^aE (exact in binary floating point).  floor(alpha * v):
LsAlphaMul(aN, aE, v) == (aN * v) \div LsP2(aE)
\* an upper bound of alpha (integer)
LsAlphaCeil(aN, aE)   == aN \div LsP2(aE) + 1

\* normalisation off:  X_j . R = alpha W_j  and  B = 0
RidgeRawGradient(X, W, R, NM, Q2, aN, aE, prec) ==
    \A j \in 1..LsNCols(X) :
        LET c == LsCol(X, j)
            rhs == LsAlphaMul(aN, aE, W[j])
            \* alpha * (half a unit of W_j) + the floor above + float error of alpha*w
            tolr == LsAlphaCeil(aN, aE) + 1 + LsFloatSlack(prec, LsAlphaCeil(aN, aE) * LsAbsSum(W))
        IN  LsAbs(LsDot(c, R) - rhs) <= LsOrthTol(c, Q2, NM, prec) + tolr

RidgeRawIntercept(B) == LsAbs(B) <= 1

\* normalisation on:  n (X_j - mu_j) . R  =  alpha W_j V_j / n   with V_j = n^2 sigma_j^2
\* (both sides are the first-order condition of the standardised problem times n sigma_j)
\* (f64 only: the harness records no f32 fits with normalisation, because the norm-wise f32
\* allowance of the standardised problem would need the ratios sigma_j / sigma_k)
RidgeStdGradient(X, W, R, NM, Q2, aN, aE, prec) ==
    \A j \in 1..LsNCols(X) :
        LET n  == Len(X)
            c  == LsCentred(X, j)
            V  == LsVarN2(X, j)
            aw == LsAlphaMul(aN, aE, W[j])
            rhs == LsMulDiv(aw, V, n)
            ac == LsAlphaCeil(aN, aE)
            \* errors of the right-hand side: (alpha/2 + 1) units of aw times V/n, one floor,
            \* and the error of the library's own variance estimate (one-pass formula:
            \* relative error ~ u * E[x^2] / sigma^2, i.e. alpha |w| u * sum x^2 in these units)
            tolr == LsMulDiv(ac + 1, V, n) + 2
                    + LsFloatSlackMul(prec, ac * LsAbs(W[j]) + 1, LsColSq(X, j))
        IN  /\ V > 0
            /\ LsAbs(LsDot(c, R) - rhs) <= LsOrthTol(c, Q2, NM, prec) + tolr

\* ------------------------------------------------- solver agreement
\* Two solvers applied to the same full-rank problem return the same minimiser.  For the
\* integer families the harness generates (documented there) the conditioning is such
\* that two backward-stable f64 solvers differ by far less than 2^-S; two units absorb
\* the rounding of the two quantisations.  Not demanded for f32 (the forward error
\* of an f32 solve is condition dependent; each f32 fit still has to satisfy its own
\* first-order conditions with the scaled tolerance).
Agree(W1, B1, W2, B2) ==
    /\ Len(W1) = Len(W2)
    /\ \A k \in 1..Len(W1) : LsAbs(W1[k] - W2[k]) <= 2
    /\ LsAbs(B1 - B2) <= 2

=============================================================================
