\* Negative test: without (E1) the code stores negative-curvature pairs, the two-loop
\* direction can point uphill and the Armijo test accepts an increase.  TLC must find it.
CONSTANTS MaxIter = 3  Hist = 2  FTop = 2  GTop = 2  AtolLv = 1  SuccFTol = 1
          MaxLs = 3  MaxInf = 1  AMax = 3  InfTop = 1  Convex = FALSE  RedBits = 10
SPECIFICATION Spec
INVARIANT ProtoOK
CHECK_DEADLOCK FALSE
