-------------------------- MODULE GradDescentTrace --------------------------
(***************************************************************************)
(* Trace validation (impl -> spec) for GradientDescent::optimize: consumes *)
(* the ndjson file written by `c09 gen-gd` (one Start, one Iter per step,  *)
(* one Stop per run of the real optimiser on a harness-supplied quadratic) *)
(* and evaluates the guards of GradDescent.tla in the protocol state       *)
(* reached so far.  Never blocks: a failing clause is printed as           *)
(*     <<"BAD", line, run, event, clause>>                                 *)
(* and the rest of that run is skipped.  Supplementary (no listed          *)
(* property): the C09 check reports BAD lines as EXTRA-SPEC information.   *)
(***************************************************************************)
EXTENDS GradDescent, Sequences, TLC, Json, IOUtils

Rec == ndJsonDeserialize(IOEnv.TRACE)

VARIABLES l, st, live, nbad, hits
vars == <<l, st, live, nbad, hits>>

Bad(e, clause) == PrintT(<<"BAD", l, e.run, e.ev, clause>>)

HitNames == {"Start", "Iter", "StopByTolerance", "StopByBudget", "StopAtStart", "Skipped"}
Bump(h, names) == [x \in HitNames |-> IF x \in names THEN h[x] + 1 ELSE h[x]]

IterFail(s, e) ==
    IF ~C_IterMonotone(s, e) THEN "Monotone"
    ELSE IF ~C_IterBudget(s, e) THEN "Budget"
    ELSE IF ~C_IterContinue(s, e) THEN "Continue" ELSE ""
StopFail(s, e) ==
    IF ~C_StopTerminates(s, e) THEN "Terminates"
    ELSE IF ~C_StopBudget(s, e) THEN "Budget"
    ELSE IF ~C_StopExit(s, e) THEN "Exit"
    ELSE IF ~C_StopReturned(s, e) THEN "Returned"
    ELSE IF ~C_StopCount(s, e) THEN "Count" ELSE ""

StopHits(s, e) ==
    IF e.iters = s.maxIter THEN {"StopByBudget"}
    ELSE IF e.iters = 1 THEN {"StopByTolerance", "StopAtStart"} ELSE {"StopByTolerance"}

Step ==
    LET e == Rec[l] IN
    /\ l <= Len(Rec)
    /\ l' = l + 1
    /\ CASE e.ev = "Start" ->
              IF G_Start(Idle, e)
              THEN /\ st' = E_Start(Idle, e) /\ live' = TRUE
                   /\ hits' = Bump(hits, {"Start"}) /\ UNCHANGED nbad
              ELSE /\ Bad(e, "Start") /\ nbad' = nbad + 1
                   /\ st' = Idle /\ live' = FALSE /\ UNCHANGED hits
         [] e.ev = "Iter" ->
              IF ~live THEN hits' = Bump(hits, {"Skipped"}) /\ UNCHANGED <<st, live, nbad>>
              ELSE LET c == IterFail(st, e) IN
                   IF c = ""
                   THEN /\ st' = E_Iter(st, e) /\ hits' = Bump(hits, {"Iter"})
                        /\ UNCHANGED <<live, nbad>>
                   ELSE /\ Bad(e, c) /\ nbad' = nbad + 1
                        /\ st' = Idle /\ live' = FALSE /\ UNCHANGED hits
         [] e.ev = "Stop" ->
              IF ~live THEN hits' = Bump(hits, {"Skipped"}) /\ UNCHANGED <<st, live, nbad>>
              ELSE LET c == StopFail(st, e) IN
                   /\ st' = Idle /\ live' = FALSE
                   /\ IF c = ""
                      THEN hits' = Bump(hits, StopHits(st, e)) /\ UNCHANGED nbad
                      ELSE Bad(e, c) /\ nbad' = nbad + 1 /\ UNCHANGED hits
         [] OTHER -> Bad(e, "unknown event") /\ nbad' = nbad + 1 /\ UNCHANGED <<st, live, hits>>

Init == l = 1 /\ st = Idle /\ live = FALSE /\ nbad = 0 /\ hits = [x \in HitNames |-> 0]
Next == Step
Spec == Init /\ [][Next]_vars

AtEnd == (l = Len(Rec) + 1) =>
            PrintT(<<"VERDICT", ToJson([consumed |-> l - 1, bad |-> nbad, live |-> live, hits |-> hits])>>)
=============================================================================
