-------------------------- MODULE GradDescentModel --------------------------
(***************************************************************************)
(* Design model of GradientDescent::optimize (gradient_descent.rs), one    *)
(* action per statement group of the loop, over abstract levels:           *)
(*   f   objective level 0..FTop (order only),                             *)
(*   g   gradient-norm level 0..GTop, the tolerance sits at level Tol.     *)
(* The backtracking search (modelled in LBFGSModel.tla) is abstracted to   *)
(* its post-condition on a convex objective along a descent direction:     *)
(* it returns a step whose objective does not exceed the current one       *)
(* (Armijo with c1 > 0); with Armijo = FALSE it may return anything, and   *)
(* the negative configuration shows that Monotone then fails.              *)
(*     x = x0; fx = f(x); gvec = x0; gnorm = |gvec|      -> Begin           *)
(*     gtol = max(|gvec| g_rtol, g_atol); df(gvec, x)                      *)
(*     while iter < max_iter && (iter == 0 || gnorm > gtol)  -> Step        *)
(*         iter += 1; line search; x += alpha step; df; gnorm = |gvec|     *)
(*     f_x = f(x); return                                   -> Finish       *)
(* Every event the model emits is checked against the guards of            *)
(* GradDescent.tla (ProtoOK); the model also shows the two facts the trace *)
(* spec relies on: the loop guard is exactly Continue / Exit, and the      *)
(* number of gradient calls is 1 + iterations.                             *)
(***************************************************************************)
EXTENDS GradDescent, TLC

CONSTANTS MaxIter, FTop, GTop, Tol, Armijo

VARIABLES pc, iter, f, g, gcalls, st, ok
vars == <<pc, iter, f, g, gcalls, st, ok>>

Ev(fr, gr) == [fFin |-> TRUE, fRk |-> fr, gFin |-> TRUE, gRk |-> gr, gtolRk |-> Tol, maxIter |-> MaxIter]

Init == /\ pc = "begin" /\ iter = 0 /\ f \in 0..FTop /\ g \in 0..GTop
        /\ gcalls = 0 /\ st = Idle /\ ok = TRUE

Begin == /\ pc = "begin"
         /\ LET e == Ev(f, g) IN
            /\ ok' = (ok /\ G_Start(st, e))
            /\ st' = E_Start(st, e)
         /\ gcalls' = 1
         /\ pc' = "loop"
         /\ UNCHANGED <<iter, f, g>>

LoopGuard == iter < MaxIter /\ (iter = 0 \/ g > Tol)

Step == /\ pc = "loop" /\ LoopGuard
        /\ \E f2 \in 0..FTop, g2 \in 0..GTop :
              /\ (Armijo => f2 <= f)
              /\ f' = f2 /\ g' = g2
              /\ LET e == Ev(f2, g2) IN
                 /\ ok' = (ok /\ G_Iter(st, e))
                 /\ st' = E_Iter(st, e)
        /\ iter' = iter + 1
        /\ gcalls' = gcalls + 1
        /\ UNCHANGED pc

Finish == /\ pc = "loop" /\ ~LoopGuard
          /\ LET e == [status |-> "ok", iters |-> iter, gradCalls |-> gcalls,
                       retFFin |-> TRUE, retFRk |-> f, retGFin |-> TRUE, retGRk |-> g,
                       retIsLast |-> TRUE, fxFin |-> TRUE, fxRk |-> f] IN
             ok' = (ok /\ G_Stop(st, e))
          /\ pc' = "done"
          /\ UNCHANGED <<iter, f, g, gcalls, st>>

Next == Begin \/ Step \/ Finish
Spec == Init /\ [][Next]_vars /\ WF_vars(Next)

TypeOK == /\ pc \in {"begin", "loop", "done"} /\ iter \in 0..MaxIter
          /\ f \in 0..FTop /\ g \in 0..GTop /\ gcalls \in 0..(MaxIter + 1)
ProtoOK == ok
Counts == pc # "begin" => gcalls = 1 + iter
AtDone == pc = "done" => (iter = MaxIter \/ (iter >= 1 /\ g <= Tol))
Terminates == <>(pc = "done")
=============================================================================
