SPECIFICATION Spec
INVARIANT AtEnd
CHECK_DEADLOCK FALSE
