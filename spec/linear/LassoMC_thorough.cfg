CONSTANTS N = 4  S = 12  TolE = 14  Delta = 256  BigDelta = 1024
CONSTANT Vals <- ValsThorough
CONSTANT Params <- ParamsThorough
SPECIFICATION Spec
INVARIANT Sound
INVARIANT Sharp
INVARIANT Close
CHECK_DEADLOCK FALSE
