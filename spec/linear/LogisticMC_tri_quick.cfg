CONSTANTS Mode = "tri"  StatBits = 8  GridStep = 256  NumStride = 1  TriFull = FALSE
SPECIFICATION Spec
INVARIANT NumOK
INVARIANT ModelOK
CHECK_DEADLOCK FALSE
