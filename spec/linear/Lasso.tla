------------------------------- MODULE Lasso -------------------------------
(***************************************************************************)
(* C08 -- Lasso and elastic net terminate near the optimum of their stated *)
(* objective; Lasso reports invalid settings as errors.  Contract          *)
(* specification (kind B) over fixed-point integers.                       *)
(*                                                                         *)
(* STATED OBJECTIVE.  With yc = y - mean(y), Z the raw columns (normalise  *)
(* off) or the standardised columns (X_j - mu_j)/sigma_j (normalise on,    *)
(* population sigma), lambda1 = n alpha l1_ratio, lambda2 = n alpha        *)
(* (1 - l1_ratio)   (Lasso: l1_ratio = 1):                                 *)
(*      P(v) = || yc - Z v ||^2 + lambda2 ||v||^2 + lambda1 ||v||_1 .      *)
(* The reported coefficients are w_j = v_j (raw) or v_j / sigma_j (std)    *)
(* and the intercept is mapped back so that predict(X) = X w + b, i.e.     *)
(*      b = mean(y)                         (raw)                          *)
(*      b = mean(y) - sum_j w_j mu_j        (std).                         *)
(* Everything below is written in w-space, where the standardised problem  *)
(* reads                                                                   *)
(*   P(w) = || yc - (X - mu) w ||^2 + lambda2 sum_j sigma_j^2 w_j^2        *)
(*                                  + lambda1 sum_j sigma_j |w_j| .        *)
(*                                                                         *)
(* NEAR-OPTIMALITY  "P(w^) - Pmin <= c tol Pmin"  (c = 8, "a small multiple")  *)
(* cannot be decided exactly without solving the problem, but it has       *)
(* consequences that TLC can evaluate with integers, and every one of them *)
(* is NECESSARY (never demands more than the statement):                   *)
(*                                                                         *)
(*  (1) Coordinate probes.  For every j and every eps = +-2^-k,            *)
(*          P(w^ + eps e_j) - P(w^)  >=  Pmin - P(w^)  >=  - c tol Pub ,     *)
(*      where Pub >= Pmin is the smaller of P(0) = ||yc||^2 and an upper     *)
(*      bound of P(w^) itself.  The left-hand side is *linear* in the      *)
(*      fixed-point residual,                                              *)
(*          -2 eps Zw_j . r + eps^2 (a_j + L2_j) + 2 eps L2_j w_j          *)
(*                       + L1_j (|w_j + eps| - |w_j|) ,                    *)
(*      (Zw_j the j-th column in w-space, a_j its squared norm, L1_j, L2_j *)
(*      the penalty weights in w-space) so no square of a fixed-point      *)
(*      number is needed.  Because the non-smooth part is separable, a     *)
(*      point that passes all probes on a factor-2 ladder of step sizes    *)
(*      is within a modest factor of the permitted sub-optimality; a       *)
(*      wrong Newton step, barrier update, penalty weight or               *)
(*      back-transformation fails some probe.                              *)
(*  (2) Two near-minimisers are close.  P(w) - Pmin >= ||Zw (w-wmin)||^2   *)
(*      (strong convexity along the data), hence two fits that are both    *)
(*      near-optimal for the *same* objective satisfy                      *)
(*          || Zw (wA - wB) ||^2 <= 4 c tol Pub .                          *)
(*      This is how the two relations of the statement are decided:        *)
(*      "adding a constant to every target changes the intercept by that   *)
(*      constant and nothing else" (the objective depends on y only        *)
(*      through yc) and "l1_ratio = 1 reproduces Lasso".                   *)
(*  (3) Intercept and predict identities (exact up to quantisation).       *)
(*  (4) The validation decision table of Lasso (exact).                    *)
(*                                                                         *)
(* In the standardised case sigma_j enters L1_j linearly; it is bracketed  *)
(* by integer square roots (sLo <= 2^h n sigma_j <= sHi) and the bound     *)
(* that keeps the condition necessary is used.                             *)
(*                                                                         *)
(* SCALING.  n yc_i = n y_i - sum(y) =: Yc_i and n (X_ij - mu_j) =: C_ij   *)
(* are integers; A_ik = n X_ik (raw) or C_ik (std);                        *)
(*      R_i = Yc_i 2^S - sum_k A_ik W_k   =  n 2^S r_i ,                   *)
(*      G_j = sum_i X_ij R_i              =  n 2^S Zw_j . r                *)
(* (for std this uses sum_i R_i = 0, which holds identically).  Probe      *)
(* inequalities are multiplied by n 2^S 2^k.                               *)
(*                                                                         *)
(* 32-BIT ARITHMETIC.  Each event carries the outputs quantised at several *)
(* scales S; InRange decides, with saturating arithmetic on conservative   *)
(* magnitudes, whether every intermediate at a given scale stays below     *)
(* 2^28, and the finest such scale is used.  An event with no admissible   *)
(* scale is counted as OutOfRange, never as a pass.                        *)
(***************************************************************************)
EXTENDS LeastSquares       \* Ls* helpers and PredictIdentity

\* ------------------------------------------------- saturating arithmetic
LaLim == 536870912                                   \* 2^29
LaCap == 268435456                                   \* 2^28: admissible magnitude
LaSatMul(a, b) == IF a = 0 \/ b = 0 THEN 0
                  ELSE IF a >= LaLim \/ b >= LaLim THEN LaLim
                  ELSE IF a > LaLim \div b THEN LaLim ELSE a * b        \* a, b >= 0
LaSatAdd(a, b) == IF a >= LaLim \/ b >= LaLim THEN LaLim
                  ELSE IF a + b >= LaLim THEN LaLim ELSE a + b
LaSatDiv(a, c) == IF a >= LaLim THEN LaLim ELSE a \div c
LaMin(a, b) == IF a < b THEN a ELSE b
LaMax(a, b) == IF a > b THEN a ELSE b

LaMaxAbs(s) == FoldLeft(LAMBDA a, b : LaMax(a, LsAbs(b)), 0, s)
LaMaxAbsM(X) == LaMaxAbs([i \in 1..Len(X) |-> LaMaxAbs(X[i])])

LaSatSum(s) == FoldLeft(LAMBDA a, b : LaSatAdd(a, b), 0, s)

\* ceil(a * b / c) for b >= 0, c > 0
LaCeilMulDiv(a, b, c) == -LsMulDiv(-a, b, c)
LaCeilDiv(a, c) == -((-a) \div c)

\* largest s with s * s <= v   (0 <= v < 2^30)
RECURSIVE LaSqrtBis(_, _, _)
LaSqrtBis(lo, hi, v) == IF hi - lo <= 1 THEN lo
                        ELSE LET mid == (lo + hi) \div 2 IN
                             IF mid * mid <= v THEN LaSqrtBis(mid, hi, v) ELSE LaSqrtBis(lo, mid, v)
LaISqrt(v) == LaSqrtBis(0, 32768, v)

\* ------------------------------------------------- the validation table
\* Lasso must answer Err (not ok, not panic, not timeout) exactly in these cases.
\* aN: numerator of alpha (sign matters), tolSgn: sign of tol, ylen: length of y.
LaConstantColumn(X, j) == \A i \in 1..Len(X) : X[i][j] = X[1][j]
LassoInvalid(X, ylen, aN, tolSgn, maxIter, normalize) ==
    LET n == Len(X) p == LsNCols(X) IN
    \/ aN < 0
    \/ tolSgn <= 0
    \/ maxIter = 0
    \/ n <= p
    \/ ylen # n
    \/ (normalize /\ \E j \in 1..p : LaConstantColumn(X, j))

\* ------------------------------------------------- problem data (integers)
\* P is a record of everything that depends on (X, y, parameters) only:
\*   n, p, X, Yc, A, sy, cs (column sums), qa (n * a_j), V (n^2 sigma_j^2),
\*   K1, K2 (n * penalty weights, numerators over 2^q), q, sLo/sHi (std), h, tolE
LaH == 4        \* extra bits of the square-root bracket

\* sy, cs, V (sum of y, column sums, n^2 variances) are operator *arguments*: as LET
\* definitions they would be re-evaluated for every entry of the constructors below
LaProblemWith(X, y, aN, aE, l1N, l1E, normalize, tolE, sy, cs, V) ==
    LET n  == Len(X)
        p  == LsNCols(X)
        m1 == l1N
        m2 == LsP2(l1E) - l1N
    IN [ n |-> n, p |-> p, X |-> X, std |-> normalize, sy |-> sy, cs |-> cs, V |-> V,
         Yc |-> [i \in 1..n |-> n * y[i] - sy],
         A  |-> IF normalize THEN [i \in 1..n |-> [k \in 1..p |-> n * X[i][k] - cs[k]]]
                             ELSE [i \in 1..n |-> [k \in 1..p |-> n * X[i][k]]],
         \* n * a_j : n * X_j.X_j (raw) or V_j (std)
         qa |-> IF normalize THEN V ELSE [j \in 1..p |-> n * LsColSq(X, j)],
         q  |-> aE + l1E,
         \* raw: n lambda2 = K2 / 2^q, n lambda1 = K1 / 2^q with K = n^2 aN m
         \* std: n L2_j = aN m2 V_j / 2^q ;  n L1_j = (n aN m1) sqrt(V_j) / 2^q
         K2 |-> IF normalize THEN [j \in 1..p |-> aN * m2 * V[j]] ELSE [j \in 1..p |-> n * n * aN * m2],
         K1 |-> IF normalize THEN [j \in 1..p |-> n * aN * m1] ELSE [j \in 1..p |-> n * n * aN * m1],
         \* bracket of 2^h sqrt(V_j):  sLo <= 2^h sqrt(V_j) <= sHi  (std only; raw: 1, 1 with h = 0)
         sLo |-> IF normalize THEN [j \in 1..p |-> LaISqrt(V[j] * LsP2(2 * LaH))] ELSE [j \in 1..p |-> 1],
         sHi |-> IF normalize THEN [j \in 1..p |-> LaISqrt(V[j] * LsP2(2 * LaH)) + 1] ELSE [j \in 1..p |-> 1],
         h   |-> IF normalize THEN LaH ELSE 0,
         tolE |-> tolE ]

LaProblem(X, y, aN, aE, l1N, l1E, normalize, tolE) ==
    LaProblemWith(X, y, aN, aE, l1N, l1E, normalize, tolE, LsSum(y),
                  [j \in 1..LsNCols(X) |-> LsColSum(X, j)], [j \in 1..LsNCols(X) |-> LsVarN2(X, j)])

\* magnitudes of the problem data are small enough to form LaProblem at all
\* (evaluated on the raw event before LaProblem)
LaDataInRange(X, y, aN, aE, l1N, l1E) ==
    LET n == Len(X) mx == LaMaxAbsM(X) my == LaMaxAbs(y) IN
    /\ LaSatMul(n, my) < LaCap \div 4
    /\ LaSatMul(n * n, LaSatMul(mx, mx)) < LaLim                       \* n * colsq, colsum^2
    /\ aE + l1E <= 14
    /\ LET vmax == LaMaxAbs([j \in 1..LsNCols(X) |-> LsVarN2(X, j)]) IN
       /\ LaSatMul(vmax, LsP2(2 * LaH)) < LaLim                        \* argument of LaISqrt
       /\ LaSatMul(LsAbs(aN) * LsP2(l1E), LaMax(n * n, vmax)) < LaCap  \* K1, K2

\* ------------------------------------------------- residual, gradient
LaResid(P, W, S) == [i \in 1..P.n |-> P.Yc[i] * LsP2(S) - LsDot(P.A[i], W)]
LaGrad(P, R)     == [j \in 1..P.p |-> LsDot(LsCol(P.X, j), R)]
\* twice the quantisation error of G_j: sum_i |X_ij| sum_k |A_ik|
LaGradErr2(P)    == [j \in 1..P.p |-> LsSum([i \in 1..P.n |-> LsAbs(P.X[i][j]) * LsAbsSum(P.A[i])])]

\* ------------------------------------------------- upper bound of n^2 Pmin
\* P(0) = ||yc||^2
LaP0(P) == LaSatSum([i \in 1..P.n |-> LaSatMul(LsAbs(P.Yc[i]), LsAbs(P.Yc[i]))])
\* P(w^) from above: residual part with |R_i| / 2^S rounded up at 2 fractional bits, the
\* penalty with |w_k| rounded up at 2 fractional bits; all saturating
LaPfit(P, W, R, S) ==
    \* |R_i| of the true (unquantised) coefficients is at most |R_i| + sum_k |A_ik| / 2
    LET rq == [i \in 1..P.n |-> (LsAbs(R[i]) + LsAbsSum(P.A[i])) \div LsP2(S - 2) + 2]    \* >= 4 n |r_i|
        res == LaSatAdd(LaSatDiv(LaSatSum([i \in 1..P.n |-> LaSatMul(rq[i], rq[i])]), 16), 1)
        wq == [k \in 1..P.p |-> LsAbs(W[k]) \div LsP2(S - 2) + 2]                        \* >= 4 |w_k|
        \* n^2 * penalty = n * sum_k ( (n L2_k) w_k^2 + (n L1_k) |w_k| )
        pen2 == LaSatSum([k \in 1..P.p |->
                    LaSatAdd(LaSatDiv(LaSatMul(LaSatMul(P.n, LaSatMul(wq[k], wq[k])), P.K2[k]), 16 * LsP2(P.q)), 1)])
        pen1 == LaSatSum([k \in 1..P.p |->
                    LaSatAdd(LaSatDiv(LaSatMul(LaSatMul(LaSatMul(P.n, wq[k]), P.K1[k]), P.sHi[k]), 4 * LsP2(P.q + P.h)), 1)])
    IN LaSatAdd(res, LaSatAdd(pen1, pen2))
LaPub(P, W, R, S) == LaMin(LaP0(P), LaPfit(P, W, R, S))

\* ------------------------------------------------- tolerance of a probe
LaC == 3     \* c = 2^3
\* T(k) = ceil( c tol Pub * n 2^S 2^k / n^2 ) = ceil( PubN 2^(S + k + 3 - tolE) / n )
LaShift(P, S, k) == S + k + LaC - P.tolE
LaProbeTol(P, PubN, S, k) ==
    LET x == LaShift(P, S, k) IN
    IF x >= 0 THEN LaCeilMulDiv(PubN, LsP2(x), P.n) ELSE LaCeilDiv(PubN, P.n * LsP2(-x))
\* step sizes 2^-k whose tolerance can be formed in 32 bits (larger k: the probe is dominated
\* by its tolerance and says nothing)
LaProbeKs(P, PubN, S) ==
    {k \in 0..S : LET x == LaShift(P, S, k) IN
                  x <= 20 /\ (x <= 0 \/ LaSatMul(PubN + P.n, LsP2(x)) < LaCap)}

\* ------------------------------------------------- one probe
\* upper bound of  n 2^S 2^k ( P(w^ + sg 2^-k e_j) - P(w^) ), sg = +1 / -1
LaProbeHi(P, W, G, S, j, k, sg) ==
    LET E   == LsP2(S - k)
        c   == LsP2(P.q)
        t1  == -2 * sg * G[j]
        t2  == P.qa[j] * E + LaCeilMulDiv(E, P.K2[j], c)
        t3  == LaCeilMulDiv(2 * sg * W[j], P.K2[j], c)
        dlt == LsP2(k) * (LsAbs(W[j] + sg * E) - LsAbs(W[j]))           \* |dlt| <= 2^S
        t4  == IF P.K1[j] = 0 THEN 0
               ELSE IF dlt >= 0 THEN LaCeilMulDiv(dlt * P.K1[j], P.sHi[j], LsP2(P.q + P.h))
               ELSE LaCeilMulDiv(dlt * P.K1[j], P.sLo[j], LsP2(P.q + P.h))
    IN t1 + t2 + t3 + t4

\* quantisation allowance of the same quantity (W_k off by half a unit each)
LaProbeErr(P, GE2, j, k) ==
    GE2[j] + LaCeilDiv(P.K2[j], LsP2(P.q)) + LaCeilMulDiv(LsP2(k) * P.K1[j], P.sHi[j], LsP2(P.q + P.h)) + 4

NearOptimal(P, W, G, GE2, PubN, S) ==
    \A j \in 1..P.p : \A k \in LaProbeKs(P, PubN, S) : \A sg \in {-1, 1} :
        LaProbeHi(P, W, G, S, j, k, sg) + LaProbeErr(P, GE2, j, k) + LaProbeTol(P, PubN, S, k) >= 0

\* ------------------------------------------------- range guard at scale S
LaInRange(P, W, B, Yhat, S) ==
    LET mA  == LaMaxAbsM(P.A)
        mx  == LaMaxAbsM(P.X)
        mW  == LaMaxAbs(W) + LsP2(S)
        mYc == LaMaxAbs(P.Yc)
        rb  == LaSatAdd(LaSatMul(mYc, LsP2(S)), LaSatMul(P.p, LaSatMul(mA, mW)))   \* |R_i| and partial sums
        mK2 == LaMaxAbs(P.K2)
        mK1 == LaMaxAbs(P.K1)
        msH == LaMaxAbs(P.sHi)
        c   == LsP2(P.q)
        c2  == LsP2(P.q + P.h)
        u   == LaSatMul(LsP2(S), mK1)
    IN /\ rb < LaCap
       /\ LaSatMul(LaMaxAbs(P.qa), LsP2(S)) < LaCap
       /\ LaSatMul((2 * mW) \div c + 1, mK2) < LaCap /\ LaSatMul(c, mK2) < LaCap
       /\ u < LaCap /\ LaSatMul(u \div c2 + 1, msH) < LaCap /\ LaSatMul(c2, msH) < LaCap
       \* intercept / predict identities
       /\ LaSatMul(P.n, LsAbs(B)) < LaCap /\ LaSatMul(LsAbs(P.sy), LsP2(S)) < LaCap
       /\ LaSatMul(P.p, LaSatMul(mW, LaMaxAbs(P.cs))) < LaCap
       /\ LaSatAdd(LaSatMul(P.p, LaSatMul(mx, mW)), LsAbs(B)) < LaCap
       /\ LaMaxAbs(Yhat) < LaCap
\* second stage (needs R): the gradient sums
LaGradInRange(P, R) == LaSatMul(P.n * LaMaxAbsM(P.X), LaMaxAbs(R)) < LaCap \div 2

\* ------------------------------------------------- intercept and predict
\* raw: n b = sum y ;  std: n b = sum y - sum_j w_j colsum_j
LaInterceptIdentity(P, W, B, S) ==
    LET rhs == P.sy * LsP2(S) - (IF P.std THEN LsDot(P.cs, W) ELSE 0)
        tol == (P.n + (IF P.std THEN LsAbsSum(P.cs) ELSE 0) + 1) \div 2 + 2
    IN LsAbs(P.n * B - rhs) <= tol

\* M_i and Q2_i of LeastSquares.tla are only used for the f32 allowance there; f64 here
LaPredictIdentity(P, W, B, Yhat) ==
    PredictIdentity(P.X, W, B, Yhat, [i \in 1..P.n |-> 0], LsQ2(P.X), "f64")

\* ------------------------------------------------- two near-minimisers are close
\* q_i = sum_k A_ik (WA_k - WB_k) = n 2^S (Zw (wA - wB))_i ;  demand
\*   sum_i q_i^2 <= 2 * 4 c tol PubN 4^S + 2 sum_i (sum_k |A_ik|)^2
\* (the second term: each W_k of either fit is off by half a unit, (a+b)^2 <= 2a^2 + 2b^2).
\* Saturating: a saturated left-hand side with an unsaturated right-hand side is a failure,
\* a saturated right-hand side constrains nothing.
LaCloseInRange(P, WA, WB) ==
    LaSatMul(P.p, LaSatMul(LaMaxAbsM(P.A), LaMaxAbs([k \in 1..P.p |-> WA[k] - WB[k]]))) < LaCap
LaCloseLhs(P, WA, WB) ==
    LET d == [k \in 1..P.p |-> WA[k] - WB[k]] IN
    LaSatSum([i \in 1..P.n |-> LET qi == LsAbs(LsDot(P.A[i], d)) IN LaSatMul(qi, qi)])
LaCloseRhs(P, PubN, S) ==
    LET x == 2 * S + LaC + 3 - P.tolE          \* 8 c tol 4^S = 2^x
        t == IF x >= 0 THEN LaSatMul(PubN, LsP2(LaMin(x, 30))) ELSE PubN \div LsP2(LaMin(-x, 30)) + 1
        e == LaSatSum([i \in 1..P.n |-> LaSatMul(2 * LsAbsSum(P.A[i]), LsAbsSum(P.A[i]))])
    IN LaSatAdd(t, LaSatAdd(e, 4))
NearMinimisersClose(P, WA, WB, PubN, S) ==
    LET rhs == LaCloseRhs(P, PubN, S) IN rhs >= LaLim \/ LaCloseLhs(P, WA, WB) <= rhs
=============================================================================
