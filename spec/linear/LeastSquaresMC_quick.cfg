CONSTANTS N = 3  S = 8  Delta = 16
CONSTANT Vals <- ValsQuick
CONSTANT Alphas <- AlphasQuick
SPECIFICATION Spec
INVARIANT Sound
INVARIANT Sharp
INVARIANT Sound32
CHECK_DEADLOCK FALSE
