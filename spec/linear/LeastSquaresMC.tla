--------------------------- MODULE LeastSquaresMC ---------------------------
(***************************************************************************)
(* Design model for C07: the one-regressor problem has closed-form         *)
(* rational minimisers, so TLC can play the part of an exact solver and    *)
(* confront the contract of LeastSquares.tla with it.                      *)
(*                                                                         *)
(*   OLS        w = Sxy / Sxx ,  b = (sy - w sx) / n                       *)
(*   ridge raw  w = sxy / (sxx + alpha) ,  b = 0                           *)
(*   ridge std  w = n Sxy / (Sxx (n + alpha)) ,  b = (sy - w sx) / n       *)
(*              (v = z.y / (n + alpha) for the standardised column z,      *)
(*               w = v / sigma; sigma cancels: no square root)             *)
(*   with sx = sum x, sxx = sum x^2, sxy = sum xy, Sxx = n sxx - sx^2,     *)
(*   Sxy = n sxy - sx sy.                                                  *)
(*                                                                         *)
(* Init ranges over every x, y in Vals^N (x not constant) and every alpha  *)
(* of Alphas; one action per estimator computes the exact solution,        *)
(* rounds it to fixed point exactly as the harness does, and the           *)
(* invariants demand                                                       *)
(*   Sound : the contract accepts the rounded exact minimiser (a predicate *)
(*           that over-demands -- a false alarm on correct code -- would   *)
(*           be exposed here), and                                         *)
(*   Sharp : it rejects the same answer with the coefficient moved by      *)
(*           Delta units or the intercept by Delta units (a vacuous        *)
(*           predicate would be exposed here).                             *)
(***************************************************************************)
EXTENDS LeastSquares, TLC

CONSTANTS N,        \* number of observations
          Vals,     \* admissible data values (integers)
          Alphas,   \* set of <<aN, aE>>
          S,        \* fixed-point scale
          Delta     \* perturbation (units of 2^-S) the contract must notice

\* alpha = aN / 2^aE as <<aN, aE>>; the .cfg files substitute one of these for Alphas
\* (the .cfg syntax has neither tuples nor negative numbers, hence these definitions)
ValsQuick      == {-2, 0, 1, 3}
ValsThorough   == {-3, 0, 2, 5}
AlphasQuick    == {<<1, 3>>, <<3, 0>>}
AlphasThorough == {<<1, 3>>, <<100, 0>>}

VARIABLES x, y, al, phase, kind, W, B, Yhat
vars == <<x, y, al, phase, kind, W, B, Yhat>>

Idx == 1..N
sx  == LsSum(x)
sy  == LsSum(y)
sxx == LsDot(x, x)
sxy == LsDot(x, y)
Sxx == N * sxx - sx * sx
Sxy == N * sxy - sx * sy

\* round(a / b) for b > 0 (half up)
RoundDiv(a, b) == (2 * a + b) \div (2 * b)
\* rational w = wn / wd, b = bn / bd  ->  fixed point
Fix(num, den) == RoundDiv(num * LsP2(S), den)
\* prediction x_i w + b for w = wn / wd and b = bn / (k wd)  (a common denominator keeps
\* the intermediate products inside TLC's 32-bit integers)
FixYhat(wn, wd, bn, k) == [i \in Idx |-> RoundDiv((x[i] * wn * k + bn) * LsP2(S), k * wd)]

Xm == [i \in Idx |-> <<x[i]>>]       \* the n x 1 design matrix

Init == /\ x \in [Idx -> Vals] /\ y \in [Idx -> Vals] /\ al \in Alphas
        /\ \E i \in Idx : x[i] # x[1]                       \* not constant: Sxx > 0
        /\ phase = "input" /\ kind = "none" /\ W = 0 /\ B = 0 /\ Yhat = [i \in Idx |-> 0]

SolveOls ==
    /\ phase = "input" /\ al = CHOOSE a \in Alphas : TRUE    \* alpha is irrelevant: one copy
    /\ LET wn == Sxy wd == Sxx
           bn == sy * Sxx - Sxy * sx  bd == N * Sxx IN
       /\ W' = Fix(wn, wd) /\ B' = Fix(bn, bd) /\ Yhat' = FixYhat(wn, wd, bn, N)
    /\ kind' = "ols" /\ phase' = "done" /\ UNCHANGED <<x, y, al>>

SolveRidgeRaw ==
    /\ phase = "input"
    /\ LET wn == sxy * LsP2(al[2]) wd == sxx * LsP2(al[2]) + al[1] IN
       /\ W' = Fix(wn, wd) /\ B' = 0 /\ Yhat' = FixYhat(wn, wd, 0, 1)
    /\ kind' = "raw" /\ phase' = "done" /\ UNCHANGED <<x, y, al>>

SolveRidgeStd ==
    /\ phase = "input"
    /\ LET wn == N * Sxy * LsP2(al[2]) wd == Sxx * (N * LsP2(al[2]) + al[1])
           bn == sy * wd - wn * sx     bd == N * wd IN
       /\ W' = Fix(wn, wd) /\ B' = Fix(bn, bd) /\ Yhat' = FixYhat(wn, wd, bn, N)
    /\ kind' = "std" /\ phase' = "done" /\ UNCHANGED <<x, y, al>>

Next == SolveOls \/ SolveRidgeRaw \/ SolveRidgeStd
Spec == Init /\ [][Next]_vars

\* the contract, as the trace specification applies it (f64 tolerances)
Accepts(w, b, yh) ==
    LET R == LsResid(Xm, y, <<w>>, b, S) M == LsMag(Xm, y, <<w>>, b, S) Q2 == LsQ2(Xm)
        NM == LsNormMag(LsQ2(Xm), LsMag(Xm, y, <<w>>, b, S)) IN
    /\ PredictIdentity(Xm, <<w>>, b, yh, M, Q2, "f64")
    /\ CASE kind = "ols" -> OlsNormalEq(Xm, R, NM, Q2, "f64") /\ OlsSumZero(Xm, R, NM, Q2, "f64")
         [] kind = "raw" -> RidgeRawIntercept(b) /\ RidgeRawGradient(Xm, <<w>>, R, NM, Q2, al[1], al[2], "f64")
         [] kind = "std" -> OlsSumZero(Xm, R, NM, Q2, "f64") /\ RidgeStdGradient(Xm, <<w>>, R, NM, Q2, al[1], al[2], "f64")

Sound == phase = "done" => Accepts(W, B, Yhat)
Sharp == phase = "done" =>
            /\ ~Accepts(W + Delta, B, Yhat) /\ ~Accepts(W - Delta, B, Yhat)
            /\ ~Accepts(W, B + Delta, Yhat) /\ ~Accepts(W, B - Delta, Yhat)
            /\ ~Accepts(W, B, [Yhat EXCEPT ![1] = @ + Delta])
\* the f32 tolerance is wider, never narrower
Sound32 == phase = "done" =>
    LET R == LsResid(Xm, y, <<W>>, B, S) Q2 == LsQ2(Xm)
        NM == LsNormMag(LsQ2(Xm), LsMag(Xm, y, <<W>>, B, S)) IN
    kind = "ols" => OlsNormalEq(Xm, R, NM, Q2, "f32") /\ OlsSumZero(Xm, R, NM, Q2, "f32")
=============================================================================
