CONSTANTS MaxIter = 5  Hist = 3  FTop = 3  GTop = 2  AtolLv = 1  SuccFTol = 1
          MaxLs = 4  MaxInf = 2  AMax = 4  InfTop = 2  Convex = TRUE  RedBits = 10
SPECIFICATION Spec
INVARIANT TypeOK
INVARIANT ProtoOK
INVARIANT Bounded
INVARIANT NoPanic
INVARIANT HistoryOK
INVARIANT WindowOK
INVARIANT AtDone
PROPERTY Monotone
CHECK_DEADLOCK FALSE
