CONSTANTS MaxIter = 8  Hist = 3  FTop = 4  GTop = 3  AtolLv = 1  SuccFTol = 1
          MaxLs = 5  MaxInf = 2  AMax = 5  InfTop = 2  Convex = TRUE  RedBits = 10
SPECIFICATION Spec
INVARIANT TypeOK
INVARIANT ProtoOK
INVARIANT Bounded
INVARIANT NoPanic
INVARIANT HistoryOK
INVARIANT WindowOK
INVARIANT ScaleOK
INVARIANT AtDone
PROPERTY Monotone
CHECK_DEADLOCK FALSE
