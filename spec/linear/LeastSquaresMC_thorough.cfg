CONSTANTS N = 4  S = 8  Delta = 16
CONSTANT Vals <- ValsThorough
CONSTANT Alphas <- AlphasThorough
SPECIFICATION Spec
INVARIANT Sound
INVARIANT Sharp
INVARIANT Sound32
CHECK_DEADLOCK FALSE
