----------------------------- MODULE LogisticMC -----------------------------
(***************************************************************************)
(* C09, part 3b: design-level check of the logistic contracts themselves.  *)
(* The contracts of Logistic.tla are pure functions of (training set,      *)
(* returned model); there is no algorithm to transcribe.  What can go      *)
(* wrong is the contract: an enclosure that is not an enclosure, a         *)
(* predicate that accepts everything (vacuous) or nothing (false alarms).  *)
(* TLC therefore explores, as initial states of a one-step spec,           *)
(*                                                                         *)
(*  Mode "num"  every argument d of ExpNeg / s of Ln15 in their domains    *)
(*              and checks the functional equations that characterise exp  *)
(*              and ln (monotone, e^-a e^-b = e^-(a+b), exp(ln s) = s,     *)
(*              sigmoid(z) + sigmoid(-z) = 1) within the proved errors;    *)
(*  Mode "bin"  a fixed two-class training set (p = 1, n = 6, alpha = 1)   *)
(*              and EVERY candidate model (w, b) on a grid (step 1/32 in   *)
(*              the thorough tier) over [0, 1.5] x [-0.5, 0.5] plus the    *)
(*              all-zero start;                                            *)
(*  Mode "tri"  a fixed three-class training set and every candidate that  *)
(*              moves each of the 6 parameters of the true optimum by      *)
(*              -1/8, 0 or +1/8, plus the all-zero start,                  *)
(*                                                                         *)
(* and checks on each candidate:                                           *)
(*   Local     Stationary accepts a candidate only near the true optimum   *)
(*             (computed off-line by Newton's method, quoted below; if the *)
(*             quoted optimum were wrong OptAccepted or Local would fail), *)
(*   OptAccepted  the grid point nearest to the optimum IS accepted by     *)
(*             Stationary and by Objective (no false alarm on the right    *)
(*             answer),                                                    *)
(*   StartRejected  the all-zero start is rejected by Stationary, accepted *)
(*             by Objective (F(0) = n ln k exactly) and the accumulated    *)
(*             gradient there equals the exact rational gradient,          *)
(*   SumZero   (soft-max) the class gradients of every feature sum to the  *)
(*             penalty part alone, because the probabilities sum to one,   *)
(*   Predicts  labels assigned by the exact arg-max of the scores satisfy  *)
(*             LabelsOK and ArgmaxOK, and flipping one of them to another  *)
(*             label is rejected whenever the scores are not tied.         *)
(***************************************************************************)
EXTENDS Logistic, TLC

CONSTANTS Mode, StatBits,
          GridStep,    \* "bin": grid step in units 2^-12 (128 = 1/32)
          NumStride,   \* "num": every NumStride-th argument
          TriFull      \* "tri": move all six parameters (TRUE) or the three weights and the first intercept

VARIABLE cand
vars == <<cand>>

(***************************************************************************)
(* The two training sets (features in sixteenths).                         *)
(***************************************************************************)
BinX == << <<0 - 32>>, <<0 - 16>>, <<0 - 8>>, <<8>>, <<16>>, <<40>> >>
BinY == <<1, 1, 2, 1, 2, 2>>
TriX == << <<0 - 32>>, <<0 - 24>>, <<0 - 8>>, <<8>>, <<16>>, <<40>> >>
TriY == <<1, 2, 1, 3, 2, 3>>

(* optimum of the penalised likelihood, alpha = 1, units 2^-12 (Newton / BFGS off-line):   *)
(*   bin:  w = 0.74873 (3067)   b = -0.04180 (-171)                                        *)
(*   tri:  w = (-0.57377, -0.08697, 0.66074) = (-2350, -356, 2706)                         *)
(*         b = (-0.07390, 0.22266, -0.14876) = (-303, 912, -609)                           *)
BinOpt == <<3067, 0 - 171>>
TriOptW == <<0 - 2350, 0 - 356, 2706>>
TriOptB == <<0 - 303, 912, 0 - 609>>

Ev(k, X, Y, W, B) ==
    LET n == Len(X)
        base == [run |-> 0, ev |-> "LogitFit", k |-> k, p |-> 1, n |-> n,
                 labels2 |-> IF k = 2 THEN <<0 - 6, 3>> ELSE <<0 - 6, 3, 40>>, yc |-> Y,
                 xS |-> 4, X |-> X, Q |-> X, alphaNum |-> 64, alphaS |-> 6,
                 status |-> "ok", coefRows |-> Len(W), coefCols |-> 1, iceptLen |-> Len(B),
                 wFin |-> TRUE, wOk |-> TRUE, wS |-> <<12>>, bS |-> 12,
                 coef |-> [c \in 1..Len(W) |-> <<W[c]>>], icept |-> B, predOk |-> TRUE, pred2 |-> <<>>]
        (* predictions by the exact arg-max of the recorded scores (smallest index on ties) *)
        lab(i) == LET zs == Scores(base, X[i])
                      c == CHOOSE c \in NearMax(zs, k, 0) : \A d \in NearMax(zs, k, 0) : c <= d
                  IN  base.labels2[c]
    IN  [base EXCEPT !.pred2 = Tup([i \in 1..n |-> lab(i)], n)]

BinEv(c) == Ev(2, BinX, BinY, <<c[1]>>, <<c[2]>>)
TriEv(c) == Ev(3, TriX, TriY, <<c[1], c[2], c[3]>>, <<c[4], c[5], c[6]>>)

Zero2 == <<0, 0>>
Zero6 == <<0, 0, 0, 0, 0, 0>>
BinCands == { <<GridStep * i, GridStep * j>> : i \in 0..(6144 \div GridStep), j \in (0 - (2048 \div GridStep))..(2048 \div GridStep) } \cup {Zero2}
Off == {0 - 512, 0, 512}
TriCands == { <<TriOptW[1] + a, TriOptW[2] + b, TriOptW[3] + c, TriOptB[1] + d, TriOptB[2] + f, TriOptB[3] + g>> :
                a \in Off, b \in Off, c \in Off, d \in Off,
                f \in (IF TriFull THEN Off ELSE {0}), g \in (IF TriFull THEN Off ELSE {0}) } \cup {Zero6}

Init == cand \in CASE Mode = "bin" -> BinCands
                   [] Mode = "tri" -> TriCands
                   [] Mode = "num" -> { d \in 0..46000 : d % NumStride = 0 }
Next == UNCHANGED cand
Spec == Init /\ [][Next]_vars

(***************************************************************************)
(* Mode "num"                                                              *)
(***************************************************************************)
Sig(z) ==       \* 2^11 sigmoid(z / 2^12) through the two-class soft-max
    LET zs == <<0, z>>
        mx == MaxT(zs, 2)
        es == ExpT(zs, 2, mx)
    IN  ProbT(es, 2, SumT(es, 2))[2]
NumOK ==
    Mode = "num" =>
    LET d == cand IN
    /\ ExpNeg(d + 1) <= ExpNeg(d) + 1                              \* decreasing (up to one floor)
    /\ ExpNeg(d) \in 0..One
    /\ \A b \in {1, 7, 100, 255, 256, 257, 1000, 4096, 4097, 12345} :
          Abs((ExpNeg(d) * ExpNeg(b)) \div One - ExpNeg(d + b)) <= 3 * ExpErr + 1
    /\ Sig(d) + Sig(0 - d) \in 2047..2048                           \* p + (1-p) = 1, floors
    /\ Sig(d) >= 1024 /\ Sig(d + 1) >= Sig(d) - 1
    (* exp(-ln x) = 1/x for x = 1 + d/46000*3 in [1, 4]:  s = 2^15 x *)
    /\ LET s == One + ((d * 3) * (One \div 8)) \div 5750
           u == Down(Ln15(s), 15, 12)
       (* |ExpNeg(u) - 2^30/s| <= (2^30/s) 3/4096 + ExpErr: u is off by < 3 units of 2^-12 *)
       IN  /\ Abs(ExpNeg(u) * (s \div 4) - One * (One \div 4)) <= 196608 + One + 4 * (s \div 4)
           /\ (s < 4 * One => Ln15(s + 1) >= Ln15(s) - 2)
    /\ (d = 0 => Ln15(One) = 0 /\ Abs(Ln15(2 * One) - Ln2) <= 1
                 /\ Abs(Ln15(3 * One) - LnKLo(3)) <= LnErr /\ Abs(Ln15(4 * One) - LnKLo(4)) <= LnErr)

(***************************************************************************)
(* Modes "bin" / "tri"                                                     *)
(***************************************************************************)
E == CASE Mode = "bin" -> BinEv(cand) [] Mode = "tri" -> TriEv(cand) [] OTHER -> BinEv(Zero2)
IsZero == cand \in {Zero2, Zero6}
Near(c, o, dist) == \A i \in 1..Len(c) : Abs(c[i] - o[i]) <= dist

(* e, its accumulator and the two verdicts are passed as arguments: TLC evaluates an     *)
(* argument once, a LET definition at every use                                         *)
ModelOK3(e, a, stat, obj) ==
        /\ InputOK(e) /\ ShapeOK(e) /\ Scorable(e) /\ GradScorable(e) /\ ObjScorable(e)
        (* Predicts *)
        /\ LabelsOK(e) /\ ArgmaxOK(e)
        /\ \A i \in 1..e.n : \A c \in 1..e.k :
              LET zs == Scores(e, e.X[i])
              IN  (c \notin NearMax(zs, e.k, 2 * EZ(e, e.X[i])))
                     => ~RowArgmaxOK(e, e.X[i], e.labels2[c], zs, 2 * EZ(e, e.X[i]))
        /\ ~LabelsOK([e EXCEPT !.pred2[1] = 1])
        (* StartRejected *)
        /\ IsZero => /\ ~stat /\ obj
                     /\ \A t \in 1..NCoord(e) :      \* enclosure contains the exact rational gradient
                           /\ Abs(a.G[t] * e.k - a.N[t] * 2048) <= e.k * a.T[t]
                           /\ (e.k = 2 => a.G[t] * 2 = a.N[t] * 2048)    \* p = 1/2 is exact
                     /\ Abs(a.F - (e.n * LnKLo(e.k)) \div 8) <= a.TF
        (* Local, OptAccepted *)
        (* measured on the grid of step 1/256: accepted <=> roughly |dw| <= 0.008, |db| <= 0.018 *)
        /\ (Mode = "bin" /\ stat) => Abs(cand[1] - BinOpt[1]) <= 48 /\ Abs(cand[2] - BinOpt[2]) <= 96
        /\ (Mode = "bin" /\ Abs(cand[1] - BinOpt[1]) <= 21 /\ Abs(cand[2] - BinOpt[2]) <= 64) => stat /\ obj
        /\ (Mode = "tri" /\ cand = <<TriOptW[1], TriOptW[2], TriOptW[3], TriOptB[1], TriOptB[2], TriOptB[3]>>)
               => stat /\ obj
        (* the soft-max objective does not change when all intercepts move together, so    *)
        (* exactly the common shifts of the optimum are accepted as well                   *)
        /\ (Mode = "tri" /\ stat /\ ~IsZero) =>
               /\ \A j \in 1..3 : cand[j] = TriOptW[j]
               /\ cand[4] - TriOptB[1] = cand[5] - TriOptB[2] /\ cand[5] - TriOptB[2] = cand[6] - TriOptB[3]
        (* SumZero: sum over classes of G(c, j) is the floor noise of the probabilities only *)
        /\ Mode = "tri" => \A j \in 1..2 :
               Abs(a.G[j] + a.G[2 + j] + a.G[4 + j]) <= 3 * SumT([i \in 1..e.n |-> Abs(XE(e, e.X[i], j))], e.n)
ModelOK2(e, a) == ModelOK3(e, a, StationaryFrom(e, a, StatBits), ObjectiveFrom(e, a))
ModelOK1(e) == ModelOK2(e, AccAll(e, e.n))
ModelOK == Mode \in {"bin", "tri"} => ModelOK1(E)

(* helper for calibration runs: print what Stationary accepts *)
ShowAccepted ==
    (Mode \in {"bin", "tri"} /\ StationaryFrom(E, AccAll(E, E.n), StatBits)) => PrintT(<<"ACCEPTED", cand>>)
=============================================================================
