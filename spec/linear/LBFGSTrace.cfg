CONSTANT RedBits = 10
SPECIFICATION Spec
INVARIANT AtEnd
CHECK_DEADLOCK FALSE
