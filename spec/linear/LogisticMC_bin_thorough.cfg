CONSTANTS Mode = "bin"  StatBits = 8  GridStep = 32  NumStride = 1  TriFull = TRUE
SPECIFICATION Spec
INVARIANT NumOK
INVARIANT ModelOK
CHECK_DEADLOCK FALSE
