CONSTANTS MaxIter = 4  FTop = 3  GTop = 3  Tol = 1  Armijo = FALSE
SPECIFICATION Spec
INVARIANT TypeOK
INVARIANT ProtoOK
INVARIANT Counts
INVARIANT AtDone
PROPERTY Terminates
CHECK_DEADLOCK FALSE
