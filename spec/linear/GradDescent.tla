----------------------------- MODULE GradDescent -----------------------------
(***************************************************************************)
(* Supplementary specification (no listed property): the plain gradient-   *)
(* descent minimiser src/optimization/first_order/gradient_descent.rs as   *)
(* its caller sees it, with the same protocol vocabulary as LBFGS.tla      *)
(*      Start(f_0, g_0)   Iter(f_k, g_k)*   Stop(returned point).          *)
(* No estimator of the library uses this optimiser; the module exists so   *)
(* that the specification covers the whole optimisation package, and it is *)
(* bound to the code like the others: GradDescentModel.tla (the loop as    *)
(* coded) is checked against these guards by TLC, GradDescentTrace.tla     *)
(* evaluates the same guards on events recorded from the real              *)
(* GradientDescent::optimize.  A mismatch is reported by the C09 check as  *)
(* information (EXTRA-SPEC), never as a violation of C09.                  *)
(*                                                                         *)
(* Observables: fRk = dense rank of f(x_k) among the objective values of   *)
(* the run; gRk = dense rank of |grad f(x_k)|_2 in a pool that also holds  *)
(* the stopping tolerance gtol = max(|x_0|_2 * g_rtol, g_atol) as the code *)
(* computes it (it scales with the START POINT, not with the gradient --   *)
(* recorded as coded, see Note), so  gRk <= gtolRk  <=>  |g|_2 <= gtol.    *)
(*                                                                         *)
(* Contract (what a caller can rely on, written from the code because the  *)
(* routine has no documentation):                                          *)
(*   Monotone   the backtracking search accepts a step only under the      *)
(*              sufficient-decrease test with c1 > 0 along the steepest    *)
(*              descent direction, so f never increases along the iterates;*)
(*   Budget     at most max_iter steps;                                    *)
(*   Continue   a step is taken only from the start or from a point whose  *)
(*              gradient norm still exceeds gtol;                          *)
(*   Exit       the routine returns after max_iter steps or at a point     *)
(*              whose gradient norm is within gtol, never earlier;         *)
(*   Returned   the returned point is the last iterate, no worse than the  *)
(*              start, and f_x is the objective there;                     *)
(*   Terminates no panic, no hang.                                         *)
(* Note.  gtol is computed from |x_0| because `gvec` still holds x_0 when   *)
(* the tolerance is taken (the gradient is evaluated one line later).  For *)
(* a start far from the origin the routine therefore stops early relative  *)
(* to the gradient; that is outside any listed property and is recorded    *)
(* here only as the reason why no "reduced by many orders" clause is       *)
(* stated for this optimiser.                                              *)
(***************************************************************************)
EXTENDS Integers

NoIncrease(fPrev, fNext) == fNext <= fPrev
WithinBudget(iters, maxIter) == iters <= maxIter

Idle == [phase |-> "idle", maxIter |-> 0, gtol |-> 0, f0 |-> 0, f |-> 0, g |-> 0, it |-> 0]

(* e: [fFin, fRk, gFin, gRk, gtolRk, maxIter] *)
G_Start(st, e) == e.fFin /\ e.gFin
E_Start(st, e) == [phase |-> "running", maxIter |-> e.maxIter, gtol |-> e.gtolRk,
                   f0 |-> e.fRk, f |-> e.fRk, g |-> e.gRk, it |-> 0]

(* e: [fFin, fRk, gFin, gRk] -- the point reached by one more step *)
C_IterMonotone(st, e) == e.fFin /\ NoIncrease(st.f, e.fRk)
C_IterBudget(st, e)   == WithinBudget(st.it + 1, st.maxIter)
C_IterContinue(st, e) == st.it = 0 \/ st.g > st.gtol
G_Iter(st, e) == st.phase = "running" /\ C_IterMonotone(st, e) /\ C_IterBudget(st, e) /\ C_IterContinue(st, e)
E_Iter(st, e) == [st EXCEPT !.f = e.fRk, !.g = IF e.gFin THEN e.gRk ELSE 2000000, !.it = st.it + 1]

(* e: [status, iters, gradCalls, retFFin, retFRk, retGFin, retGRk, retIsLast, fxFin, fxRk] *)
C_StopTerminates(st, e) == e.status = "ok"
C_StopBudget(st, e)     == WithinBudget(e.iters, st.maxIter) /\ e.iters = st.it
C_StopExit(st, e)       == \/ st.maxIter = 0
                           \/ e.iters = st.maxIter
                           \/ (e.iters >= 1 /\ e.retGFin /\ e.retGRk <= st.gtol)
C_StopReturned(st, e)   == /\ e.retFFin /\ NoIncrease(st.f0, e.retFRk)
                           /\ e.retIsLast /\ e.retFRk = st.f
                           /\ e.fxFin /\ e.fxRk = e.retFRk
C_StopCount(st, e)      == e.gradCalls = 1 + e.iters
G_Stop(st, e) ==
    /\ st.phase = "running"
    /\ C_StopTerminates(st, e) /\ C_StopBudget(st, e) /\ C_StopExit(st, e)
    /\ C_StopReturned(st, e) /\ C_StopCount(st, e)
=============================================================================
