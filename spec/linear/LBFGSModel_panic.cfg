\* Negative test: the search gives up (panics) when its own budget is smaller than the number
\* of shrinks needed before alpha*s is absorbed (MaxLs < AMax).  TLC must find the panic.
CONSTANTS MaxIter = 3  Hist = 2  FTop = 2  GTop = 2  AtolLv = 1  SuccFTol = 1
          MaxLs = 1  MaxInf = 1  AMax = 4  InfTop = 1  Convex = TRUE  RedBits = 10
SPECIFICATION Spec
INVARIANT NeverPanics
CHECK_DEADLOCK FALSE
