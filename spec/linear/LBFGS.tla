-------------------------------- MODULE LBFGS --------------------------------
(***************************************************************************)
(* C09, part 1: the limited-memory BFGS minimiser as its caller sees it.   *)
(*                                                                         *)
(* Property text (properties.jsonl, C09, last sentence):                   *)
(*   "The underlying limited-memory BFGS minimiser with backtracking line  *)
(*    search, started anywhere, reduces the gradient of any well-          *)
(*    conditioned strictly convex quadratic by many orders of magnitude    *)
(*    without ever increasing the objective."                              *)
(*                                                                         *)
(* What is observable.  The objective handed to the optimiser is a         *)
(* call-back; it sees every evaluation point.  The points at which the     *)
(* GRADIENT call-back is invoked are the accepted iterates x_0, x_1, ...   *)
(* (the back-tracking search evaluates the objective only).  For every     *)
(* iterate the harness records two exact projections of floating-point     *)
(* numbers to integers:                                                    *)
(*   fRk  the dense rank of f(x_k) among all objective values of the run   *)
(*        (a < b  <=>  rank a < rank b,  a = b <=> equal ranks);           *)
(*   gEx  the binary exponent of |grad f(x_k)|_inf :                       *)
(*        gEx = e  <=>  2^(e-1) <= |g|_inf < 2^e ;  zero is -2000,         *)
(*        a non-finite gradient is +2000.                                  *)
(* Both are order preserving, so every comparison below is a comparison of *)
(* the real values; no tolerance is involved.                              *)
(*                                                                         *)
(* The optimiser run is a little protocol                                  *)
(*      Start(f_0, g_0)   Iter(f_k, g_k)*   Stop(returned point)           *)
(* described here by a protocol state, one guard per event and per clause  *)
(* of the property, and an effect.  LBFGSModel.tla (the implementation-    *)
(* shaped design model) is checked against these guards by TLC;            *)
(* LBFGSTrace.tla evaluates the very same guards on the events recorded    *)
(* from the real smartcore LBFGS::optimize.                                *)
(***************************************************************************)
EXTENDS Integers

(***************************************************************************)
(* The three clauses of the property.                                      *)
(***************************************************************************)

(* "without ever increasing the objective": along the accepted iterates the *)
(* objective never goes up (staying equal is not an increase).              *)
NoIncrease(fPrev, fNext) == fNext <= fPrev

(* "reduces the gradient ... by many orders of magnitude".  The statement   *)
(* gives no number.  `bits` is the number of binary orders demanded; the    *)
(* trace configuration uses 10 (a factor 1024).  That is deliberately far   *)
(* below what the optimiser reaches (>= 2^16 in all 60 000 runs looked at   *)
(* while building this check): with its default settings the optimiser      *)
(* stops as soon as the objective value stops changing in double precision, *)
(* which happens when the gradient has dropped to about sqrt(machine eps)   *)
(* = 2^-26 of  lambda_max * |x*|, and on a quadratic of condition number    *)
(* kappa the gradient at the start can be as small as lambda_min * |x0-x*|; *)
(* a worst-case estimate leaves only about 2^-10 for kappa = 10^4, so a     *)
(* larger demand could raise a false alarm.                                 *)
(* A run also counts as reduced when the gradient at the returned point is  *)
(* within the absolute tolerance the caller asked for (g_atol): nothing     *)
(* more can be asked of a minimiser than what its caller requested, and a   *)
(* start that already satisfies the tolerance is returned unchanged.        *)
(* In exponents:  gEnd <= g0 - bits  is implied by |g_end| <= 2^-bits |g_0| *)
(* and implies |g_end| < 2^-(bits-1) |g_0|;  gEnd <= atolEx is implied by   *)
(* |g_end| <= g_atol.  Both are on the permissive side of the real claim.   *)
Reduced(g0, gEnd, atolEx, bits) ==
    \/ gEnd <= atolEx
    \/ gEnd <= g0 - bits

(* The iteration budget `max_iter` is honoured.  (Not in the sentence       *)
(* quoted above, but it is the meaning of the optimiser's parameter and the *)
(* reason a run may legitimately stop before the gradient is reduced.)      *)
WithinBudget(iters, maxIter) == iters <= maxIter

(***************************************************************************)
(* Protocol state and per-event guards.                                    *)
(*   maxIter  the budget; full = TRUE when the budget is the library       *)
(*            default (1000), i.e. when the property promises a reduction; *)
(*            with a truncated budget (1..4) the statement is silent about *)
(*            the gradient and only NoIncrease / WithinBudget are demanded *)
(*   atolEx   exponent of the caller's absolute gradient tolerance         *)
(***************************************************************************)
Idle == [phase |-> "idle", maxIter |-> 0, full |-> FALSE, atolEx |-> 0,
         f0 |-> 0, g0 |-> 0, f |-> 0, g |-> 0, it |-> 0]

FullBudget == 1000

(* e: [fFin, fRk, gEx, maxIter, atolEx] *)
G_Start(st, e) == e.fFin          \* the objective is finite at the start (generator duty)
E_Start(st, e) == [phase |-> "running", maxIter |-> e.maxIter, full |-> (e.maxIter >= FullBudget),
                   atolEx |-> e.atolEx, f0 |-> e.fRk, g0 |-> e.gEx,
                   f |-> e.fRk, g |-> e.gEx, it |-> 0]

(* e: [fFin, fRk, gEx] -- one accepted iterate *)
C_IterMonotone(st, e) == e.fFin /\ NoIncrease(st.f, e.fRk)
C_IterBudget(st, e)   == WithinBudget(st.it + 1, st.maxIter)
G_Iter(st, e) == st.phase = "running" /\ C_IterMonotone(st, e) /\ C_IterBudget(st, e)
E_Iter(st, e) == [st EXCEPT !.f = e.fRk, !.g = e.gEx, !.it = st.it + 1]

(* e: [status, iters, retFFin, retFRk, retGEx] -- the optimiser has returned *)
C_StopTerminates(st, e) == e.status = "ok"             \* no panic, no hang
C_StopBudget(st, e)     == WithinBudget(e.iters, st.maxIter)
(* the point handed back is no worse than the start ... *)
C_StopReturned(st, e)   == e.retFFin /\ NoIncrease(st.f0, e.retFRk)
(* ... and, when the full budget was available, its gradient is reduced *)
C_StopReduced(st, e, bits) == st.full => Reduced(st.g0, e.retGEx, st.atolEx, bits)
G_Stop(st, e, bits) ==
    /\ st.phase = "running"
    /\ C_StopTerminates(st, e) /\ C_StopBudget(st, e)
    /\ C_StopReturned(st, e) /\ C_StopReduced(st, e, bits)

(***************************************************************************)
(* What the design model additionally predicts about the recorded events   *)
(* (not demanded by the property; a mismatch is MODEL-DRIFT, not a         *)
(* violation):                                                             *)
(*   the returned point is the last iterate and the reported f_x is its    *)
(*   objective value; the reported iteration count is the number of        *)
(*   accepted steps; one iteration costs two gradient calls and at least   *)
(*   three objective evaluations.                                          *)
(***************************************************************************)
D_StopIsLast(st, e)  == e.retIsLast /\ (e.retFFin => e.retFRk = st.f)
D_StopFx(st, e)      == IF e.iters = 0 THEN ~e.fxFin        \* f_x stays NaN when nothing was done
                        ELSE e.fxFin /\ e.fxRk = e.retFRk
D_StopCount(st, e)   == e.nIter <= e.iters /\ e.gradCalls = 1 + 2 * e.iters
D_IterEvals(st, e)   == e.nF >= 3
=============================================================================
