CONSTANTS MaxIter = 3  Hist = 2  FTop = 2  GTop = 2  AtolLv = 1  SuccFTol = 1
          MaxLs = 3  MaxInf = 1  AMax = 3  InfTop = 1  Convex = TRUE  RedBits = 10
SPECIFICATION Spec
INVARIANT TypeOK
INVARIANT ProtoOK
INVARIANT Bounded
INVARIANT NoPanic
INVARIANT HistoryOK
INVARIANT WindowOK
INVARIANT ScaleOK
INVARIANT AtDone
PROPERTY Monotone
CHECK_DEADLOCK FALSE
