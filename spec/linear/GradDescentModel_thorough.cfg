CONSTANTS MaxIter = 7  FTop = 5  GTop = 5  Tol = 1  Armijo = TRUE
SPECIFICATION Spec
INVARIANT TypeOK
INVARIANT ProtoOK
INVARIANT Counts
INVARIANT AtDone
PROPERTY Terminates
CHECK_DEADLOCK FALSE
