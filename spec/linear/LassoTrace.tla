----------------------------- MODULE LassoTrace -----------------------------
(***************************************************************************)
(* C08 trace validation (impl -> spec).  Consumes the ndjson file written  *)
(* by `c08 gen` from the real Lasso / ElasticNet (fit run under a          *)
(* watchdog: status "timeout" when it does not return).  Events:           *)
(*                                                                         *)
(*  Fit   one call of fit (+ predict on the training matrix)               *)
(*        est "lasso" | "enet";  X (integers), y (integers, length ylen);  *)
(*        alpha = aN / 2^aE (aN may be negative), l1_ratio = l1N / 2^l1E,  *)
(*        tol = tolSgn * 2^-tolE (tolSgn in -1, 0, 1), maxIter, normalize; *)
(*        status "ok" | "err" | "panic" | "timeout"; fin; and, when ok and *)
(*        finite, q = the outputs [S, W, B, Yhat] quantised at several     *)
(*        scales S (finest first).                                         *)
(*  Pair  two fits that the statement relates:                             *)
(*        kind "shift":  fit A on (X, y), fit B on (X, y + c);             *)
(*        kind "l1one":  fit A = elastic net with l1_ratio = 1, fit B =    *)
(*        Lasso, same data and parameters;                                 *)
(*        q = [S, WA, BA, WB, BB] at several scales.                       *)
(*                                                                         *)
(* SCALE FAMILY.  The statement's near-optimality is relative, hence       *)
(* scale free.  Fields xexp, yexp, aexp say that the library was fed       *)
(* X 2^xexp, y 2^yexp and alpha 2^aexp, a combination under which the      *)
(* stated objective is exactly homogeneous (Lasso / l1_ratio = 1: yexp =   *)
(* aexp; raw elastic net: xexp = yexp, aexp = 2 xexp), and that the        *)
(* harness has undone these exact power-of-two scalings on the outputs.    *)
(* The event therefore describes the small-integer problem and is judged   *)
(* by the very same operators at the usual resolution; a stopping rule     *)
(* that is secretly absolute shows up on the 2^-10 / 2^-20 members.        *)
(*                                                                         *)
(* TARGET-OFFSET FAMILY.  The stated objective sees y only through         *)
(* y - mean(y); field yoff says that the library was fed y + yoff (2^30 .. *)
(* 2^36, 1e9: |mean| / spread up to 1e10) and that the harness subtracted  *)
(* yoff from the intercept and the predictions again.  The event carries   *)
(* the small integers, every clause applies unchanged; an implementation   *)
(* that mistakes a large-mean target for a constant one, or loses the      *)
(* spread to the mean, is exposed.  Pair events of kind "shift" with a     *)
(* huge shift are realised the same way (then C = 0).                      *)
(*                                                                         *)
(* ENTRY POINTS.  Field entry = "inherent" (Lasso::fit, predict) or "api"  *)
(* (smartcore::api::SupervisedEstimator::fit, Predictor::predict, fully    *)
(* qualified).  The contract -- in particular every row of the validation  *)
(* table -- is the same for both; each invalid setting is recorded through *)
(* both.                                                                   *)
(*                                                                         *)
(* ITERATION LIMIT.  maxIter is clamped at 2^30 in the event (usize::MAX   *)
(* is a valid "unbounded" setting but not a 32-bit integer); maxIterClass  *)
(* = "zero" (invalid), "tiny" (1, 2: the statement promises no optimum     *)
(* after two iterations -- only that fit returns coefficients or an error, *)
(* never panics or hangs; the identities are still checked on what it      *)
(* returns), "default" (1000), "huge" (10^6 .. usize::MAX: same contract   *)
(* as the default).                                                        *)
(*                                                                         *)
(* Verdicts come from the operators of Lasso.tla only.                     *)
(***************************************************************************)
EXTENDS Lasso, TLC, Json, IOUtils

Rec == ndJsonDeserialize(IOEnv.TRACE)

VARIABLES l, nbad, hits
vars == <<l, nbad, hits>>

\* ------------------------------------------------------------ Fit events
\* index of the finest admissible scale, 0 if none
RECURSIVE PickScale(_, _, _)
PickScale(P, q, i) ==
    IF i > Len(q) THEN 0
    ELSE IF /\ Len(q[i].W) = P.p
            /\ LaInRange(P, q[i].W, q[i].B, q[i].Yhat, q[i].S)
            /\ LaGradInRange(P, LaResid(P, q[i].W, q[i].S))
         THEN i ELSE PickScale(P, q, i + 1)

\* contract of one valid fit at scale S; R and G are arguments (computed once)
FitContract(P, o, R, G) ==
    IF ~LaInterceptIdentity(P, o.W, o.B, o.S) THEN "InterceptIdentity"
    ELSE IF ~LaPredictIdentity(P, o.W, o.B, o.Yhat) THEN "PredictIdentity"
    ELSE IF ~NearOptimal(P, o.W, G, LaGradErr2(P), LaPub(P, o.W, R, o.S), o.S) THEN "NearOptimal"
    ELSE ""

FitAtScale(P, o) == LET R == LaResid(P, o.W, o.S) IN FitContract(P, o, R, LaGrad(P, R))
\* maxIterClass = "tiny": the identities only
TinyFitAtScale(P, o) ==
    IF ~LaInterceptIdentity(P, o.W, o.B, o.S) THEN "InterceptIdentity"
    ELSE IF ~LaPredictIdentity(P, o.W, o.B, o.Yhat) THEN "PredictIdentity" ELSE ""

ValidFitClause(e, P) ==
    IF \E i \in 1..Len(e.q) : Len(e.q[i].W) # P.p THEN "Shape"
    ELSE LET i == PickScale(P, e.q, 1) IN
         IF i = 0 THEN "OutOfRange"
         ELSE IF e.maxIterClass = "tiny" THEN TinyFitAtScale(P, e.q[i]) ELSE FitAtScale(P, e.q[i])

FitClause(e) ==
    IF e.est = "lasso" /\ LassoInvalid(e.X, e.ylen, e.aN, e.tolSgn, e.maxIter, e.normalize)
    THEN IF e.status = "err" THEN "" ELSE "Validation_" \o e.status
    ELSE IF e.maxIterClass = "tiny" /\ e.status = "err" THEN ""   \* two iterations: an error is admissible
    ELSE IF e.status # "ok" THEN "Status_" \o e.status          \* a result is promised
    ELSE IF ~e.fin THEN "NotFinite"
    ELSE IF ~LaDataInRange(e.X, e.y, e.aN, e.aE, e.l1N, e.l1E) THEN "OutOfRange"
    ELSE ValidFitClause(e, LaProblem(e.X, e.y, e.aN, e.aE, e.l1N, e.l1E, e.normalize, e.tolE))

FitHit(e, c) ==
    IF c = "OutOfRange" THEN "OutOfRange"
    ELSE IF e.est = "lasso" /\ LassoInvalid(e.X, e.ylen, e.aN, e.tolSgn, e.maxIter, e.normalize) THEN "Invalid"
    ELSE "Valid_" \o e.est \o (IF e.normalize THEN "_std" ELSE "_raw")

\* ------------------------------------------------------------ Pair events
RECURSIVE PickPairScale(_, _, _)
PickPairScale(P, q, i) ==
    IF i > Len(q) THEN 0
    ELSE IF /\ Len(q[i].WA) = P.p /\ Len(q[i].WB) = P.p
            /\ LaInRange(P, q[i].WA, q[i].BA, <<>>, q[i].S)
            /\ LaInRange(P, q[i].WB, q[i].BB - q[i].C, <<>>, q[i].S)
            /\ LaGradInRange(P, LaResid(P, q[i].WA, q[i].S))
            /\ LaGradInRange(P, LaResid(P, q[i].WB, q[i].S))
            /\ LaCloseInRange(P, q[i].WA, q[i].WB)
         THEN i ELSE PickPairScale(P, q, i + 1)

\* the intercepts differ by the shift c (C = c 2^S) up to the movement of the coefficients:
\*   raw: bB - bA = c ;  std: n (bB - bA - c) = - sum_j colsum_j (wB_j - wA_j)
ShiftIntercept(P, o) ==
    LET d == [k \in 1..P.p |-> o.WB[k] - o.WA[k]] IN
    IF P.std THEN LsAbs(P.n * (o.BB - o.BA - o.C) + LsDot(P.cs, d)) <= P.n + LsAbsSum(P.cs) + 2
    ELSE LsAbs(o.BB - o.BA - o.C) <= 2

PairAtScale(e, P, o) ==
    LET pub == LaMin(LaPub(P, o.WA, LaResid(P, o.WA, o.S), o.S), LaPub(P, o.WB, LaResid(P, o.WB, o.S), o.S)) IN
    IF ~NearMinimisersClose(P, o.WA, o.WB, pub, o.S)
    THEN (IF e.kind = "shift" THEN "ShiftChangesCoefficients" ELSE "L1RatioOneDiffersFromLasso")
    ELSE IF e.kind = "shift" /\ ~ShiftIntercept(P, o) THEN "ShiftIntercept"
    ELSE ""

PairClause(e) ==
    IF e.statusA # "ok" \/ e.statusB # "ok" \/ ~e.fin THEN "Skipped"     \* reported by the Fit events
    ELSE IF ~LaDataInRange(e.X, e.y, e.aN, e.aE, e.l1N, e.l1E) THEN "OutOfRange"
    ELSE LET P == LaProblem(e.X, e.y, e.aN, e.aE, e.l1N, e.l1E, e.normalize, e.tolE)
             i == PickPairScale(LaProblem(e.X, e.y, e.aN, e.aE, e.l1N, e.l1E, e.normalize, e.tolE), e.q, 1)
         IN IF i = 0 THEN "OutOfRange" ELSE PairAtScale(e, P, e.q[i])

\* ------------------------------------------------------------ the trace machine
Clause(e) == IF e.ev = "Fit" THEN FitClause(e) ELSE IF e.ev = "Pair" THEN PairClause(e) ELSE "UnknownEvent"
HitOf(e, c) == IF e.ev = "Fit" THEN FitHit(e, c)
               ELSE IF c \in {"OutOfRange", "Skipped"} THEN c ELSE "Pair_" \o e.kind

HitNames == {"Valid_lasso_raw", "Valid_lasso_std", "Valid_enet_raw", "Valid_enet_std", "Invalid",
             "Pair_shift", "Pair_l1one", "OutOfRange", "Skipped",
             "ScaledDown", "ScaledUp", "Unscaled",        \* second counter: member of the scale family
             "TargetOffset", "NoTargetOffset",            \* third: target-offset family
             "Invalid_api", "Invalid_inherent", "Valid_api", "Valid_inherent",   \* fourth: entry point
             "MaxIter_zero", "MaxIter_tiny", "MaxIter_default", "MaxIter_huge"}  \* fifth: iteration limit
OffsetHit(e) == IF e.yoff # 0 THEN "TargetOffset" ELSE "NoTargetOffset"
EntryHit(e, c) == (IF e.ev = "Fit" /\ FitHit(e, c) = "Invalid" THEN "Invalid_" ELSE "Valid_") \o e.entry
ScaleHit(e) == IF e.yexp < 0 THEN "ScaledDown" ELSE IF e.yexp > 0 THEN "ScaledUp" ELSE "Unscaled"

Judge(e, c) ==
    /\ IF c \in {"", "OutOfRange", "Skipped"} THEN nbad' = nbad
       ELSE PrintT(<<"BAD", l, e.run, e.ev, c>>) /\ nbad' = nbad + 1
    /\ hits' = [hits EXCEPT ![HitOf(e, c)] = @ + 1, ![ScaleHit(e)] = @ + 1,
                            ![OffsetHit(e)] = @ + 1, ![EntryHit(e, c)] = @ + 1,
                            !["MaxIter_" \o (IF e.ev = "Fit" THEN e.maxIterClass ELSE "default")] = @ + 1]

Step == /\ l <= Len(Rec)
        /\ Judge(Rec[l], Clause(Rec[l]))
        /\ l' = l + 1

Init == l = 1 /\ nbad = 0 /\ hits = [x \in HitNames |-> 0]
Next == Step
Spec == Init /\ [][Next]_vars

AtEnd == (l = Len(Rec) + 1) =>
            PrintT(<<"VERDICT", ToJson([consumed |-> l - 1, bad |-> nbad, hits |-> hits])>>)
=============================================================================
