CONSTANTS N = 3  S = 12  TolE = 20  Delta = 128  BigDelta = 512
CONSTANT Vals <- ValsQuick
CONSTANT Params <- ParamsQuick
SPECIFICATION Spec
INVARIANT Sound
INVARIANT Sharp
INVARIANT Close
CHECK_DEADLOCK FALSE
