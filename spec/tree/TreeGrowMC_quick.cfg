CONSTANTS
    MinN = 2
    MaxN = 4
    P = 1
    Vals = {0, 1, 2}
    Targets = {0, 1, 2}
    TopTargets = {0, 1}
    Kinds = {"mse", "gini", "entropy", "error"}
    Depths = {0, 1, 2, 3}
    Msls = {1, 2}
    Msss = {0, 3}
    TieOrders = "all"
    ReplayMod = 20
SPECIFICATION Spec
INVARIANT TypeOK
INVARIANT RevalidationNeverFails
INVARIANT ModelSatisfiesProperty
INVARIANT Replay
CHECK_DEADLOCK FALSE
