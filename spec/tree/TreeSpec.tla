------------------------------ MODULE TreeSpec ------------------------------
(***************************************************************************)
(* C05 -- "a fitted decision tree is a consistent, greedy-optimal          *)
(* partition within limits".  Property predicates (P), written from the    *)
(* property statement, not from the code.                                  *)
(*                                                                         *)
(* The same operators are                                                  *)
(*   - the INVARIANT of the implementation-shaped growth model TreeGrow    *)
(*     (TLC explores every small training set / parameter combination),    *)
(*   - the acceptance condition of TreeTrace, which validates the events   *)
(*     recorded from the real DecisionTreeClassifier / -Regressor.         *)
(*                                                                         *)
(* DATA CONVENTIONS                                                        *)
(*   X       sequence of n training rows, each a sequence of p integers.   *)
(*           Feature values and thresholds live on ONE integer scale per   *)
(*           feature: either exact (2*xden*value, so that midpoints are    *)
(*           integers too) or joint dense ranks of the values and the      *)
(*           thresholds.  Every clause below only uses the ORDER of        *)
(*           feature values relative to each other and to thresholds, so   *)
(*           both encodings decide it identically.                         *)
(*   y       classification: the original label values, which are arbitrary *)
(*           floats (fractional, closer than machine epsilon, huge, ...),   *)
(*           carried as order-preserving integer codes 1..k of the distinct *)
(*           values; `classes` and the predictions are coded the same way   *)
(*           (-1: a value that equals none of the labels);                  *)
(*           regression: integer numerators of the targets over yden.      *)
(*   nodes   the flat node array of the fitted model, 1-based here, with   *)
(*           0-based child ids as in the serde dump:                       *)
(*             [f, thr, thrOk, t, fc, out, outOk]                          *)
(*           f feature (0-based), thr threshold, t / fc ids of the child   *)
(*           taken when  x[f] <= thr  / otherwise (-1 = absent), out =     *)
(*           class index into `classes` or fx16 of the node mean.          *)
(*   A node without children is a leaf whatever its f / thr fields hold    *)
(*   (the library leaves a tentative threshold in nodes it never split).   *)
(***************************************************************************)
EXTENDS Integers, Sequences, FiniteSets

FxOne == 65536          \* regression outputs are recorded as round(v * 2^16)

IsLeaf(nd)     == nd.t = -1 /\ nd.fc = -1
IsInternal(nd) == nd.t >= 0 /\ nd.fc >= 0
GoesTrue(nd, row) == row[nd.f + 1] <= nd.thr       \* the routing rule of the statement

Range(s) == { s[i] : i \in DOMAIN s }
Abs(a) == IF a < 0 THEN -a ELSE a

(***************************************************************************)
(* Exact comparison of non-negative rationals a/b <= c/d without forming   *)
(* the cross products (TLC integers are 32 bit): continued-fraction        *)
(* descent.  a, c >= 0; b, d > 0.                                          *)
(***************************************************************************)
RECURSIVE RatLE(_, _, _, _)
RatLE(a, b, c, d) ==
    LET q1 == a \div b
        q2 == c \div d
    IN  IF q1 # q2 THEN q1 < q2
        ELSE LET r1 == a % b
                 r2 == c % d
             IN  IF r1 = 0 THEN TRUE                 \* a/b = q1 <= c/d
                 ELSE IF r2 = 0 THEN FALSE           \* c/d = q1 <  a/b
                 ELSE RatLE(d, r2, b, r1)            \* r1/b <= r2/d  <=>  d/r2 <= b/r1

(***************************************************************************)
(* Folds over sequences of row indices (sequences, not sets: TLC keeps a   *)
(* SelectSeq result as an explicit tuple, a set comprehension stays lazy). *)
(***************************************************************************)
RECURSIVE SumAt(_, _, _)
SumAt(rows, y, i) == IF i > Len(rows) THEN 0 ELSE y[rows[i]] + SumAt(rows, y, i + 1)
SumY(rows, y) == SumAt(rows, y, 1)

Cnt(rows, y, c) == Len(SelectSeq(rows, LAMBDA r : y[r] = c))

(* the distinct values of y in order of first appearance, as a sequence *)
RECURSIVE DistinctFrom(_, _, _)
DistinctFrom(y, i, acc) ==
    IF i > Len(y) THEN acc
    ELSE DistinctFrom(y, i + 1, IF \E k \in 1..Len(acc) : acc[k] = y[i] THEN acc ELSE Append(acc, y[i]))
Labels(y) == DistinctFrom(y, 1, <<>>)

(* folds of the per-class counts of `rows` over the label sequence `labs` *)
RECURSIVE SumSqCnt(_, _, _, _)
SumSqCnt(rows, y, labs, i) ==
    IF i > Len(labs) THEN 0
    ELSE LET c == Cnt(rows, y, labs[i]) IN c * c + SumSqCnt(rows, y, labs, i + 1)
RECURSIVE MaxCnt(_, _, _, _)
MaxCnt(rows, y, labs, i) ==
    IF i > Len(labs) THEN 0
    ELSE LET c == Cnt(rows, y, labs[i])
             m == MaxCnt(rows, y, labs, i + 1)
         IN  IF c > m THEN c ELSE m
RECURSIVE Pow(_, _)
Pow(b, e) == IF e = 0 THEN 1 ELSE b * Pow(b, e - 1)
PowPow(c) == Pow(c, c)          \* c^c, 0^0 = 1
RECURSIVE ProdPowCnt(_, _, _, _)
ProdPowCnt(rows, y, labs, i) ==
    IF i > Len(labs) THEN 1 ELSE PowPow(Cnt(rows, y, labs[i])) * ProdPowCnt(rows, y, labs, i + 1)

(***************************************************************************)
(* 1. WELL-FORMEDNESS: the flat array is a rooted binary tree.  Node 1 is  *)
(* the root, every node has both children or none, every other node is the *)
(* child of exactly one node, children have larger ids than their parent   *)
(* (hence no cycles), internal nodes test an existing feature against a    *)
(* finite threshold.                                                       *)
(***************************************************************************)
WellFormed(nodes, p) ==
    LET N == Len(nodes)
        inner == { k \in 1..N : IsInternal(nodes[k]) }
        kids == { nodes[k].t : k \in inner } \cup { nodes[k].fc : k \in inner }
    IN  /\ N >= 1
        /\ \A k \in 1..N :
              LET nd == nodes[k] IN
              \/ IsLeaf(nd)
              \/ /\ IsInternal(nd)
                 /\ nd.t # nd.fc
                 /\ nd.t >= k /\ nd.t < N          \* 0-based id of a child > 0-based id k-1 of the parent
                 /\ nd.fc >= k /\ nd.fc < N
                 /\ nd.f >= 0 /\ nd.f < p
                 /\ nd.thrOk
        /\ Cardinality(kids) = 2 * Cardinality(inner)     \* no node has two parents
        /\ Cardinality(kids) = N - 1                      \* every non-root node has one

(***************************************************************************)
(* 2. ROUTING.  Walk(nodes, X, 1, <<1..n>>, 0) lists every node of a       *)
(* well-formed tree once, with the training rows routed through it and the *)
(* number of splits above it:  <<[k, rows, d], ...>>  in pre-order.        *)
(* LeafOf routes a single row.                                             *)
(***************************************************************************)
RECURSIVE Walk(_, _, _, _, _)
Walk(nodes, X, k, rows, d) ==
    IF IsLeaf(nodes[k]) THEN << [k |-> k, rows |-> rows, d |-> d] >>
    ELSE << [k |-> k, rows |-> rows, d |-> d] >>
         \o Walk(nodes, X, nodes[k].t + 1, SelectSeq(rows, LAMBDA r : GoesTrue(nodes[k], X[r])), d + 1)
         \o Walk(nodes, X, nodes[k].fc + 1, SelectSeq(rows, LAMBDA r : ~GoesTrue(nodes[k], X[r])), d + 1)

AllRows(n) == [i \in 1..n |-> i]
WalkTree(nodes, X) == Walk(nodes, X, 1, AllRows(Len(X)), 0)

RECURSIVE LeafFrom(_, _, _)
LeafFrom(nodes, row, k) ==
    IF IsLeaf(nodes[k]) THEN k
    ELSE IF GoesTrue(nodes[k], row) THEN LeafFrom(nodes, row, nodes[k].t + 1)
    ELSE LeafFrom(nodes, row, nodes[k].fc + 1)
LeafOf(nodes, row) == LeafFrom(nodes, row, 1)

LeafVisits(nodes, walk)  == { i \in 1..Len(walk) : IsLeaf(nodes[walk[i].k]) }
InnerVisits(nodes, walk) == { i \in 1..Len(walk) : IsInternal(nodes[walk[i].k]) }

(***************************************************************************)
(* 3. WHAT A LEAF PREDICTS.                                                *)
(* Classification: the leaf's class (as an original label value) is A      *)
(* majority class of exactly the training rows routed to the leaf -- any   *)
(* class of maximal count is admissible.                                   *)
(* Regression: the leaf's output is the mean of the targets of those rows: *)
(* with out = round(v*2^16) and v = (sum of numerators)/(m*yden),          *)
(* |out*m*yden - sum*2^16| <= m*yden (half a unit of quantisation plus     *)
(* half a unit of slack, multiplied through by the denominator).           *)
(***************************************************************************)
IsMajority(rows, y, v) ==
    LET cv == Cnt(rows, y, v) IN \A i \in 1..Len(rows) : Cnt(rows, y, y[rows[i]]) <= cv

LeafLabel(nd, classes) ==        \* -1000000 is not a label the harness ever uses
    IF nd.outOk /\ nd.out >= 0 /\ nd.out < Len(classes) THEN classes[nd.out + 1] ELSE -1000000

IsMean(rows, y, yden, nd, slack) ==
    /\ nd.outOk
    /\ Len(rows) >= 1
    /\ Abs(nd.out * Len(rows) * yden - SumY(rows, y) * FxOne) <= Len(rows) * yden + slack

(* Single-precision trees: a child's mean is obtained from (parent sum - sibling sum), the   *)
(* parent sum itself being output*n rounded to 24 bits; with |numerators| <= 20 the error of  *)
(* out*m*yden is below 2^-23 * 3 * 20 * n * 2^16 < n/2 units, n the number of training rows.  *)
MeanSlack(prec, n) == IF prec = "f32" THEN n ELSE 0

LeafValueOK(kind, nodes, walk, y, yden, classes, slack) ==
    \A i \in LeafVisits(nodes, walk) :
        IF kind = "cls" THEN IsMajority(walk[i].rows, y, LeafLabel(nodes[walk[i].k], classes))
        ELSE IsMean(walk[i].rows, y, yden, nodes[walk[i].k], slack)

(* predict() returns, for every row (training rows and arbitrary query rows), the value   *)
(* of the leaf the row is routed to by the threshold comparisons.                          *)
ValueOf(kind, nd, classes) == IF kind = "cls" THEN LeafLabel(nd, classes) ELSE nd.out
PredictRouted(kind, nodes, rowsX, pred, classes) ==
    /\ Len(pred) = Len(rowsX)
    /\ \A r \in 1..Len(rowsX) :
          LET nd == nodes[LeafOf(nodes, rowsX[r])] IN nd.outOk /\ pred[r] = ValueOf(kind, nd, classes)

(***************************************************************************)
(* 4. LIMITS (one-sided, as the statement has them).                       *)
(***************************************************************************)
LeafSizeOK(nodes, walk, msl) ==          \* "every leaf other than an unsplit root"
    \A i \in LeafVisits(nodes, walk) : walk[i].k = 1 \/ Len(walk[i].rows) >= msl

DepthOK(walk, maxDepth) ==               \* maxDepth = 0 encodes None
    maxDepth = 0 \/ \A i \in 1..Len(walk) : walk[i].d <= maxDepth

(***************************************************************************)
(* 5. GREEDY OPTIMALITY AND COMPLETENESS.                                  *)
(* A candidate is a pair (feature j, value v occurring in the node): the   *)
(* partition  { x[j] <= v } / { x[j] > v }.  Every threshold induces one   *)
(* of these partitions or leaves one side empty.  It is admissible when    *)
(* both sides hold >= msl rows (msl >= 1).                                 *)
(***************************************************************************)
LeftOf(rows, X, j, v) == SelectSeq(rows, LAMBDA r : X[r][j] <= v)
Admissible(nl, n, msl) == nl >= msl /\ n - nl >= msl /\ nl >= 1 /\ n - nl >= 1
ColVals(rows, X, j) == { X[rows[i]][j] : i \in 1..Len(rows) }

SomeThresholdExists(rows, X, p, msl) ==
    \E j \in 1..p : \E v \in ColVals(rows, X, j) : Admissible(Len(LeftOf(rows, X, j, v)), Len(rows), msl)

(* ---- regression: reduction in squared error --------------------------------------- *)
(* SSE(parent) - SSE(L) - SSE(R) = D^2 / (n * nL * nR)  with  D = n*S_L - nL*S  (exact  *)
(* integers over the numerators; the common factor 1/(n*yden^2) is dropped).            *)
(* |D| <= nL*nR*(ymax-ymin); the sweep is evaluated only where D^2 fits 32 bits and     *)
(* where distinct reductions differ by far more than double rounding error (see         *)
(* RegNodeInScope), other nodes are counted as not checked.                              *)
RegOptMaxRows == 64
RegScore(n, s, nl, sl) == LET d == n * sl - nl * s IN <<d * d, nl * (n - nl)>>

RegNodeInScope(rows, y, prec) ==
    LET n == Len(rows)
        ys == { y[rows[i]] : i \in 1..n }
        lo == CHOOSE a \in ys : \A b \in ys : a <= b
        hi == CHOOSE a \in ys : \A b \in ys : a >= b
    IN  prec = "f64"        \* in single precision the gains themselves carry errors of the size of the gaps
        /\ n <= RegOptMaxRows /\ ((n * n) \div 4) * (hi - lo) <= 46000

RegNodeOptimal(rows, X, y, p, msl, left, n, s) ==
    LET nl == Len(left)
        obs == RegScore(n, s, nl, SumY(left, y))
    IN  /\ nl >= 1 /\ n - nl >= 1
        /\ \A j \in 1..p : \A v \in ColVals(rows, X, j) :
              LET cand == LeftOf(rows, X, j, v) IN
              Admissible(Len(cand), n, msl) =>
                  LET sc == RegScore(n, s, Len(cand), SumY(cand, y))
                  IN  RatLE(sc[1], sc[2], obs[1], obs[2])

GreedyOptimalReg(nodes, walk, X, y, p, msl, prec) ==
    \A i \in InnerVisits(nodes, walk) :
        LET rows == walk[i].rows IN
        RegNodeInScope(rows, y, prec) =>
            RegNodeOptimal(rows, X, y, p, msl,
                           SelectSeq(rows, LAMBDA r : GoesTrue(nodes[walk[i].k], X[r])),
                           Len(rows), SumY(rows, y))

RegNodesChecked(nodes, walk, y, prec) ==
    Cardinality({ i \in InnerVisits(nodes, walk) : RegNodeInScope(walk[i].rows, y, prec) })

(* ---- classification: the three impurities, exactly -------------------------------- *)
(* Maximising the gain  I(parent) - nL/n I(L) - nR/n I(R)  is                           *)
(*   gini    : maximising  A_L/nL + A_R/nR,  A = sum over classes of count^2            *)
(*   error   : maximising  max_L + max_R     (counts of the plurality classes)          *)
(*   entropy : minimising  nL^nL nR^nR / (prod c_L^c_L prod c_R^c_R)   because          *)
(*             n*H = n log n - sum c log c  and  log is monotone (integer identity;     *)
(*             evaluated for nodes of <= EntMaxRows rows where every factor fits).      *)
(* Scores are pairs <<num, den>>, larger is better.                                     *)
EntMaxRows == 10

GiniScore(left, right, y, labs) ==
    LET nl == Len(left)
        nr == Len(right)
        al == SumSqCnt(left, y, labs, 1)
        ar == SumSqCnt(right, y, labs, 1)
    IN  <<al * nr + ar * nl, nl * nr>>
ErrScore(left, right, y, labs) ==
    <<MaxCnt(left, y, labs, 1) + MaxCnt(right, y, labs, 1), 1>>
EntScore(left, right, y, labs) ==
    << ProdPowCnt(left, y, labs, 1) * ProdPowCnt(right, y, labs, 1),
       PowPow(Len(left)) * PowPow(Len(right)) >>

ClsScore(crit, left, right, y, labs) ==
    CASE crit = "gini" -> GiniScore(left, right, y, labs)
      [] crit = "error" -> ErrScore(left, right, y, labs)
      [] crit = "entropy" -> EntScore(left, right, y, labs)

(* single precision: gini gains of a node of n rows differ by >= 16/n^5 when they differ, f32     *)
(* rounding contributes a few 2^-24: decided for n <= 12 only; classification-error gains differ   *)
(* by >= 1/n (any n); entropy as in double precision.                                             *)
ClsNodeInScope(crit, rows, prec) ==
    CASE crit = "entropy" -> Len(rows) <= EntMaxRows
      [] crit = "gini" -> prec = "f64" \/ Len(rows) <= 12
      [] OTHER -> TRUE

ClsNodeOptimal(crit, rows, X, y, p, msl, left, right, labs) ==
    LET n == Len(rows) IN
    /\ Len(left) >= 1 /\ n - Len(left) >= 1
    /\ LET obs == ClsScore(crit, left, right, y, labs)
       IN  \A j \in 1..p : \A v \in ColVals(rows, X, j) :
              LET cand == LeftOf(rows, X, j, v) IN
              Admissible(Len(cand), n, msl) =>
                  LET sc == ClsScore(crit, cand, SelectSeq(rows, LAMBDA r : X[r][j] > v), y, labs)
                  IN  RatLE(sc[1], sc[2], obs[1], obs[2])

(* the side conditions under which the statement claims optimality / completeness for
   classification trees *)
DistinctCols(X, p) == \A j \in 1..p : Cardinality({ X[r][j] : r \in 1..Len(X) }) = Len(X)
ClsSideConditions(X, p, msl) == msl = 1 /\ DistinctCols(X, p)

IsPure(rows, y) == \A i \in 1..Len(rows) : y[rows[i]] = y[rows[1]]

GreedyOptimalCls(crit, nodes, walk, X, y, p, msl, labs, prec) ==
    \A i \in InnerVisits(nodes, walk) :
        LET rows == walk[i].rows IN
        ClsNodeInScope(crit, rows, prec) =>
            ClsNodeOptimal(crit, rows, X, y, p, msl,
                           SelectSeq(rows, LAMBDA r : GoesTrue(nodes[walk[i].k], X[r])),
                           SelectSeq(rows, LAMBDA r : ~GoesTrue(nodes[walk[i].k], X[r])), labs)

ClsNodesChecked(crit, nodes, walk, prec) ==
    Cardinality({ i \in InnerVisits(nodes, walk) : ClsNodeInScope(crit, walk[i].rows, prec) })

PureStaysLeaf(nodes, walk, y) ==
    \A i \in InnerVisits(nodes, walk) : ~IsPure(walk[i].rows, y)

(* ---- completeness (only without a depth limit) ------------------------------------ *)
(* A leaf holding MORE than min_samples_split rows is a leaf only because no admissible *)
(* threshold exists (regression), or because it is pure or no admissible threshold      *)
(* exists (classification).  Nothing is required of smaller nodes.                      *)
CompleteReg(nodes, walk, X, p, msl, mss) ==
    \A i \in LeafVisits(nodes, walk) :
        Len(walk[i].rows) > mss => ~SomeThresholdExists(walk[i].rows, X, p, msl)

CompleteCls(nodes, walk, X, y, p, msl, mss) ==
    \A i \in LeafVisits(nodes, walk) :
        (Len(walk[i].rows) > mss /\ ~IsPure(walk[i].rows, y)) => ~SomeThresholdExists(walk[i].rows, X, p, msl)

(* "with the size limits disabled such data are reproduced exactly" *)
SizeLimitsDisabled(maxDepth, msl, mss) == maxDepth = 0 /\ msl = 1 /\ mss <= 1
ReproducesTraining(pred, y) == \A r \in 1..Len(y) : pred[r] = y[r]

(***************************************************************************)
(* 6. RELATIONS BETWEEN FITS: determinism and power-of-two rescaling.      *)
(* A fitted tree is observed through its bit-level signature               *)
(*   nodes[k] = [t, fc, f, tb, ob]   tb / ob = <<sign, exponent, mhi, mlo>>*)
(*   pred / predQ = one signature per row                                  *)
(* Only the observable part is compared: the shape, feature and threshold  *)
(* of internal nodes, the output of leaves and the predictions.            *)
(* Multiplying all features by 2^j multiplies every threshold by 2^j       *)
(* (same sign and mantissa, exponent + j; zero stays zero) and changes     *)
(* nothing else; j = 0 is determinism.                                     *)
(***************************************************************************)
ZeroExp == -2000
ShiftedBits(a, b, j) ==
    /\ a[1] = b[1] /\ a[3] = b[3] /\ a[4] = b[4]
    /\ b[2] = (IF a[2] = ZeroExp \/ a[2] = 2000 THEN a[2] ELSE a[2] + j)

SameTreeUpToShift(a, b, j) ==
    /\ Len(a.nodes) = Len(b.nodes)
    /\ \A k \in 1..Len(a.nodes) :
          LET u == a.nodes[k]
              w == b.nodes[k]
          IN  /\ u.t = w.t /\ u.fc = w.fc
              /\ IsInternal(u) => (u.f = w.f /\ ShiftedBits(u.tb, w.tb, j))
              /\ IsLeaf(u) => u.ob = w.ob
    /\ a.pred = b.pred
    /\ a.predQ = b.predQ

(* Near overflow (features times 2^1023 in f64 / 2^127 in f32: every value still finite, the  *)
(* sum of two values not): a midpoint cannot be formed there, so the exact threshold relation  *)
(* is not demanded -- any threshold that separates the same rows is as good.  What must be      *)
(* unchanged is the tree as a partition: shape, split features, leaf outputs and the            *)
(* predictions on the training rows.  (The scaled fit is also judged on its own by TreeVerdict: *)
(* a node that silently stays a leaf because its threshold became infinite fails completeness.) *)
NearOverflow(prec, shift) == (prec = "f64" /\ shift >= 1020) \/ (prec = "f32" /\ shift >= 124)

SameShape(a, b) ==
    /\ Len(a.nodes) = Len(b.nodes)
    /\ \A k \in 1..Len(a.nodes) :
          LET u == a.nodes[k]
              w == b.nodes[k]
          IN  /\ u.t = w.t /\ u.fc = w.fc
              /\ IsInternal(u) => u.f = w.f
              /\ IsLeaf(u) => u.ob = w.ob
    /\ a.pred = b.pred

(***************************************************************************)
(* 7. The sorting primitive the growth relies on: quick_argsort_mut returns *)
(* a permutation of the indices that sorts the values and leaves the       *)
(* vector itself sorted.                                                   *)
(***************************************************************************)
IsArgSort(v, idx, sorted) ==
    LET n == Len(v) IN
    /\ Len(idx) = n /\ Len(sorted) = n
    /\ Range(idx) = 0..(n - 1)
    /\ \A i \in 1..n : sorted[i] = v[idx[i] + 1]
    /\ \A i \in 1..(n - 1) : sorted[i] <= sorted[i + 1]

(***************************************************************************)
(* 8. The whole per-fit property, as the name of the first clause that     *)
(* fails ("ok" when none does).  Evaluated left to right so that later     *)
(* clauses may rely on earlier ones (routing needs a well-formed tree).    *)
(* e is a record with the fields of a TreeFit event (prec = "f64" | "f32":  *)
(* the element type of the tree, which only narrows where optimality is     *)
(* decided and widens the tolerance of the mean).                           *)
(***************************************************************************)
(* Result: [c |-> clause name or "ok", opt |-> internal nodes whose optimality was decided,
             inner |-> internal nodes]                                                    *)
Res(c, opt, inner) == [c |-> c, opt |-> opt, inner |-> inner]

AfterWalk(e, walk) ==
    LET ni == Cardinality(InnerVisits(e.nodes, walk)) IN
    IF ~LeafValueOK(e.kind, e.nodes, walk, e.y, e.yden, e.classes, MeanSlack(e.prec, Len(e.X))) THEN Res("LeafValue", 0, ni)
    ELSE IF ~LeafSizeOK(e.nodes, walk, e.msl) THEN Res("LeafSize", 0, ni)
    ELSE IF ~DepthOK(walk, e.maxDepth) THEN Res("Depth", 0, ni)
    ELSE IF e.kind = "reg" THEN
        IF ~GreedyOptimalReg(e.nodes, walk, e.X, e.y, e.p, e.msl, e.prec) THEN Res("GreedyOptimalReg", 0, ni)
        ELSE IF e.maxDepth = 0 /\ ~CompleteReg(e.nodes, walk, e.X, e.p, e.msl, e.mss) THEN Res("CompleteReg", 0, ni)
        ELSE Res("ok", RegNodesChecked(e.nodes, walk, e.y, e.prec), ni)
    ELSE IF ~ClsSideConditions(e.X, e.p, e.msl) THEN Res("ok", 0, ni)
    ELSE IF ~GreedyOptimalCls(e.crit, e.nodes, walk, e.X, e.y, e.p, e.msl, Labels(e.y), e.prec) THEN Res("GreedyOptimalCls", 0, ni)
    ELSE IF ~PureStaysLeaf(e.nodes, walk, e.y) THEN Res("PureStaysLeaf", 0, ni)
    ELSE IF e.maxDepth = 0 /\ ~CompleteCls(e.nodes, walk, e.X, e.y, e.p, e.msl, e.mss) THEN Res("CompleteCls", 0, ni)
    ELSE IF SizeLimitsDisabled(e.maxDepth, e.msl, e.mss) /\ ~ReproducesTraining(e.pred, e.y) THEN Res("ReproducesTraining", 0, ni)
    ELSE Res("ok", ClsNodesChecked(e.crit, e.nodes, walk, e.prec), ni)

TreeVerdict(e) ==
    IF ~WellFormed(e.nodes, e.p) THEN Res("WellFormed", 0, 0)
    ELSE IF ~(e.predOk /\ PredictRouted(e.kind, e.nodes, e.X, e.pred, e.classes)
                       /\ PredictRouted(e.kind, e.nodes, e.Q, e.predQ, e.classes)) THEN Res("PredictRouted", 0, 0)
    ELSE AfterWalk(e, WalkTree(e.nodes, e.X))

(***************************************************************************)
(* 9. Agreement with the design model (TreeGrow).  Not a property: a tree  *)
(* that satisfies everything above but differs from every tree the model   *)
(* grows for the same input is MODEL-DRIFT.  alt is a sequence of model    *)
(* nodes [f, thr, t, fc, out] (classification) / [f, thr, t, fc, s, m]     *)
(* (regression, mean s/m).                                                 *)
(***************************************************************************)
MatchesModel(kind, nodes, alt) ==
    /\ Len(nodes) = Len(alt)
    /\ \A k \in 1..Len(nodes) :
          LET u == nodes[k]
              w == alt[k]
          IN  /\ u.t = w.t /\ u.fc = w.fc
              /\ IsInternal(u) => (u.f = w.f /\ u.thr = w.thr)
              /\ IsLeaf(u) => IF kind = "cls" THEN u.out = w.out
                              ELSE Abs(u.out * w.m - w.s * FxOne) <= w.m
=============================================================================
