------------------------------ MODULE TreeTrace ------------------------------
(***************************************************************************)
(* C05 trace validation (impl -> spec, and the return leg of spec -> impl).*)
(* Consumes the ndjson file recorded by `c05 gen-random | replay-spec |    *)
(* gen-argsort` from the real DecisionTreeClassifier / DecisionTreeRegressor*)
(* and evaluates the predicates of TreeSpec on every event:                *)
(*                                                                         *)
(*   TreeFit  one fit: TreeVerdict (well-formed, routing, leaf values,     *)
(*            leaf-size and depth limits, greedy optimality, completeness, *)
(*            exact reproduction) -- plus, for inputs printed by the       *)
(*            TreeGrow model, agreement with one of the model's trees      *)
(*            (disagreement is drift, not a violation);                    *)
(*   Refit    the same input fitted again: identical observable tree;      *)
(*   Scaled   features multiplied by 2^shift (|shift| up to 200, either    *)
(*            sign): identical tree with every threshold multiplied by     *)
(*            exactly 2^shift, and itself a fit that satisfies TreeVerdict;*)
(*            (near overflow, 2^1023 / 2^127: same partition only);        *)
(*   ArgSort  quick_argsort_mut sorts (random vectors, structured orders   *)
(*            such as decreasing runs with one exception, organ pipe, saw  *)
(*            tooth, median-of-three killers, lengths around powers of 2). *)
(*                                                                         *)
(* The spec never blocks: a failing event prints <<"BAD", ...>> with the   *)
(* name of the first failing clause and the run goes on.                   *)
(***************************************************************************)
EXTENDS TreeSpec, TLC, Json, IOUtils

Rec == ndJsonDeserialize(IOEnv.TRACE)

VARIABLES l,      \* index of the next event
          last,   \* [run, sig] of the most recent successful TreeFit (reference of Refit / Scaled)
          nbad, hits
vars == <<l, last, nbad, hits>>

NoFit == [run |-> -1, sig |-> <<>>]

HitNames == {"TreeFit", "Cls", "Reg", "DepthLimited", "LeafLimit", "OptReg", "OptNodesChecked", "OptNodesSkipped",
             "CompleteReg", "SideCond", "OptGini", "OptEntropy", "OptError", "CompleteCls", "Reproduce",
             "Refit", "Scaled", "ScaledFar", "Orphan", "ArgSort", "Replayed", "Drift",
             "Adjacent", "F32", "NdarrayF", "NdarrayC", "Nalgebra",
             "NearMax", "Ordered", "Ladder", "TraitEntry", "SortPattern", "SortLadder",
             "LabelFractional", "LabelColliding", "LabelTiny", "LabelHuge", "LabelSignedZero", "ManyClasses"}

Bump(h, names) == [x \in DOMAIN h |-> h[x] + (IF x \in names THEN 1 ELSE 0)]
Add(h, name, k) == [h EXCEPT ![name] = @ + k]

Bad(e, clause) == PrintT(<<"BAD", l, e.run, e.ev, clause>>)

(* which clauses a successful TreeFit event exercised non-vacuously *)
Exercised(e, r) ==
    {"TreeFit"}
    \cup (IF e.kind = "cls" THEN {"Cls"} ELSE {"Reg"})
    \cup (IF e.family = "adjacent" /\ Len(e.nodes) > 1 THEN {"Adjacent"} ELSE {})
    \cup (IF e.family = "ordered" /\ Len(e.X) >= 8 THEN {"Ordered"} ELSE {})      \* structured row orders
    \cup (IF e.family = "ladder" /\ Len(e.X) >= 255 THEN {"Ladder"} ELSE {})      \* sizes around powers of two
    \cup (IF e.entry = "trait" THEN {"TraitEntry"} ELSE {})
    \* label sets with a special arithmetic shape (only counted when the tree actually splits)
    \cup (IF e.kind = "cls" /\ Len(e.nodes) > 1
          THEN CASE e.labelFamily = "fractional" -> {"LabelFractional"}
                 [] e.labelFamily = "colliding" -> {"LabelColliding"}
                 [] e.labelFamily = "tiny" -> {"LabelTiny"}
                 [] e.labelFamily = "huge" -> {"LabelHuge"}
                 [] e.labelFamily = "signedzero" -> {"LabelSignedZero"}
                 [] e.labelFamily = "manyclass" -> {"ManyClasses"}
                 [] OTHER -> {}
          ELSE {})                        \* SupervisedEstimator / Predictor
    \cup (CASE e.backend = "dense32" -> {"F32"} [] e.backend = "ndarray_f" -> {"NdarrayF"}
            [] e.backend = "ndarray_c" -> {"NdarrayC"} [] e.backend = "nalgebra" -> {"Nalgebra"} [] OTHER -> {})
    \cup (IF e.maxDepth > 0 THEN {"DepthLimited"} ELSE {})
    \cup (IF e.msl > 1 /\ Len(e.nodes) > 1 THEN {"LeafLimit"} ELSE {})
    \cup (IF e.kind = "reg" /\ r.opt > 0 THEN {"OptReg"} ELSE {})
    \cup (IF e.kind = "reg" /\ e.maxDepth = 0 THEN {"CompleteReg"} ELSE {})
    \cup (IF e.kind = "cls" /\ ClsSideConditions(e.X, e.p, e.msl)
          THEN {"SideCond"}
               \cup (IF r.opt > 0 THEN {CASE e.crit = "gini" -> "OptGini" [] e.crit = "entropy" -> "OptEntropy"
                                          [] OTHER -> "OptError"} ELSE {})
               \cup (IF e.maxDepth = 0 THEN {"CompleteCls"} ELSE {})
               \cup (IF SizeLimitsDisabled(e.maxDepth, e.msl, e.mss) THEN {"Reproduce"} ELSE {})
          ELSE {})

IsDrift(e) == "expect" \in DOMAIN e /\ ~\E a \in 1..Len(e.expect) : MatchesModel(e.kind, e.nodes, e.expect[a])

FitStep(e) ==
    IF e.status # "ok"
    THEN /\ Bad(e, "NoResult") /\ nbad' = nbad + 1 /\ last' = NoFit /\ UNCHANGED hits
    ELSE LET r == TreeVerdict(e) IN
         /\ last' = [run |-> e.run, sig |-> e.sig]
         /\ IF r.c = "ok"
            THEN /\ nbad' = nbad
                 /\ hits' = Add(Add(Bump(hits, Exercised(e, r)
                                               \cup (IF "expect" \in DOMAIN e THEN {"Replayed"} ELSE {})
                                               \cup (IF IsDrift(e) THEN {"Drift"} ELSE {})),
                                    "OptNodesChecked", r.opt), "OptNodesSkipped", r.inner - r.opt)
            ELSE /\ Bad(e, r.c) /\ nbad' = nbad + 1 /\ UNCHANGED hits

(* Refit: the same input again.  Scaled: the features times 2^shift (shift of either sign and up
   to +-200: tiny and huge magnitudes); the record is a complete fit of its own, judged by every
   predicate like any other fit, and its bit signature must be the unscaled one with every
   threshold multiplied by exactly 2^shift. *)
RefitStep(e) ==
    /\ UNCHANGED last
    /\ IF last.run # e.run
       THEN hits' = Bump(hits, {"Orphan"}) /\ UNCHANGED nbad      \* its TreeFit already failed
       ELSE IF ~(e.status = "ok" /\ IF e.ev = "Scaled" /\ NearOverflow(e.prec, e.shift)
                                    THEN SameShape(last.sig, e.sig)
                                    ELSE SameTreeUpToShift(last.sig, e.sig, e.shift))
            THEN /\ Bad(e, IF e.ev = "Refit" THEN "Deterministic" ELSE "ScaleInvariant")
                 /\ nbad' = nbad + 1 /\ UNCHANGED hits
            ELSE IF e.ev = "Refit"
                 THEN hits' = Bump(hits, {"Refit"}) /\ UNCHANGED nbad
                 ELSE LET r == TreeVerdict(e) IN
                      IF r.c = "ok"
                      THEN /\ hits' = Bump(hits, {"Scaled"} \cup (IF e.shift >= 50 \/ e.shift <= -50 THEN {"ScaledFar"} ELSE {})
                                                  \cup (IF NearOverflow(e.prec, e.shift) /\ Len(e.nodes) > 1 THEN {"NearMax"} ELSE {}))
                           /\ UNCHANGED nbad
                      ELSE Bad(e, r.c) /\ nbad' = nbad + 1 /\ UNCHANGED hits

SortStep(e) ==
    /\ UNCHANGED last
    /\ IF e.status = "ok" /\ IsArgSort(e.v, e.idx, e.sorted)
       THEN hits' = Bump(hits, {"ArgSort"} \cup (IF "family" \in DOMAIN e
                                                  THEN (IF e.family \in {"pattern", "embedded"} THEN {"SortPattern"} ELSE {})
                                                       \cup (IF e.family = "ladder" THEN {"SortLadder"} ELSE {})
                                                  ELSE {})) /\ UNCHANGED nbad
       ELSE Bad(e, "IsArgSort") /\ nbad' = nbad + 1 /\ UNCHANGED hits

Step ==
    /\ l <= Len(Rec)
    /\ l' = l + 1
    /\ LET e == Rec[l] IN
       CASE e.ev = "TreeFit" -> FitStep(e)
         [] e.ev \in {"Refit", "Scaled"} -> RefitStep(e)
         [] e.ev = "ArgSort" -> SortStep(e)
         [] OTHER -> Bad(e, "unknown event") /\ nbad' = nbad + 1 /\ UNCHANGED <<last, hits>>

Init == l = 1 /\ last = NoFit /\ nbad = 0 /\ hits = [x \in HitNames |-> 0]
Next == Step
Spec == Init /\ [][Next]_vars

(* printed exactly once, when the whole file has been consumed *)
AtEnd == (l = Len(Rec) + 1) =>
            PrintT(<<"VERDICT", ToJson([consumed |-> l - 1, bad |-> nbad, hits |-> hits])>>)
=============================================================================
