------------------------------ MODULE ForestAgg ------------------------------
(***************************************************************************)
(* C06, design model (A) of the aggregation half of the random forests:    *)
(*   RandomForestClassifier::{predict, predict_for_row, predict_oob,       *)
(*                            predict_for_row_oob} + tree::which_max       *)
(*   RandomForestRegressor ::{predict, predict_for_row, predict_oob,       *)
(*                            predict_for_row_oob}                         *)
(* One action per loop body of the code:                                   *)
(*                                                                         *)
(*   predict:      for each row r          (DecideP closes the row)        *)
(*                    for each tree t      (TallyP)                        *)
(*                       cls: result[tree.predict_for_row(r)] += 1         *)
(*                       reg: result += tree.predict_for_row(r)            *)
(*                    cls: classes[which_max(result)]  (first maximum)     *)
(*                    reg: result / n_trees                                *)
(*   predict_oob:  samples is None -> Err                (OobErr)          *)
(*                 for each row r          (DecideO)                       *)
(*                    for each (tree, samples) (TallyO)                    *)
(*                       if !samples[r] { tally as above; reg: n += 1 }    *)
(*                    cls: classes[which_max(result)]  -- all zero -> 0    *)
(*                    reg: result / n   -- 0/0 = NaN when no tree is OOB   *)
(*                                                                         *)
(* The member trees' predictions tp[t][r] and the bootstrap membership     *)
(* mask[t][r] are *inputs* of this model, chosen nondeterministically in   *)
(* Init: the model says how a forest aggregates whatever its trees say.    *)
(* TLC explores every input of the configured scope and checks in every    *)
(* terminal state that the observation satisfies the property predicates   *)
(* of Forest.tla (INVARIANT ModelSatisfiesProperty) -- in particular that  *)
(* "first maximum" is a plurality, that the all-zero / 0-over-0 corner is  *)
(* exactly the corner the predicates leave unconstrained, and that the     *)
(* rounded mean of in-range values is in range.                            *)
(*                                                                         *)
(* spec -> impl: every terminal state prints one REPLAY line with the      *)
(* complete observation.  The harness (`c06 replay-spec`) assembles a real *)
(* RandomForestClassifier / Regressor with exactly these member trees      *)
(* (decision chains on a row-id feature) and this samples[] table through  *)
(* the public serde interface, runs the real predict / predict_oob and     *)
(* the member trees' public predict, and records what came back;           *)
(* ForestTrace validates that against the same predicates and counts a     *)
(* difference from the model's own output as MODEL-DRIFT.                  *)
(*                                                                         *)
(* Scope.  Rows are aggregated independently, so the scope is described by *)
(* "configurations" [y, active]: y gives the training labels (class index  *)
(* 1..K) resp. targets, and only the rows in `active` get nondeterministic *)
(* tree predictions and membership bits; every other row is predicted      *)
(* correctly by every tree and is in every sample.  This keeps K = 3       *)
(* classes (three-way ties) affordable: what is enumerated exhaustively    *)
(* is (number of trees) x (votes and membership of the active rows).       *)
(***************************************************************************)
EXTENDS Forest, Json

CONSTANTS Tier,      \* "quick" | "thorough": selects the configurations below
          MaxT       \* forests of 1..MaxT trees

\* original label values of class index 1, 2, 3 (non-contiguous, negative)
LabelVals == <<-3, 4, 10>>
\* regression: what a member tree may predict (within the range of the targets)
RegVals == {-1, 0, 2}

ConfigsCls ==
    IF Tier = "quick"
    THEN { [y |-> <<1, 2, 3>>, active |-> {1}], [y |-> <<1, 2>>, active |-> {1, 2}] }
    ELSE { [y |-> <<1, 2, 3>>, active |-> {1, 2}], [y |-> <<2, 1>>, active |-> {1, 2}],
           [y |-> <<1, 2, 2, 3>>, active |-> {3}] }
ConfigsReg ==
    IF Tier = "quick"
    THEN { [y |-> <<-1, 2>>, active |-> {1}], [y |-> <<2, 0, -1>>, active |-> {2}] }
    ELSE { [y |-> <<-1, 2>>, active |-> {1, 2}], [y |-> <<2, 0, -1>>, active |-> {2, 3}] }

VARIABLES kind, T, y, keep, tp, mask,        \* the input (fixed after Init)
          pc, r, t, cnt, sum, m,             \* loop state
          pred, oob, oobFin, oobStatus       \* outputs
vars == <<kind, T, y, keep, tp, mask, pc, r, t, cnt, sum, m, pred, oob, oobFin, oobStatus>>

n == Len(y)
K == IF kind = "cls" THEN SeqMax(y, 1, y[1]) ELSE 0
ZeroCnt == [c \in 1..K |-> 0]

Init ==
    /\ kind \in {"cls", "reg"}
    /\ T \in 1..MaxT
    /\ keep \in BOOLEAN
    /\ \E c \in (IF kind = "cls" THEN ConfigsCls ELSE ConfigsReg) :
         /\ y = c.y
         /\ \E a \in [1..T -> [c.active -> (IF kind = "cls" THEN 1..SeqMax(c.y, 1, c.y[1]) ELSE RegVals)]] :
              tp = [tt \in 1..T |-> [rr \in 1..Len(c.y) |-> IF rr \in c.active THEN a[tt][rr] ELSE c.y[rr]]]
         /\ IF keep
            THEN \E b \in [1..T -> [c.active -> BOOLEAN]] :
                   mask = [tt \in 1..T |-> [rr \in 1..Len(c.y) |-> IF rr \in c.active THEN b[tt][rr] ELSE TRUE]]
            ELSE mask = <<>>
    /\ pc = "predict" /\ r = 1 /\ t = 1
    /\ cnt = ZeroCnt /\ sum = 0 /\ m = 0
    /\ pred = <<>> /\ oob = <<>> /\ oobFin = <<>> /\ oobStatus = "none"

\* tree::which_max: index of the first maximum (strict > while scanning)
WhichMax(c) == CHOOSE i \in 1..K : /\ \A j \in 1..K : c[j] <= c[i]
                                    /\ \A h \in 1..(i - 1) : c[h] < c[i]

\* nearest integer to a / b (b > 0), halves away from zero like f64::round
RoundDiv(a, b) == IF a >= 0 THEN (2 * a + b) \div (2 * b) ELSE -((b - 2 * a) \div (2 * b))

Add(v) == IF kind = "cls" THEN /\ cnt' = [cnt EXCEPT ![v] = @ + 1] /\ UNCHANGED sum
                          ELSE /\ sum' = sum + v /\ UNCHANGED cnt

\* value of the aggregate in the units of the observation: label value / fixed point
Outcome(count) == IF kind = "cls" THEN LabelVals[WhichMax(cnt)] ELSE RoundDiv(sum * FxScale, count)

TallyP ==
    /\ pc = "predict" /\ t <= T
    /\ Add(tp[t][r])
    /\ t' = t + 1
    /\ UNCHANGED <<kind, T, y, keep, tp, mask, pc, r, m, pred, oob, oobFin, oobStatus>>

DecideP ==
    /\ pc = "predict" /\ t > T
    /\ pred' = Append(pred, Outcome(T))
    /\ cnt' = ZeroCnt /\ sum' = 0 /\ t' = 1
    /\ IF r < n THEN r' = r + 1 /\ UNCHANGED pc ELSE r' = 1 /\ pc' = "oob"
    /\ UNCHANGED <<kind, T, y, keep, tp, mask, m, oob, oobFin, oobStatus>>

\* predict_oob of a forest that did not keep its samples
OobErr ==
    /\ pc = "oob" /\ ~keep
    /\ oobStatus' = "err" /\ pc' = "done"
    /\ UNCHANGED <<kind, T, y, keep, tp, mask, r, t, cnt, sum, m, pred, oob, oobFin>>

TallyO ==
    /\ pc = "oob" /\ keep /\ t <= T
    /\ IF ~mask[t][r] THEN Add(tp[t][r]) /\ m' = m + 1 ELSE UNCHANGED <<cnt, sum, m>>
    /\ t' = t + 1
    /\ UNCHANGED <<kind, T, y, keep, tp, mask, pc, r, pred, oob, oobFin, oobStatus>>

DecideO ==
    /\ pc = "oob" /\ keep /\ t > T
    \* cls: which_max of an all-zero vector is class 0, a label value: "usable";
    \* reg: 0/0 is NaN: not usable, recorded as 0 with oobFin = FALSE
    /\ IF kind = "reg" /\ m = 0
       THEN oob' = Append(oob, 0) /\ oobFin' = Append(oobFin, FALSE)
       ELSE oob' = Append(oob, Outcome(m)) /\ oobFin' = Append(oobFin, TRUE)
    /\ cnt' = ZeroCnt /\ sum' = 0 /\ m' = 0 /\ t' = 1
    /\ IF r < n THEN r' = r + 1 /\ UNCHANGED <<pc, oobStatus>>
                ELSE r' = 1 /\ pc' = "done" /\ oobStatus' = "ok"
    /\ UNCHANGED <<kind, T, y, keep, tp, mask, pred>>

Next == TallyP \/ DecideP \/ OobErr \/ TallyO \/ DecideO
Spec == Init /\ [][Next]_vars

Done == pc = "done"

\* the observation record of Forest.tla for the terminal state
Val(v) == IF kind = "cls" THEN LabelVals[v] ELSE v * FxScale
Obs == [kind |-> kind, nTrees |-> T, trees |-> T, nTrain |-> n, nAll |-> n,
        y |-> [i \in 1..n |-> Val(y[i])], ySlack |-> 0, rowExp |-> [i \in 1..n |-> 0],
        keep |-> keep, hasMask |-> keep, mask |-> mask,
        tpOk |-> TRUE, treePred |-> [tt \in 1..T |-> [rr \in 1..n |-> Val(tp[tt][rr])]],
        predOk |-> TRUE, pred |-> pred, predDigest |-> "model", predDigest2 |-> "model",
        oobStatus |-> oobStatus, oobFin |-> oobFin, oob |-> oob]

ModelSatisfiesProperty == Done => ForestOK(Obs, FALSE, FALSE)

\* spec -> impl: one line per terminal state (each distinct state is checked once)
Replay == Done => PrintT(<<"REPLAY", ToJson(Obs)>>)

\* loop bounds / types, checked in every state
TypeOK == /\ pc \in {"predict", "oob", "done"}
          /\ r \in 1..n /\ t \in 1..(T + 1) /\ m \in 0..T
          /\ Len(pred) <= n /\ Len(oob) <= n /\ Len(oob) = Len(oobFin)
=============================================================================
