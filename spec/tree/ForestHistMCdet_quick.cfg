CONSTANTS Keys = {"a1", "a2", "b1"}  Digests = {"d1", "d2"}  MaxLen = 6  Deterministic = TRUE
SPECIFICATION Spec
INVARIANT Sound
INVARIANT Complete
INVARIANT Exact
INVARIANT SeenIsFirst
INVARIANT NoFalseAlarm
CHECK_DEADLOCK FALSE
