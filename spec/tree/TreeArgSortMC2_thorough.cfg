CONSTANTS
    MinLen = 15
    MaxLen = 16
    SortVals = {0, 1}
SPECIFICATION Spec
INVARIANT NoPanic
INVARIANT Sorts
INVARIANT PermutationInv
INVARIANT StackInv
CHECK_DEADLOCK FALSE
