---------------------------- MODULE TreeArgSort ----------------------------
(***************************************************************************)
(* C05, supporting design model: the index sort the trees pre-sort every   *)
(* feature with (src/algorithm/sort/quick_sort.rs, quick_argsort_mut --    *)
(* the "indexx" quicksort: explicit stack of pending sub-arrays, median of *)
(* three, insertion sort for sub-arrays of fewer than 8 elements).         *)
(*                                                                         *)
(* The tree growth relies on exactly one fact about it: `order[j]` is a    *)
(* permutation of the row indices along which feature j is non-decreasing  *)
(* (IsArgSort in TreeSpec).  TLC checks that fact for every input vector   *)
(* of the configured scope, together with the absence of the two ways the  *)
(* code could fail: a scan running out of the array and the fixed stack of *)
(* 64 entries overflowing.                                                 *)
(*                                                                         *)
(* One action per iteration of the outer `loop`:                           *)
(*   Insertion  (ir - l < 7): straight insertion of arr[l..ir], then pop   *)
(*              the next pending sub-array or stop;                        *)
(*   Partition  otherwise: median-of-three arrangement, the two inward     *)
(*              scans with swaps, pivot placement, push of the larger part.*)
(* Positions are 0-based as in the code; At / Set translate to TLA+'s      *)
(* 1-based sequences.                                                      *)
(***************************************************************************)
EXTENDS TreeSpec, TLC

CONSTANTS MinLen, MaxLen,   \* vectors of MinLen..MaxLen elements
          SortVals     \* over these values

VARIABLES orig, arr, idx, l, ir, stack, pc
vars == <<orig, arr, idx, l, ir, stack, pc>>

At(s, k) == s[k + 1]
Set(s, k, v) == [s EXCEPT ![k + 1] = v]
Swap(s, a, b) == [s EXCEPT ![a + 1] = s[b + 1], ![b + 1] = s[a + 1]]

Init ==
    /\ \E n \in MinLen..MaxLen : orig \in [1..n -> SortVals]
    /\ arr = orig
    /\ idx = [k \in 1..Len(orig) |-> k - 1]
    /\ l = 0 /\ ir = Len(orig) - 1
    /\ stack = <<>> /\ pc = "loop"

(* ---- straight insertion of positions lo..hi ------------------------------------------- *)
RECURSIVE Shift(_, _, _, _, _, _)      \* the `while i >= l` loop; st = <<arr, idx>>
Shift(st, a, b, i, lo, dummy) ==
    IF i >= lo /\ At(st[1], i) > a
    THEN Shift(<<Set(st[1], i + 1, At(st[1], i)), Set(st[2], i + 1, At(st[2], i))>>, a, b, i - 1, lo, dummy)
    ELSE <<Set(st[1], i + 1, a), Set(st[2], i + 1, b)>>

RECURSIVE Insert(_, _, _, _)           \* the `for j in l+1..=ir` loop
Insert(st, j, lo, hi) ==
    IF j > hi THEN st
    ELSE Insert(Shift(st, At(st[1], j), At(st[2], j), j - 1, lo, 0), j + 1, lo, hi)

Insertion ==
    /\ pc = "loop" /\ ir - l < 7
    /\ LET st == Insert(<<arr, idx>>, l + 1, l, ir) IN arr' = st[1] /\ idx' = st[2]
    /\ IF stack = <<>>
       THEN pc' = "done" /\ UNCHANGED <<l, ir, stack>>
       ELSE /\ l' = stack[Len(stack)][1] /\ ir' = stack[Len(stack)][2]
            /\ stack' = SubSeq(stack, 1, Len(stack) - 1)
            /\ UNCHANGED pc
    /\ UNCHANGED orig

(* ---- partition --------------------------------------------------------------------------- *)
CondSwap(st, a, b) == IF At(st[1], a) > At(st[1], b) THEN <<Swap(st[1], a, b), Swap(st[2], a, b)>> ELSE st

Arrange(st, lo, hi) ==      \* median of three: arr[lo] <= arr[lo+1] <= arr[hi], pivot at lo+1
    LET k == (lo + hi) \div 2
        s0 == <<Swap(st[1], k, lo + 1), Swap(st[2], k, lo + 1)>>
    IN  CondSwap(CondSwap(CondSwap(s0, lo, hi), lo + 1, hi), lo, lo + 1)

RECURSIVE ScanUp(_, _, _)     \* first position > i holding a value >= a; -1: ran off the array
ScanUp(ar, i, a) == IF i + 1 >= Len(ar) THEN -1 ELSE IF At(ar, i + 1) >= a THEN i + 1 ELSE ScanUp(ar, i + 1, a)
RECURSIVE ScanDown(_, _, _)   \* last position < j holding a value <= a; -1: ran off the array
ScanDown(ar, j, a) == IF j - 1 < 0 THEN -1 ELSE IF At(ar, j - 1) <= a THEN j - 1 ELSE ScanDown(ar, j - 1, a)

RECURSIVE Scans(_, _, _, _)   \* the inner `loop`; result [st, i, j, ok]
Scans(st, i, j, a) ==
    LET i2 == ScanUp(st[1], i, a)
        j2 == IF i2 < 0 THEN -1 ELSE ScanDown(st[1], j, a)
    IN  IF i2 < 0 \/ j2 < 0 THEN [st |-> st, i |-> i2, j |-> j2, ok |-> FALSE]
        ELSE IF j2 < i2 THEN [st |-> st, i |-> i2, j |-> j2, ok |-> TRUE]
        ELSE Scans(<<Swap(st[1], i2, j2), Swap(st[2], i2, j2)>>, i2, j2, a)

Partition ==
    /\ pc = "loop" /\ ir - l >= 7
    /\ LET s1 == Arrange(<<arr, idx>>, l, ir)
           a == At(s1[1], l + 1)
           b == At(s1[2], l + 1)
           r == Scans(s1, l + 1, ir, a)
       IN  IF ~r.ok \/ Len(stack) + 1 > 32          \* index out of bounds / "stack size is too small."
           THEN pc' = "panic" /\ UNCHANGED <<arr, idx, l, ir, stack>>
           ELSE /\ arr' = Set(Set(r.st[1], l + 1, At(r.st[1], r.j)), r.j, a)
                /\ idx' = Set(Set(r.st[2], l + 1, At(r.st[2], r.j)), r.j, b)
                /\ IF ir - r.i + 1 >= r.j - l
                   THEN stack' = Append(stack, <<r.i, ir>>) /\ ir' = r.j - 1 /\ UNCHANGED l
                   ELSE stack' = Append(stack, <<l, r.j - 1>>) /\ l' = r.i /\ UNCHANGED ir
                /\ UNCHANGED pc
    /\ UNCHANGED orig

Next == Insertion \/ Partition
Spec == Init /\ [][Next]_vars

(* ---- what TLC checks ----------------------------------------------------------------------- *)
NoPanic == pc # "panic" /\ (pc = "loop" => l <= ir)      \* `ir - l` is computed in usize
Sorts == pc = "done" => IsArgSort(orig, idx, arr)
(* at every moment idx is a permutation and arr is orig read through it *)
PermutationInv ==
    /\ Range(idx) = 0..(Len(orig) - 1)
    /\ \A k \in 1..Len(orig) : arr[k] = orig[idx[k] + 1]
(* pending sub-arrays are disjoint from the active one and inside the vector *)
StackInv == \A s \in 1..Len(stack) : 0 <= stack[s][1] /\ stack[s][2] < Len(orig)
                                     /\ (stack[s][2] < l \/ stack[s][1] > ir)
=============================================================================
