CONSTANTS
    MinLen = 1
    MaxLen = 10
    SortVals = {0, 1, 2}
SPECIFICATION Spec
INVARIANT NoPanic
INVARIANT Sorts
INVARIANT PermutationInv
INVARIANT StackInv
CHECK_DEADLOCK FALSE
