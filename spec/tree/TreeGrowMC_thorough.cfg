CONSTANTS
    MinN = 2
    MaxN = 5
    P = 1
    Vals = {0, 1, 2, 3}
    Targets = {0, 1, 2}
    TopTargets = {0, 1}
    Kinds = {"mse", "gini", "entropy", "error"}
    Depths = {0, 1, 2, 3}
    Msls = {1, 2}
    Msss = {0, 2, 3}
    TieOrders = "stable"
    ReplayMod = 100
SPECIFICATION Spec
INVARIANT TypeOK
INVARIANT RevalidationNeverFails
INVARIANT ModelSatisfiesProperty
INVARIANT Replay
CHECK_DEADLOCK FALSE
