------------------------------- MODULE Forest -------------------------------
(***************************************************************************)
(* C06 -- random forests are seed-reproducible and aggregate their trees   *)
(* faithfully.  Property predicates (P), written from the statement:       *)
(*                                                                         *)
(*   "Two forests fitted with the same data, parameters and seed are       *)
(*    identical and give identical predictions, for the classifier and the *)
(*    regressor alike.  A forest's prediction for a row is a plurality     *)
(*    class or the arithmetic mean of its member trees' predictions for    *)
(*    that row, and the out-of-bag prediction for training row i           *)
(*    aggregates, in the same way, only the trees whose bootstrap sample   *)
(*    did not contain row i.  Classifier predictions are original label    *)
(*    values, every bootstrap sample of the classifier contains at least   *)
(*    one row of every class (the resampling is stratified), regressor     *)
(*    predictions lie within the range of the training targets, and the    *)
(*    forest holds exactly n_trees member trees."                          *)
(*                                                                         *)
(* This module is constant-level only (no variables).  It is used by       *)
(*   ForestAgg.tla   design model of predict / predict_oob (vote, mean)    *)
(*   ForestBoot.tla  design model of sample_with_replacement               *)
(*   ForestHist.tla  the Fit(key, digest) history machine                  *)
(*   ForestTrace.tla trace validation of events recorded from the real     *)
(*                   RandomForestClassifier / RandomForestRegressor        *)
(* so the operator that is the INVARIANT of a design model is literally    *)
(* the operator that accepts or rejects what the real code returned.       *)
(*                                                                         *)
(* ----------------------------------------------------------------------- *)
(* The observation record `o` of one fitted forest                         *)
(*                                                                         *)
(*   o.kind      "cls" | "reg"                                             *)
(*   o.nTrees    the n_trees parameter the forest was asked for            *)
(*   o.trees     number of member trees found in the forest (serde dump)   *)
(*   o.nTrain    number of training rows; rows 1..nTrain of every per-row  *)
(*               sequence below are the training rows, in training order   *)
(*   o.nAll      nTrain + number of extra query rows (rows nTrain+1..nAll  *)
(*               are rows the forest has never seen)                       *)
(*   o.y         training labels or targets.  cls: the label values are    *)
(*               arbitrary floats (closer than machine epsilon, non-       *)
(*               integers, huge, -0.0 next to 0.0 ...); every classifier   *)
(*               value of the observation -- labels, member-tree           *)
(*               predictions, forest and OOB predictions -- is recorded as *)
(*               an order-preserving code: its dense rank among all finite *)
(*               values of the observation under numeric equality.  Two    *)
(*               entries are the same integer iff the values are equal.    *)
(*               (Assembled forests use small integer labels verbatim.)    *)
(*               reg: fixed point, round(v * 2^16)                         *)
(*   o.ySlack    uncertainty of the recorded targets in fixed-point units: *)
(*               0 when every target is dyadic (o.y exact), 1 when the     *)
(*               targets are arbitrary reals (o.y rounded); 0 for "cls"    *)
(*   o.rowExp    rowExp[r] (r in 1..nAll): power-of-two scale of the       *)
(*               regression values of row r.  treePred[t][r], pred[r] and  *)
(*               oob[r] are recorded as round(v * 2^(16 - rowExp[r])).     *)
(*               It is 0 everywhere except in the "relative" families,     *)
(*               whose values span hundreds of binary orders of magnitude  *)
(*               (targets growing geometrically, which makes member trees  *)
(*               chains of 70..130 levels).  Scaling by a power of two is  *)
(*               exact and "v is the mean of a_1..a_m" is invariant under  *)
(*               it, so MeanOK / OobOK are evaluated on every row; clauses *)
(*               that compare a row with the targets o.y (RangeOK,         *)
(*               InBagFit) are evaluated on rows with rowExp[r] = 0 only.  *)
(*   o.keep      the keep_samples parameter                                *)
(*   o.hasMask   the forest exposes its bootstrap membership (samples[])   *)
(*   o.mask      mask[t][r] = TRUE iff training row r is in the bootstrap  *)
(*               sample of tree t (t in 1..trees, r in 1..nTrain)          *)
(*   o.tpOk      every member tree could be asked for its predictions and  *)
(*               (cls) returned exact integers / (reg) finite values       *)
(*   o.treePred  treePred[t][r] = prediction of member tree t for row r    *)
(*               (r in 1..nAll), obtained from the *public* predict of the *)
(*               deserialised member tree: label value / fixed point       *)
(*   o.predOk, o.pred   predict() on all rows: flag "all values usable"    *)
(*               and the values (label value / fixed point)                *)
(*   o.predDigest, o.predDigest2   digests of the exact bit patterns of    *)
(*               two successive predict() calls on this same forest        *)
(*   o.oobStatus "ok" | "err" | "panic" outcome of predict_oob(train X)    *)
(*   o.oobFin    oobFin[r]: the OOB value of row r is a usable number      *)
(*               (cls: an exact integer, reg: finite); 0 is stored in      *)
(*               o.oob[r] otherwise (TLC cannot compare 1 = "nan")         *)
(*   o.oob       predict_oob values for the training rows                  *)
(*                                                                         *)
(* Narrow reading (DESIGN 5.1): plurality ties admit every maximal class;  *)
(* predict_oob of a forest fitted with keep_samples = false is outside the *)
(* statement (the code returns Err).                                       *)
(*                                                                         *)
(* A training row that is in EVERY bootstrap sample has no out-of-bag      *)
(* tree.  The statement says the OOB prediction "aggregates ... only the   *)
(* trees whose bootstrap sample did not contain row i"; for such a row     *)
(* that set is empty and the statement is silent on what is returned.  It  *)
(* is not silent on what must NOT happen: the value must not be an         *)
(* aggregate of trees that did see the row.  A regressor has an            *)
(* unmistakable way to say "no prediction": the empty mean 0/0 is not a    *)
(* number.  Reading adopted (clause OobEmpty): for a regressor the OOB     *)
(* value of such a row is an empty aggregate under some convention: not a  *)
(* finite number (NaN as in the code, or an infinity) or the empty sum 0;  *)
(* any other finite number there is indistinguishable from a leaked        *)
(* in-bag estimate and is rejected.  A classifier can only answer with a   *)
(* label value (the code answers classes[0], the arg-max of an all-zero    *)
(* tally) and a label can coincide with the in-bag plurality by accident,  *)
(* so nothing can be demanded of it there without false alarms; such rows  *)
(* stay unconstrained for the classifier (a difference from the design     *)
(* model's answer is counted as MODEL-DRIFT on the assembled forests).     *)
(***************************************************************************)
EXTENDS Integers, Sequences, FiniteSets, TLC

Abs(x) == IF x < 0 THEN -x ELSE x

(***************************************************************************)
(* Fixed point.  Regression values are recorded as fx(v) = round(v * 2^16) *)
(* so each carries an error of at most half a unit.                        *)
(***************************************************************************)
FxScale == 65536

(***************************************************************************)
(* Which trees take part in an aggregation.  `use` is a function           *)
(* 1..T -> BOOLEAN.  predict uses every tree; predict_oob for training row *)
(* r uses exactly the trees whose bootstrap sample does not contain r.     *)
(***************************************************************************)
AllTrees(T) == [t \in 1..T |-> TRUE]
OobTrees(mask, T, r) == [t \in 1..T |-> ~mask[t][r]]
Users(use, T) == {t \in 1..T : use[t]}

(***************************************************************************)
(* Plurality.  v is *a* plurality class of the votes {tp[t][r] : t in U}   *)
(* iff somebody voted for it and no value received more votes.  U must be  *)
(* non-empty for this to be satisfiable.  (vals and nv are parameters, not *)
(* LET definitions, because TLC re-evaluates a LET body at every use.)     *)
(***************************************************************************)
VotesFor(tp, r, U, c) == Cardinality({t \in U : tp[t][r] = c})

NoneBigger(tp, r, U, vals, nv) == \A c \in vals : VotesFor(tp, r, U, c) <= nv

IsPlurality(tp, r, U, v) ==
    /\ \E t \in U : tp[t][r] = v
    /\ NoneBigger(tp, r, U, {tp[t][r] : t \in U}, VotesFor(tp, r, U, v))

\* measurement only (vacuity counters): the vote for row r is not unanimous /
\* is tied at the top
NotUnanimous(tp, r, U) == Cardinality({tp[t][r] : t \in U}) > 1
TopTie(tp, r, U, v) ==
    \E c \in {tp[t][r] : t \in U} : c # v /\ VotesFor(tp, r, U, c) = VotesFor(tp, r, U, v)

(***************************************************************************)
(* Arithmetic mean in fixed point.  With m trees taking part, exact values *)
(* a_t, mean a = (Sum a_t)/m, and recorded integers A_t = fx(a_t),         *)
(* P = fx(a):   | m*P - Sum A_t | <= m/2 + m/2 = m.   One more unit is     *)
(* granted for the rounding error of the floating-point sum and division   *)
(* (at most 2^-30 units for the magnitudes admitted, |v| <= 256).  Hence a *)
(* deviation of the forest's value from the true mean of more than about   *)
(* 2^-15 is rejected; loss of a few ulps is not decided (DESIGN 1(iii)).   *)
(***************************************************************************)
RECURSIVE SumIf(_, _, _, _, _)
SumIf(tp, use, r, t, T) ==
    IF t > T THEN 0
    ELSE (IF use[t] THEN tp[t][r] ELSE 0) + SumIf(tp, use, r, t + 1, T)

MeanTol(m) == m + 1

IsMean(tp, use, r, T, m, v) == Abs(m * v - SumIf(tp, use, r, 1, T)) <= MeanTol(m)

(***************************************************************************)
(* Clause: the forest holds exactly n_trees member trees.                  *)
(***************************************************************************)
CountOK(o) == o.trees = o.nTrees

(***************************************************************************)
(* Every prediction of the forest and of its member trees is a usable      *)
(* number: an exact integer for the classifier (label values are integers  *)
(* in every generated data set), a finite value of magnitude below 915     *)
(* (the 32-bit budget of the fixed-point sums; the targets are bounded by  *)
(* 200) for the regressor.  A value that is not usable is recorded as 0    *)
(* and must not be looked at; it is in any case not a label resp. not in   *)
(* the range of the targets.                                               *)
(***************************************************************************)
Usable(o) == o.tpOk /\ o.predOk

(***************************************************************************)
(* Shape of the observation: one value per row from every tree and from    *)
(* the forest, one membership bit per (tree, training row).  Everything    *)
(* below indexes these sequences, so this is tested first.                 *)
(***************************************************************************)
ShapeOK(o) ==
    /\ o.nTrain >= 1 /\ o.nAll >= o.nTrain /\ Len(o.y) = o.nTrain
    /\ Len(o.treePred) = o.trees
    /\ \A t \in 1..o.trees : Len(o.treePred[t]) = o.nAll
    /\ Len(o.pred) = o.nAll
    /\ Len(o.rowExp) = o.nAll

(***************************************************************************)
(* keep_samples = true (resp. a forest that was handed its samples[] table *)
(* through the public Deserialize) promises out-of-bag predictions.  Two    *)
(* separate clauses:                                                       *)
(*  OobAnswers         predict_oob on the training matrix returns one      *)
(*                     value per training row (it does not err or panic).  *)
(*  SamplesObservable  the forest exposes which rows each tree's bootstrap *)
(*                     sample contained -- one membership row per member   *)
(*                     tree, one bit per training row -- through the       *)
(*                     channel the property names: samples[] of the serde  *)
(*                     dump.  Without it neither "aggregates only the      *)
(*                     trees whose bootstrap sample did not contain row i" *)
(*                     nor "every bootstrap sample contains every class"   *)
(*                     (Stratified, InBagFit) can be observed; a forest    *)
(*                     that stops exposing it fails here, as a property    *)
(*                     clause, not as a defect of the tooling.             *)
(***************************************************************************)
OobAnswers(o) ==
    o.keep => /\ o.oobStatus = "ok"
              /\ Len(o.oob) = o.nTrain /\ Len(o.oobFin) = o.nTrain

SamplesObservable(o) ==
    (o.keep \/ o.hasMask) => /\ o.hasMask
                              /\ Len(o.mask) = o.trees
                              /\ \A t \in 1..o.trees : Len(o.mask[t]) = o.nTrain

\* first failing clause among those that must hold before anything else is looked at
FirstFailBasic(o) ==
    IF ~CountOK(o) THEN "CountOK"
    ELSE IF ~Usable(o) THEN "Usable"
    ELSE IF ~ShapeOK(o) THEN "ShapeOK"
    ELSE IF ~OobAnswers(o) THEN "OobAnswers"
    ELSE IF ~SamplesObservable(o) THEN "SamplesObservable"
    ELSE ""

\* "identical forests give identical predictions": a fortiori one forest asked twice
\* gives the same answer, bit for bit (a vote whose ties are broken by something that is
\* not a function of the forest and the row fails here and in FitGuard)
PredictStable(o) == o.predDigest = o.predDigest2

Labels(o) == {o.y[i] : i \in 1..o.nTrain}

(***************************************************************************)
(* Classifier clauses.                                                     *)
(***************************************************************************)
\* predictions are original label values (L is passed as an argument so that TLC
\* evaluates it once, not once per row)
LabelsIn(o, L) == \A r \in 1..o.nAll : o.pred[r] \in L
LabelsOK(o) == LabelsIn(o, Labels(o))

\* the prediction for a row is a plurality class of the member trees' predictions
VoteOK(o) == \A r \in 1..o.nAll : IsPlurality(o.treePred, r, 1..o.trees, o.pred[r])

\* the OOB prediction of training row r is a plurality class of the predictions of
\* exactly the trees whose bootstrap sample does not contain r (nothing is required
\* when there is no such tree)
OobVoteRow(o, r, U) ==
    U # {} => o.oobFin[r] /\ IsPlurality(o.treePred, r, U, o.oob[r])

OobVoteOK(o) ==
    (o.keep /\ o.hasMask /\ o.oobStatus = "ok") =>
        \A r \in 1..o.nTrain : OobVoteRow(o, r, Users(OobTrees(o.mask, o.trees, r), o.trees))

\* stratified resampling: every bootstrap sample contains a row of every class
StratifiedTree(mask, y, n, labels, t) ==
    \A c \in labels : \E r \in 1..n : y[r] = c /\ mask[t][r]

StratifiedAll(o, L) == \A t \in 1..o.trees : StratifiedTree(o.mask, o.y, o.nTrain, L, t)

Stratified(o) == o.hasMask => StratifiedAll(o, Labels(o))

(***************************************************************************)
(* Regressor clauses (all values fixed point).                             *)
(***************************************************************************)
MeanOK(o) ==
    \A r \in 1..o.nAll : IsMean(o.treePred, AllTrees(o.trees), r, o.trees, o.trees, o.pred[r])

OobMeanRow(o, r, use, m) ==
    m > 0 => o.oobFin[r] /\ IsMean(o.treePred, use, r, o.trees, m, o.oob[r])

OobMeanUse(o, r, use) == OobMeanRow(o, r, use, Cardinality(Users(use, o.trees)))

OobMeanOK(o) ==
    (o.keep /\ o.hasMask /\ o.oobStatus = "ok") =>
        \A r \in 1..o.nTrain : OobMeanUse(o, r, OobTrees(o.mask, o.trees, r))

\* a training row that no tree left out: the regressor's OOB value is not a number, or 0
\* (see the reading in the header)
OobEmptyOK(o) ==
    (o.keep /\ o.hasMask /\ o.oobStatus = "ok") =>
        \A r \in 1..o.nTrain : (\A t \in 1..o.trees : o.mask[t][r]) => (~o.oobFin[r] \/ o.oob[r] = 0)

\* measurement (vacuity counter): some training row is in every bootstrap sample
HasRowWithoutOobTree(o) ==
    o.keep /\ o.hasMask /\ \E r \in 1..o.nTrain : \A t \in 1..o.trees : o.mask[t][r]

RECURSIVE SeqMin(_, _, _)
SeqMin(s, i, acc) == IF i > Len(s) THEN acc ELSE SeqMin(s, i + 1, IF s[i] < acc THEN s[i] ELSE acc)
RECURSIVE SeqMax(_, _, _)
SeqMax(s, i, acc) == IF i > Len(s) THEN acc ELSE SeqMax(s, i + 1, IF s[i] > acc THEN s[i] ELSE acc)

\* predictions lie within the range of the training targets.  Rounding to fixed point is
\* monotone, so a value inside the real interval [min y, max y] is inside the integer
\* interval [fx(min y), fx(max y)].  The floating-point mean of values equal to max y may
\* exceed max y by an ulp or so; when the targets are dyadic (ySlack = 0) fx(max y) is an
\* exact integer, far from a rounding boundary, and the comparison stays exact; for
\* arbitrary real targets (ySlack = 1) one unit (2^-16) is granted.  A value outside the
\* range by more than 2^-16 (dyadic: 2^-17) is rejected; ulp-level excursions are not
\* decided (DESIGN 1(iii)).
InRange(v, lo, hi) == lo <= v /\ v <= hi

RangeRows(o, lo, hi) ==
    /\ \A r \in 1..o.nAll : o.rowExp[r] = 0 => InRange(o.pred[r], lo, hi)
    /\ (o.keep /\ o.hasMask /\ o.oobStatus = "ok") =>
          \A r \in 1..o.nTrain :
              (o.rowExp[r] = 0 /\ \E t \in 1..o.trees : ~o.mask[t][r])
                  => o.oobFin[r] /\ InRange(o.oob[r], lo, hi)

RangeOK(o) == RangeRows(o, SeqMin(o.y, 1, o.y[1]) - o.ySlack, SeqMax(o.y, 1, o.y[1]) + o.ySlack)

(***************************************************************************)
(* Binding of the retained membership bits to the sample the tree was      *)
(* really grown from.  The statement speaks of "the trees whose bootstrap  *)
(* sample did not contain row i"; mask[][] is what the forest *says* the   *)
(* samples were.  One consequence is observable: C05 guarantees that a     *)
(* tree grown without limits (no depth limit, min_samples_leaf = 1, every  *)
(* node of more than min_samples_split <= 1 rows must split if it can) on  *)
(* data whose feature values are pairwise distinct within each feature     *)
(* reproduces its training rows exactly.  A member tree's training rows    *)
(* are its bootstrap sample, so under those side conditions                *)
(*         mask[t][r]  =>  treePred[t][r] = y[r]   (within ySlack units).  *)
(* (Nothing can be said about the rows a tree did not see.)  A forest that *)
(* records the complement of the sample, or another tree's sample, fails   *)
(* this.  X is the training matrix, X[r][j].                               *)
(***************************************************************************)
ColsDistinct(X, n, p) == \A j \in 1..p : Cardinality({X[r][j] : r \in 1..n}) = n

Unlimited(maxDepth, msl, mss) == maxDepth = -1 /\ msl = 1 /\ mss <= 1

InBagFit(o) ==
    o.hasMask => \A t \in 1..o.trees : \A r \in 1..o.nTrain :
                     (o.mask[t][r] /\ o.rowExp[r] = 0) => Abs(o.treePred[t][r] - o.y[r]) <= o.ySlack

(***************************************************************************)
(* All per-forest clauses, as the name of the first one that fails ("" if  *)
(* none does).  FirstFail is what ForestTrace evaluates on every recorded  *)
(* forest and what the design model ForestAgg asserts on every terminal    *)
(* state (`fitted` says whether the forest came out of fit(), for which    *)
(* the sampling clauses apply, or was assembled from given trees and       *)
(* masks, for which only the aggregation clauses do).                      *)
(***************************************************************************)
FirstFailCls(o, fitted, unlimitedDistinct) ==
    IF ~LabelsOK(o) THEN "LabelsOK"
    ELSE IF ~VoteOK(o) THEN "VoteOK"
    ELSE IF ~OobVoteOK(o) THEN "OobOK"
    ELSE IF fitted /\ ~Stratified(o) THEN "Stratified"
    ELSE IF fitted /\ unlimitedDistinct /\ ~InBagFit(o) THEN "InBagFit"
    ELSE ""

FirstFailReg(o, fitted, unlimitedDistinct) ==
    IF ~MeanOK(o) THEN "MeanOK"
    ELSE IF ~OobMeanOK(o) THEN "OobOK"
    ELSE IF ~OobEmptyOK(o) THEN "OobEmpty"
    ELSE IF ~RangeOK(o) THEN "RangeOK"
    ELSE IF fitted /\ unlimitedDistinct /\ ~InBagFit(o) THEN "InBagFit"
    ELSE ""

FirstFailFrom(o, fitted, unlimitedDistinct, basic) ==
    IF basic # "" THEN basic
    ELSE IF ~PredictStable(o) THEN "PredictStable"
    ELSE IF o.kind = "cls" THEN FirstFailCls(o, fitted, unlimitedDistinct)
    ELSE FirstFailReg(o, fitted, unlimitedDistinct)

FirstFail(o, fitted, unlimitedDistinct) ==
    FirstFailFrom(o, fitted, unlimitedDistinct, FirstFailBasic(o))

ForestOK(o, fitted, unlimitedDistinct) == FirstFail(o, fitted, unlimitedDistinct) = ""

(***************************************************************************)
(* Reproducibility.  "Two forests fitted with the same data, parameters    *)
(* and seed are identical and give identical predictions."                 *)
(*                                                                         *)
(* A fit is abstracted to the pair (key, digest): key identifies (data,    *)
(* every parameter, seed); digest is an injective-in-practice image of     *)
(* everything observable about the result (the complete serde dump of the  *)
(* forest, predict on the training and query rows, predict_oob).  The      *)
(* history of a session is the partial function seen : key -> digest of    *)
(* first occurrences.  Fit(key, digest) is admissible iff FitGuard holds;  *)
(* its effect is FitEffect.  ForestHist.tla model-checks that this         *)
(* incremental discipline is equivalent to the pairwise statement for      *)
(* every interleaving of keys; ForestTrace.tla applies the same two        *)
(* operators to the recorded fits.                                         *)
(***************************************************************************)
\* "... are identical": the library's own equality must agree.  eqSelf is the observed value
\* of `forest == forest` for a freshly fitted forest, eqRefit of `forest == forest2` for a
\* second forest fitted with the same data, parameters and seed (PartialEq of the forests,
\* which descends into the member trees and their nodes).
EqualFits(eqSelf, eqRefit) == eqSelf /\ eqRefit

FitGuard(seen, key, digest) == key \in DOMAIN seen => seen[key] = digest

FitEffect(seen, key, digest) == IF key \in DOMAIN seen THEN seen ELSE (key :> digest) @@ seen

\* the statement itself, over a whole log of <<key, digest>> pairs
PairwiseReproducible(log) ==
    \A i, j \in 1..Len(log) : log[i][1] = log[j][1] => log[i][2] = log[j][2]
=============================================================================
