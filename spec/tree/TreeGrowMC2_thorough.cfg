CONSTANTS
    MinN = 2
    MaxN = 4
    P = 2
    Vals = {0, 1}
    Targets = {0, 1, 2}
    Kinds = {"mse", "gini", "entropy", "error"}
    Depths = {0, 1, 3}
    Msls = {1, 2}
    Msss = {0, 2, 3}
    ReplayMod = 60
SPECIFICATION Spec
INVARIANT TypeOK
INVARIANT RevalidationNeverFails
INVARIANT ModelSatisfiesProperty
INVARIANT Replay
CHECK_DEADLOCK FALSE
