----------------------------- MODULE ForestTrace -----------------------------
(***************************************************************************)
(* C06 trace validation (impl -> spec, and the return leg of spec -> impl).*)
(* Consumes the ndjson file written by the harness crate c06 from the real *)
(* RandomForestClassifier / RandomForestRegressor:                         *)
(*                                                                         *)
(*   ForestFit   {key, base, digest, fdigest, status, eqSelf, eqRefit,     *)
(*                in:{kind, n, p, X,                                       *)
(*                xDen, Xq, y, yHex, nTrees, m, maxDepth, msl, mss, crit,  *)
(*                keep, seed},     -- X, Xq: numerators over xDen          *)
(*                obs}                                                     *)
(*        one real fit (first of its key) with the complete observation    *)
(*        record `obs` described in Forest.tla                             *)
(*   ForestRefit {key, base, digest, fdigest, status}                      *)
(*        a later fit with the same data, parameters and seed: digest only *)
(*   ForestObs   {status, obs, expect:{pred, oobStatus, oobFin, oob,       *)
(*                                     y, treePred, mask}}                 *)
(*        a forest assembled from a terminal state of the design model     *)
(*        ForestAgg (member trees and membership bits chosen by TLC), run  *)
(*        through the real predict / predict_oob; `expect` is what the     *)
(*        model computed                                                   *)
(*   ForestAsm   {status, obs, asked:{y, treePred, mask}}                  *)
(*        a forest assembled by the harness itself through serde: member   *)
(*        trees are decision chains of 70..140 levels (one per row) with   *)
(*        random votes / values and random membership bits                 *)
(*                                                                         *)
(* Every fit goes through the history action Fit(key, digest) of           *)
(* Forest.tla / ForestHist.tla (FitGuard, FitEffect) -- the fits of one    *)
(* key are interleaved with fits of other seeds and other data, and the    *)
(* earliest keys are fitted again at the very end of the session.  Every   *)
(* observation goes through FirstFail, i.e. CountOK, Usable, ShapeOK,      *)
(* OobAnswers, SamplesObservable, PredictStable, LabelsOK, VoteOK, OobOK,  *)
(* Stratified, MeanOK, RangeOK, InBagFit: the operators that are the       *)
(* invariant of the design models.                                         *)
(*                                                                         *)
(* The spec never blocks: a failing event prints <<"BAD", line, run, ev,   *)
(* clause>> and the run goes on.  `hits` counts, per clause, the events on *)
(* which the clause was exercised non-vacuously (the driver fails the run  *)
(* as vacuous when a required counter stays 0).  "Drift" counts assembled  *)
(* forests whose real output satisfies the predicates but differs from the *)
(* design model's output (MODEL-DRIFT, not a violation).                   *)
(***************************************************************************)
EXTENDS Forest, Json, IOUtils

Rec == ndJsonDeserialize(IOEnv.TRACE)

VARIABLES l, seen, nbad, hits
vars == <<l, seen, nbad, hits>>

HitNames == {"FirstFit", "Refit", "FitCls", "FitReg", "Kept", "NotKept", "InBagFit",
             "FewTreesKept", "RegRowWithoutOobTree", "RelativeRows",
             "Assembled", "AssembledOobErr", "AssembledDeep", "Drift"}

Bad(e, clause) == PrintT(<<"BAD", l, e.run, e.ev, clause>>)

HitAll(names) == [x \in HitNames |-> hits[x] + (IF x \in names THEN 1 ELSE 0)]

\* side conditions of the InBagFit clause (see Forest.tla): a real fit, no limits,
\* feature values pairwise distinct within each feature
UnlimitedDistinct(i) ==
    /\ Unlimited(i.maxDepth, i.msl, i.mss)
    /\ ColsDistinct(i.X, i.n, i.p)

\* the observation belongs to the fit it is filed under
Consistent(e) == /\ e.obs.kind = e.in.kind /\ e.obs.nTrees = e.in.nTrees
                 /\ e.obs.nTrain = e.in.n /\ e.obs.keep = e.in.keep

\* first failing clause of a recorded real fit, "" if none.  ud is passed as an argument
\* so that it is computed once.
FitClauseUD(e, ud) ==
    IF e.status # "ok" THEN "FitFailed"
    ELSE IF ~FitGuard(seen, e.key, e.digest) THEN "Reproducible"
    ELSE IF ~EqualFits(e.eqSelf, e.eqRefit) THEN "EqualFits"
    ELSE IF ~Consistent(e) THEN "Consistent"
    ELSE FirstFail(e.obs, TRUE, ud)

FitHits(e, ud) ==
    {IF e.key \in DOMAIN seen THEN "Refit" ELSE "FirstFit"}
    \cup (IF e.status # "ok" THEN {}
          ELSE {IF e.in.kind = "cls" THEN "FitCls" ELSE "FitReg",
                IF e.in.keep THEN "Kept" ELSE "NotKept"}
               \cup (IF ud /\ e.in.keep THEN {"InBagFit"} ELSE {})
               \cup (IF e.in.keep /\ e.in.nTrees <= 4 THEN {"FewTreesKept"} ELSE {})
               \cup (IF e.in.kind = "reg" /\ FirstFailBasic(e.obs) = "" /\ HasRowWithoutOobTree(e.obs)
                     THEN {"RegRowWithoutOobTree"} ELSE {})
               \cup (IF e.in.relative THEN {"RelativeRows"} ELSE {}))

StepFit(e, ud, clause) ==
    /\ IF clause = "" THEN nbad' = nbad ELSE Bad(e, clause) /\ nbad' = nbad + 1
    /\ seen' = FitEffect(seen, e.key, e.digest)
    /\ hits' = HitAll(FitHits(e, ud))

StepFitUD(e, ud) == StepFit(e, ud, FitClauseUD(e, ud))

RefitClause(e) ==
    IF e.status # "ok" THEN "FitFailed"
    ELSE IF ~FitGuard(seen, e.key, e.digest) THEN "Reproducible"
    ELSE ""

StepRefit(e, clause) ==
    /\ IF clause = "" THEN nbad' = nbad ELSE Bad(e, clause) /\ nbad' = nbad + 1
    /\ seen' = FitEffect(seen, e.key, e.digest)
    /\ hits' = HitAll({IF e.key \in DOMAIN seen THEN "Refit" ELSE "FirstFit"})

\* an assembled forest: aggregation clauses only.  "Assemble" is not a property clause:
\* it says that the forest the harness put together is not the one the model asked for
\* (member trees that do not predict what they were built to predict); the driver
\* treats it as a tool error.
AsAsked(e) == /\ e.obs.treePred = e.expect.treePred
              /\ e.obs.y = e.expect.y
              /\ e.obs.keep => e.obs.mask = e.expect.mask

\* A forest that was given a samples[] table (obs.keep) but does not answer predict_oob or
\* no longer exposes the table fails OobAnswers / SamplesObservable -- property clauses --
\* before the question whether it is the forest that was asked for is even put.
ObsClauseFrom(e, basic) ==
    IF basic # "" THEN basic
    ELSE IF ~AsAsked(e) THEN "Assemble"
    ELSE FirstFail(e.obs, FALSE, FALSE)

ObsClause(e) == IF e.status # "ok" THEN "Assemble" ELSE ObsClauseFrom(e, FirstFailBasic(e.obs))

SameAsModel(e) == /\ e.obs.pred = e.expect.pred
                  /\ e.obs.oobStatus = e.expect.oobStatus
                  /\ e.obs.oobFin = e.expect.oobFin
                  /\ e.obs.oob = e.expect.oob

\* a forest assembled by the harness itself (deep decision chains, random votes): the
\* same clauses, no model expectation
AsmAsAsked(e) == /\ e.obs.treePred = e.asked.treePred
                 /\ e.obs.y = e.asked.y
                 /\ e.obs.keep => e.obs.mask = e.asked.mask

AsmClauseFrom(e, basic) ==
    IF basic # "" THEN basic
    ELSE IF ~AsmAsAsked(e) THEN "Assemble"
    ELSE FirstFail(e.obs, FALSE, FALSE)

AsmClause(e) == IF e.status # "ok" THEN "Assemble" ELSE AsmClauseFrom(e, FirstFailBasic(e.obs))

StepAsm(e, clause) ==
    /\ IF clause = "" THEN nbad' = nbad ELSE Bad(e, clause) /\ nbad' = nbad + 1
    /\ hits' = HitAll({"AssembledDeep"})
    /\ UNCHANGED seen

StepObs(e, clause) ==
    /\ IF clause = "" THEN nbad' = nbad ELSE Bad(e, clause) /\ nbad' = nbad + 1
    /\ hits' = HitAll({"Assembled"}
                      \cup (IF e.status = "ok" /\ e.obs.oobStatus = "err" THEN {"AssembledOobErr"} ELSE {})
                      \cup (IF clause = "" /\ ~SameAsModel(e) THEN {"Drift"} ELSE {}))
    /\ UNCHANGED seen

Step ==
    LET e == Rec[l] IN
    /\ l <= Len(Rec)
    /\ l' = l + 1
    /\ CASE e.ev = "ForestFit" ->
              StepFitUD(e, e.status = "ok" /\ UnlimitedDistinct(e.in))
         [] e.ev = "ForestRefit" -> StepRefit(e, RefitClause(e))
         [] e.ev = "ForestObs" -> StepObs(e, ObsClause(e))
         [] e.ev = "ForestAsm" -> StepAsm(e, AsmClause(e))
         [] OTHER -> Bad(e, "unknown event") /\ nbad' = nbad + 1 /\ UNCHANGED <<seen, hits>>

Init == /\ l = 1 /\ seen = <<>> /\ nbad = 0
        /\ hits = [x \in HitNames |-> 0]

Next == Step
Spec == Init /\ [][Next]_vars

\* printed exactly once, when the whole file has been consumed
AtEnd == (l = Len(Rec) + 1) =>
            PrintT(<<"VERDICT", ToJson([consumed |-> l - 1, bad |-> nbad, hits |-> hits,
                                        keys |-> Cardinality(DOMAIN seen)])>>)
=============================================================================
