------------------------------ MODULE TreeGrow ------------------------------
(***************************************************************************)
(* C05 design model (A): the breadth-first, greedy growth of a decision    *)
(* tree, shaped like the code it models                                    *)
(*   src/tree/decision_tree_{classifier,regressor}.rs                      *)
(*     fit_weak_learner : root, per-feature pre-sorted order, the queue of *)
(*                        node visitors, the loop `while depth < max_depth`*)
(*     find_best_cutoff : the pre-conditions (pure node, min_samples_split)*)
(*                        and the loop over the features                   *)
(*     find_best_split  : the sweep over the sorted samples with running   *)
(*                        sums / class counts, the equal-value skip, the   *)
(*                        (classifier only) equal-label skip, the leaf-size*)
(*                        guard and the strict `gain > best` bookkeeping   *)
(*     split            : recount by the threshold, re-validation, the two *)
(*                        children with outputs fixed at split time        *)
(* over small integer data, with exact (rational) arithmetic in place of   *)
(* floating point.                                                         *)
(*                                                                         *)
(* What TLC checks: for EVERY training set / parameter combination of the  *)
(* configured scope, and for EVERY order the pre-sorting may leave equal   *)
(* feature values in, the tree the loop ends with satisfies the property   *)
(* predicates of TreeSpec (invariant ModelSatisfiesProperty).  This shows  *)
(* (a) the design meets the property, including the places where the code  *)
(* does less than one might expect (the depth counter that stops one level *)
(* early, the classifier's `n <= min_samples_split`, its equal-label skip  *)
(* that is only harmless for distinct feature values) and (b) the          *)
(* predicates demand nothing the design does not deliver (no false alarm). *)
(*                                                                         *)
(* Terminal states are printed as REPLAY lines; the harness replays the    *)
(* inputs through the real code (spec -> impl).                            *)
(***************************************************************************)
EXTENDS TreeSpec, TLC, Json

CONSTANTS
    MinN, MaxN,   \* number of training rows
    P,            \* number of features
    Vals,         \* feature values (small naturals < 16)
    Targets,      \* class labels / regression targets (small naturals < 16)
    TopTargets,   \* the labels / targets admitted for training sets of exactly MaxN rows (a subset
                  \* of Targets; keeps the largest layer of the enumeration affordable)
    Kinds,        \* subset of {"mse", "gini", "entropy", "error"}
    Depths,       \* max_depth values, 0 = None
    Msls,         \* min_samples_leaf values
    Msss,         \* min_samples_split values
    TieOrders,    \* "all": the pre-sort may leave equal feature values in any order (every order is
                  \* explored); "stable": ties by ascending row index only (what the insertion sort
                  \* that quick_argsort_mut uses below 7 elements produces)
    ReplayMod     \* print every ReplayMod-th terminal state (by input hash); 0 = none

VARIABLES
    inp,     \* the input: [crit, maxDepth, msl, mss, X, y]   (constant along a behaviour)
    ord,     \* ord[j]: the rows sorted by feature j (ties in any order)
    nodes,   \* sequence of [f, thr, has, t, fc, out]; thr is the DOUBLED midpoint
    queue,   \* sequence of visitors [node, rows, level, tout, fout]
    depth,   \* the model's copy of `tree.depth`
    pc
vars == <<inp, ord, nodes, queue, depth, pc>>

IsReg == inp.crit = "mse"
NaNx == -1000000
BigDepth == 65535                     \* u16::MAX

Max2(a, b) == IF a > b THEN a ELSE b

(* ------------------------------------------------------------------------- *)
(* input enumeration: canonical (sorted) multisets of rows                    *)
(* ------------------------------------------------------------------------- *)
RECURSIVE RowKey(_, _, _)
RowKey(row, j, acc) == IF j > Len(row) THEN acc ELSE RowKey(row, j + 1, acc * 16 + row[j])
Key(X, y, r) == RowKey(X[r], 1, 0) * 16 + y[r]
Canonical(X, y) == \A r \in 1..(Len(X) - 1) : Key(X, y, r) <= Key(X, y, r + 1)

RECURSIVE PermsOf(_)
PermsOf(S) == IF S = {} THEN {<<>>}
              ELSE UNION { { <<a>> \o t : t \in PermsOf(S \ {a}) } : a \in S }

RECURSIVE SortOrders(_, _, _)         \* all orders of `left` that sort feature j
SortOrders(X, j, left) ==
    IF left = {} THEN {<<>>}
    ELSE LET m == CHOOSE a \in { X[r][j] : r \in left } : \A r \in left : a <= X[r][j]
             G == { r \in left : X[r][j] = m }
         IN  { a \o b : a \in PermsOf(G), b \in SortOrders(X, j, left \ G) }

StableOrder(X, j) ==                  \* ties by ascending row index
    LET RECURSIVE go(_)
        go(left) == IF left = {} THEN <<>>
                    ELSE LET r == CHOOSE a \in left : \A b \in left :
                                     X[a][j] < X[b][j] \/ (X[a][j] = X[b][j] /\ a <= b)
                         IN  <<r>> \o go(left \ {r})
    IN  go(1..Len(X))

(* one sorting order per feature: the product of the per-feature sets *)
OrderChoices(sets) == { o \in [1..P -> UNION { sets[j] : j \in 1..P }] : \A j \in 1..P : o[j] \in sets[j] }

Init ==
    /\ \E n \in MinN..MaxN :
       \E X \in [1..n -> [1..P -> Vals]] :
       \E y \in [1..n -> IF n = MaxN THEN TopTargets ELSE Targets] :
          /\ Canonical(X, y)
          /\ \E crit \in Kinds :
                /\ (crit # "mse" => Cardinality(Range(y)) >= 2)      \* the classifier needs two classes
                \* the regressor accumulates equal feature values as one block: their order is immaterial
                /\ ord \in (IF crit = "mse" \/ TieOrders = "stable" THEN { [j \in 1..P |-> StableOrder(X, j)] }
                            ELSE OrderChoices([j \in 1..P |-> SortOrders(X, j, 1..n)]))
                /\ \E md \in Depths : \E msl \in Msls : \E mss \in Msss :
                      inp = [crit |-> crit, maxDepth |-> md, msl |-> msl, mss |-> mss, X |-> X, y |-> y]
    /\ nodes = <<>> /\ queue = <<>> /\ depth = 0 /\ pc = "start"

(* ------------------------------------------------------------------------- *)
(* class bookkeeping of the classifier                                        *)
(* ------------------------------------------------------------------------- *)
RECURSIVE SortedSeq(_)
SortedSeq(S) == IF S = {} THEN <<>>
                ELSE LET a == CHOOSE b \in S : \A c \in S : b <= c IN <<a>> \o SortedSeq(S \ {a})
Classes == SortedSeq(Range(inp.y))                        \* `y_m.unique()`: sorted, deduplicated
K == Len(Classes)
ClassIdx(r) == CHOOSE k \in 1..K : Classes[k] = inp.y[r]  \* yi[r] + 1

CountVec(rows) == [k \in 1..K |-> Cardinality({ r \in rows : ClassIdx(r) = k })]
RECURSIVE SeqSumFrom(_, _)
SeqSumFrom(s, i) == IF i > Len(s) THEN 0 ELSE s[i] + SeqSumFrom(s, i + 1)
SeqSum(s) == SeqSumFrom(s, 1)
WhichMax(s) ==                       \* first index of the maximum (`which_max`)
    CHOOSE i \in 1..Len(s) : (\A k \in 1..Len(s) : s[k] <= s[i]) /\ (\A k \in 1..(i - 1) : s[k] < s[i])

RECURSIVE SumSqFrom(_, _)
SumSqFrom(s, i) == IF i > Len(s) THEN 0 ELSE s[i] * s[i] + SumSqFrom(s, i + 1)
RECURSIVE ProdPowFrom(_, _)
ProdPowFrom(s, i) == IF i > Len(s) THEN 1 ELSE PowPow(s[i]) * ProdPowFrom(s, i + 1)
MaxOfSeq(s) == s[WhichMax(s)]

(* the gain of a candidate as a rational score <<num, den>>, larger = better; see the
   comment at ClsScore in TreeSpec for the algebra *)
CountScore(crit, tcnt, fcnt, tc, fc) ==
    CASE crit = "gini"    -> <<SumSqFrom(tcnt, 1) * fc + SumSqFrom(fcnt, 1) * tc, tc * fc>>
      [] crit = "error"   -> <<MaxOfSeq(tcnt) + MaxOfSeq(fcnt), 1>>
      [] crit = "entropy" -> <<ProdPowFrom(tcnt, 1) * ProdPowFrom(fcnt, 1), PowPow(tc) * PowPow(fc)>>

(* ------------------------------------------------------------------------- *)
(* find_best_split: one sweep over feature j in sorted order                  *)
(*   cx = [rows, n, S | count]     st = [tc, ts | tcnt, prevx, prevy, best]    *)
(*   best = [has, f, thr, num, den, tout, fout]                                *)
(* ------------------------------------------------------------------------- *)
NoBest == [has |-> FALSE, f |-> 0, thr |-> 0, num |-> 0, den |-> 1, tout |-> 0, fout |-> 0]

RECURSIVE RegSweep(_, _, _, _)
RegSweep(cx, j, i, st) ==
    IF i > Len(ord[j]) THEN st.best
    ELSE LET r == ord[j][i] IN
         IF r \notin cx.rows THEN RegSweep(cx, j, i + 1, st)           \* samples[i] = 0
         ELSE LET x == inp.X[r][j]
                  adv == [st EXCEPT !.tc = @ + 1, !.ts = @ + inp.y[r], !.prevx = x]
              IN  IF st.prevx = NaNx \/ x = st.prevx THEN RegSweep(cx, j, i + 1, adv)
                  ELSE LET fc == cx.n - st.tc IN
                       IF st.tc < inp.msl \/ fc < inp.msl THEN RegSweep(cx, j, i + 1, adv)
                       ELSE LET fs == cx.S - st.ts
                                \* tc*mean_t^2 + fc*mean_f^2  (the parent's term is the same for all)
                                num == st.ts * st.ts * fc + fs * fs * st.tc
                                den == st.tc * fc
                                better == ~st.best.has \/ num * st.best.den > st.best.num * den
                                nb == IF better
                                      THEN [has |-> TRUE, f |-> j - 1, thr |-> x + st.prevx, num |-> num, den |-> den,
                                            tout |-> <<st.ts, st.tc>>, fout |-> <<fs, fc>>]
                                      ELSE st.best
                            IN  RegSweep(cx, j, i + 1, [adv EXCEPT !.best = nb])

RECURSIVE ClsSweep(_, _, _, _)
ClsSweep(cx, j, i, st) ==
    IF i > Len(ord[j]) THEN st.best
    ELSE LET r == ord[j][i] IN
         IF r \notin cx.rows THEN ClsSweep(cx, j, i + 1, st)
         ELSE LET x == inp.X[r][j]
                  c == ClassIdx(r)
                  adv == [st EXCEPT !.tcnt[c] = @ + 1, !.prevx = x, !.prevy = c]
              IN  IF st.prevx = NaNx \/ x = st.prevx \/ c = st.prevy THEN ClsSweep(cx, j, i + 1, adv)
                  ELSE LET tc == SeqSum(st.tcnt)
                           fc == cx.n - tc
                       IN  IF tc < inp.msl \/ fc < inp.msl THEN ClsSweep(cx, j, i + 1, adv)
                           ELSE LET fcnt == [k \in 1..K |-> cx.count[k] - st.tcnt[k]]
                                    sc == CountScore(inp.crit, st.tcnt, fcnt, tc, fc)
                                    better == ~st.best.has \/ sc[1] * st.best.den > st.best.num * sc[2]
                                    nb == IF better
                                          THEN [has |-> TRUE, f |-> j - 1, thr |-> x + st.prevx, num |-> sc[1], den |-> sc[2],
                                                tout |-> WhichMax(st.tcnt) - 1, fout |-> WhichMax(fcnt) - 1]
                                          ELSE st.best
                                IN  ClsSweep(cx, j, i + 1, [adv EXCEPT !.best = nb])

RECURSIVE Features(_, _, _)          \* the loop over the features; `best` carries over
Features(cx, j, best) ==
    IF j > P THEN best
    ELSE Features(cx, j + 1,
                  IF IsReg THEN RegSweep(cx, j, 1, [tc |-> 0, ts |-> 0, prevx |-> NaNx, best |-> best])
                  ELSE ClsSweep(cx, j, 1, [tcnt |-> [k \in 1..K |-> 0], prevx |-> NaNx, prevy |-> 0, best |-> best]))

RECURSIVE SumOver(_)
SumOver(rows) == IF rows = {} THEN 0 ELSE LET r == CHOOSE a \in rows : TRUE IN inp.y[r] + SumOver(rows \ {r})

(* find_best_cutoff *)
Cutoff(rows) ==
    LET n == Cardinality(rows) IN
    IF IsReg
    THEN IF n < inp.mss THEN NoBest
         ELSE Features([rows |-> rows, n |-> n, S |-> SumOver(rows)], 1, NoBest)
    ELSE IF Cardinality({ inp.y[r] : r \in rows }) <= 1 THEN NoBest       \* is_pure
         ELSE IF n <= inp.mss THEN NoBest
         ELSE Features([rows |-> rows, n |-> n, count |-> CountVec(rows)], 1, NoBest)

NewNode(out) == [f |-> 0, thr |-> 0, has |-> FALSE, t |-> -1, fc |-> -1, out |-> out]
WithBest(nd, b) == IF b.has THEN [nd EXCEPT !.f = b.f, !.thr = b.thr, !.has = TRUE] ELSE nd
Visitor(k, rows, level, b) == [node |-> k, rows |-> rows, level |-> level, tout |-> b.tout, fout |-> b.fout]

(* ------------------------------------------------------------------------- *)
(* actions                                                                     *)
(* ------------------------------------------------------------------------- *)
Start ==          \* root node, first find_best_cutoff
    /\ pc = "start"
    /\ LET all == 1..Len(inp.X)
           out == IF IsReg THEN <<SumOver(all), Len(inp.X)>> ELSE WhichMax(CountVec(all)) - 1
           b == Cutoff(all)
       IN  /\ nodes' = << WithBest(NewNode(out), b) >>
           /\ queue' = IF b.has THEN << Visitor(1, all, 1, b) >> ELSE <<>>
    /\ pc' = "loop"
    /\ UNCHANGED <<inp, ord, depth>>

LoopGuard == depth < (IF inp.maxDepth = 0 THEN BigDepth ELSE inp.maxDepth)

TrueRows(v) == { r \in v.rows : 2 * inp.X[r][nodes[v.node].f + 1] <= nodes[v.node].thr }

SplitNode ==      \* pop a visitor; its split survives the re-validation
    /\ pc = "loop" /\ LoopGuard /\ queue # <<>>
    /\ LET v == Head(queue)
           tr == TrueRows(v)
           fr == v.rows \ tr
       IN  /\ Cardinality(tr) >= inp.msl /\ Cardinality(fr) >= inp.msl
           /\ LET ti == Len(nodes)            \* 0-based ids of the new children
                  fi == Len(nodes) + 1
                  bt == Cutoff(tr)
                  bf == Cutoff(fr)
              IN  /\ nodes' = [nodes EXCEPT ![v.node].t = ti, ![v.node].fc = fi]
                                \o << WithBest(NewNode(v.tout), bt), WithBest(NewNode(v.fout), bf) >>
                  /\ queue' = Tail(queue)
                                \o (IF bt.has THEN << Visitor(ti + 1, tr, v.level + 1, bt) >> ELSE <<>>)
                                \o (IF bf.has THEN << Visitor(fi + 1, fr, v.level + 1, bf) >> ELSE <<>>)
                  /\ depth' = Max2(depth, v.level + 1)
    /\ UNCHANGED <<inp, ord, pc>>

RejectSplit ==    \* re-validation fails: the node is reset and stays a leaf
    /\ pc = "loop" /\ LoopGuard /\ queue # <<>>
    /\ LET v == Head(queue)
           tr == TrueRows(v)
       IN  /\ (Cardinality(tr) < inp.msl \/ Cardinality(v.rows \ tr) < inp.msl)
           /\ nodes' = [nodes EXCEPT ![v.node].f = 0, ![v.node].thr = 0, ![v.node].has = FALSE]
           /\ queue' = Tail(queue)
    /\ UNCHANGED <<inp, ord, depth, pc>>

Finish ==         \* depth limit reached or nothing left to split
    /\ pc = "loop" /\ (~LoopGuard \/ queue = <<>>)
    /\ pc' = "done"
    /\ UNCHANGED <<inp, ord, nodes, queue, depth>>

Next == Start \/ SplitNode \/ RejectSplit \/ Finish
Spec == Init /\ [][Next]_vars

(* ------------------------------------------------------------------------- *)
(* the terminal tree as TreeSpec sees a recorded fit                           *)
(* ------------------------------------------------------------------------- *)
Done == pc = "done"

RoundFx(s, m) == (2 * s * FxOne + m) \div (2 * m)      \* round(s/m * 2^16), floor division

SpecNodes == [k \in 1..Len(nodes) |->
                [f |-> nodes[k].f, thr |-> nodes[k].thr, thrOk |-> nodes[k].has, t |-> nodes[k].t, fc |-> nodes[k].fc,
                 out |-> IF IsReg THEN RoundFx(nodes[k].out[1], nodes[k].out[2]) ELSE nodes[k].out, outOk |-> TRUE]]
X2 == [r \in 1..Len(inp.X) |-> [j \in 1..P |-> 2 * inp.X[r][j]]]

ModelEvent ==
    LET sn == SpecNodes
        x2 == X2
        cl == IF IsReg THEN <<>> ELSE Classes
    IN  [kind |-> IF IsReg THEN "reg" ELSE "cls", crit |-> inp.crit, maxDepth |-> inp.maxDepth,
         msl |-> inp.msl, mss |-> inp.mss, p |-> P, X |-> x2, y |-> inp.y, yden |-> 1,
         nodes |-> sn, classes |-> cl, predOk |-> TRUE, prec |-> "f64",
         pred |-> [r \in 1..Len(x2) |-> ValueOf(IF IsReg THEN "reg" ELSE "cls", sn[LeafOf(sn, x2[r])], cl)],
         Q |-> <<>>, predQ |-> <<>>]

ModelSatisfiesProperty == Done => TreeVerdict(ModelEvent).c = "ok"

(* structural sanity of the model itself *)
TypeOK ==
    /\ pc \in {"start", "loop", "done"}
    /\ depth \in 0..(MaxN + 1)
    /\ Len(nodes) <= 2 * MaxN
    /\ \A i \in 1..Len(queue) : queue[i].node \in 1..Len(nodes) /\ nodes[queue[i].node].has

(* In exact arithmetic the recount in `split` always agrees with the counts of the sweep that
   chose the threshold, so the re-validation never fires: RejectSplit is dead in the model.
   (In floating point the midpoint of two neighbouring doubles rounds onto one of them; the code
   falls back to the lower value when it rounds up, so `x <= thr` still separates exactly the rows
   the sweep counted -- the neighbouring-double training sets of the random binding exercise that.) *)
RevalidationNeverFails ==
    (pc = "loop" /\ LoopGuard /\ queue # <<>>) =>
        LET v == Head(queue) IN
        Cardinality(TrueRows(v)) >= inp.msl /\ Cardinality(v.rows \ TrueRows(v)) >= inp.msl

(* spec -> impl: one line per (sampled) terminal state *)
InputHash == LET RECURSIVE h(_, _)
                 h(r, acc) == IF r > Len(inp.X) THEN acc ELSE h(r + 1, (acc * 31 + Key(inp.X, inp.y, r)) % 1000003)
             IN  (h(1, 7) + 13 * inp.maxDepth + 101 * inp.msl + 1009 * inp.mss) % 1000003

ReplayNodes == [k \in 1..Len(nodes) |->
                  IF IsReg THEN [f |-> nodes[k].f, thr |-> nodes[k].thr, t |-> nodes[k].t, fc |-> nodes[k].fc,
                                 s |-> nodes[k].out[1], m |-> nodes[k].out[2]]
                  ELSE [f |-> nodes[k].f, thr |-> nodes[k].thr, t |-> nodes[k].t, fc |-> nodes[k].fc, out |-> nodes[k].out]]

Replay == (Done /\ ReplayMod > 0 /\ InputHash % ReplayMod = 0) =>
             PrintT(<<"REPLAY", ToJson([kind |-> IF IsReg THEN "reg" ELSE "cls", crit |-> inp.crit,
                                        maxDepth |-> inp.maxDepth, msl |-> inp.msl, mss |-> inp.mss,
                                        ties |-> TieOrders, X |-> inp.X, y |-> inp.y, nodes |-> ReplayNodes])>>)
=============================================================================
