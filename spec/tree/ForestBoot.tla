------------------------------ MODULE ForestBoot ------------------------------
(***************************************************************************)
(* C06, design model (A) of the bootstrap resampling of the forests:       *)
(*                                                                         *)
(*   RandomForestClassifier::sample_with_replacement(y, num_classes, rng)  *)
(*       samples = [0; nrows]                                              *)
(*       for l in 0..num_classes                (NextClass)                *)
(*           index = rows i with y[i] = l;  n_samples = |index|            *)
(*           size  = n_samples / class_weight[l]      -- weight 1          *)
(*           for _ in 0..size                   (Draw)                     *)
(*               xi = rng.gen_range(0..n_samples);  samples[index[xi]]+= 1 *)
(*   RandomForestRegressor::sample_with_replacement(nrows, rng)            *)
(*       for _ in 0..nrows: xi = rng.gen_range(0..nrows); samples[xi] += 1 *)
(*                                                                         *)
(* followed by what fit() keeps of it when keep_samples is on:             *)
(*       mask[i] = (samples[i] != 0).                                      *)
(*                                                                         *)
(* The random generator is modelled by nondeterministic choice: TLC        *)
(* explores every sequence of draws, for every label vector y of the       *)
(* configured scope (classes 1..k all present -- `classes` is unique(y)).  *)
(* Terminal states are checked against the predicate StratifiedTree of     *)
(* Forest.tla -- the clause "every bootstrap sample of the classifier      *)
(* contains at least one row of every class" -- and against the counting   *)
(* facts the weak learners rely on (the multiplicities sum to the class    *)
(* sizes resp. to nrows, so the root of every member tree holds nrows      *)
(* weighted rows).  For the plain variant only non-emptiness can be (and   *)
(* is) claimed: CanMissAClass below is reachable, which is why the         *)
(* statement claims stratification for the classifier only.                *)
(***************************************************************************)
EXTENDS Forest

CONSTANTS MaxN,      \* 1..MaxN training rows
          MaxK       \* at most MaxK classes

VARIABLES variant,   \* "stratified" (classifier) | "plain" (regressor)
          y,         \* class index 1..k of every row
          l,         \* class being resampled (stratified)
          d,         \* draws still to make in the current loop
          samples,   \* multiplicity of every row
          pc
vars == <<variant, y, l, d, samples, pc>>

n == Len(y)
NumClasses == SeqMax(y, 1, y[1])
Index(c) == {i \in 1..n : y[i] = c}

\* every class index 1..k occurs (the code derives the classes from y itself)
Surjective(f, k) == \A c \in 1..k : \E i \in DOMAIN f : f[i] = c

Init ==
    /\ variant \in {"stratified", "plain"}
    /\ \E nn \in 1..MaxN : \E k \in 1..MaxK :
          /\ y \in [1..nn -> 1..k]
          /\ Surjective(y, k)
    /\ samples = [i \in 1..n |-> 0]
    /\ IF variant = "stratified"
       THEN l = 1 /\ d = Cardinality(Index(1))
       ELSE l = 0 /\ d = n
    /\ pc = "draw"

\* one call of rng.gen_range: any row of the current index set
Draw ==
    /\ pc = "draw" /\ d > 0
    /\ \E i \in (IF variant = "stratified" THEN Index(l) ELSE 1..n) :
          samples' = [samples EXCEPT ![i] = @ + 1]
    /\ d' = d - 1
    /\ UNCHANGED <<variant, y, l, pc>>

\* the inner loop is exhausted: next class, or return
NextClass ==
    /\ pc = "draw" /\ d = 0
    /\ IF variant = "stratified" /\ l < NumClasses
       THEN l' = l + 1 /\ d' = Cardinality(Index(l + 1)) /\ UNCHANGED pc
       ELSE pc' = "done" /\ UNCHANGED <<l, d>>
    /\ UNCHANGED <<variant, y, samples>>

Next == Draw \/ NextClass
Spec == Init /\ [][Next]_vars

Done == pc = "done"

RECURSIVE SumSet(_, _)
SumSet(f, S) == IF S = {} THEN 0 ELSE LET i == CHOOSE x \in S : TRUE IN f[i] + SumSet(f, S \ {i})

\* what fit() keeps: one tree's row of samples[][] in the serde dump
Mask == <<[i \in 1..n |-> samples[i] # 0]>>

ModelSatisfiesProperty ==
    Done => /\ SumSet(samples, 1..n) = n
            /\ \E i \in 1..n : Mask[1][i]
            /\ variant = "stratified" =>
                  /\ \A c \in 1..NumClasses : SumSet(samples, Index(c)) = Cardinality(Index(c))
                  /\ StratifiedTree(Mask, y, n, 1..NumClasses, 1)

\* Not an invariant: a plain bootstrap sample may contain no row of some class.  Listed
\* in no cfg; `INVARIANT NeverMisses` fails on the plain variant, as it should.
CanMissAClass == Done /\ ~StratifiedTree(Mask, y, n, 1..NumClasses, 1)
NeverMisses == ~CanMissAClass

TypeOK == /\ d \in 0..n /\ l \in 0..NumClasses
          /\ \A i \in 1..n : samples[i] \in 0..n
=============================================================================
