------------------------------ MODULE ForestBoot ------------------------------
(***************************************************************************)
(* C06, design model (A) of the bootstrap resampling of the forests:       *)
(*                                                                         *)
(*   RandomForestClassifier::sample_with_replacement(y, num_classes, rng)  *)
(*       samples = [0; nrows]                                              *)
(*       for l in 0..num_classes                (NextClass)                *)
(*           index = rows i with y[i] = l;  n_samples = |index|            *)
(*           size  = n_samples / class_weight[l]      -- weight 1          *)
(*           for _ in 0..size                   (Draw)                     *)
(*               xi = rng.gen_range(0..n_samples);  samples[index[xi]]+= 1 *)
(*   RandomForestRegressor::sample_with_replacement(nrows, rng)            *)
(*       for _ in 0..nrows: xi = rng.gen_range(0..nrows); samples[xi] += 1 *)
(*                                                                         *)
(* followed by what fit() keeps of it when keep_samples is on:             *)
(*       mask[i] = (samples[i] != 0).                                      *)
(*                                                                         *)
(* The number of draws of a stratum is computed by the code in floating    *)
(* point and cast to an integer (the cast truncates).  StratumSize below   *)
(* transcribes that arithmetic; the fact the property rests on is that     *)
(* every class gets exactly as many draws as it has rows -- a class of     *)
(* one row gets its one draw -- for EVERY row count of the property's      *)
(* range, not only the ones the model enumerates draws for.  It is stated  *)
(* twice: as the assumption SizeFact over all 1 <= k <= n <= 120 (checked  *)
(* by TLC when it loads the module) and as the loop invariant              *)
(* DrawsEqualClassSize of the state machine.  Any arithmetic that is one   *)
(* draw short for some (k, n) -- e.g. a share (k/n) scaled back by n and   *)
(* truncated, TruncShare below, which is what a rounded-down quotient      *)
(* does -- falsifies both.                                                 *)
(*                                                                         *)
(* The random generator is modelled by nondeterministic choice: TLC        *)
(* explores every sequence of draws, for every label vector y of the       *)
(* configured scope (classes 1..k all present -- `classes` is unique(y)).  *)
(* Terminal states are checked against the predicate StratifiedTree of     *)
(* Forest.tla -- the clause "every bootstrap sample of the classifier      *)
(* contains at least one row of every class" -- and against the counting   *)
(* facts the weak learners rely on (the multiplicities sum to the class    *)
(* sizes resp. to nrows, so the root of every member tree holds nrows      *)
(* weighted rows).  For the plain variant only non-emptiness can be (and   *)
(* is) claimed: CanMissAClass below is reachable, which is why the         *)
(* statement claims stratification for the classifier only.                *)
(***************************************************************************)
EXTENDS Forest

CONSTANTS MaxN,      \* 1..MaxN training rows
          MaxK       \* at most MaxK classes

VARIABLES variant,   \* "stratified" (classifier) | "plain" (regressor)
          y,         \* class index 1..k of every row
          l,         \* class being resampled (stratified)
          d,         \* draws still to make in the current loop
          samples,   \* multiplicity of every row
          pc
vars == <<variant, y, l, d, samples, pc>>

n == Len(y)

\* `let size = ((n_samples as f64) / class_weight[l]) as usize;` with class_weight = 1.
\* Integers up to 2^53 and their quotient by 1 are exact in f64; `as usize` truncates.
ClassWeight == 1
StratumSize(k, nrows) == k \div ClassWeight

\* For contrast (not used by the model): the size computed as the class's share of the
\* nrows draws in an arithmetic of `Digits` fractional binary digits that rounds the
\* quotient down, then truncated.  TruncShare(1, 49, 1024) = 0: the class gets no draw. 
\* Substituting it for StratumSize makes SizeFact and DrawsEqualClassSize fail.
TruncShare(k, nrows, scale) == (((k * scale) \div nrows) * nrows) \div scale

\* every class gets as many draws as it has rows, for every n of the property's range
ASSUME SizeFact == \A nn \in 1..120 : \A k \in 1..nn : StratumSize(k, nn) = k
\* ... and the contrast arithmetic does not (1024 = 10 binary digits)
ASSUME ShareIsShort == \E nn \in 1..120 : TruncShare(1, nn, 1024) = 0

NumClasses == SeqMax(y, 1, y[1])
Index(c) == {i \in 1..n : y[i] = c}

\* every class index 1..k occurs (the code derives the classes from y itself)
Surjective(f, k) == \A c \in 1..k : \E i \in DOMAIN f : f[i] = c

Init ==
    /\ variant \in {"stratified", "plain"}
    /\ \E nn \in 1..MaxN : \E k \in 1..MaxK :
          /\ y \in [1..nn -> 1..k]
          /\ Surjective(y, k)
    /\ samples = [i \in 1..n |-> 0]
    /\ IF variant = "stratified"
       THEN l = 1 /\ d = StratumSize(Cardinality(Index(1)), n)
       ELSE l = 0 /\ d = n
    /\ pc = "draw"

\* one call of rng.gen_range: any row of the current index set
Draw ==
    /\ pc = "draw" /\ d > 0
    /\ \E i \in (IF variant = "stratified" THEN Index(l) ELSE 1..n) :
          samples' = [samples EXCEPT ![i] = @ + 1]
    /\ d' = d - 1
    /\ UNCHANGED <<variant, y, l, pc>>

\* the inner loop is exhausted: next class, or return
NextClass ==
    /\ pc = "draw" /\ d = 0
    /\ IF variant = "stratified" /\ l < NumClasses
       THEN l' = l + 1 /\ d' = StratumSize(Cardinality(Index(l + 1)), n) /\ UNCHANGED pc
       ELSE pc' = "done" /\ UNCHANGED <<l, d>>
    /\ UNCHANGED <<variant, y, samples>>

Next == Draw \/ NextClass
Spec == Init /\ [][Next]_vars

Done == pc = "done"

RECURSIVE SumSet(_, _)
SumSet(f, S) == IF S = {} THEN 0 ELSE LET i == CHOOSE x \in S : TRUE IN f[i] + SumSet(f, S \ {i})

\* what fit() keeps: one tree's row of samples[][] in the serde dump
Mask == <<[i \in 1..n |-> samples[i] # 0]>>

ModelSatisfiesProperty ==
    Done => /\ SumSet(samples, 1..n) = n
            /\ \E i \in 1..n : Mask[1][i]
            /\ variant = "stratified" =>
                  /\ \A c \in 1..NumClasses : SumSet(samples, Index(c)) = Cardinality(Index(c))
                  /\ StratifiedTree(Mask, y, n, 1..NumClasses, 1)

\* loop invariant of the stratified sampler: draws made + draws still to make for the class
\* being resampled = its number of rows; classes already done have received theirs
DrawsEqualClassSize ==
    (variant = "stratified" /\ pc = "draw") =>
        /\ d + SumSet(samples, Index(l)) = Cardinality(Index(l))
        /\ \A c \in 1..(l - 1) : SumSet(samples, Index(c)) = Cardinality(Index(c))

\* Not an invariant: a plain bootstrap sample may contain no row of some class.  Listed
\* in no cfg; `INVARIANT NeverMisses` fails on the plain variant, as it should.
CanMissAClass == Done /\ ~StratifiedTree(Mask, y, n, 1..NumClasses, 1)
NeverMisses == ~CanMissAClass

TypeOK == /\ d \in 0..n /\ l \in 0..NumClasses
          /\ \A i \in 1..n : samples[i] \in 0..n
=============================================================================
