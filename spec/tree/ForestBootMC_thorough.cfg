CONSTANTS MaxN = 6  MaxK = 3
SPECIFICATION Spec
INVARIANT TypeOK
INVARIANT ModelSatisfiesProperty
CHECK_DEADLOCK FALSE
