CONSTANTS Tier = "thorough"  MaxT = 3
SPECIFICATION Spec
INVARIANT TypeOK
INVARIANT ModelSatisfiesProperty
INVARIANT Replay
CHECK_DEADLOCK FALSE
