CONSTANTS MaxN = 5  MaxK = 3
SPECIFICATION Spec
INVARIANT TypeOK
INVARIANT ModelSatisfiesProperty
INVARIANT DrawsEqualClassSize
CHECK_DEADLOCK FALSE
