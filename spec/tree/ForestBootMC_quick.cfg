CONSTANTS MaxN = 5  MaxK = 3
SPECIFICATION Spec
INVARIANT TypeOK
INVARIANT ModelSatisfiesProperty
CHECK_DEADLOCK FALSE
