CONSTANTS Keys = {"a1", "a2", "b1", "b2"}  Digests = {"d1", "d2", "d3"}  MaxLen = 7  Deterministic = TRUE
SPECIFICATION Spec
INVARIANT Sound
INVARIANT Complete
INVARIANT Exact
INVARIANT SeenIsFirst
INVARIANT NoFalseAlarm
CHECK_DEADLOCK FALSE
