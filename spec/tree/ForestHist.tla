------------------------------ MODULE ForestHist ------------------------------
(***************************************************************************)
(* C06, the reproducibility clause as a history machine.                   *)
(*                                                                         *)
(*   "Two forests fitted with the same data, parameters and seed are       *)
(*    identical and give identical predictions."                           *)
(*                                                                         *)
(* A session is a sequence of fits.  Each fit is abstracted to a pair      *)
(* (key, digest): key = (data, parameters, seed), digest = everything      *)
(* observable about the fitted forest.  The statement is a property of     *)
(* the *whole log* (PairwiseReproducible in Forest.tla): any two entries   *)
(* with the same key carry the same digest, no matter how many fits with   *)
(* other keys -- other seeds, other data, the other estimator -- happened  *)
(* in between.                                                             *)
(*                                                                         *)
(* Trace validation cannot afford the quadratic pairwise check and does    *)
(* not need it: it keeps the partial function seen : key -> digest of      *)
(* first occurrences and checks each fit against FitGuard(seen, key,       *)
(* digest), updating with FitEffect.  This module model-checks, for every  *)
(* interleaving of a small key and digest alphabet, that the incremental   *)
(* discipline is *exactly* the statement:                                  *)
(*                                                                         *)
(*   Sound      nothing rejected so far  =>  the log is pairwise           *)
(*              reproducible                                               *)
(*   Complete   the log is pairwise reproducible  =>  nothing rejected     *)
(*   Exact      entry i is rejected  <=>  its digest differs from the      *)
(*              digest of the first entry with the same key                *)
(*   SeenIsFirst  seen is the map key -> digest of first occurrence        *)
(*                                                                         *)
(* The environment is the implementation under test.  With                 *)
(* Deterministic = FALSE it may return any digest for any key at any time  *)
(* (an implementation with hidden state, e.g. an unseeded generator, or    *)
(* state leaking from one fit into the next); with Deterministic = TRUE    *)
(* it is an arbitrary but fixed function impl : Keys -> Digests chosen in  *)
(* Init (what the statement promises), and then no fit is ever rejected    *)
(* (NoFalseAlarm) whatever the interleaving.                               *)
(*                                                                         *)
(* Like the trace spec, the machine never blocks: a rejected fit is        *)
(* recorded and the session goes on (a failing fit must not hide later     *)
(* ones).                                                                  *)
(***************************************************************************)
EXTENDS Forest

CONSTANTS Keys, Digests, MaxLen, Deterministic

VARIABLES log,        \* sequence of <<key, digest>>: every fit of the session
          seen,       \* key -> digest of first occurrences (function with finite domain)
          rejected,   \* set of log positions whose fit failed FitGuard
          impl        \* Deterministic: the implementation's fixed answer per key
vars == <<log, seen, rejected, impl>>

Init == /\ log = <<>>
        /\ seen = <<>>          \* the empty function
        /\ rejected = {}
        /\ impl \in (IF Deterministic THEN [Keys -> Digests] ELSE {<<>>})

\* one fit: the implementation answers `dg` for `k`
Fit(k, dg) ==
    /\ Len(log) < MaxLen
    /\ Deterministic => dg = impl[k]
    /\ log' = Append(log, <<k, dg>>)
    /\ IF FitGuard(seen, k, dg)
       THEN /\ seen' = FitEffect(seen, k, dg)
            /\ UNCHANGED rejected
       ELSE /\ rejected' = rejected \cup {Len(log) + 1}
            /\ UNCHANGED seen
    /\ UNCHANGED impl

Next == \E k \in Keys : \E dg \in Digests : Fit(k, dg)
Spec == Init /\ [][Next]_vars

FirstIndex(k) == CHOOSE i \in 1..Len(log) : log[i][1] = k /\ \A j \in 1..(i - 1) : log[j][1] # k

Sound       == rejected = {} => PairwiseReproducible(log)
Complete    == PairwiseReproducible(log) => rejected = {}
Exact       == \A i \in 1..Len(log) : i \in rejected <=> log[i][2] # log[FirstIndex(log[i][1])][2]
SeenIsFirst == /\ DOMAIN seen = {log[i][1] : i \in 1..Len(log)}
               /\ \A k \in DOMAIN seen : seen[k] = log[FirstIndex(k)][2]
NoFalseAlarm == Deterministic => rejected = {}
=============================================================================
