CONSTANTS MaxN = 5  Side = 5  Dim = 1  QMargin = 1
SPECIFICATION Spec
INVARIANT TreeOK
INVARIANT SearchOK
INVARIANT Replay
CHECK_DEADLOCK FALSE
