------------------------------- MODULE KnnTrace -------------------------------
(***************************************************************************)
(* C04 — trace validation (impl -> spec, and the return leg of spec ->     *)
(* impl).  Consumes the ndjson file recorded by harness/c04 from the real  *)
(* LinearKNNSearch / CoverTree / HeapSelection / KNNClassifier /           *)
(* KNNRegressor and evaluates, on every event, the predicates of Knn.tla,  *)
(* HeapOps.tla and KnnVote.tla.  Events are independent; the spec never    *)
(* blocks: a failing event is printed (BAD ...) and counted.               *)
(*                                                                         *)
(* Events                                                                  *)
(*  Sweep      one data set, one query, one metric, one structure: the     *)
(*             outcome of construction, of find(q, k) for a list of k and  *)
(*             of find_radius(q, r) for a list of radii.                   *)
(*             src = "lat": D, q are integer vectors (units 1/u) and the   *)
(*             keys are recomputed here with Knn!Keys; src = "cont": the   *)
(*             event carries allKey = dense ranks of the n distances.      *)
(*  Heap       an operation sequence on HeapSelection with the array and   *)
(*             peek() after every prefix.                                  *)
(*  KnnPredict one fitted estimator and its predictions for some queries.  *)
(*  LinFind    LinearKNNSearch::find on a key vector enumerated by         *)
(*             LinearFind.tla, with the order the model predicts.          *)
(*  Tree       one real CoverTree (structure read through serde) with its  *)
(*             find / find_radius answers, for the comparison with the     *)
(*             design model CoverTree.tla.                                 *)
(***************************************************************************)
EXTENDS KnnVote, HeapOps, CoverTree, TLC, Json, IOUtils

Rec == ndJsonDeserialize(IOEnv.TRACE)

VARIABLES l, nbad, hits
vars == <<l, nbad, hits>>

Bad(e, clause) == PrintT(<<"BAD", l, e.run, e.ev, clause>>)
MinOf(S) == CHOOSE a \in S : \A b \in S : a <= b

(***************************************************************************)
(* Sweep                                                                   *)
(***************************************************************************)
SweepKeys(e) == IF e.src = "lat" THEN Keys(e.metric, e.p, e.D, e.q) ELSE e.allKey

(* "each entry carrying the true ... point" *)
EntryPtsOK(e, res) ==
    IF e.src = "lat" THEN \A j \in 1..Len(res) : res[j].pt = e.D[res[j].i + 1]
    ELSE \A j \in 1..Len(res) : res[j].ptEq

FindOK(e, keys, f) ==
    IF FindMustErr(Len(keys), f.k) THEN f.status = "err"
    ELSE /\ f.status = "ok"
         /\ IsKnn(keys, f.k, f.res)
         /\ EntryPtsOK(e, f.res)

RadiusOK(e, keys, r) ==
    IF RadiusMustErr(r.rpos) THEN r.status = "err"
    ELSE /\ r.status = "ok"
         /\ IsRadius(keys, r.rkey, r.res)
         /\ EntryPtsOK(e, r.res)

(***************************************************************************)
(* A failing radius answer is classified.  "boundary-miss": the radius is  *)
(* exactly the distance of some data point (kind "at"), the answer is      *)
(* well-formed and correct except that it lacks points whose distance      *)
(* EQUALS the radius.  With a metric whose floating-point arithmetic is    *)
(* inexact this is how the cover tree's pruning test                       *)
(* d <= radius + max_dist fails when the sum rounds below d (a known       *)
(* finding, see known_findings/C04.json); every other failure — a point    *)
(* strictly inside the radius missing, a point outside returned, a wrong   *)
(* distance, a repeated index — keeps the plain clause name.               *)
(***************************************************************************)
BoundaryMiss(e, keys, r) ==
    /\ r.rpos /\ r.status = "ok" /\ r.kind = "at"
    /\ WellFormed(keys, r.res)
    /\ EntryPtsOK(e, r.res)
    /\ LET want == { i \in 1..Len(keys) : keys[i] <= r.rkey }
           got  == IdxSet(r.res)
       IN  got \subseteq want /\ \A i \in want \ got : keys[i] = r.rkey

(* "ok" or the name of the failing clause (the gravest one, so that a
   boundary miss never hides another failure of the same event).  Construction
   must succeed for every non-empty data set (the harness never sends an
   empty one). *)
SweepClause(e, keys) ==
    IF e.build # "ok" THEN "Build"
    ELSE LET bf == { j \in 1..Len(e.finds) : ~FindOK(e, keys, e.finds[j]) }
         IN  IF bf # {} THEN "Find:k=" \o ToString(e.finds[MinOf(bf)].k)
             ELSE LET br == { j \in 1..Len(e.radii) : ~RadiusOK(e, keys, e.radii[j]) }
                  IN  IF br = {} THEN "ok"
                      ELSE LET hard == { j \in br : ~BoundaryMiss(e, keys, e.radii[j]) }
                           IN  IF hard # {} THEN "Radius:" \o e.radii[MinOf(hard)].kind
                               ELSE "Radius:at:boundary-miss"

Count(S) == Cardinality(S)
SweepHits(e, keys, clause) ==
    IF clause # "ok" THEN [x \in {"BuildFail"} |-> IF clause = "Build" THEN 1 ELSE 0]
    ELSE LET n  == Len(keys)
             vf == { j \in 1..Len(e.finds) : ~FindMustErr(n, e.finds[j].k) }
             vr == { j \in 1..Len(e.radii) : e.radii[j].rpos }
             tie == { j \in vf : TieAtK(keys, e.finds[j].k, MaxKey(e.finds[j].res)) }
             qin == QueryInData(keys)
         IN  [x \in {"Find", "FindErr", "Radius", "RadiusErr", "TieAtK", "QueryInData", "NonTrivial", "RadiusAt", "RadiusInf"} |->
                CASE x = "Find" -> Count(vf)
                  [] x = "FindErr" -> Len(e.finds) - Count(vf)
                  [] x = "Radius" -> Count(vr)
                  [] x = "RadiusErr" -> Len(e.radii) - Count(vr)
                  [] x = "TieAtK" -> Count(tie)
                  [] x = "QueryInData" -> IF qin THEN Count(vf) ELSE 0
                  [] x = "NonTrivial" -> IF qin THEN Count(vf) ELSE Count(tie)
                  [] x = "RadiusAt" -> Count({ j \in vr : e.radii[j].kind = "at" })
                  \* r = +infinity and r = f64::MAX are radii > 0: every point must come back
                  [] x = "RadiusInf" -> Count({ j \in vr : e.radii[j].kind \in {"inf", "max"} })]

(***************************************************************************)
(* Heap.  The recorded operation sequence is run through the model         *)
(* (HeapOps) to know, at every step, which values have been offered and    *)
(* whether the step lies inside the usage disciplines U1 / U2 (see         *)
(* HeapSelect.tla); the contract is evaluated on the arrays recorded from  *)
(* the real heap.  A recorded array that satisfies the contract but        *)
(* differs from the model's array is counted as drift, not as a failure.   *)
(* ops[j] = <<1, v>> add, <<2, v>> overwrite root, <<3, 0>> heapify.       *)
(***************************************************************************)
HStep(s, op) ==      \* s = [st, off, dirty, inDisc]
    CASE op[1] = 1 -> [st |-> Add(s.st, <<op[2], 0>>), off |-> InsAsc(s.off, op[2]), dirty |-> s.dirty,
                       inDisc |-> s.inDisc /\ ~s.dirty]
      [] op[1] = 2 -> [st |-> IF s.st.heap = <<>> THEN s.st ELSE SetRoot(s.st, <<op[2], 0>>),
                       off |-> InsAsc(s.off, op[2]), dirty |-> TRUE,
                       inDisc |-> /\ s.inDisc /\ ~s.dirty /\ s.st.n >= s.st.k /\ s.st.heap # <<>>
                                  /\ op[2] < Dv(s.st.heap[1])]
      [] OTHER     -> [st |-> Heapify(s.st), off |-> s.off, dirty |-> FALSE, inDisc |-> s.inDisc]

RECURSIVE HRun(_, _, _)
HRun(s, ops, j) == IF j > Len(ops) THEN <<>> ELSE LET t == HStep(s, ops[j]) IN <<t>> \o HRun(t, ops, j + 1)

HeapStepOK(k, s, arr, pk) ==     \* contract on the recorded array after one step
    (s.inDisc /\ ~s.dirty) =>
        /\ Retained(k, s.off, arr)
        /\ PeekMax(arr, pk)
        /\ (Len(s.off) >= k => arr[1] = MaxUpTo(arr, Len(arr)))

HeapClause(e, run) ==
    IF e.status # "ok" \/ Len(e.snaps) # Len(e.ops) THEN "HeapPanic"
    ELSE LET b == { j \in 1..Len(e.ops) : ~HeapStepOK(e.k, run[j], e.snaps[j], e.peeks[j]) }
         IN  IF b # {} THEN "HeapContract:step=" \o ToString(MinOf(b)) ELSE "ok"

HeapDrift(e, run) ==
    \/ \E j \in 1..Len(e.ops) : run[j].inDisc /\ Ds(run[j].st.heap) # e.snaps[j]
    \/ ("expect" \in DOMAIN e /\ e.expect # e.snaps[Len(e.snaps)])

(***************************************************************************)
(* KnnPredict                                                              *)
(***************************************************************************)
PredValOK(e, keys, out) ==
    IF e.kind = "cls" THEN PredClassOK(e.weight, keys, e.y, e.k, out)
    ELSE PredRegOK(e.weight, keys, e.y, e.k, out)

PredOK(e, pr) ==
    IF e.k > e.n THEN pr.status = "err"
    ELSE pr.status = "ok" /\ PredValOK(e, Keys(e.metric, e.p, e.X, pr.q), pr.out)

(* One call of predict on a matrix of e.batchLen rows: the query rows of `preds` repeated
   cyclically ("for every query row", whatever the number of rows).  Every value returned for
   query i must be admissible for query i; the distinct values are collected first, so the
   vote specification is evaluated once per (query, value) and the check is linear in the
   number of rows. *)
BatchQueryOK(e, keys, outs) == \A o \in outs : PredValOK(e, keys, o)
BatchOuts(e, i) == { e.batch.out[j] : j \in { j \in 1..Len(e.batch.out) : (j - 1) % Len(e.preds) = i - 1 } }
BatchOK(e) ==
    IF e.k > e.n THEN e.batch.status = "err"
    ELSE /\ e.batch.status = "ok"
         /\ Len(e.batch.out) = e.batchLen
         /\ \A i \in 1..Len(e.preds) :
               BatchQueryOK(e, Keys(e.metric, e.p, e.X, e.preds[i].q), BatchOuts(e, i))

EstClause(e) ==
    IF e.k < 1 THEN (IF e.fit = "err" \/ (e.fit = "ok" /\ \A j \in 1..Len(e.preds) : e.preds[j].status = "err")
                     THEN "ok" ELSE "EstKZero")
    ELSE IF EstUnconstrained(e.kind, e.k) THEN "unconstrained"
    ELSE IF e.k > e.n /\ e.fit = "err" THEN "ok"
    ELSE IF e.fit # "ok" THEN "EstFit"
    ELSE LET b == { j \in 1..Len(e.preds) : ~PredOK(e, e.preds[j]) }
         IN  IF b # {} THEN "EstPredict:q=" \o ToString(MinOf(b))
             ELSE IF ~BatchOK(e) THEN "EstPredictBatch"
             ELSE "ok"

(* every query of the event stays inside the 32-bit range of the vote specification *)
EstFits(e) == (e.k < 1 \/ e.k > e.n) \/
              \A j \in 1..Len(e.preds) : Fits(e.weight, Keys(e.metric, e.p, e.X, e.preds[j].q), e.y, e.k)

(* more than one k-nearest set exists: the k-th key also occurs beyond position k *)
KthTied(keys, k) == CountLeq(keys, KthKey(keys, k)) > k      \* (argument: evaluated once)

EstHits(e, clause) ==
    IF clause = "unconstrained" THEN [x \in {"EstUnconstrained"} |-> 1]
    ELSE IF clause # "ok" THEN [x \in {"EstFail"} |-> 1]
    ELSE IF e.k < 1 \/ e.k > e.n THEN [x \in {"EstErr"} |-> 1]
    ELSE LET ties == { j \in 1..Len(e.preds) : KthTied(Keys(e.metric, e.p, e.X, e.preds[j].q), e.k) }
         IN  [x \in {"ClsPred", "RegPred", "EstTieAtK", "EstDistance"} |->
                CASE x = "ClsPred" -> IF e.kind = "cls" THEN Len(e.preds) ELSE 0
                  [] x = "RegPred" -> IF e.kind = "reg" THEN Len(e.preds) ELSE 0
                  [] x = "EstTieAtK" -> Count(ties)
                  [] x = "EstDistance" -> IF e.weight = "distance" THEN Len(e.preds) ELSE 0]


(***************************************************************************)
(* Tree.  The answers of the real tree are judged by IsKnn / IsRadius like *)
(* any other (failure = BAD).  Beyond that the event binds the design      *)
(* model to the code: the real structure must equal the tree built by the  *)
(* transcribed batch_insert, satisfy the structural invariants, and the    *)
(* real find / find_radius must return what the transcribed ones return,   *)
(* in the same order.  Any difference there is MODEL-DRIFT (counted, not a *)
(* failure): the property does not prescribe the shape of the tree.        *)
(***************************************************************************)
RECURSIVE ToModel(_)
ToModel(nd) == [idx |-> nd.idx + 1, maxDist |-> nd.maxDist, parentDist |-> nd.parentDist, scale |-> nd.scale,
                children |-> [j \in 1..Len(nd.children) |-> ToModel(nd.children[j])]]

TreeDm(e) == [i \in 1..Len(e.D) |-> [j \in 1..Len(e.D) |-> Key("man", 1, e.D[i], e.D[j])]]
Plain(res) == [j \in 1..Len(res) |-> [i |-> res[j].i, key |-> res[j].key]]
LatView(e) == [src |-> "lat", D |-> e.D]       \* what EntryPtsOK needs

TreeQueryOK(e, qr, keys) ==
    /\ \A j \in 1..Len(qr.finds) : FindOK(LatView(e), keys, qr.finds[j])
    /\ \A j \in 1..Len(qr.radii) : RadiusOK(LatView(e), keys, qr.radii[j])

TreeClause(e) ==
    IF e.build # "ok" THEN "Build"
    ELSE LET b == { j \in 1..Len(e.qs) : ~TreeQueryOK(e, e.qs[j], Keys("man", 1, e.D, e.qs[j].q)) }
         IN  IF b # {} THEN "TreeQuery:q=" \o ToString(MinOf(b)) ELSE "ok"

TreeStructDrift(e, dm, real) ==
    \/ real # Build(dm).node
    \/ real # e.expect
    \/ ~TreeInv(dm, real)

TreeFindDrift(e, real) ==
    \E j \in 1..Len(e.qs) :
        LET dq == Keys("man", 1, e.D, e.qs[j].q) IN
        \/ \E f \in 1..Len(e.qs[j].finds) :
              Plain(e.qs[j].finds[f].res) # Find(dq, real, e.qs[j].finds[f].k)
        \/ \E r \in 1..Len(e.qs[j].radii) :
              Plain(e.qs[j].radii[r].res) # FindRadius(dq, real, e.qs[j].radii[r].rkey)

(***************************************************************************)
(* The step: consume one line.                                             *)
(***************************************************************************)
HitNames == {"Sweep", "Find", "FindErr", "Radius", "RadiusErr", "RadiusAt", "RadiusInf", "EstManyClasses", "TieAtK", "QueryInData", "NonTrivial", "BuildFail",
             "linear", "cover", "man", "euc", "mink", "ham", "lat", "cont",
             "Heap", "HeapDrift", "HeapTlc", "Tree", "TreeDrift", "TreeFindDrift", "TreeFind",
             "LinFind", "LinDrift", "N1cover", "N1linear", "Identcover", "Identlinear",
             "EstN1clscover", "EstN1regcover", "EstN1clslinear", "EstN1reglinear",
             "EstIdentclscover", "EstIdentregcover", "EstIdentclslinear", "EstIdentreglinear",
             "EstWeightBeforeDistancecls", "EstWeightBeforeDistancereg", "EstViaFields", "EstDefaultMetric",
             "EstSignedZeroLabels", "EstBatchOver256", "EstBatchOver512", "EstTrainOver256", "EstApiinherent", "EstApitrait",
             "NOver256cover", "NOver256linear", "NOver1024cover", "NOver1024linear",
             "KnnPredict", "ClsPred", "RegPred", "EstErr", "EstUnconstrained", "EstTieAtK", "EstDistance", "EstFail", "EstSkipped"}

Bump(h, d) == [x \in DOMAIN h |-> IF x \in DOMAIN d THEN h[x] + d[x] ELSE h[x]]
One(names) == [x \in names |-> 1]

Account(e, clause, delta) ==
    /\ IF clause \in {"ok", "unconstrained"} THEN nbad' = nbad ELSE Bad(e, clause) /\ nbad' = nbad + 1
    /\ hits' = Bump(hits, delta)

(* the boundary data sets named by the statement, counted when they pass: a single point
   ("N1cover", "N1linear") and n >= 2 identical points ("Identcover", "Identlinear") *)
SweepTags(e, c) ==
    {"Sweep", e.backend, e.metric, e.src}
      \cup (IF c = "ok" /\ e.n = 1 THEN {"N1" \o e.backend} ELSE {})
      \cup (IF c = "ok" /\ e.n >= 2 /\ e.ident THEN {"Ident" \o e.backend} ELSE {})
      \cup (IF c = "ok" /\ e.n > 256 THEN {"NOver256" \o e.backend} ELSE {})
      \cup (IF c = "ok" /\ e.n > 1024 THEN {"NOver1024" \o e.backend} ELSE {})

SweepStep(e, keys) == LET c == SweepClause(e, keys) IN
    Account(e, c, One(SweepTags(e, c)) @@ SweepHits(e, keys, c))

HeapStep(e, run) == LET c == HeapClause(e, run) IN
    Account(e, c, [x \in {"Heap", "HeapDrift", "HeapTlc"} |->
                     CASE x = "Heap" -> 1
                       [] x = "HeapDrift" -> IF c = "ok" /\ HeapDrift(e, run) THEN 1 ELSE 0
                       [] x = "HeapTlc" -> IF e.src = "tlc" THEN 1 ELSE 0])

TreeStep(e, dm, real) == LET c == TreeClause(e) IN
    Account(e, c, [x \in {"Tree", "TreeDrift", "TreeFindDrift", "TreeFind"} |->
                     CASE x = "Tree" -> 1
                       [] x = "TreeDrift" -> IF c = "ok" /\ TreeStructDrift(e, dm, real) THEN 1 ELSE 0
                       [] x = "TreeFindDrift" -> IF c = "ok" /\ TreeFindDrift(e, real) THEN 1 ELSE 0
                       [] x = "TreeFind" -> IF c = "ok" THEN Len(e.qs) * (Len(e.qs[1].finds) + Len(e.qs[1].radii)) ELSE 0])

LinStep(e) ==
    LET ok == e.status = "ok" /\ IsKnn(e.keys, e.k, e.res) IN
    Account(e, IF ok THEN "ok" ELSE "LinFind:k=" \o ToString(e.k),
            [x \in {"LinFind", "LinDrift"} |->
               CASE x = "LinFind" -> 1
                 [] x = "LinDrift" -> IF ok /\ [j \in 1..Len(e.res) |-> e.res[j].i] # e.expect THEN 1 ELSE 0])

(* boundary training sets and parameter-construction orders that were exercised and passed *)
EstTags(e, c) ==
    {"KnnPredict"}
      \cup (IF c = "ok" /\ e.k >= 1 /\ e.n = 1 THEN {"EstN1" \o e.kind \o e.backend} ELSE {})
      \cup (IF c = "ok" /\ e.k >= 1 /\ e.k <= e.n /\ e.n >= 2 /\ e.ident THEN {"EstIdent" \o e.kind \o e.backend} ELSE {})
      \cup (IF c = "ok" /\ e.k >= 1 /\ e.k <= e.n /\ e.weight = "distance" /\ e.wBeforeD
            THEN {"EstWeightBeforeDistance" \o e.kind} ELSE {})
      \cup (IF c = "ok" /\ e.k >= 1 /\ e.k <= e.n /\ e.batchLen > 256 THEN {"EstBatchOver256"} ELSE {})
      \cup (IF c = "ok" /\ e.k >= 1 /\ e.k <= e.n /\ e.batchLen > 512 THEN {"EstBatchOver512"} ELSE {})
      \cup (IF c = "ok" /\ e.k >= 1 /\ e.k <= e.n /\ e.n > 256 THEN {"EstTrainOver256"} ELSE {})
      \cup (IF c = "ok" /\ e.fit = "ok" THEN {"EstApi" \o e.api} ELSE {})
      \cup (IF c = "ok" /\ e.k >= 1 /\ e.k <= e.n /\ e.signedZeroLabels THEN {"EstSignedZeroLabels"} ELSE {})
      \cup (IF c = "ok" /\ e.k >= 1 /\ e.k <= e.n /\ e.nClasses > 256 THEN {"EstManyClasses"} ELSE {})
      \cup (IF c = "ok" /\ e.viaFields THEN {"EstViaFields"} ELSE {})
      \cup (IF c = "ok" /\ e.defaultMetric THEN {"EstDefaultMetric"} ELSE {})

EstStep(e) ==
    IF ~EstFits(e) THEN Account(e, "ok", One({"KnnPredict", "EstSkipped"}))
    ELSE LET c == EstClause(e) IN Account(e, c, One(EstTags(e, c)) @@ EstHits(e, c))

Step ==
    LET e == Rec[l] IN
    /\ l <= Len(Rec)
    /\ l' = l + 1
    /\ CASE e.ev = "Sweep" -> SweepStep(e, SweepKeys(e))
         [] e.ev = "Heap" -> HeapStep(e, HRun([st |-> New(e.k), off |-> <<>>, dirty |-> FALSE, inDisc |-> TRUE], e.ops, 1))
         [] e.ev = "KnnPredict" -> EstStep(e)
         [] e.ev = "LinFind" -> LinStep(e)
         [] e.ev = "Tree" -> IF e.build = "ok" THEN TreeStep(e, TreeDm(e), ToModel(e.tree))
                             ELSE Account(e, "Build", One({"Tree"}))
         [] OTHER -> Bad(e, "unknown event") /\ nbad' = nbad + 1 /\ UNCHANGED hits

Init == l = 1 /\ nbad = 0 /\ hits = [x \in HitNames |-> 0]
Next == Step
Spec == Init /\ [][Next]_vars

AtEnd == (l = Len(Rec) + 1) =>
            PrintT(<<"VERDICT", ToJson([consumed |-> l - 1, bad |-> nbad, hits |-> hits])>>)
=============================================================================
