--------------------------------- MODULE Knn ---------------------------------
(***************************************************************************)
(* C04, part 1 — property predicates of nearest-neighbour search.          *)
(*                                                                         *)
(* Statement (properties.jsonl, C04): for every non-empty point set,       *)
(* metric, query, 1 <= k <= n and radius r > 0, both search structures     *)
(* return exactly k entries whose distances are the k smallest distances   *)
(* from the query to the data, each entry carrying the true index,         *)
(* distance and point; the radius query returns exactly the points at      *)
(* distance <= r; k = 0, k > n and r <= 0 are reported as errors.          *)
(*                                                                         *)
(* Everything here is written over *keys*: a key is an integer that is a   *)
(* strictly monotone image of the distance (DESIGN 2.5), so "smaller       *)
(* distance" is "smaller key" and "equal distance" is "equal key":         *)
(*     Manhattan   key = u * d          = Sum |a_i - b_i|                   *)
(*     Euclid      key = (u * d)^2      = Sum (a_i - b_i)^2                 *)
(*     Minkowski p key = (u * d)^p      = Sum |a_i - b_i|^p                 *)
(*     Hamming     key = d * len        = #{ i : a_i # b_i }                *)
(* for points whose coordinates are integers in units of 1/u.  For         *)
(* continuous data the key of a point is the dense rank of its distance    *)
(* among the n distances from the query (supplied by the harness).         *)
(*                                                                         *)
(* A result `res` is a sequence of records with fields                     *)
(*     i   : the returned index, 0-based as in the Rust API                *)
(*     key : the key of the returned distance                              *)
(* (the returned point is compared by the trace specification).            *)
(* The order of `res` is not specified by the statement and not used.      *)
(* Ties at the k-th distance: any k-subset with the right keys is accepted *)
(* (the clause NoCloserOutside does not mention which of several equally   *)
(* distant points is returned).                                            *)
(***************************************************************************)
EXTENDS Integers, Sequences, FiniteSets

Abs(x) == IF x < 0 THEN -x ELSE x
Max2(a, b) == IF a > b THEN a ELSE b
Min2(a, b) == IF a < b THEN a ELSE b

RECURSIVE Pow(_, _)
Pow(b, e) == IF e <= 0 THEN 1 ELSE b * Pow(b, e - 1)

(***************************************************************************)
(* The metrics on integer vectors (sequences of equal length).             *)
(***************************************************************************)
Term(metric, p, x, y) ==
    CASE metric = "man"  -> Abs(x - y)
      [] metric = "euc"  -> (x - y) * (x - y)
      [] metric = "mink" -> Pow(Abs(x - y), p)
      [] metric = "ham"  -> IF x = y THEN 0 ELSE 1

RECURSIVE KeyUpTo(_, _, _, _, _)
KeyUpTo(metric, p, a, b, i) ==
    IF i = 0 THEN 0 ELSE Term(metric, p, a[i], b[i]) + KeyUpTo(metric, p, a, b, i - 1)

Key(metric, p, a, b) == KeyUpTo(metric, p, a, b, Len(a))

(* keys[i] = key of the distance from the query q to the i-th data point *)
Keys(metric, p, D, q) == [i \in 1..Len(D) |-> Key(metric, p, q, D[i])]

(***************************************************************************)
(* Shape of a result.                                                      *)
(***************************************************************************)
IdxSet(res) == { res[j].i + 1 : j \in 1..Len(res) }      \* as 1-based positions

RECURSIVE MaxKeyUpTo(_, _)
MaxKeyUpTo(res, j) == IF j = 0 THEN -1 ELSE Max2(res[j].key, MaxKeyUpTo(res, j - 1))
MaxKey(res) == MaxKeyUpTo(res, Len(res))

(* true indices, no index twice, and every entry carries the true distance *)
WellFormed(keys, res) ==
    /\ \A j \in 1..Len(res) : res[j].i \in 0..(Len(keys) - 1)
    /\ Cardinality(IdxSet(res)) = Len(res)
    /\ \A j \in 1..Len(res) : res[j].key = keys[res[j].i + 1]

(* no point outside the result is strictly closer than the farthest returned one *)
NoCloserOutside(keys, S, m) == \A i \in (1..Len(keys)) \ S : keys[i] >= m

(***************************************************************************)
(* IsKnn: `res` is a k-nearest set of the data whose keys are `keys`.      *)
(* (S and the maximum are passed as arguments so that TLC computes them    *)
(* once.)                                                                  *)
(***************************************************************************)
IsKnn(keys, k, res) ==
    /\ Len(res) = k
    /\ WellFormed(keys, res)
    /\ NoCloserOutside(keys, IdxSet(res), MaxKey(res))

(***************************************************************************)
(* The same property in the words of the statement: the returned distances *)
(* are, as a multiset, the k smallest of the n distances.  KnnMC.tla       *)
(* checks IsKnn <=> IsKnnDecl on every candidate result over small key     *)
(* vectors; the trace specification uses the cheaper IsKnn.                *)
(***************************************************************************)
RECURSIVE InsertAsc(_, _)
InsertAsc(s, x) ==    \* insert x into the ascending sequence s
    IF s = <<>> THEN <<x>>
    ELSE IF x <= Head(s) THEN <<x>> \o s ELSE <<Head(s)>> \o InsertAsc(Tail(s), x)

RECURSIVE SortAscUpTo(_, _)
SortAscUpTo(s, j) == IF j = 0 THEN <<>> ELSE InsertAsc(SortAscUpTo(s, j - 1), s[j])
SortAsc(s) == SortAscUpTo(s, Len(s))

KeysOf(res) == [j \in 1..Len(res) |-> res[j].key]

IsKnnDecl(keys, k, res) ==
    /\ Len(res) = k
    /\ WellFormed(keys, res)
    /\ SortAsc(KeysOf(res)) = SubSeq(SortAsc(keys), 1, k)

(***************************************************************************)
(* IsRadius: exactly the points with key <= rkey, each once, true keys.    *)
(* rkey is any integer with { key <= rkey } = { distance <= r }.           *)
(***************************************************************************)
IsRadius(keys, rkey, res) ==
    /\ WellFormed(keys, res)
    /\ IdxSet(res) = { i \in 1..Len(keys) : keys[i] <= rkey }

(***************************************************************************)
(* Error table.                                                            *)
(***************************************************************************)
FindMustErr(n, k) == k < 1 \/ k > n
RadiusMustErr(rpos) == ~rpos

(* Non-triviality (measurement only): the k-th distance is tied with a     *)
(* point outside the result, or the query coincides with a data point.     *)
TieAtK(keys, k, m) == Cardinality({ i \in 1..Len(keys) : keys[i] <= m }) > k
QueryInData(keys) == \E i \in 1..Len(keys) : keys[i] = 0

(***************************************************************************)
(* Reference answers, used by the model-checking configurations to show    *)
(* that the predicates are satisfiable by the obvious selection and to     *)
(* enumerate every admissible answer.                                      *)
(***************************************************************************)
AsRes(keys, S) ==      \* the result that lists the positions of S in ascending order
    LET RECURSIVE go(_)
        go(T) == IF T = {} THEN <<>>
                 ELSE LET a == CHOOSE x \in T : \A z \in T : x <= z
                      IN  <<[i |-> a - 1, key |-> keys[a]]>> \o go(T \ {a})
    IN go(S)

(* all k-nearest index sets: everything strictly below the k-th key, plus any
   completion from the points tied at the k-th key *)
(* the k-th smallest key, without sorting (O(k n); SortAsc is quadratic with a large constant
   under TLC): walk up the distinct key values until k positions are covered.  KnnPredMC checks
   NearSets, which is built on it, against the sorted formulation IsKnnDecl. *)
CountLeq(keys, t) == Cardinality({ i \in 1..Len(keys) : keys[i] <= t })
PickMin(v, lo, m) == IF v > lo /\ (m = -1 \/ v < m) THEN v ELSE m
RECURSIVE MinAboveUpTo(_, _, _)
MinAboveUpTo(keys, lo, j) ==      \* least key > lo among the first j positions; -1 if none (linear)
    IF j = 0 THEN -1 ELSE PickMin(keys[j], lo, MinAboveUpTo(keys, lo, j - 1))
MinAbove(keys, lo) == MinAboveUpTo(keys, lo, Len(keys))
RECURSIVE KthFrom(_, _, _)
KthFrom(keys, k, lo) == LET t == MinAbove(keys, lo)
                        IN  IF CountLeq(keys, t) >= k THEN t ELSE KthFrom(keys, k, t)
KthKey(keys, k) == KthFrom(keys, k, -1)
NearSets(keys, k) ==
    LET t    == KthKey(keys, k)
        must == { i \in 1..Len(keys) : keys[i] < t }
        tie  == { i \in 1..Len(keys) : keys[i] = t }
    IN  { must \cup T : T \in { T \in SUBSET tie : Cardinality(T) = k - Cardinality(must) } }
=============================================================================
