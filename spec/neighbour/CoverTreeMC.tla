------------------------------ MODULE CoverTreeMC ------------------------------
(***************************************************************************)
(* C04 — model checking the cover-tree design model (CoverTree.tla).       *)
(*                                                                         *)
(* TLC enumerates every SEQUENCE (the order matters: the first point is    *)
(* the root, the others are popped from the back) of 1..MaxN points of a   *)
(* small lattice under the Manhattan metric, builds the tree with the      *)
(* transcribed batch_insert, and checks in the resulting state             *)
(*   TreeOK    every point is exactly one leaf; nothing is left in the     *)
(*             point set; max_dist of every node is the exact covering     *)
(*             radius of its descendants; children lie within the cover    *)
(*             radius 1.3^level of their parent; the self child is first;  *)
(*   SearchOK  for every lattice query, every k and every radius the       *)
(*             transcribed find / find_radius satisfy Knn!IsKnn /          *)
(*             Knn!IsRadius — i.e. the branch-and-bound pruning            *)
(*             (d <= upper_bound + max_dist) never discards a needed       *)
(*             point, whatever the tie pattern.                            *)
(* One REPLAY line per data sequence carries the model's tree; the harness *)
(* builds the real CoverTree on the same data, dumps it through serde, and *)
(* KnnTrace.tla compares (a difference is MODEL-DRIFT, not a violation).   *)
(***************************************************************************)
EXTENDS Knn, CoverTree, TLC, Json

CONSTANTS MaxN,     \* number of points 1..MaxN (a single point and all-identical points included)
          Side,     \* coordinates 0..Side-1
          Dim,      \* 1 or 2
          QMargin   \* queries range over the lattice widened by QMargin on every side

VARIABLES data, tree, pc
vars == <<data, tree, pc>>

Coord == 0..(Side - 1)
Points == IF Dim = 1 THEN { <<x>> : x \in Coord } ELSE { <<x, y>> : x, y \in Coord }
(* queries: the lattice and a margin around it *)
QCoord == (-QMargin)..(Side - 1 + QMargin)
Queries == IF Dim = 1 THEN { <<x>> : x \in QCoord } ELSE { <<x, y>> : x, y \in QCoord }

Dm(D) == [i \in 1..Len(D) |-> [j \in 1..Len(D) |-> Key("man", 1, D[i], D[j])]]
Dq(D, q) == Keys("man", 1, D, q)

Init == /\ data \in UNION { [1..n -> Points] : n \in 1..MaxN }
        /\ tree = Leaf(0) /\ pc = "new"

(* the build must consume every point: nothing may be left in the point set *)
BuildStep == /\ pc = "new"
             /\ LET b == Build(Dm(data))
                IN  tree' = IF b.ps = <<>> THEN b.node ELSE Leaf(0)
             /\ pc' = "built"
             /\ UNCHANGED data
Next == BuildStep
Spec == Init /\ [][Next]_vars

TreeOK == pc = "built" => TreeInv(Dm(data), tree)

MaxDist == Dim * (Side - 1 + QMargin)
SearchOKFor(dq) ==
    /\ \A k \in 1..Len(data) : IsKnn(dq, k, Find(dq, tree, k))
    /\ \A r \in 1..MaxDist : IsRadius(dq, r, FindRadius(dq, tree, r))
SearchOK == pc = "built" => \A q \in Queries : SearchOKFor(Dq(data, q))

Replay == pc = "built" => PrintT(<<"REPLAY", ToJson([D |-> data, side |-> Side, tree |-> tree])>>)
=============================================================================
