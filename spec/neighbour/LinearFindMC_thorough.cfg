CONSTANTS MaxN = 6  KeyTop = 3
SPECIFICATION Spec
INVARIANT RootIsMax
INVARIANT PrefixSelected
INVARIANT ModelSatisfiesProperty
INVARIANT Replay
CHECK_DEADLOCK FALSE
