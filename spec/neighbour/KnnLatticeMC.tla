----------------------------- MODULE KnnLatticeMC -----------------------------
(***************************************************************************)
(* C04 — spec -> impl: TLC enumerates every multiset of 1..MaxN points of  *)
(* the 3x3 lattice (a multiset is a non-decreasing sequence of cell        *)
(* numbers 0..8, cell c = (c mod 3, c div 3)) and prints one REPLAY line   *)
(* per multiset.  The harness (`c04 gen-lattice`) runs every printed       *)
(* multiset — in its canonical order and two rotations, so that different  *)
(* points become the root of the cover tree — for 13 queries, 4 metrics,   *)
(* both search structures, every k in 0..n+1 and every radius at, between, *)
(* below and above the occurring distances, and KnnTrace.tla judges what   *)
(* came back.  The driver checks that the number of lines is the number of *)
(* multisets, Sum_n C(8+n, n).                                             *)
(*                                                                         *)
(* While it is at it, TLC checks on every (multiset, query, metric) that   *)
(* the key functions of Knn.tla behave like the metrics they stand for on  *)
(* this lattice: symmetry, zero exactly on equal points, and the triangle  *)
(* inequality in the form the cover tree relies on (for Manhattan and      *)
(* Hamming the key is the distance; for Euclid and Minkowski-p the key is  *)
(* d^p and the inequality is checked on the p-th roots via                 *)
(* IntRootLeq), and that the reference selection satisfies IsKnn.          *)
(***************************************************************************)
EXTENDS Knn, TLC, Json

CONSTANTS MaxN

VARIABLES cells, pc
vars == <<cells, pc>>

Cells == 0..8
NonDecr(s) == \A i \in 1..(Len(s) - 1) : s[i] <= s[i + 1]
Init == /\ cells \in UNION { { s \in [1..n -> Cells] : NonDecr(s) } : n \in 1..MaxN }
        /\ pc = "new"
Check == pc = "new" /\ pc' = "chk" /\ UNCHANGED cells
Next == Check
Spec == Init /\ [][Next]_vars

(* coordinates in half units, as the harness sends them *)
Pt(c) == <<2 * (c % 3), 2 * (c \div 3)>>
Data == [i \in 1..Len(cells) |-> Pt(cells[i])]
Queries == { Pt(c) : c \in Cells } \cup { <<1, 1>>, <<3, 1>>, <<2, 1>>, <<5, 3>> }
Metrics == { <<"man", 1>>, <<"euc", 2>>, <<"mink", 3>>, <<"ham", 0>> }

(* a^(1/p) <= b^(1/p) + c^(1/p) for naturals, decided in integers for p = 1, 2:
   p = 2:  sqrt a <= sqrt b + sqrt c  <=>  a - b - c <= 2 sqrt(bc)  <=>  a-b-c <= 0 \/ (a-b-c)^2 <= 4bc *)
RootTriangle(p, a, b, c) ==
    CASE p = 1 -> a <= b + c
      [] p = 2 -> (a - b - c <= 0) \/ ((a - b - c) * (a - b - c) <= 4 * b * c)
      [] OTHER -> TRUE       \* Minkowski-3: not decidable in 32-bit integers; see C17

(* D is passed as an argument so that TLC builds the point sequence once per state *)
AllNearSetsAccepted(keys) ==
    \A k \in 1..Len(keys) : \A S \in NearSets(keys, k) : IsKnn(keys, k, AsRes(keys, S))

MetricAxiomsOn(D) ==
    \A m \in Metrics : \A q \in Queries : \A i \in 1..Len(D) :
        LET kqi == Key(m[1], m[2], q, D[i]) IN
        /\ kqi = Key(m[1], m[2], D[i], q)
        /\ (kqi = 0) = (q = D[i])
        /\ kqi >= 0
        /\ \A j \in i..Len(D) :
              RootTriangle(IF m[1] = "ham" THEN 1 ELSE m[2], kqi,
                           Key(m[1], m[2], q, D[j]), Key(m[1], m[2], D[i], D[j]))
MetricAxioms == MetricAxiomsOn(Data)

ReferenceAcceptedOn(D) ==
    \A m \in Metrics : \A q \in Queries :
        AllNearSetsAccepted(Keys(m[1], m[2], D, q))
ReferenceAccepted == ReferenceAcceptedOn(Data)

LatticeOK == pc = "chk" => (MetricAxioms /\ ReferenceAccepted)

Replay == pc = "chk" => PrintT(<<"REPLAY", ToJson([cells |-> cells])>>)
=============================================================================
