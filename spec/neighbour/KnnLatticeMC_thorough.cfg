CONSTANTS MaxN = 6
SPECIFICATION Spec
INVARIANT LatticeOK
INVARIANT Replay
CHECK_DEADLOCK FALSE
