------------------------------- MODULE CoverTree -------------------------------
(***************************************************************************)
(* C04, part 4 — design model of src/algorithm/neighbour/cover_tree.rs.    *)
(*                                                                         *)
(* A transcription of build_cover_tree / batch_insert / split / dist_split *)
(* / get_scale / get_cover_radius and of find / find_radius as recursive   *)
(* operators over an INTEGER metric, given as a matrix dm[i][j] of         *)
(* distances between data points (1-based positions; the Rust index is     *)
(* position - 1) and a vector dq[i] of distances from the query.           *)
(*                                                                         *)
(* The only real-number facts the code uses are comparisons d <= 1.3^s and *)
(* s = ceil(log_1.3 d).  For naturals d >= 1 and s >= 0 these are decided  *)
(* exactly in integers:  d <= 1.3^s  <=>  d * 10^s <= 13^s, and            *)
(* ceil(log_1.3 d) = the least s >= 0 with d <= 1.3^s.  (13^8 < 2^31, so   *)
(* distances up to 8 are admissible under TLC's 32-bit arithmetic.)        *)
(*                                                                         *)
(* Sequences model the Rust vectors faithfully, including their order:     *)
(* `remove(len-1)` pops at the back, `drain(0..)` iterates from the front. *)
(* A DistanceSet is [idx, dist] with dist the stack of distances to the    *)
(* chain of ancestors (last = distance to the current node's point).       *)
(*                                                                         *)
(* Boundary inputs (both were defects of the original code, repaired in    *)
(* /repo by 02cd5f3 and b27e8d1, and are modelled as repaired):            *)
(*  - build_cover_tree starts max_dist at 0 (it used to start at -1, and   *)
(*    get_scale(-1) took the logarithm of a negative number).  A single    *)
(*    point therefore gives get_scale(0) = i64::MIN, batch_insert returns  *)
(*    a bare leaf, and because the searches descend through children only  *)
(*    the leaf is wrapped: the root of a one-point tree has itself as its  *)
(*    only child.                                                          *)
(*  - for n >= 2 identical points max_scale = i64::MIN and the code        *)
(*    computes max_scale.saturating_sub(1) (a plain `- 1` overflowed);     *)
(*    SatDec below.  The duplicates branch then hangs one leaf per copy    *)
(*    under the root.                                                      *)
(***************************************************************************)
EXTENDS HeapOps, FiniteSets

Last(s) == s[Len(s)]
Front(s) == SubSeq(s, 1, Len(s) - 1)
Rev(s) == [j \in 1..Len(s) |-> s[Len(s) + 1 - j]]
MinI(a, b) == IF a < b THEN a ELSE b

RECURSIVE IPow(_, _)
IPow(b, e) == IF e <= 0 THEN 1 ELSE b * IPow(b, e - 1)

MinScale == -1000                      \* stands for i64::MIN (get_scale(0))
SatDec(s) == IF s = MinScale THEN MinScale ELSE s - 1      \* i64::saturating_sub(1)
MaxScaleAdm == 8
(* d <= base^s  (get_cover_radius(s) = 1.3^s; for s < 0 it is below 1) *)
Within(d, s) == IF d = 0 THEN TRUE
                ELSE IF s < 0 THEN FALSE
                ELSE d * IPow(10, s) <= IPow(13, s)
(* get_scale(d) = ceil(log_1.3 d), i64::MIN for d = 0 *)
RECURSIVE LeastScale(_, _)
LeastScale(d, s) == IF Within(d, s) THEN s ELSE LeastScale(d, s + 1)
GetScale(d) == IF d = 0 THEN MinScale ELSE LeastScale(d, 0)

Leaf(p) == [idx |-> p, maxDist |-> 0, parentDist |-> 0, scale |-> 100, children |-> <<>>]

RECURSIVE MaxLastUpTo(_, _)
MaxLastUpTo(sets, j) ==                  \* self.max(&sets): 0 for the empty list
    IF j = 0 THEN 0
    ELSE LET m == MaxLastUpTo(sets, j - 1) IN IF m < Last(sets[j].dist) THEN Last(sets[j].dist) ELSE m
MaxLast(sets) == MaxLastUpTo(sets, Len(sets))

(* split(point_set, far_set, max_scale): near keeps, far receives, both in order *)
Split(ps, maxScale) ==
    [near |-> SelectSeq(ps, LAMBDA x : Within(Last(x.dist), maxScale)),
     far  |-> SelectSeq(ps, LAMBDA x : ~Within(Last(x.dist), maxScale))]

(* dist_split(point_set, new_point_set, new_point, max_scale):
   elements within the cover radius of the new point move to new_point_set with the
   distance pushed on their stack; the others stay, in order *)
DistSplit(dm, ps, newPs, np, maxScale) ==
    [rest |-> SelectSeq(ps, LAMBDA x : ~Within(dm[np][x.idx], maxScale)),
     new  |-> newPs \o [j \in 1..Len(SelectSeq(ps, LAMBDA x : Within(dm[np][x.idx], maxScale))) |->
                 LET x == SelectSeq(ps, LAMBDA y : Within(dm[np][y.idx], maxScale))[j]
                 IN  [idx |-> x.idx, dist |-> Append(x.dist, dm[np][x.idx])]]]

PopDist(x) == [idx |-> x.idx, dist |-> Front(x.dist)]

(***************************************************************************)
(* batch_insert and its inner `while !point_set.is_empty()` loop.          *)
(* Result: [node, ps, cs] = the node built, and the point_set /            *)
(* consumed_set vectors as the call leaves them.                           *)
(***************************************************************************)
RECURSIVE BatchInsert(_, _, _, _, _, _), ChildLoop(_, _, _, _, _, _, _, _, _)

BatchInsert(dm, p, maxScale, topScale, ps, cs) ==
    IF ps = <<>> THEN [node |-> Leaf(p), ps |-> ps, cs |-> cs]
    ELSE
    LET maxDist   == MaxLast(ps)
        nextScale == MinI(SatDec(maxScale), GetScale(maxDist))
    IN  IF nextScale = MinScale
        THEN \* every remaining point coincides with p: a node with one leaf per copy
             [node |-> [idx |-> p, maxDist |-> 0, parentDist |-> 0, scale |-> 100,
                        children |-> <<Leaf(p)>> \o [j \in 1..Len(ps) |-> Leaf(ps[Len(ps) + 1 - j].idx)]],
              ps |-> <<>>,
              cs |-> cs \o Rev(ps)]
        ELSE
        LET sp == Split(ps, maxScale)
            r1 == BatchInsert(dm, p, nextScale, topScale, sp.near, cs)    \* the self child
        IN  IF r1.ps = <<>>
            THEN [node |-> r1.node, ps |-> sp.far, cs |-> r1.cs]
            ELSE LET lp == ChildLoop(dm, p, maxScale, nextScale, topScale, r1.ps, sp.far, r1.cs, <<r1.node>>)
                 IN  [node |-> [idx |-> p, maxDist |-> MaxLast(lp.cs), parentDist |-> 0,
                                scale |-> topScale - maxScale, children |-> lp.children],
                      ps |-> lp.far,            \* point_set is empty here; then append(far)
                      cs |-> lp.cs]

ChildLoop(dm, p, maxScale, nextScale, topScale, ps, far, cs, children) ==
    IF ps = <<>> THEN [children |-> children, far |-> far, cs |-> cs]
    ELSE
    LET set     == Last(ps)                                \* point_set.remove(len - 1)
        newDist == Last(set.dist)
        s1      == DistSplit(dm, Front(ps), <<>>, set.idx, maxScale)
        s2      == DistSplit(dm, far, s1.new, set.idx, maxScale)
        r       == BatchInsert(dm, set.idx, nextScale, topScale, s2.new, <<>>)
        child   == [r.node EXCEPT !.parentDist = newDist]
        \* what the child did not consume goes back, by its distance to p
        back    == [j \in 1..Len(r.ps) |-> PopDist(r.ps[j])]
        ps2     == s1.rest \o SelectSeq(back, LAMBDA x : Within(Last(x.dist), maxScale))
        far2    == s2.rest \o SelectSeq(back, LAMBDA x : ~Within(Last(x.dist), maxScale))
        cs2     == Append(cs, set) \o [j \in 1..Len(r.cs) |-> PopDist(r.cs[j])]
    IN  ChildLoop(dm, p, maxScale, nextScale, topScale, ps2, far2, cs2, Append(children, child))

(* build_cover_tree: root point = data[0]; everything else starts in point_set *)
N(dm) == Len(dm)
RECURSIVE MaxRowUpTo(_, _)
MaxRowUpTo(row, j) == IF j = 0 THEN 0 ELSE LET m == MaxRowUpTo(row, j - 1) IN IF row[j] > m THEN row[j] ELSE m
(* [node, ps]: the root and what is left in the point set (must be empty) *)
Build(dm) ==
    LET n  == N(dm)
        ps == [j \in 1..(n - 1) |-> [idx |-> j + 1, dist |-> <<dm[1][j + 1]>>]]
        sc == GetScale(MaxRowUpTo(dm[1], n))          \* max_dist starts at 0
        b  == BatchInsert(dm, 1, sc, sc, ps, <<>>)
    IN  [node |-> IF b.node.children = <<>>
                  THEN \* single point: the bare leaf becomes the only child of its own root
                       [idx |-> 1, maxDist |-> 0, parentDist |-> 0, scale |-> 100, children |-> <<b.node>>]
                  ELSE b.node,
         ps |-> b.ps]

(***************************************************************************)
(* Structural facts about a tree (nodes as built above).                   *)
(***************************************************************************)
RECURSIVE Leaves(_)
Leaves(node) ==       \* sequence of the idx of the leaves, left to right
    IF node.children = <<>> THEN <<node.idx>>
    ELSE LET RECURSIVE cat(_)
             cat(j) == IF j = 0 THEN <<>> ELSE cat(j - 1) \o Leaves(node.children[j])
         IN cat(Len(node.children))

SeqToSet(s) == { s[j] : j \in 1..Len(s) }

(* every data point is exactly one leaf *)
LeavesPartition(dm, root) ==
    LET lv == Leaves(root) IN Len(lv) = N(dm) /\ SeqToSet(lv) = 1..N(dm)

RECURSIVE NodeInv(_, _, _)
NodeInv(dm, node, topScale) ==
    \/ node.children = <<>> /\ node.maxDist = 0
    \/ /\ node.children # <<>>
       /\ node.children[1].idx = node.idx                    \* the self child comes first
       \* covering radius: max_dist is exactly the largest distance to a descendant
       /\ LET lv == Leaves(node) IN
            /\ \A j \in 1..Len(lv) : dm[node.idx][lv[j]] <= node.maxDist
            /\ \E j \in 1..Len(lv) : dm[node.idx][lv[j]] = node.maxDist
       /\ \A c \in 2..Len(node.children) :
            /\ node.children[c].parentDist = dm[node.idx][node.children[c].idx]
            \* cover property: a child lies within 1.3^level of its parent
            /\ (node.scale # 100 => Within(node.children[c].parentDist, topScale - node.scale))
       /\ \A c \in 1..Len(node.children) : NodeInv(dm, node.children[c], topScale)

TreeInv(dm, root) ==
    /\ LeavesPartition(dm, root)
    /\ NodeInv(dm, root, GetScale(MaxRowUpTo(dm[1], N(dm))))

(***************************************************************************)
(* find(p, k).  `Big` stands for F::max_value(), the sentinel first added  *)
(* to the heap.  The state threaded through the loops is                   *)
(*   [heap, next, zero]: the selection heap, next_cover_set, zero_set.     *)
(* Elements of the cover sets are <<d, node>>.                             *)
(***************************************************************************)
Big == 1000000

RECURSIVE FindChildren(_, _, _, _, _)
FindChildren(dq, s, par, pd, c) ==      \* children c..last of `par`, whose own distance is pd
    IF c > Len(par.children) THEN s
    ELSE
    LET child == par.children[c]
        d     == IF c = 1 THEN pd ELSE dq[child.idx]
        ub    == Peek(s.heap)
        h1    == IF d <= ub + child.maxDist /\ c > 1 /\ d < ub THEN Add(s.heap, <<d, 0>>) ELSE s.heap
        s1    == IF d <= ub + child.maxDist
                 THEN IF child.children # <<>>
                      THEN [heap |-> h1, next |-> Append(s.next, <<d, child>>), zero |-> s.zero]
                      ELSE IF d <= ub
                           THEN [heap |-> h1, next |-> s.next, zero |-> Append(s.zero, <<d, child>>)]
                           ELSE [heap |-> h1, next |-> s.next, zero |-> s.zero]
                 ELSE s
    IN  FindChildren(dq, s1, par, pd, c + 1)

RECURSIVE FindLevel(_, _, _, _)
FindLevel(dq, s, cover, j) ==
    IF j > Len(cover) THEN s ELSE FindLevel(dq, FindChildren(dq, s, cover[j][2], cover[j][1], 1), cover, j + 1)

RECURSIVE FindDescend(_, _, _)
FindDescend(dq, s, cover) ==
    IF cover = <<>> THEN s
    ELSE LET t == FindLevel(dq, [heap |-> s.heap, next |-> <<>>, zero |-> s.zero], cover, 1)
         IN  FindDescend(dq, t, t.next)

(* stable ascending sort of <<d, node>> pairs by d *)
RECURSIVE InsByD(_, _)
InsByD(s, x) == IF s = <<>> THEN <<x>>
                ELSE IF x[1] < Head(s)[1] THEN <<x>> \o s ELSE <<Head(s)>> \o InsByD(Tail(s), x)
RECURSIVE SortByDUpTo(_, _)
SortByDUpTo(s, j) == IF j = 0 THEN <<>> ELSE InsByD(SortByDUpTo(s, j - 1), s[j])

Find(dq, root, k) ==
    LET d0 == dq[root.idx]
        h0 == Add(Add(New(k), <<Big, 0>>), <<d0, 0>>)
        s  == FindDescend(dq, [heap |-> h0, next |-> <<>>, zero |-> <<>>], << <<d0, root>> >>)
        ub == Peek(s.heap)
        nb == SelectSeq(s.zero, LAMBDA z : z[1] <= ub)
        sorted == IF Len(nb) > k THEN SortByDUpTo(nb, Len(nb)) ELSE nb
        kk == IF Len(sorted) < k THEN Len(sorted) ELSE k
    IN  [j \in 1..kk |-> [i |-> sorted[j][2].idx - 1, key |-> sorted[j][1]]]

(***************************************************************************)
(* find_radius(p, radius), radius a natural number here.                   *)
(***************************************************************************)
RECURSIVE RadChildren(_, _, _, _, _, _)
RadChildren(dq, r, s, par, pd, c) ==
    IF c > Len(par.children) THEN s
    ELSE
    LET child == par.children[c]
        d     == IF c = 1 THEN pd ELSE dq[child.idx]
        s1    == IF d <= r + child.maxDist
                 THEN IF child.children # <<>> THEN [next |-> Append(s.next, <<d, child>>), zero |-> s.zero]
                      ELSE IF d <= r THEN [next |-> s.next, zero |-> Append(s.zero, <<d, child>>)]
                      ELSE s
                 ELSE s
    IN  RadChildren(dq, r, s1, par, pd, c + 1)

RECURSIVE RadLevel(_, _, _, _, _)
RadLevel(dq, r, s, cover, j) ==
    IF j > Len(cover) THEN s ELSE RadLevel(dq, r, RadChildren(dq, r, s, cover[j][2], cover[j][1], 1), cover, j + 1)

RECURSIVE RadDescend(_, _, _, _)
RadDescend(dq, r, s, cover) ==
    IF cover = <<>> THEN s
    ELSE LET t == RadLevel(dq, r, [next |-> <<>>, zero |-> s.zero], cover, 1)
         IN  RadDescend(dq, r, t, t.next)

FindRadius(dq, root, r) ==
    LET s == RadDescend(dq, r, [next |-> <<>>, zero |-> <<>>], << <<dq[root.idx], root>> >>)
    IN  [j \in 1..Len(s.zero) |-> [i |-> s.zero[j][2].idx - 1, key |-> s.zero[j][1]]]
=============================================================================
