CONSTANTS MaxK = 5  Vals = {0, 1, 2, 3}  Inf = 9  MaxOps = 10
SPECIFICATION Spec
VIEW View
INVARIANT ContractInv
INVARIANT Replay
CHECK_DEADLOCK FALSE
