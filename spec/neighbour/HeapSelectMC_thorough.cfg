CONSTANTS MaxK = 4  Vals = {0, 1, 2, 3}  Inf = 9  MaxOps = 8
SPECIFICATION Spec
VIEW View
INVARIANT ContractInv
INVARIANT Replay
CHECK_DEADLOCK FALSE
