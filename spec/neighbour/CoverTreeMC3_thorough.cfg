CONSTANTS MaxN = 3  Side = 3  Dim = 2  QMargin = 1
SPECIFICATION Spec
INVARIANT TreeOK
INVARIANT SearchOK
INVARIANT Replay
CHECK_DEADLOCK FALSE
