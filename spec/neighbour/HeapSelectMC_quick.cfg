CONSTANTS MaxK = 3  Vals = {0, 1, 2}  Inf = 9  MaxOps = 6
SPECIFICATION Spec
VIEW View
INVARIANT ContractInv
INVARIANT Replay
CHECK_DEADLOCK FALSE
