CONSTANTS MaxN = 4  KeyTop = 3
SPECIFICATION Spec
INVARIANT PredicatesSound
CHECK_DEADLOCK FALSE
