------------------------------ MODULE LinearFind ------------------------------
(***************************************************************************)
(* C04 — design model of LinearKNNSearch::find                             *)
(* (src/algorithm/neighbour/linear_search.rs), one action per loop body:   *)
(*                                                                         *)
(*   heap = HeapSelection::with_capacity(k)                                *)
(*   Fill : k times  heap.add(KNNPoint{distance: +inf, index: None})       *)
(*   Scan : for i in 0..n { d = distance(from, data[i]);                   *)
(*            datum = heap.peek_mut();                                     *)
(*            if d < datum.distance { *datum = (d, Some(i)); heapify() } } *)
(*   Done : heap.get() with the remaining sentinels dropped                *)
(*                                                                         *)
(* The input is the key vector (distance of every data point from the      *)
(* query, in data order); the heap is the array machine of HeapOps with    *)
(* elements <<d, tag>>, tag = index or -1 for a sentinel.  TLC enumerates  *)
(* every key vector in [1..n -> 0..KeyTop], n <= MaxN, and every k.        *)
(*                                                                         *)
(* Invariants: the root is the maximum at every step of the scan (what     *)
(* peek_mut relies on), the heap holds the k smallest of the prefix        *)
(* scanned so far, and the final answer satisfies Knn!IsKnn.               *)
(* One REPLAY line per behaviour gives the order in which the model        *)
(* returns the indices; the harness runs the real find on 1-D data         *)
(* realising the key vector (a different order is MODEL-DRIFT).            *)
(***************************************************************************)
EXTENDS Knn, HeapOps, TLC, Json

CONSTANTS MaxN, KeyTop
Inf == 1000000

VARIABLES keys, k, st, i, pc
vars == <<keys, k, st, i, pc>>

Init == /\ keys \in UNION { [1..n -> 0..KeyTop] : n \in 1..MaxN }
        /\ k \in 1..MaxN /\ k <= Len(keys)
        /\ st = New(k) /\ i = 0 /\ pc = "fill"

Fill == /\ pc = "fill"
        /\ IF st.n < k
           THEN st' = Add(st, <<Inf, -1>>) /\ UNCHANGED pc
           ELSE pc' = "scan" /\ UNCHANGED st
        /\ UNCHANGED <<keys, k, i>>

ScanReplace == /\ pc = "scan" /\ i < Len(keys)
               /\ keys[i + 1] < Dv(st.heap[1])
               /\ st' = Heapify(SetRoot(st, <<keys[i + 1], i>>))
               /\ i' = i + 1
               /\ UNCHANGED <<keys, k, pc>>

ScanSkip == /\ pc = "scan" /\ i < Len(keys)
            /\ ~(keys[i + 1] < Dv(st.heap[1]))
            /\ i' = i + 1
            /\ UNCHANGED <<keys, k, st, pc>>

Finish == /\ pc = "scan" /\ i = Len(keys)
          /\ pc' = "done"
          /\ UNCHANGED <<keys, k, st, i>>

Next == Fill \/ ScanReplace \/ ScanSkip \/ Finish
Spec == Init /\ [][Next]_vars

(* heap.get().flat_map(index.map(..)): sentinels dropped, array order kept *)
Result == LET real == SelectSeq(st.heap, LAMBDA x : x[2] >= 0)
          IN  [j \in 1..Len(real) |-> [i |-> real[j][2], key |-> real[j][1]]]

RootIsMax == pc = "scan" => (Dv(st.heap[1]) = MaxD(st.heap) /\ HeapOrdered(st.heap))

PrefixSelected == pc = "scan" =>
    Retained(k, Asc([j \in 1..(k + i) |-> IF j <= k THEN Inf ELSE keys[j - k]]), Ds(st.heap))

ModelSatisfiesProperty == pc = "done" => IsKnn(keys, k, Result)

Replay == pc = "done" =>
    PrintT(<<"REPLAY", ToJson([keys |-> keys, k |-> k, order |-> [j \in 1..Len(Result) |-> Result[j].i]])>>)
=============================================================================
