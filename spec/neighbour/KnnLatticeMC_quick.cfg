CONSTANTS MaxN = 3
SPECIFICATION Spec
INVARIANT LatticeOK
INVARIANT Replay
CHECK_DEADLOCK FALSE
