CONSTANTS MaxN = 4
SPECIFICATION Spec
INVARIANT LatticeOK
INVARIANT Replay
CHECK_DEADLOCK FALSE
