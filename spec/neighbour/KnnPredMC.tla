------------------------------ MODULE KnnPredMC ------------------------------
(***************************************************************************)
(* C04 — model-checking the property predicates themselves.                *)
(*                                                                         *)
(* IsKnn / IsRadius are what every recorded result of the real code is     *)
(* judged by, so a predicate that is too weak (accepts a wrong result) or  *)
(* too strong (rejects an admissible tie-break) would silently void or     *)
(* falsify the whole check.  Here TLC enumerates EVERY key vector          *)
(* keys \in [1..n -> 0..KeyTop], n <= MaxN (the geometry is irrelevant:    *)
(* the predicates see the data only through the keys), and for each        *)
(*  - every candidate index set S and every k:                             *)
(*        IsKnn(S)  <=>  IsKnnDecl(S)  <=>  S \in NearSets(keys, k)        *)
(*    (operational, declarative-as-in-the-statement, and constructive      *)
(*    formulation agree; in particular every tie-break is accepted);       *)
(*  - the order of the entries is irrelevant;                              *)
(*  - systematically corrupted results are rejected: a wrong distance, a   *)
(*    repeated index, an index out of range, a missing / an extra entry;   *)
(*  - IsRadius(S) <=> S = { i : keys[i] <= rkey } for every rkey.          *)
(***************************************************************************)
EXTENDS Knn, TLC

CONSTANTS MaxN, KeyTop

VARIABLES keys, pc      \* pc: "new" -> "chk"; the predicates are evaluated in the second state
                        \* so that TLC's worker threads (not the sequential computation of
                        \* the initial states) carry the work
Init == keys \in UNION { [1..n -> 0..KeyTop] : n \in 1..MaxN } /\ pc = "new"
Check == pc = "new" /\ pc' = "chk" /\ UNCHANGED keys
Next == Check
Spec == Init /\ [][Next]_<<keys, pc>>

N == Len(keys)
Rev(s) == [j \in 1..Len(s) |-> s[Len(s) + 1 - j]]

KnnAgree ==
    \A k \in 1..N : \A S \in SUBSET (1..N) :
        LET res == AsRes(keys, S)
            a == IsKnn(keys, k, res)
        IN  /\ a = IsKnnDecl(keys, k, res)
            /\ a = (S \in NearSets(keys, k))
            /\ a = IsKnn(keys, k, Rev(res))

Satisfiable == \A k \in 1..N : NearSets(keys, k) # {}

(* corruptions of a correct answer *)
WrongKey(res)   == [res EXCEPT ![1].key = @ + 1]
RepeatIdx(res)  == [res EXCEPT ![1] = res[2]]
BadIdx(res)     == [res EXCEPT ![1].i = N]
Dropped(res)    == Tail(res)
Extra(res)      == Append(res, res[1])

Rejects(k, res) == ~IsKnn(keys, k, res) /\ ~IsKnnDecl(keys, k, res)

CorruptionsRejected ==
    \A k \in 1..N : \A S \in NearSets(keys, k) :
        LET res == AsRes(keys, S)
        IN  /\ Rejects(k, WrongKey(res))
            /\ (k >= 2 => Rejects(k, RepeatIdx(res)))
            /\ Rejects(k, BadIdx(res))
            /\ Rejects(k, Dropped(res))
            /\ Rejects(k, Extra(res))
            \* swapping a returned point for a strictly farther outside point is rejected
            /\ \A i \in S : \A o \in (1..N) \ S :
                  keys[o] > keys[i] => Rejects(k, AsRes(keys, (S \ {i}) \cup {o}))

RadiusAgree ==
    \A rkey \in (-1)..KeyTop : \A S \in SUBSET (1..N) :
        LET res == AsRes(keys, S)
        IN  /\ IsRadius(keys, rkey, res) = (S = { i \in 1..N : keys[i] <= rkey })
            /\ (S # {} => ~IsRadius(keys, rkey, WrongKey(res)))
            /\ (S # {} => ~IsRadius(keys, rkey, Extra(res)))

(* the measurement operator agrees with its definition *)
TieDef ==
    \A k \in 1..N : \A S \in NearSets(keys, k) :
        TieAtK(keys, k, MaxKey(AsRes(keys, S))) = (Cardinality(NearSets(keys, k)) > 1)

PredicatesSound == pc = "chk" => KnnAgree /\ Satisfiable /\ CorruptionsRejected /\ RadiusAgree /\ TieDef
=============================================================================
