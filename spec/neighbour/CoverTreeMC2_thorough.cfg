CONSTANTS MaxN = 4  Side = 3  Dim = 2  QMargin = 0
SPECIFICATION Spec
INVARIANT TreeOK
INVARIANT SearchOK
INVARIANT Replay
CHECK_DEADLOCK FALSE
