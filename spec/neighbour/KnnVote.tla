------------------------------- MODULE KnnVote -------------------------------
(***************************************************************************)
(* C04, part 3 — what KNNClassifier / KNNRegressor must predict.           *)
(*                                                                         *)
(* Statement: "The k-NN classifier and regressor predict, for every query  *)
(* row, the uniform or inverse-distance weighted plurality class or        *)
(* weighted mean over such a k-nearest set (an exact-match neighbour       *)
(* taking all the weight under distance weighting), whichever search       *)
(* structure is configured."                                               *)
(*                                                                         *)
(* "Such a k-nearest set": any S in NearSets(keys, k) — with ties at the   *)
(* k-th distance several sets are admissible and the prediction may come   *)
(* from any of them; a plurality tie admits every class of maximal weight. *)
(*                                                                         *)
(* Weights are exact rationals made integral: with distance weighting the  *)
(* key must be proportional to the distance itself (Manhattan: key = u*d,  *)
(* Hamming: key = len*d; the constant factor cancels in a plurality and in *)
(* a weighted mean), and  w_i = L / key_i  with L a common multiple of the *)
(* non-zero keys.  If some neighbour in S has key 0 the zero-distance      *)
(* neighbours share all the weight equally.                                *)
(***************************************************************************)
EXTENDS Knn

RECURSIVE Gcd(_, _)
Gcd(a, b) == IF b = 0 THEN a ELSE Gcd(b, a % b)
Lcm(a, b) == (a \div Gcd(a, b)) * b

RECURSIVE LcmUpTo(_, _)
LcmUpTo(keys, j) == IF j = 0 THEN 1
                    ELSE IF keys[j] = 0 THEN LcmUpTo(keys, j - 1) ELSE Lcm(keys[j], LcmUpTo(keys, j - 1))
(* common multiple of the non-zero keys that can occur in a k-nearest set (those not beyond
   the k-th key): keeps the integer weights small whatever the size of the training set *)
CommonMultiple(keys, k) ==
    LET t == KthKey(keys, k)
    IN  LcmUpTo([i \in 1..Len(keys) |-> IF keys[i] <= t THEN keys[i] ELSE 0], Len(keys))

(* integer weight of training row i within the neighbour set S *)
Weight(weight, keys, S, L, i) ==
    IF weight = "uniform" THEN 1
    ELSE IF \E j \in S : keys[j] = 0 THEN (IF keys[i] = 0 THEN 1 ELSE 0)
    ELSE L \div keys[i]

RECURSIVE SumOver(_, _, _, _, _, _)   \* Sum over S of  w_i * val_i   (val == 1 gives the total weight)
SumOver(weight, keys, S0, L, vals, T) ==
    IF T = {} THEN 0
    ELSE LET i == CHOOSE x \in T : TRUE
         IN  Weight(weight, keys, S0, L, i) * vals[i] + SumOver(weight, keys, S0, L, vals, T \ {i})

Ones(n) == [i \in 1..n |-> 1]

(***************************************************************************)
(* Classifier: the predicted label is a class of maximal total weight      *)
(* over some admissible neighbour set.                                     *)
(***************************************************************************)
ClassWeight(weight, keys, S, L, y, c) ==
    SumOver(weight, keys, S, L, Ones(Len(keys)), { i \in S : y[i] = c })

IsPluralityOver(weight, keys, S, L, y, out) ==
    /\ \E i \in S : y[i] = out
    /\ LET w == ClassWeight(weight, keys, S, L, y, out)
       IN  \A c \in { y[i] : i \in S } : ClassWeight(weight, keys, S, L, y, c) <= w

WeightBase(weight, keys, k) == IF weight = "uniform" THEN 1 ELSE CommonMultiple(keys, k)

PredClassOKL(weight, keys, y, k, out, L) ==      \* L is passed in so that TLC computes it once
    \E S \in NearSets(keys, k) : IsPluralityOver(weight, keys, S, L, y, out)
PredClassOK(weight, keys, y, k, out) == PredClassOKL(weight, keys, y, k, out, WeightBase(weight, keys, k))

(***************************************************************************)
(* Regressor: the prediction, observed as the fixed-point integer          *)
(* out = round(v * 2^FxS), is the weighted mean num/den over some          *)
(* admissible neighbour set, within half a unit of quantisation plus half  *)
(* a unit of slack:   | out * den - num * 2^FxS | <= den.                  *)
(***************************************************************************)
FxS == 1024

IsMeanOver(weight, keys, S, L, y, out) ==
    LET num == SumOver(weight, keys, S, L, y, S)
        den == SumOver(weight, keys, S, L, Ones(Len(keys)), S)
    IN  Abs(out * den - num * FxS) <= den

PredRegOKL(weight, keys, y, k, out, L) ==
    \E S \in NearSets(keys, k) : IsMeanOver(weight, keys, S, L, y, out)
PredRegOK(weight, keys, y, k, out) == PredRegOKL(weight, keys, y, k, out, WeightBase(weight, keys, k))

(* 32-bit guard: the largest intermediate is  k * L * max|y| * FxS *)
MaxAbs(y) == LET RECURSIVE go(_)
                 go(j) == IF j = 0 THEN 0 ELSE Max2(Abs(y[j]), go(j - 1))
             IN go(Len(y))
Fits(weight, keys, y, k) ==
    LET L == WeightBase(weight, keys, k)
    IN  L <= 2520 /\ k * L * (MaxAbs(y) + 1) <= 2000000

(***************************************************************************)
(* Error table of the estimators.  "k = 0, k > n ... are reported as       *)
(* errors": k = 0 must be refused by fit (or by predict) with an Err;      *)
(* k > n is refused at predict (fit cannot know the query, but it may also *)
(* refuse).  The classifier's minimum is k = 2 ("k = 1 (regressor) or      *)
(* k = 2 (classifier)"): the statement is silent on a classifier with      *)
(* k = 1, which is therefore unconstrained.                                *)
(***************************************************************************)
EstMustErr(n, k) == k < 1 \/ k > n
EstUnconstrained(kind, k) == kind = "cls" /\ k = 1
=============================================================================
