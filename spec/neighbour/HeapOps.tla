------------------------------- MODULE HeapOps -------------------------------
(***************************************************************************)
(* C04, part 2a — the bounded selection heap of                            *)
(* src/algorithm/sort/heap_select.rs as pure operators on arrays           *)
(* (constant module, no variables; HeapSelect.tla wraps it in a state      *)
(* machine, LinearFind.tla and CoverTree.tla use it as a component, and    *)
(* KnnTrace.tla replays recorded operation sequences through it).          *)
(*                                                                         *)
(* An element is a pair <<d, tag>>: the heap orders by d only (KNNPoint    *)
(* compares distances only; plain numbers carry tag 0).  The Rust array    *)
(* a[0..] is the sequence h with a[i] = h[i+1].                            *)
(*                                                                         *)
(* The state of a HeapSelection is the record [k, n, sorted, heap].        *)
(***************************************************************************)
EXTENDS Integers, Sequences

Dv(x) == x[1]
At(h, i) == h[i + 1]
Swap(h, i, j) == [h EXCEPT ![i + 1] = h[j + 1], ![j + 1] = h[i + 1]]

New(k) == [k |-> k, n |-> 0, sorted |-> FALSE, heap |-> <<>>]

(***************************************************************************)
(* sift_down(k, n): the code's child indexing is 2k and 2k+1 on a 0-based  *)
(* array, so the root's only proper child is a[1] (2*0 = 0 is the root     *)
(* itself, and the comparison of a[0] with itself breaks the loop), the    *)
(* children of a[i] are a[2i], a[2i+1] for i >= 1.  This is a legitimate   *)
(* heap shape: parent(1) = 0, parent(j) = j div 2 for j >= 2.              *)
(***************************************************************************)
RECURSIVE SiftDown(_, _, _)
SiftDown(h, kk, n) ==
    IF 2 * kk <= n
    THEN LET j0 == 2 * kk
             j  == IF j0 < n /\ Dv(At(h, j0)) < Dv(At(h, j0 + 1)) THEN j0 + 1 ELSE j0
         IN  IF Dv(At(h, kk)) >= Dv(At(h, j)) THEN h
             ELSE SiftDown(Swap(h, kk, j), j, n)
    ELSE h

Parent(j) == IF j = 1 THEN 0 ELSE j \div 2
HeapOrdered(h) == \A j \in 1..(Len(h) - 1) : Dv(At(h, Parent(j))) >= Dv(At(h, j))

(* sort(): stable, descending by d  (Vec::sort_by(|a, b| b.partial_cmp(a))) *)
RECURSIVE InsertDesc(_, _)
InsertDesc(s, x) ==   \* x goes after every element with d >= Dv(x): stability
    IF s = <<>> THEN <<x>>
    ELSE IF Dv(Head(s)) >= Dv(x) THEN <<Head(s)>> \o InsertDesc(Tail(s), x) ELSE <<x>> \o s
RECURSIVE SortDescUpTo(_, _)
SortDescUpTo(s, j) == IF j = 0 THEN <<>> ELSE InsertDesc(SortDescUpTo(s, j - 1), s[j])
SortDesc(s) == SortDescUpTo(s, Len(s))

(***************************************************************************)
(* add(element): three branches.                                           *)
(*   fill          n < k : push; when the k-th element arrives, sort       *)
(*   replace-root  n >= k, element < a[0] : overwrite the root, sift down  *)
(*   skip          n >= k, element >= a[0]                                 *)
(***************************************************************************)
AddBranch(st, x) == IF st.n < st.k THEN (IF st.n + 1 = st.k THEN "fill-sort" ELSE "fill")
                    ELSE IF Dv(x) < Dv(st.heap[1]) THEN "replace" ELSE "skip"

Add(st, x) ==
    IF st.n < st.k
    THEN IF st.n + 1 = st.k
         THEN [st EXCEPT !.heap = SortDesc(Append(st.heap, x)), !.n = st.n + 1, !.sorted = TRUE]
         ELSE [st EXCEPT !.heap = Append(st.heap, x), !.n = st.n + 1, !.sorted = FALSE]
    ELSE IF Dv(x) < Dv(st.heap[1])
         THEN [st EXCEPT !.heap = SiftDown([st.heap EXCEPT ![1] = x], 0, st.k - 1),
                         !.n = st.n + 1, !.sorted = FALSE]
         ELSE [st EXCEPT !.n = st.n + 1, !.sorted = FALSE]

(* heapify(): for i in (0 ..= n/2 - 1).rev() { sift_down(i, n - 1) }; leaves `sorted` alone *)
RECURSIVE HeapifyFrom(_, _, _)
HeapifyFrom(h, i, n) == IF i < 0 THEN h ELSE HeapifyFrom(SiftDown(h, i, n - 1), i - 1, n)
Heapify(st) == IF Len(st.heap) <= 1 THEN st
               ELSE [st EXCEPT !.heap = HeapifyFrom(st.heap, (Len(st.heap) \div 2) - 1, Len(st.heap))]

(* *peek_mut() = element *)
SetRoot(st, x) == [st EXCEPT !.heap = [st.heap EXCEPT ![1] = x]]

(* peek(): a[0] if `sorted`, else a linear scan for the maximum *)
RECURSIVE MaxDUpTo(_, _)
MaxDUpTo(h, j) == IF j = 1 THEN Dv(h[1])
                  ELSE LET m == MaxDUpTo(h, j - 1) IN IF Dv(h[j]) > m THEN Dv(h[j]) ELSE m
MaxD(h) == MaxDUpTo(h, Len(h))
Peek(st) == IF st.sorted THEN Dv(st.heap[1]) ELSE MaxD(st.heap)

(***************************************************************************)
(* Contract, stated on plain sequences of d-values (so that the trace      *)
(* specification can evaluate it on arrays recorded from the real heap).   *)
(*   inserted : every value offered so far (add or replace-root)           *)
(*   arr      : the d-values of the array                                  *)
(*   Retained : arr is, as a multiset, the min(k, #inserted) smallest      *)
(*   PeekMax  : peek() is the largest retained value                       *)
(***************************************************************************)
RECURSIVE InsAsc(_, _)
InsAsc(s, x) == IF s = <<>> THEN <<x>>
                ELSE IF x <= Head(s) THEN <<x>> \o s ELSE <<Head(s)>> \o InsAsc(Tail(s), x)
RECURSIVE AscUpTo(_, _)
AscUpTo(s, j) == IF j = 0 THEN <<>> ELSE InsAsc(AscUpTo(s, j - 1), s[j])
Asc(s) == AscUpTo(s, Len(s))

Ds(h) == [i \in 1..Len(h) |-> Dv(h[i])]
Prefix(s, m) == SubSeq(s, 1, IF m < Len(s) THEN m ELSE Len(s))

Retained(k, insertedAsc, arr) == Asc(arr) = Prefix(insertedAsc, k)
RECURSIVE MaxUpTo(_, _)
MaxUpTo(s, j) == IF j = 1 THEN s[1] ELSE LET m == MaxUpTo(s, j - 1) IN IF s[j] > m THEN s[j] ELSE m
PeekMax(arr, pk) == arr # <<>> /\ pk = MaxUpTo(arr, Len(arr))
=============================================================================
