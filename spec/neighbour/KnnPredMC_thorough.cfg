CONSTANTS MaxN = 6  KeyTop = 4
SPECIFICATION Spec
INVARIANT PredicatesSound
CHECK_DEADLOCK FALSE
