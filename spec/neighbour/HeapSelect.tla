------------------------------ MODULE HeapSelect ------------------------------
(***************************************************************************)
(* C04, part 2b — array-level state machine of HeapSelection and its       *)
(* contract, model-checked exhaustively for small capacities / values.     *)
(*                                                                         *)
(* The library uses the heap under two disciplines, and the machine allows *)
(* exactly their union:                                                    *)
(*  U1 (CoverTree::find): add*, with peek() between adds.                  *)
(*  U2 (LinearKNNSearch::find): k sentinel adds (+infinity), then          *)
(*     repeatedly: read the root through peek_mut(); if the new value is   *)
(*     smaller, overwrite the root and call heapify().                     *)
(* Hence: SetRoot is enabled only on a full heap with a value smaller than *)
(* the root, and is always followed by Heapify (`dirty`).  Outside these   *)
(* disciplines the code does NOT maintain the contract — heapify() starts  *)
(* at index n/2-1 although the children of a[i] are a[2i], a[2i+1], so it  *)
(* repairs a heap whose root alone is out of place but does not build a    *)
(* heap from an arbitrary array (e.g. [1,2,3] -> [2,3,1]); the invariant   *)
(* RootOnlyRepair documents precisely what is relied upon.                 *)
(*                                                                         *)
(* Contract (invariants below):                                            *)
(*  RetainedInv : the array holds, as a multiset, the min(k, #offered)     *)
(*                smallest values offered so far;                          *)
(*  PeekInv     : peek() is the largest retained value (also in the        *)
(*                `sorted` fast path, where it reads a[0]);                *)
(*  RootMaxInv  : on a full, clean heap a[0] is the maximum (what U2 reads *)
(*                through peek_mut) and the array is heap-ordered.         *)
(***************************************************************************)
EXTENDS HeapOps, TLC, Json

CONSTANTS MaxK,      \* capacities 1..MaxK
          Vals,      \* finite set of integers offered to the heap
          Inf,       \* the sentinel, larger than every element of Vals
          MaxOps     \* bound on the number of operations

VARIABLES st,        \* [k, n, sorted, heap] as in HeapOps
          offered,   \* ascending sequence of every value offered (bag)
          dirty,     \* root overwritten, heapify pending
          nops,
          hist       \* operation history <<op, arg>> (1 add, 2 set_root, 3 heapify): replay only
vars == <<st, offered, dirty, nops, hist>>

AllVals == Vals \cup {Inf}

Init == /\ st \in { New(k) : k \in 1..MaxK }
        /\ offered = <<>> /\ dirty = FALSE /\ nops = 0 /\ hist = <<>>

DoAdd(v) ==
    /\ ~dirty /\ nops < MaxOps
    /\ st' = Add(st, <<v, 0>>)
    /\ offered' = InsAsc(offered, v)
    /\ nops' = nops + 1 /\ hist' = Append(hist, <<1, v>>)
    /\ UNCHANGED dirty

AddFill     == \E v \in AllVals : AddBranch(st, <<v, 0>>) \in {"fill", "fill-sort"} /\ DoAdd(v)
AddReplace  == \E v \in AllVals : AddBranch(st, <<v, 0>>) = "replace" /\ DoAdd(v)
AddSkip     == \E v \in AllVals : AddBranch(st, <<v, 0>>) = "skip" /\ DoAdd(v)

(* U2: overwrite the root with a smaller value *)
ReplaceRoot ==
    /\ ~dirty /\ nops + 1 < MaxOps
    /\ st.n >= st.k
    /\ \E v \in AllVals :
          /\ v < Dv(st.heap[1])
          /\ st' = SetRoot(st, <<v, 0>>)
          /\ offered' = InsAsc(offered, v)
          /\ hist' = Append(hist, <<2, v>>)
    /\ dirty' = TRUE /\ nops' = nops + 1

DoHeapify ==
    /\ dirty
    /\ st' = Heapify(st)
    /\ dirty' = FALSE /\ nops' = nops + 1 /\ hist' = Append(hist, <<3, 0>>)
    /\ UNCHANGED offered

Next == AddFill \/ AddReplace \/ AddSkip \/ ReplaceRoot \/ DoHeapify
Spec == Init /\ [][Next]_vars

(***************************************************************************)
(* Invariants.                                                             *)
(***************************************************************************)
TypeOK == /\ st.k \in 1..MaxK /\ st.n \in 0..MaxOps
          /\ Len(st.heap) = (IF st.n < st.k THEN st.n ELSE st.k)

(* while dirty the old root has been dropped and the new value is in place *)
RetainedInv == Retained(st.k, offered, Ds(st.heap))

PeekInv == (~dirty /\ st.n > 0) => PeekMax(Ds(st.heap), Peek(st))

RootMaxInv == (~dirty /\ st.n >= st.k) =>
                 /\ Dv(st.heap[1]) = MaxD(st.heap)
                 /\ HeapOrdered(st.heap)

(* what heapify is relied upon for: every position except the root is in order *)
RootOnlyRepair == (dirty /\ st.n >= st.k) =>
                     \A j \in 2..(Len(st.heap) - 1) : Dv(At(st.heap, Parent(j))) >= Dv(At(st.heap, j))

ContractInv == TypeOK /\ RetainedInv /\ PeekInv /\ RootMaxInv /\ RootOnlyRepair

(***************************************************************************)
(* spec -> impl: one line per reachable state (the history is hidden from  *)
(* the fingerprint by VIEW, so TLC keeps the first history that reaches a  *)
(* state); the harness replays `ops` on the real heap and the trace        *)
(* specification compares the array after the last operation with `heap`.  *)
(***************************************************************************)
View == <<st, offered, dirty, nops>>
Replay == nops > 0 =>
            PrintT(<<"REPLAY", ToJson([k |-> st.k, ops |-> hist, heap |-> Ds(st.heap)])>>)
=============================================================================
