------------------------------ MODULE Rational ------------------------------
(***************************************************************************)
(* Exact rational arithmetic for the design models of the numerical        *)
(* kernels, extended with the three IEEE-754 special values so that a      *)
(* model can follow a floating-point algorithm through a division by zero. *)
(*                                                                         *)
(* A value is either a rational <<"q", num, den>> in lowest terms with     *)
(* den > 0, or one of <<"inf", 1, 0>>, <<"inf", -1, 0>>, <<"nan", 0, 0>>.  *)
(* All values are 3-tuples of the same shape, so TLC can compare any two   *)
(* of them with "=".  The arithmetic follows IEEE-754:                      *)
(*    x / 0 = +-inf (x # 0),  0 / 0 = nan,  inf - inf = nan,  0 * inf = nan,*)
(*    every comparison with nan is FALSE.                                  *)
(* Magnitudes: numerators and denominators must stay below 2^15 or so for  *)
(* the products below to fit TLC's 32-bit integers; the models that use    *)
(* this module range over 2x2 / 3x3 matrices with entries of magnitude     *)
(* <= 3, whose minors are far below that.                                  *)
(***************************************************************************)
EXTENDS Integers

RAbs(x) == IF x < 0 THEN -x ELSE x
RECURSIVE Gcd(_, _)
Gcd(a, b) == IF b = 0 THEN a ELSE Gcd(b, a % b)

Nan == <<"nan", 0, 0>>
PInf == <<"inf", 1, 0>>
NInf == <<"inf", -1, 0>>
Inf(s) == IF s > 0 THEN PInf ELSE NInf

(* the rational n/d, d # 0, normalised *)
Q(n, d) == LET g == Gcd(RAbs(n), RAbs(d))
               s == IF d < 0 THEN -1 ELSE 1
           IN  <<"q", s * (n \div g), RAbs(d) \div g>>
OfInt(n) == <<"q", n, 1>>
Zero == OfInt(0)
One == OfInt(1)

IsQ(x) == x[1] = "q"
IsNan(x) == x[1] = "nan"
IsInf(x) == x[1] = "inf"
IsFinite(x) == IsQ(x)
Sign(x) == IF IsNan(x) THEN 0 ELSE IF x[2] > 0 THEN 1 ELSE IF x[2] < 0 THEN -1 ELSE 0
IsZero(x) == IsQ(x) /\ x[2] = 0

Neg(x) == IF IsNan(x) THEN Nan ELSE <<x[1], -x[2], x[3]>>

Add(x, y) ==
    IF IsNan(x) \/ IsNan(y) THEN Nan
    ELSE IF IsInf(x) /\ IsInf(y) THEN (IF x[2] = y[2] THEN x ELSE Nan)
    ELSE IF IsInf(x) THEN x
    ELSE IF IsInf(y) THEN y
    ELSE Q(x[2] * y[3] + y[2] * x[3], x[3] * y[3])
Sub(x, y) == Add(x, Neg(y))

Mul(x, y) ==
    IF IsNan(x) \/ IsNan(y) THEN Nan
    ELSE IF IsInf(x) \/ IsInf(y)
         THEN (IF Sign(x) = 0 \/ Sign(y) = 0 THEN Nan ELSE Inf(Sign(x) * Sign(y)))
    ELSE Q(x[2] * y[2], x[3] * y[3])

Div(x, y) ==
    IF IsNan(x) \/ IsNan(y) THEN Nan
    ELSE IF IsInf(x) THEN (IF IsInf(y) THEN Nan ELSE Inf(Sign(x) * (IF Sign(y) < 0 THEN -1 ELSE 1)))
    ELSE IF IsInf(y) THEN Zero
    ELSE IF y[2] = 0 THEN (IF x[2] = 0 THEN Nan ELSE Inf(Sign(x)))     \* x/0 (the sign of zero is taken as +)
    ELSE Q(x[2] * y[3], x[3] * y[2])

(* IEEE comparison: FALSE as soon as a nan is involved *)
Lt(x, y) ==
    IF IsNan(x) \/ IsNan(y) THEN FALSE
    ELSE IF IsInf(x) THEN (x[2] < 0 /\ ~(IsInf(y) /\ y[2] < 0))
    ELSE IF IsInf(y) THEN y[2] > 0
    ELSE x[2] * y[3] < y[2] * x[3]
Gt(x, y) == Lt(y, x)
AbsR(x) == IF Sign(x) < 0 THEN Neg(x) ELSE x

(* round(x * 2^S), half away from zero, for a finite rational; p = 2^S *)
RoundScaled(x, p) ==
    LET n == RAbs(x[2]) * p
        q == (2 * n + x[3]) \div (2 * x[3])
    IN  IF x[2] < 0 THEN -q ELSE q
=============================================================================
