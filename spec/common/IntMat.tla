------------------------------- MODULE IntMat -------------------------------
(***************************************************************************)
(* Integer matrices as sequences of rows (the shape in which JSON arrays   *)
(* of arrays arrive in TLA+): M[i][j], 1-based.  Exact integer algebra:    *)
(* products, transposes, sub-matrices, determinants by Laplace expansion   *)
(* (orders <= 5), norms, structural predicates (triangular, permutation,   *)
(* symmetric) and the two comparison operators of the tolerance calculus   *)
(* of FixPoint.tla lifted to matrix products.                              *)
(*                                                                         *)
(* TLC evaluation note: a definition introduced by LET is re-evaluated at  *)
(* every use inside a quantifier, operator *arguments* are evaluated once. *)
(* Every operator below therefore takes its expensive intermediates        *)
(* (transposes, magnitudes) as arguments.                                  *)
(***************************************************************************)
EXTENDS FixPoint, FiniteSets

NRows(M) == Len(M)
NCols(M) == IF Len(M) = 0 THEN 0 ELSE Len(M[1])

(* r x c rectangular array *)
IsMat(M, r, c) == /\ Len(M) = r
                  /\ \A i \in 1..r : Len(M[i]) = c

Tr(M) == [j \in 1..NCols(M) |-> [i \in 1..NRows(M) |-> M[i][j]]]

(* exact product, right factor given transposed *)
MulT(A, Bt) == [i \in 1..Len(A) |-> [j \in 1..Len(Bt) |-> Dot(A[i], Bt[j])]]
Mul(A, B) == MulT(A, Tr(B))

ScaleM(M, c) == [i \in 1..Len(M) |-> [j \in 1..Len(M[i]) |-> c * M[i][j]]]
Ident(n, c) == [i \in 1..n |-> [j \in 1..n |-> IF i = j THEN c ELSE 0]]

(* sub-matrix with the listed rows and columns, in the listed order *)
Sub(M, rows, cols) == [i \in 1..Len(rows) |-> [j \in 1..Len(cols) |-> M[rows[i]][cols[j]]]]
(* leading r rows *)
TopRows(M, r) == [i \in 1..r |-> M[i]]

RECURSIVE MaxAbsMR(_, _)
MaxAbsMR(M, k) == IF k = 0 THEN 0 ELSE Max2(MaxAbsV(M[k]), MaxAbsMR(M, k - 1))
MaxAbsM(M) == MaxAbsMR(M, Len(M))

RECURSIVE MaxL1R(_, _)
MaxL1R(M, k) == IF k = 0 THEN 0 ELSE Max2(L1(M[k]), MaxL1R(M, k - 1))
NormInf(M) == MaxL1R(M, Len(M))          \* max row sum of |.|
Norm1(M) == NormInf(Tr(M))               \* max column sum of |.|

IsSymmetric(M) == /\ IsMat(M, Len(M), Len(M))
                  /\ \A i, j \in 1..Len(M) : M[i][j] = M[j][i]

Range(s) == { s[i] : i \in DOMAIN s }
Distinct(s) == Cardinality(Range(s)) = Len(s)

(***************************************************************************)
(* Structure.  `sg` is the exact sign pattern of a float matrix (-1/0/1)   *)
(* and `one` the pattern of entries equal to 1.0, both recorded by the     *)
(* harness next to the quantised values: "exactly zero" and "exactly one"  *)
(* cannot be read off a rounded fixed-point value.                         *)
(***************************************************************************)
ZeroAbove(sg) == \A i \in 1..Len(sg) : \A j \in 1..Len(sg[i]) : j > i => sg[i][j] = 0
ZeroBelow(sg) == \A i \in 1..Len(sg) : \A j \in 1..Len(sg[i]) : j < i => sg[i][j] = 0
UnitDiag(one) == \A i \in 1..Len(one) : one[i][i] = 1

(* P is an n x n 0/1 matrix with exactly one 1 in every row and column *)
IsPermMatrix(P, n) ==
    /\ IsMat(P, n, n)
    /\ \A i, j \in 1..n : P[i][j] \in {0, 1}
    /\ \A i \in 1..n : L1(P[i]) = 1
    /\ LET Pt == Tr(P) IN \A j \in 1..n : L1(Pt[j]) = 1

(***************************************************************************)
(* Determinant by Laplace expansion along the first row (orders <= 5; the  *)
(* callers bound the entries so that n! max^n < 2^31).                     *)
(***************************************************************************)
Minor1(M, j) == [r \in 1..(Len(M) - 1) |-> [c \in 1..(Len(M) - 1) |->
                    M[r + 1][IF c < j THEN c ELSE c + 1]]]

RECURSIVE Det(_)
RECURSIVE DetSum(_, _)
DetSum(M, j) == IF j = 0 THEN 0
                ELSE (IF M[1][j] = 0 THEN 0
                      ELSE (IF j % 2 = 1 THEN 1 ELSE -1) * M[1][j] * Det(Minor1(M, j)))
                     + DetSum(M, j - 1)
Det(M) == IF Len(M) = 0 THEN 1
          ELSE IF Len(M) = 1 THEN M[1][1]
          ELSE IF Len(M) = 2 THEN M[1][1] * M[2][2] - M[1][2] * M[2][1]
          ELSE DetSum(M, Len(M))

(* the principal sub-matrix on the index set S (ascending order) *)
RECURSIVE SetToSeq(_)
SetToSeq(S) == IF S = {} THEN <<>>
               ELSE LET x == CHOOSE a \in S : \A b \in S : a <= b
                    IN  <<x>> \o SetToSeq(S \ {x})
Principal(M, S) == LET idx == SetToSeq(S) IN Sub(M, idx, idx)
Leading(M, k) == Sub(M, [i \in 1..k |-> i], [i \in 1..k |-> i])

(***************************************************************************)
(* Products compared with a target under the tolerance calculus.           *)
(*   X   r x k, quantised at 2^S     Yt  c x k, the right factor transposed *)
(*   T   r x c exact target at scale 2^(2S)                                 *)
(*   mag norm-wise magnitude k*max|X|*max|Y| (for the f32 slack)            *)
(***************************************************************************)
(* Row sums of |.| and the rounding slack are computed once and handed down as
   arguments (TLC would otherwise recompute them for every pair (i, j)). *)
RowL1(M) == [i \in 1..Len(M) |-> L1(M[i])]

ProdNearQQOn(X, Yt, T, lx, ly, k, sl) ==
    \A i \in 1..Len(X) : \A j \in 1..Len(Yt) :
        Near(Dot(X[i], Yt[j]), T[i][j], HalfUp(lx[i] + ly[j] + k) + sl)        \* = QQTol(X[i], Yt[j]) + sl
ProdNearQQ(X, Yt, T, w, mag) ==
    ProdNearQQOn(X, Yt, T, RowL1(X), RowL1(Yt), NCols(X), Slack(w, NCols(X), mag))

(*   A   r x k exact integers        Xt  c x k quantised at 2^S, transposed *)
(*   T   r x c exact target at scale 2^S                                    *)
ProdNearIQOn(A, Xt, T, la, sl) ==
    \A i \in 1..Len(A) : \A j \in 1..Len(Xt) :
        Near(Dot(A[i], Xt[j]), T[i][j], HalfUp(la[i]) + sl)                    \* = IQTol(A[i]) + sl
ProdNearIQ(A, Xt, T, w, mag) ==
    ProdNearIQOn(A, Xt, T, RowL1(A), Slack(w, NCols(A), mag))

(* two quantised matrices that must be the same real matrix *)
SameQ(X, Y) == /\ Len(X) = Len(Y)
               /\ \A i \in 1..Len(X) : /\ Len(X[i]) = Len(Y[i])
                                       /\ \A j \in 1..Len(X[i]) : Abs(X[i][j] - Y[i][j]) <= 1
=============================================================================
