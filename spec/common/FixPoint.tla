------------------------------ MODULE FixPoint ------------------------------
(***************************************************************************)
(* Fixed-point encoding of real numbers and the tolerance calculus used by *)
(* every contract specification (DESIGN.md section 2.5).                   *)
(*                                                                         *)
(* The harness records a real value v as the integer                       *)
(*                    q(v) = round(v * 2^S)                                *)
(* so that  | q(v) - v * 2^S | <= 1/2.   A contract is a polynomial        *)
(* identity between such values; the specification evaluates the identity  *)
(* on the integers and accepts a deviation no larger than what the         *)
(* half-unit errors of the operands can produce, plus a small slack that   *)
(* covers the genuine rounding error of a backward-stable floating-point   *)
(* algorithm.  Both parts are computed here, inside the specification,     *)
(* from the recorded magnitudes -- the harness never supplies a tolerance. *)
(*                                                                         *)
(* TLC evaluates integers in 32 bits.  All operators assume that the       *)
(* caller keeps sums of products below 2^30 (the harness refuses to emit   *)
(* numbers that would not; such events are counted as out of range).       *)
(***************************************************************************)
EXTENDS Integers, Sequences

Abs(x) == IF x < 0 THEN -x ELSE x
Max2(a, b) == IF a >= b THEN a ELSE b
Min2(a, b) == IF a <= b THEN a ELSE b
Sgn(x) == IF x > 0 THEN 1 ELSE IF x < 0 THEN -1 ELSE 0

RECURSIVE Pow2(_)
Pow2(k) == IF k <= 0 THEN 1 ELSE 2 * Pow2(k - 1)

(* ceil(a / b) for a >= 0, b > 0 *)
CeilDiv(a, b) == (a + b - 1) \div b

(* ceil(x / 2) for x >= 0 *)
HalfUp(x) == (x + 1) \div 2

(* Re-quantisation of a scale-2^S integer to the coarser scale 2^(S-d):     *)
(* round-half-away-from-zero of q / 2^d.  If |q - v 2^S| <= 1/2 then        *)
(* |Requant(q,d) - v 2^(S-d)| <= 1/2 + 2^-(d+1)  ( < 9/16 for d >= 3 ).     *)
Requant(q, d) == LET p == Pow2(d) IN Sgn(q) * ((Abs(q) + p \div 2) \div p)

(***************************************************************************)
(* Vectors are sequences of integers.                                      *)
(***************************************************************************)
RECURSIVE DotR(_, _, _)
DotR(x, y, k) == IF k = 0 THEN 0 ELSE x[k] * y[k] + DotR(x, y, k - 1)
Dot(x, y) == DotR(x, y, Len(x))                 \* sum_k x_k y_k

RECURSIVE L1R(_, _)
L1R(x, k) == IF k = 0 THEN 0 ELSE Abs(x[k]) + L1R(x, k - 1)
L1(x) == L1R(x, Len(x))                         \* sum_k |x_k|

RECURSIVE MaxAbsR(_, _)
MaxAbsR(x, k) == IF k = 0 THEN 0 ELSE Max2(Abs(x[k]), MaxAbsR(x, k - 1))
MaxAbsV(x) == MaxAbsR(x, Len(x))                \* max_k |x_k|

(***************************************************************************)
(* Quantisation part of the tolerance.                                     *)
(*                                                                         *)
(* (QQ) both operands quantised at scale 2^S, compared with an exact value *)
(*      at scale 2^(2S):  with qa = a 2^S + da, qb = b 2^S + db,           *)
(*      |da|,|db| <= 1/2,                                                  *)
(*        qa qb - ab 2^(2S) = qa db + (qb - db) da                         *)
(*      so |.| <= |qa|/2 + (|qb| + 1/2)/2 <= (|qa| + |qb| + 1)/2 ;         *)
(*      summed over k and rounded up.                                      *)
(* (IQ) left operand an exact integer, right operand quantised, compared   *)
(*      with an exact value at scale 2^S:  |a qb - ab 2^S| <= |a|/2.       *)
(***************************************************************************)
QQTol(x, y) == HalfUp(L1(x) + L1(y) + Len(x))
IQTol(a) == HalfUp(L1(a))

(***************************************************************************)
(* Rounding slack.  `w` is the float width of the call ("f64" | "f32"),    *)
(* `k` the length of the inner sum and `mag` a bound on the norm-wise      *)
(* magnitude of the quantity compared (k * max|x| * max|y| in the units of *)
(* the comparison).  A backward-stable algorithm commits an error of at    *)
(* most c k u mag with u the unit round-off and c a modest constant; we    *)
(* take c = 64.  For f64 (u = 2^-53) this is < 2^-17 units for every       *)
(* admissible mag < 2^30, so the slack is the constant k + 1 that absorbs  *)
(* the integer round-ups above.  For f32 (u = 2^-24): 64 k 2^-24 mag =     *)
(* k mag / 2^18.                                                           *)
(***************************************************************************)
Slack(w, k, mag) == IF w = "f64" THEN k + 1 ELSE k + 1 + k * (mag \div 262144)

(* Forward-error slack for the one clause that is not a residual (the      *)
(* minimum-norm clause): error <= c u cond mag with cond <= 2^12 certified *)
(* by the premise and c = 16, i.e. mag / 2^8 for f32, nothing for f64.     *)
FwdSlack(w, mag) == IF w = "f64" THEN 0 ELSE mag \div 256

Near(x, target, tol) == Abs(x - target) <= tol
=============================================================================
