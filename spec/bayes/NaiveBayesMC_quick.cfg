CONSTANT Scope <- ScopeQuick
CONSTANT Replay = TRUE
SPECIFICATION Spec
INVARIANT ModelSatisfiesProperty
INVARIANT CountLoopInvariant
INVARIANT IndexIsOrderIsomorphism
INVARIANT PrintReplay
CHECK_DEADLOCK FALSE
