----------------------------- MODULE NaiveBayes -----------------------------
(***************************************************************************)
(* C11 -- "Naive Bayes stores the data's sufficient statistics and         *)
(* predicts the MAP class".                                                *)
(*                                                                         *)
(* Property predicates (P), written from the property statement:           *)
(*                                                                         *)
(*   For each variant (Gaussian, multinomial, Bernoulli with optional      *)
(*   binarisation, categorical) and every valid training set, the class    *)
(*   labels, class counts, priors and per-class feature statistics         *)
(*   reported by the fitted model equal the sufficient statistics of the   *)
(*   training data under the documented additive smoothing: priors are     *)
(*   class frequencies (or the user-supplied priors) and sum to one,       *)
(*   Gaussian means and variances are the per-class moments, and the       *)
(*   count-based log-probabilities are the smoothed relative frequencies   *)
(*   (summing to one over features for the multinomial and over categories *)
(*   for the categorical variant).  The label predicted for any row whose  *)
(*   values occurred in training is a class maximising log prior plus the  *)
(*   sum of per-feature log-likelihoods computed from those statistics.    *)
(*   Integer-valued class labels need not be contiguous or start at zero   *)
(*   (except for the categorical variant, which enumerates 0..max label).  *)
(*                                                                         *)
(* Everything is exact integer / rational arithmetic on the training data  *)
(* X (n rows of p integers), y (n integer labels), alpha = aNum/aDen:      *)
(*                                                                         *)
(*   classes      ascending distinct labels (categorical: 0..max y)        *)
(*   class_count  N_c = #{i : y[i] = class c}                              *)
(*   priors       N_c / n, or the user's num_c / den;  sum = 1             *)
(*   Gaussian     theta_cj = S1/N_c,  var_cj = (N_c S2 - S1^2)/N_c^2       *)
(*                (population variance, the normalisation the code and     *)
(*                 scikit-learn document), S1 = sum x, S2 = sum x^2        *)
(*   multinomial  feature_count N_cj = sum_{i in c} x_ij,                  *)
(*                P_cj = (N_cj + alpha) / (T_c + alpha p), T_c = sum_j N_cj*)
(*   Bernoulli    b_ij = [x_ij > threshold] (or x_ij itself, 0/1),         *)
(*                N_cj = sum_{i in c} b_ij, P_cj = (N_cj + alpha)/(N_c + 2 alpha)*)
(*   categorical  n_categories_j = max_i x_ij + 1,                         *)
(*                N_cjv = #{i in c : x_ij = v},                            *)
(*                P_cjv = (N_cjv + alpha) / (N_c + alpha n_categories_j)   *)
(*                                                                         *)
(* A reported real r reaches this module as round(r 2^S) (log-probabilities *)
(* as round(exp(r) 2^S)); it matches the rational num/den iff              *)
(* |o den - num 2^S| <= den  (half a unit of quantisation, half of slack). *)
(*                                                                         *)
(* MAP.  For the three count models the class score                        *)
(* prior_c * prod_j P(x_j | c) is a product of small rationals.  Scores    *)
(* are compared exactly by cross-multiplication in arbitrary precision     *)
(* (natural numbers as base-10^4 digit sequences, the Big... operators):  *)
(* predicted label must be a class whose score is maximal, where "maximal" *)
(* allows a relative 2^-20 for the rounding of the library's log-sum.      *)
(* For the Gaussian variant the score contains logarithms; it is decided   *)
(* only on the family where they cancel (all classes equally frequent and, *)
(* per feature, equally spread): there the MAP class minimises             *)
(* sum_j (x_j - theta_cj)^2 / var_j, again an exact rational comparison.   *)
(* Outside that family the Gaussian MAP clause is not decided (counted as  *)
(* skipped).  Zero variances make the Gaussian score undefined: skipped.   *)
(* Independently of all that, a class whose prior is exactly 0 (possible    *)
(* only with user-supplied priors) has score -infinity and must never be   *)
(* predicted; the family is then judged among the classes of positive prior.*)
(* Gaussian features may be rescaled per column by exact powers of two      *)
(* (e.ecol): the moments are exact per feature, the MAP class is invariant. *)
(***************************************************************************)
EXTENDS Integers, Sequences, FiniteSets

Abs(a) == IF a < 0 THEN -a ELSE a
RECURSIVE Pow2(_)
Pow2(k) == IF k = 0 THEN 1 ELSE 2 * Pow2(k - 1)

RECURSIVE SumUpTo(_, _)
SumUpTo(f, n) == IF n = 0 THEN 0 ELSE f[n] + SumUpTo(f, n - 1)
RECURSIVE MaxUpTo(_, _)
MaxUpTo(f, n) == IF n = 1 THEN f[1] ELSE LET m == MaxUpTo(f, n - 1) IN IF f[n] > m THEN f[n] ELSE m

Range(s) == { s[i] : i \in DOMAIN s }
SetMin(S) == CHOOSE a \in S : \A b \in S : a <= b
RECURSIVE SortedSeq(_)
SortedSeq(S) == IF S = {} THEN <<>> ELSE LET a == SetMin(S) IN <<a>> \o SortedSeq(S \ {a})

(***************************************************************************)
(* Sufficient statistics.                                                  *)
(***************************************************************************)
Classes(variant, y) ==
    IF variant = "categorical" THEN [c \in 1..(MaxUpTo(y, Len(y)) + 1) |-> c - 1]
    ELSE SortedSeq(Range(y))

ClassCounts(cls, y) ==
    [c \in 1..Len(cls) |-> Cardinality({i \in 1..Len(y) : y[i] = cls[c]})]

(* the 0/1 matrix the Bernoulli model counts; threshold = thr2 / 2 *)
Binarized(X, hasThr, thr2) ==
    IF hasThr THEN [i \in 1..Len(X) |-> [j \in 1..Len(X[1]) |-> IF 2 * X[i][j] > thr2 THEN 1 ELSE 0]]
    ELSE X

(* per class and feature: sum over the rows of the class of g(x_ij) *)
ClassSums(cls, y, X) ==
    [c \in 1..Len(cls) |-> [j \in 1..Len(X[1]) |->
        SumUpTo([i \in 1..Len(y) |-> IF y[i] = cls[c] THEN X[i][j] ELSE 0], Len(y))]]
ClassSquareSums(cls, y, X) ==
    [c \in 1..Len(cls) |-> [j \in 1..Len(X[1]) |->
        SumUpTo([i \in 1..Len(y) |-> IF y[i] = cls[c] THEN X[i][j] * X[i][j] ELSE 0], Len(y))]]

NCategories(X) == [j \in 1..Len(X[1]) |-> MaxUpTo([i \in 1..Len(X) |-> X[i][j]], Len(X)) + 1]
(* [feature][class][category + 1] *)
CategoryCounts(cls, y, X, ncat) ==
    [j \in 1..Len(X[1]) |-> [c \in 1..Len(cls) |-> [v \in 1..ncat[j] |->
        Cardinality({i \in 1..Len(y) : y[i] = cls[c] /\ X[i][j] = v - 1})]]]

(* o = round(r * 2^S) matches the rational num/den (den > 0) *)
FracOK(o, num, den, S) == Abs(o * den - num * Pow2(S)) <= den

(***************************************************************************)
(* Clauses on the reported statistics.  `o` is the record e.out.           *)
(***************************************************************************)
IsMatrix(m, r, c) == Len(m) = r /\ \A i \in 1..r : Len(m[i]) = c

ShapeOK(e, k, p) ==
    LET o == e.out IN
    /\ Len(o.classes) = k /\ Len(o.classCount) = k /\ Len(o.priors) = k
    /\ CASE e.variant = "gaussian" -> IsMatrix(o.theta, k, p) /\ IsMatrix(o.var, k, p)
         [] e.variant \in {"multinomial", "bernoulli"} ->
                o.nFeatures = p /\ IsMatrix(o.featureCount, k, p) /\ IsMatrix(o.prob, k, p)
         [] e.variant = "categorical" ->
                /\ o.nFeatures = p /\ Len(o.nCategories) = p
                /\ Len(o.categoryCount) = p /\ Len(o.prob) = p
                /\ \A j \in 1..p : Len(o.categoryCount[j]) = k /\ Len(o.prob[j]) = k

PriorsOK(e, cnt) ==
    LET o == e.out.priors
        k == Len(cnt)
        n == Len(e.y)
        S == e.Spr
    IN  /\ IF e.hasPriors
           THEN /\ Len(e.priorsNum) = k
                /\ \A c \in 1..k : FracOK(o[c], e.priorsNum[c], e.priorsDen, S)
           ELSE \A c \in 1..k : FracOK(o[c], cnt[c], n, S)
        /\ Abs(SumUpTo(o, k) - Pow2(S)) <= k          \* priors sum to one

GaussMomentsOK(e, cnt, s1, s2) ==
    \A c \in 1..Len(cnt) : \A j \in 1..Len(e.X[1]) :
        /\ FracOK(e.out.theta[c][j], s1[c][j], cnt[c], e.Sg)
        /\ FracOK(e.out.var[c][j], cnt[c] * s2[c][j] - s1[c][j] * s1[c][j], cnt[c] * cnt[c], e.Sg)

(* smoothed relative frequencies; a = aNum, b = aDen, alpha = a/b *)
MultinomialProbOK(e, fc) ==
    LET p == Len(e.X[1]) IN
    \A c \in 1..Len(fc) :
        LET T == SumUpTo(fc[c], p) IN
        /\ \A j \in 1..p : FracOK(e.out.prob[c][j], e.aDen * fc[c][j] + e.aNum, e.aDen * T + e.aNum * p, e.Sp)
        /\ Abs(SumUpTo(e.out.prob[c], p) - Pow2(e.Sp)) <= p     \* sums to one over the features
BernoulliProbOK(e, cnt, fc) ==
    \A c \in 1..Len(fc) : \A j \in 1..Len(e.X[1]) :
        FracOK(e.out.prob[c][j], e.aDen * fc[c][j] + e.aNum, e.aDen * cnt[c] + 2 * e.aNum, e.Sp)
CategoricalProbOK(e, cnt, ncat, cc) ==
    \A j \in 1..Len(ncat) : \A c \in 1..Len(cnt) :
        /\ Len(e.out.prob[j][c]) = ncat[j]
        /\ \A v \in 1..ncat[j] :
              FracOK(e.out.prob[j][c][v], e.aDen * cc[j][c][v] + e.aNum, e.aDen * cnt[c] + e.aNum * ncat[j], e.Sp)
        /\ Abs(SumUpTo(e.out.prob[j][c], ncat[j]) - Pow2(e.Sp)) <= ncat[j]   \* sums to one over the categories

(***************************************************************************)
(* Arbitrary-precision naturals: little-endian sequences of base-10^4      *)
(* digits.  Factors up to 200 000 keep digit*factor+carry below 2^31.      *)
(***************************************************************************)
Base == 10000
FactorLimit == 200000
RECURSIVE DigitsOf(_)
DigitsOf(c) == IF c = 0 THEN <<>> ELSE <<c % Base>> \o DigitsOf(c \div Base)
RECURSIVE MulGo(_, _, _, _)
MulGo(A, f, i, carry) ==
    IF i > Len(A) THEN DigitsOf(carry)
    ELSE LET t == A[i] * f + carry IN <<t % Base>> \o MulGo(A, f, i + 1, t \div Base)
BigMulSmall(A, f) == MulGo(A, f, 1, 0)
RECURSIVE BigProdFrom(_, _, _)
BigProdFrom(A, fs, i) == IF i > Len(fs) THEN A ELSE BigProdFrom(BigMulSmall(A, fs[i]), fs, i + 1)
BigProd(fs) == BigProdFrom(<<1>>, fs, 1)          \* product of a sequence of small naturals
RECURSIVE AddGo(_, _, _, _)
AddGo(A, B, i, carry) ==
    IF i > Len(A) /\ i > Len(B) THEN DigitsOf(carry)
    ELSE LET t == (IF i <= Len(A) THEN A[i] ELSE 0) + (IF i <= Len(B) THEN B[i] ELSE 0) + carry
         IN  <<t % Base>> \o AddGo(A, B, i + 1, t \div Base)
BigAdd(A, B) == AddGo(A, B, 1, 0)
RECURSIVE TrimLen(_, _)
TrimLen(A, n) == IF n = 0 THEN 0 ELSE IF A[n] # 0 THEN n ELSE TrimLen(A, n - 1)   \* significant digits
RECURSIVE CmpFrom(_, _, _)
CmpFrom(A, B, i) == IF i = 0 THEN 0 ELSE IF A[i] > B[i] THEN 1 ELSE IF A[i] < B[i] THEN -1 ELSE CmpFrom(A, B, i - 1)
BigCmp(A, B) ==     \* -1, 0, 1
    LET la == TrimLen(A, Len(A)) lb == TrimLen(B, Len(B))
    IN  IF la > lb THEN 1 ELSE IF la < lb THEN -1 ELSE CmpFrom(A, B, la)
BigLeq(A, B) == BigCmp(A, B) <= 0

Rep(f, m) == [i \in 1..m |-> f]
RECURSIVE Flatten(_, _)
Flatten(ss, i) == IF i > Len(ss) THEN <<>> ELSE ss[i] \o Flatten(ss, i + 1)
FactorsFit(fs) == \A i \in 1..Len(fs) : fs[i] >= 0 /\ fs[i] <= FactorLimit

(***************************************************************************)
(* Class scores of the count models as <<numerator factors, denominator    *)
(* factors>> (common factors of all classes -- the prior's denominator --  *)
(* are dropped).  q is the query row.                                      *)
(***************************************************************************)
PriorFactor(e, cnt, c) == IF e.hasPriors THEN e.priorsNum[c] ELSE cnt[c]

MultinomialScore(e, cnt, fc, q, c) ==
    LET p == Len(q)
        T == SumUpTo(fc[c], p)
        m == SumUpTo(q, p)
    IN  << <<PriorFactor(e, cnt, c)>> \o Flatten([j \in 1..p |-> Rep(e.aDen * fc[c][j] + e.aNum, q[j])], 1),
           Rep(e.aDen * T + e.aNum * p, m) >>

BernoulliScore(e, cnt, fc, qb, c) ==      \* qb: the binarised query
    LET p == Len(qb) IN
    << <<PriorFactor(e, cnt, c)>> \o
          [j \in 1..p |-> IF qb[j] = 1 THEN e.aDen * fc[c][j] + e.aNum
                          ELSE e.aDen * (cnt[c] - fc[c][j]) + e.aNum],
       Rep(e.aDen * cnt[c] + 2 * e.aNum, p) >>

CategoricalScore(e, cnt, ncat, cc, q, c) ==
    LET p == Len(q) IN
    << <<cnt[c]>> \o [j \in 1..p |-> e.aDen * cc[j][c][q[j] + 1] + e.aNum],
       [j \in 1..p |-> e.aDen * cnt[c] + e.aNum * ncat[j]] >>

(* 2^20 and 2^20 - 1 as products of small factors: the rounding allowance of the comparison *)
K1 == <<1024, 1024>>
K2 == <<1023, 1025>>

(* score(pi) >= score(c) * (1 - 2^-20), scores given as factor pairs *)
ScoreGeq(sp, sc) == BigLeq(BigProd(sc[1] \o sp[2] \o K2), BigProd(sp[1] \o sc[2] \o K1))

(* verdict for one query given all class scores: "ok" / "bad" / "skip" *)
ArgmaxVerdict(scores, cls, pred) ==
    IF \E c \in 1..Len(cls) : ~FactorsFit(scores[c][1]) \/ ~FactorsFit(scores[c][2]) THEN "skip"
    ELSE IF \E pi \in 1..Len(cls) : cls[pi] = pred /\ \A c \in 1..Len(cls) : ScoreGeq(scores[pi], scores[c])
    THEN "ok" ELSE "bad"

(* every value of the query occurred in the same column of the training data *)
InScope(X, q) == Len(q) = Len(X[1]) /\ \A j \in 1..Len(q) : \E i \in 1..Len(X) : X[i][j] = q[j]

(***************************************************************************)
(* Gaussian MAP on the family where the logarithms cancel.                 *)
(*   V[c][j] = N_c S2 - S1^2  (= N_c^2 var_cj)                             *)
(* Family: no user priors (or all equal), all N_c equal, V[c][j] = V[1][j] *)
(* > 0 for all c, j.  Then with D_cj = N q_j - S1_cj                       *)
(*   score_c > score_c'  <=>  sum_j D_cj^2 / V_j < sum_j D_c'j^2 / V_j.    *)
(* cost_c * prod_l V_l = sum_j D_cj^2 prod_{l # j} V_l  (arbitrary prec.)  *)
(***************************************************************************)
GaussV(cnt, s1, s2) == [c \in 1..Len(cnt) |-> [j \in 1..Len(s1[1]) |-> cnt[c] * s2[c][j] - s1[c][j] * s1[c][j]]]
GaussAnyZeroVar(V) == \E c \in 1..Len(V) : \E j \in 1..Len(V[1]) : V[c][j] = 0

(* A class whose (user-supplied) prior is exactly 0 has score log 0 = -infinity whatever its
   likelihood: it is never a MAP class as long as some class has a positive prior.  This needs
   no logarithm and is decided for every variant. *)
ZeroPrior(e, c) == e.hasPriors /\ e.priorsNum[c] = 0
PosClasses(e, k) == {c \in 1..k : ~ZeroPrior(e, c)}

(* the family is judged among the classes with positive prior: equal priors, equal sizes,
   equal and positive per-feature spreads; ref is one of those classes *)
GaussFamilyOn(e, cnt, V, pos, ref) ==
    /\ \A c \in pos : cnt[c] = cnt[ref]
    /\ (e.hasPriors => \A c \in pos : e.priorsNum[c] = e.priorsNum[ref])
    /\ \A c \in pos : \A j \in 1..Len(V[1]) : V[c][j] = V[ref][j] /\ V[c][j] > 0
GaussFamily(e, cnt, V) ==
    LET pos == PosClasses(e, Len(cnt)) IN pos # {} /\ GaussFamilyOn(e, cnt, V, pos, CHOOSE c \in pos : TRUE)

RECURSIVE BigSumFrom(_, _)
BigSumFrom(terms, i) == IF i > Len(terms) THEN <<0>> ELSE BigAdd(terms[i], BigSumFrom(terms, i + 1))
(* cost_c * prod_l V_l, V_l the common spread of feature l (taken from class ref) *)
GaussCostRef(cnt, s1, V, ref, q, c) ==
    LET p == Len(q)
        D == [j \in 1..p |-> Abs(cnt[c] * q[j] - s1[c][j])]
    IN  BigSumFrom([j \in 1..p |->
            BigProd(<<D[j], D[j]>> \o [l \in 1..(p - 1) |-> V[ref][IF l < j THEN l ELSE l + 1]])], 1)
GaussCost(cnt, s1, V, q, c) == GaussCostRef(cnt, s1, V, 1, q, c)
(* costs[c] = cost_c * prod V, as Big, for c in pos; the predicted class must be in pos and have
   minimal cost among pos up to 2^-20 *)
GaussVerdictOn(cls, costs, pos, pred) ==
    IF \E pi \in pos : cls[pi] = pred /\
          \A c \in pos : BigLeq(BigProdFrom(costs[pi], K2, 1), BigProdFrom(costs[c], K1, 1))
    THEN "ok" ELSE "bad"
GaussVerdict(cls, costs, pred) == GaussVerdictOn(cls, costs, 1..Len(cls), pred)

(***************************************************************************)
(* The complete verdict on one NBFit event e (fields variant, X, y, aNum,  *)
(* aDen, hasThr, thr2, hasPriors, priorsNum, priorsDen, Spr, Sg, Sp,       *)
(* status, statsOk, out, queries, predStatus, preds, predsInt):            *)
(*   [clause |-> "" or the name of the first failing clause,               *)
(*    map    |-> per query "ok" | "bad" | "skip" (not decidable here) |    *)
(*               "out" (query outside the statement's scope)]              *)
(* Intermediate statistics are threaded through operator arguments so that *)
(* TLC evaluates each of them once.                                        *)
(***************************************************************************)
ValidInput(e) ==
    LET n == Len(e.X) p == Len(e.X[1]) IN
    /\ n >= 1 /\ p >= 1 /\ Len(e.y) = n /\ \A i \in 1..n : Len(e.X[i]) = p
    /\ e.aNum > 0 /\ e.aDen > 0
    /\ (e.variant \in {"multinomial", "categorical"} => \A i \in 1..n : \A j \in 1..p : e.X[i][j] >= 0)
    /\ (e.variant = "categorical" => \A i \in 1..n : e.y[i] >= 0)
    /\ (e.variant = "bernoulli" /\ ~e.hasThr => \A i \in 1..n : \A j \in 1..p : e.X[i][j] \in {0, 1})
    /\ (e.hasPriors => e.variant # "categorical" /\ SumUpTo(e.priorsNum, Len(e.priorsNum)) = e.priorsDen
                       /\ \A c \in 1..Len(e.priorsNum) : e.priorsNum[c] >= 0)

NBStats(e, cls) ==
    CASE e.variant = "gaussian" ->
            [s1 |-> ClassSums(cls, e.y, e.X), s2 |-> ClassSquareSums(cls, e.y, e.X)]
      [] e.variant = "multinomial" -> [fc |-> ClassSums(cls, e.y, e.X)]
      [] e.variant = "bernoulli" -> [fc |-> ClassSums(cls, e.y, Binarized(e.X, e.hasThr, e.thr2))]
      [] e.variant = "categorical" ->
            LET nc == NCategories(e.X) IN [ncat |-> nc, cc |-> CategoryCounts(cls, e.y, e.X, nc)]

StatsClause(e, cnt, st) ==       \* "" or the failing statistics clause of the variant
    CASE e.variant = "gaussian" -> IF GaussMomentsOK(e, cnt, st.s1, st.s2) THEN "" ELSE "GaussMoments"
      [] e.variant = "multinomial" ->
            IF e.out.featureCount # st.fc THEN "FeatureCount"
            ELSE IF ~MultinomialProbOK(e, st.fc) THEN "SmoothedProb" ELSE ""
      [] e.variant = "bernoulli" ->
            IF e.out.featureCount # st.fc THEN "FeatureCount"
            ELSE IF ~BernoulliProbOK(e, cnt, st.fc) THEN "SmoothedProb" ELSE ""
      [] e.variant = "categorical" ->
            IF e.out.nCategories # st.ncat THEN "NCategories"
            ELSE IF e.out.categoryCount # st.cc THEN "CategoryCount"
            ELSE IF ~CategoricalProbOK(e, cnt, st.ncat, st.cc) THEN "SmoothedProb" ELSE ""

(* the factors of the arbitrary-precision cost fit (else the query is not decided: "skip") *)
GaussFits(cnt, s1, V, pos, ref, q) ==
    /\ \A j \in 1..Len(q) : V[ref][j] <= FactorLimit
    /\ \A c \in pos : \A j \in 1..Len(q) : Abs(cnt[c] * q[j] - s1[c][j]) <= FactorLimit

GaussQueryVerdict(e, cls, cnt, st, V, pos, ref, q, pred) ==
    IF ~GaussFamilyOn(e, cnt, V, pos, ref) THEN "skip"
    ELSE IF ~GaussFits(cnt, st.s1, V, pos, ref, q) THEN "skip"
    ELSE GaussVerdictOn(cls, [c \in 1..Len(cls) |-> IF c \in pos THEN GaussCostRef(cnt, st.s1, V, ref, q, c) ELSE <<0>>],
                        pos, pred)

QueryVerdict(e, cls, cnt, st, V, q, pred) ==
    IF ~InScope(e.X, q) THEN "out"
    \* a class with prior exactly zero is never a MAP class (some other class has a positive prior)
    ELSE IF \E c \in 1..Len(cls) : cls[c] = pred /\ ZeroPrior(e, c) THEN "bad"
    ELSE CASE e.variant = "multinomial" ->
                ArgmaxVerdict([c \in 1..Len(cls) |-> MultinomialScore(e, cnt, st.fc, q, c)], cls, pred)
           [] e.variant = "bernoulli" ->
                ArgmaxVerdict([c \in 1..Len(cls) |->
                    BernoulliScore(e, cnt, st.fc, Binarized(<<q>>, e.hasThr, e.thr2)[1], c)], cls, pred)
           [] e.variant = "categorical" ->
                ArgmaxVerdict([c \in 1..Len(cls) |-> CategoricalScore(e, cnt, st.ncat, st.cc, q, c)], cls, pred)
           [] e.variant = "gaussian" ->
                LET pos == PosClasses(e, Len(cls))
                IN  GaussQueryVerdict(e, cls, cnt, st, V, pos, CHOOSE c \in pos : TRUE, q, pred)

NBV4(e, cls, cnt, st, V) ==
    IF e.variant = "gaussian" /\ GaussAnyZeroVar(V)
    THEN [clause |-> "", map |-> [i \in 1..Len(e.queries) |-> "skip"]]       \* degenerate density: no requirement
    ELSE IF ~(e.predStatus = "ok" /\ e.predsInt /\ Len(e.preds) = Len(e.queries))
    THEN [clause |-> "Predicts", map |-> <<>>]
    ELSE LET mv == [i \in 1..Len(e.queries) |-> QueryVerdict(e, cls, cnt, st, V, e.queries[i], e.preds[i])]
         IN  [clause |-> IF \E i \in 1..Len(mv) : mv[i] = "bad" THEN "MAP" ELSE "", map |-> mv]

NBV3(e, cls, cnt, st) ==
    LET k == Len(cls) p == Len(e.X[1]) IN
    IF ~e.statsOk THEN [clause |-> "StatsFinite", map |-> <<>>]
    ELSE IF ~ShapeOK(e, k, p) THEN [clause |-> "Shape", map |-> <<>>]
    ELSE IF ~e.out.classesInt THEN [clause |-> "Classes", map |-> <<>>]
    ELSE IF e.out.classCount # cnt THEN [clause |-> "ClassCount", map |-> <<>>]
    ELSE IF ~PriorsOK(e, cnt) THEN [clause |-> "Priors", map |-> <<>>]
    ELSE IF StatsClause(e, cnt, st) # "" THEN [clause |-> StatsClause(e, cnt, st), map |-> <<>>]
    ELSE NBV4(e, cls, cnt, st, IF e.variant = "gaussian" THEN GaussV(cnt, st.s1, st.s2) ELSE <<>>)

NBV2(e, cls, cnt) == NBV3(e, cls, cnt, NBStats(e, cls))
NBV1(e, cls) == NBV2(e, cls, ClassCounts(cls, e.y))

(* The statement fixes the SET of class labels (the distinct labels; 0..max for the categorical
   variant), not the order in which the model lists them: any duplicate-free listing is
   accepted, and every per-class statistic is then required in the order the model reports. *)
ClassesOK(e) ==
    LET rep == e.out.classes
        want == Classes(e.variant, e.y)
    IN  /\ Len(rep) = Len(want)
        /\ Range(rep) = Range(want)
        /\ Cardinality(Range(rep)) = Len(rep)

NBVerdict(e) ==
    IF ~ValidInput(e) THEN [clause |-> "invalid-input", map |-> <<>>]    \* outside the statement
    ELSE IF e.status # "ok" THEN [clause |-> "Fits", map |-> <<>>]       \* a valid training set must be accepted
    ELSE IF ~ClassesOK(e) THEN [clause |-> "Classes", map |-> <<>>]
    ELSE NBV1(e, e.out.classes)
=============================================================================
