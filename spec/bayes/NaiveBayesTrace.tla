--------------------------- MODULE NaiveBayesTrace ---------------------------
(***************************************************************************)
(* C11 trace validation.  Consumes the ndjson file recorded by harness/c11 *)
(* from the real GaussianNB / MultinomialNB / BernoulliNB / CategoricalNB   *)
(* (fit, accessors, predict) and judges every NBFit event with NBVerdict of *)
(* module NaiveBayes -- the operator the design model NaiveBayesMC is       *)
(* checked against.  Events are independent; a failing event prints         *)
(* <<"BAD", line, run, ev, clause>> and is counted, the run goes on.        *)
(* Events that carry the design model's own predictions (spec -> impl,      *)
(* hasModel) are additionally compared with them: a prediction that         *)
(* satisfies the MAP predicate but differs from the model's (another        *)
(* maximiser of a tie) is counted as Drift, not as a failure.               *)
(***************************************************************************)
EXTENDS NaiveBayes, TLC, Json, IOUtils

Rec == ndJsonDeserialize(IOEnv.TRACE)

VARIABLES l, nbad, hits
vars == <<l, nbad, hits>>

HitNames == {"gaussian", "multinomial", "bernoulli", "categorical", "InvalidInput",
             "AlphaNot1", "UserPriors", "LabelsNotZeroBased", "Binarized", "EmptyClass", "Scaled",
             "MapOk", "MapSkip", "MapOut", "GaussFamilyMap", "GaussZeroVar", "Model", "Drift",
             "ColScaled", "ZeroPrior", "ZeroPriorMapOk", "OtherBackend"}

Count(mv, s) == Cardinality({i \in 1..Len(mv) : mv[i] = s})

Incs(e, v) ==
    LET mv == v.map
        zb == e.status = "ok" /\ Len(e.out.classes) >= 1 /\
              (e.out.classes[1] # 0 \/ e.out.classes[Len(e.out.classes)] # Len(e.out.classes) - 1)
    IN
    [h \in HitNames |->
        CASE h = e.variant -> 1
          [] h = "AlphaNot1" -> IF e.variant # "gaussian" /\ e.aNum # e.aDen THEN 1 ELSE 0
          [] h = "UserPriors" -> IF e.hasPriors THEN 1 ELSE 0
          [] h = "LabelsNotZeroBased" -> IF zb THEN 1 ELSE 0
          [] h = "Binarized" -> IF e.variant = "bernoulli" /\ e.hasThr THEN 1 ELSE 0
          [] h = "EmptyClass" -> IF e.status = "ok" /\ \E c \in 1..Len(e.out.classCount) : e.out.classCount[c] = 0 THEN 1 ELSE 0
          [] h = "Scaled" -> IF e.e # 0 THEN 1 ELSE 0
          [] h = "ColScaled" -> IF \E j \in 1..Len(e.ecol) : e.ecol[j] # e.ecol[1] THEN 1 ELSE 0
          [] h = "ZeroPrior" -> IF e.hasPriors /\ \E c \in 1..Len(e.priorsNum) : e.priorsNum[c] = 0 THEN 1 ELSE 0
          [] h = "ZeroPriorMapOk" -> IF e.hasPriors /\ \E c \in 1..Len(e.priorsNum) : e.priorsNum[c] = 0 THEN Count(mv, "ok") ELSE 0
          [] h = "OtherBackend" -> IF e.backend # "dense" THEN 1 ELSE 0
          [] h = "MapOk" -> Count(mv, "ok")
          [] h = "MapSkip" -> Count(mv, "skip")
          [] h = "MapOut" -> Count(mv, "out")
          [] h = "GaussFamilyMap" -> IF e.variant = "gaussian" THEN Count(mv, "ok") ELSE 0
          [] h = "GaussZeroVar" -> IF e.variant = "gaussian" /\ Len(mv) > 0 /\ Count(mv, "skip") = Len(mv) /\ e.predStatus # "ok" THEN 1 ELSE 0
          [] h = "Model" -> IF e.hasModel THEN 1 ELSE 0
          [] h = "Drift" -> IF e.hasModel /\ v.clause = "" /\ e.predStatus = "ok" /\ e.preds # e.modelPreds THEN 1 ELSE 0
          [] OTHER -> 0]

Judge(e, v) ==
    IF v.clause = "invalid-input"
    THEN nbad' = nbad /\ hits' = [h \in HitNames |-> hits[h] + (IF h = "InvalidInput" THEN 1 ELSE 0)]
    ELSE /\ IF v.clause = "" THEN nbad' = nbad
            ELSE PrintT(<<"BAD", l, e.run, e.ev, v.clause>>) /\ nbad' = nbad + 1
         /\ hits' = [h \in HitNames |-> hits[h] + Incs(e, v)[h]]

Step ==
    LET e == Rec[l] IN
    /\ l <= Len(Rec)
    /\ l' = l + 1
    /\ IF e.ev = "NBFit" THEN Judge(e, NBVerdict(e))
       ELSE PrintT(<<"BAD", l, e.run, e.ev, "unknown event">>) /\ nbad' = nbad + 1 /\ UNCHANGED hits

Init == l = 1 /\ nbad = 0 /\ hits = [h \in HitNames |-> 0]
Next == Step
Spec == Init /\ [][Next]_vars

AtEnd == (l = Len(Rec) + 1) =>
            PrintT(<<"VERDICT", ToJson([consumed |-> l - 1, bad |-> nbad, hits |-> hits])>>)
=============================================================================
