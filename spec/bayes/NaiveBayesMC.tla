---------------------------- MODULE NaiveBayesMC ----------------------------
(***************************************************************************)
(* C11 design model (A): the fit / predict algorithm of                    *)
(* src/naive_bayes/{gaussian,multinomial,bernoulli,categorical,mod}.rs as  *)
(* a state machine over exact integers and rationals.                      *)
(*                                                                         *)
(*   Index    class_labels = sorted distinct y (unique_with_indices), or   *)
(*            0..max y (categorical); idx[i] = position of y[i]            *)
(*   Count    one training row per step: class_count[idx[r]] += 1 and the  *)
(*            per-class accumulators of the variant                        *)
(*              gaussian     s1 += x, s2 += x^2   (one-pass moments)       *)
(*              multinomial  feature_count += x                            *)
(*              bernoulli    feature_count += [x > thr]                    *)
(*              categorical  category_count[j][c][x] += 1                  *)
(*   Predict  one query row per step: running arg-max over the classes of  *)
(*            prior_c * prod_j P(x_j | c), compared exactly; like          *)
(*            Iterator::max_by the LAST maximal class wins a tie           *)
(*                                                                         *)
(* The smoothing and the division happen when the model's state is written *)
(* as an event (ModelEvent): floor(num 2^S / den) for every reported real. *)
(* TLC checks in every terminal state that this event satisfies NBVerdict  *)
(* of module NaiveBayes -- the predicate that also judges the recorded     *)
(* behaviour of the real code -- and, along the way, the loop invariant of *)
(* Count.  The initial states enumerate every training set of the scope:   *)
(* the shapes <<n, p, values>> of Scope, labels from {-3, 2, 7}            *)
(* (categorical: {0, 1, 3}) in any order, the alphas of Alphas, both       *)
(* binarisation thresholds.  Queries: every row of the column product.     *)
(*                                                                         *)
(* Gaussian predictions are modelled only on the family where the MAP      *)
(* decision needs no logarithm (see NaiveBayes.tla); elsewhere the model   *)
(* asks no query.                                                          *)
(*                                                                         *)
(* spec -> impl: each terminal state with at least one query prints        *)
(* REPLAY {variant, X, y, alpha, threshold, queries, modelPreds}; the      *)
(* harness replays it through the real API.                                *)
(***************************************************************************)
EXTENDS NaiveBayes, TLC, Json

CONSTANTS Scope,     \* set of <<n, p, set of feature values>>: the training-set shapes enumerated
          Replay

V012 == {0, 1, 2}
ScopeQuick == { <<nn, pp, V012>> : nn \in 1..2, pp \in 1..2 }
ScopeThorough == ScopeQuick \cup { <<3, 1, V012>>, <<4, 1, V012>>, <<3, 2, {0, 1}>>, <<3, 2, {0, 2}>> }
Labels(v) == IF v = "categorical" THEN {0, 1, 3} ELSE {-3, 2, 7}
Alphas == { <<1, 2>>, <<2, 1>> }
Variants == {"gaussian", "multinomial", "bernoulli", "categorical"}
SPR == 16
SG == 12
SP == 14

VARIABLES variant, X, y, alpha, thr2,      \* input
          pc, cls, idx, r, cnt, acc1, acc2, cat,  \* fit
          qi, preds                          \* predict
vars == <<variant, X, y, alpha, thr2, pc, cls, idx, r, cnt, acc1, acc2, cat, qi, preds>>

NR == Len(X)
NF == Len(X[1])
NC == Len(cls)

Init ==
    /\ variant \in Variants
    /\ \E sc \in Scope :
          /\ X \in [1..sc[1] -> [1..sc[2] -> sc[3]]]
          /\ y \in [1..sc[1] -> Labels(variant)]
    /\ alpha \in (IF variant = "gaussian" THEN {<<1, 1>>} ELSE Alphas)
    /\ thr2 \in (IF variant = "bernoulli" THEN {1, 3} ELSE {0})
    /\ pc = "index" /\ cls = <<>> /\ idx = <<>> /\ r = 1 /\ cnt = <<>> /\ acc1 = <<>> /\ acc2 = <<>> /\ cat = <<>>
    /\ qi = 1 /\ preds = <<>>

PosOf(s, v) == CHOOSE c \in 1..Len(s) : s[c] = v
Zeros(a, b) == [c \in 1..a |-> [j \in 1..b |-> 0]]

Index ==
    /\ pc = "index"
    /\ LET cl == IF variant = "categorical" THEN [c \in 1..(MaxUpTo(y, NR) + 1) |-> c - 1]
                 ELSE SortedSeq(Range(y))
       IN  /\ cls' = cl
           /\ idx' = [i \in 1..NR |-> PosOf(cl, y[i])]
           /\ cnt' = [c \in 1..Len(cl) |-> 0]
           /\ acc1' = Zeros(Len(cl), NF) /\ acc2' = Zeros(Len(cl), NF)
           /\ cat' = [j \in 1..NF |-> [c \in 1..Len(cl) |->
                          [v \in 1..(MaxUpTo([i \in 1..NR |-> X[i][j]], NR) + 1) |-> 0]]]
    /\ r' = 1 /\ pc' = "count"
    /\ UNCHANGED <<variant, X, y, alpha, thr2, qi, preds>>

Bin(v) == IF 2 * v > thr2 THEN 1 ELSE 0

Count ==
    /\ pc = "count"
    /\ IF r <= NR
       THEN LET c == idx[r] IN
            /\ cnt' = [cnt EXCEPT ![c] = @ + 1]
            /\ acc1' = [acc1 EXCEPT ![c] = [j \in 1..NF |->
                           @[j] + (IF variant = "bernoulli" THEN Bin(X[r][j]) ELSE X[r][j])]]
            /\ acc2' = [acc2 EXCEPT ![c] = [j \in 1..NF |-> @[j] + X[r][j] * X[r][j]]]
            /\ cat' = [j \in 1..NF |-> [cat[j] EXCEPT ![c] = [@ EXCEPT ![X[r][j] + 1] = @ + 1]]]
            /\ r' = r + 1 /\ pc' = pc
       ELSE pc' = "predict" /\ UNCHANGED <<r, cnt, acc1, acc2, cat>>
    /\ UNCHANGED <<variant, X, y, alpha, thr2, cls, idx, qi, preds>>

(* the record the scoring operators of NaiveBayes read the parameters from *)
Params == [variant |-> variant, X |-> X, y |-> y, aNum |-> alpha[1], aDen |-> alpha[2],
           hasThr |-> (variant = "bernoulli"), thr2 |-> thr2,
           hasPriors |-> FALSE, priorsNum |-> <<>>, priorsDen |-> 1]
NCat == [j \in 1..NF |-> Len(cat[j][1])]
V == GaussV(cnt, acc1, acc2)

(* queries: every row of the column product, in ascending order (NF <= 2) *)
ColVals(j) == SortedSeq({X[i][j] : i \in 1..NR})
Queries ==
    IF variant = "gaussian" /\ (GaussAnyZeroVar(V) \/ ~GaussFamily(Params, cnt, V)) THEN <<>>
    ELSE IF NF = 1 THEN [t \in 1..Len(ColVals(1)) |-> <<ColVals(1)[t]>>]
    ELSE LET c1 == ColVals(1) c2 == ColVals(2)
         IN  [t \in 1..(Len(c1) * Len(c2)) |-> <<c1[(t - 1) \div Len(c2) + 1], c2[((t - 1) % Len(c2)) + 1]>>]

ScoreOf(q, c) ==
    CASE variant = "multinomial" -> MultinomialScore(Params, cnt, acc1, q, c)
      [] variant = "bernoulli" -> BernoulliScore(Params, cnt, acc1, [j \in 1..NF |-> Bin(q[j])], c)
      [] variant = "categorical" -> CategoricalScore(Params, cnt, NCat, cat, q, c)

(* exact comparison score_a >= score_b *)
ExactGeq(sa, sb) == BigLeq(BigProd(sb[1] \o sa[2]), BigProd(sa[1] \o sb[2]))

(* running arg-max, ">=" so that the last maximal class wins *)
RECURSIVE ArgMaxFrom(_, _, _)
ArgMaxFrom(q, c, best) ==
    IF c > NC THEN best
    ELSE ArgMaxFrom(q, c + 1,
           IF variant = "gaussian"
           THEN (IF BigLeq(GaussCost(cnt, acc1, V, q, c), GaussCost(cnt, acc1, V, q, best)) THEN c ELSE best)
           ELSE (IF ExactGeq(ScoreOf(q, c), ScoreOf(q, best)) THEN c ELSE best))

Predict ==
    /\ pc = "predict"
    /\ IF qi <= Len(Queries)
       THEN preds' = Append(preds, cls[ArgMaxFrom(Queries[qi], 2, 1)]) /\ qi' = qi + 1 /\ pc' = pc
       ELSE pc' = "done" /\ UNCHANGED <<qi, preds>>
    /\ UNCHANGED <<variant, X, y, alpha, thr2, cls, idx, r, cnt, acc1, acc2, cat>>

Next == Index \/ Count \/ Predict
Spec == Init /\ [][Next]_vars
Done == pc = "done"

(* floor(num * 2^S / den); TLA+'s \div floors also for negative numerators *)
Fx(num, den, S) == (num * Pow2(S)) \div den

ModelOut ==
    LET a == alpha[1] b == alpha[2]
        base == [classes |-> cls, classesInt |-> TRUE, classCount |-> cnt,
                 priors |-> [c \in 1..NC |-> Fx(cnt[c], NR, SPR)]]
    IN  CASE variant = "gaussian" ->
               base @@ [theta |-> [c \in 1..NC |-> [j \in 1..NF |-> Fx(acc1[c][j], cnt[c], SG)]],
                        var |-> [c \in 1..NC |-> [j \in 1..NF |-> Fx(V[c][j], cnt[c] * cnt[c], SG)]]]
          [] variant = "multinomial" ->
               base @@ [nFeatures |-> NF, featureCount |-> acc1,
                        prob |-> [c \in 1..NC |-> [j \in 1..NF |->
                            Fx(b * acc1[c][j] + a, b * SumUpTo(acc1[c], NF) + a * NF, SP)]]]
          [] variant = "bernoulli" ->
               base @@ [nFeatures |-> NF, featureCount |-> acc1,
                        prob |-> [c \in 1..NC |-> [j \in 1..NF |-> Fx(b * acc1[c][j] + a, b * cnt[c] + 2 * a, SP)]]]
          [] variant = "categorical" ->
               base @@ [nFeatures |-> NF, nCategories |-> NCat, categoryCount |-> cat,
                        prob |-> [j \in 1..NF |-> [c \in 1..NC |-> [v \in 1..NCat[j] |->
                            Fx(b * cat[j][c][v] + a, b * cnt[c] + a * NCat[j], SP)]]]]

ModelEvent ==
    Params @@ [e |-> 0, ecol |-> <<>>, backend |-> "dense", Spr |-> SPR, Sg |-> SG, Sp |-> SP, status |-> "ok", statsOk |-> TRUE, out |-> ModelOut,
               queries |-> Queries, predStatus |-> "ok", preds |-> preds, predsInt |-> TRUE]

(* INVARIANTS *)
(* every class of a Gaussian model needs a row for the moments to exist: empty classes cannot
   occur because the Gaussian classes are the labels that occur *)
ModelSatisfiesProperty ==
    Done => LET v == NBVerdict(ModelEvent)
            IN  v.clause = "" /\ \A i \in 1..Len(v.map) : v.map[i] = "ok"
CountLoopInvariant ==
    pc = "count" =>
        /\ \A c \in 1..NC : cnt[c] = Cardinality({i \in 1..(r - 1) : y[i] = cls[c]})
        /\ SumUpTo(cnt, NC) = r - 1
IndexIsOrderIsomorphism ==       \* label -> class-index mapping
    pc # "index" => /\ \A i \in 1..NR : cls[idx[i]] = y[i]
                    /\ \A c \in 1..(NC - 1) : cls[c] < cls[c + 1]
PrintReplay ==
    (Replay /\ Done /\ Len(Queries) > 0) =>
        PrintT(<<"REPLAY", ToJson([variant |-> variant, X |-> X, y |-> y, aNum |-> alpha[1], aDen |-> alpha[2],
                                   hasThr |-> (variant = "bernoulli"), thr2 |-> thr2,
                                   queries |-> Queries, modelPreds |-> preds])>>)
=============================================================================
