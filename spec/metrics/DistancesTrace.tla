---------------------------- MODULE DistancesTrace ----------------------------
(***************************************************************************)
(* C17 trace validation (impl -> spec, and the return leg of spec -> impl). *)
(* Consumes the ndjson file recorded by harness/c17 from the real           *)
(* Distances::{euclidian, manhattan, minkowski, hamming, mahalanobis} and   *)
(* judges every event with the predicates of module Distances -- the same   *)
(* operators the design models DistancesMC / DistancesMahaMC are checked    *)
(* against.  Events are independent; the spec never blocks: a failing       *)
(* event prints <<"BAD", line, run, ev, clause>> and is counted.            *)
(*                                                                         *)
(* Events                                                                  *)
(*   Dist         kind in man|euc|mink|ham|hami, p, prec, e, S, T, x, y, z, *)
(*                status, xy yx xx yz xz (projection records), alt          *)
(*                -> DistFirstFail: Returns, ClosedForm, NonNeg,            *)
(*                   ZeroOnEqual, Symmetry, Triangle, Mink1IsManhattan,     *)
(*                   Mink2IsEuclidean                                       *)
(*   Mismatch     kind, p, x, y of different lengths, status -> MismatchOK  *)
(*   Maha         mode cov|data, mat, ... -> MahaFirstFail (or unconstrained)*)
(*   MahaMismatch mat, x, y, status -> MahaMismatchOK                       *)
(*   Expect       an input enumerated by TLC from DistancesMC, the model's  *)
(*                interval [lo,hi] for round(d 2^S) (or "must panic"), and  *)
(*                what the real code returned -> ExpectOK (closed form at   *)
(*                fixed-point resolution, recomputed from the definition)   *)
(***************************************************************************)
EXTENDS Distances, TLC, Json, IOUtils

Rec == ndJsonDeserialize(IOEnv.TRACE)

VARIABLES l, nbad, hits
vars == <<l, nbad, hits>>

HitNames == {"Dist_man", "Dist_euc", "Dist_mink", "Dist_ham", "Dist_hami", "F32", "Scaled", "EqualArgs",
             "TriangleTight", "Mink1", "Mink2", "Unfit", "Mismatch",
             "Maha_cov", "Maha_data", "Maha_identity", "Maha_unconstrained", "Maha_skipped", "Maha_f32", "Maha_order45", "LongVector",
             "MahaMismatch", "Expect", "ExpectPanic", "ModelMismatch"}

HitAll(S) == [h \in HitNames |-> hits[h] + (IF h \in S THEN 1 ELSE 0)]

(* spec -> impl return leg.  The closed form at fixed-point resolution, recomputed here from
   the definition: floor(d 2^S) for the exact d; the real code rounds to nearest, so
   round(d 2^S) lies in [floor, floor + 1].  An f32 result is the same real number rounded to
   24 bits, which moves round(d 2^S) by at most one more unit.  The interval printed by the
   design model must be this very interval (otherwise the model is wrong: ModelMismatch). *)
FloorFx(kind, p, x, y, S) ==
    IF IsHamming(kind) THEN (HamCount(x, y) * Pow2(S)) \div Len(x)
    ELSE LET P == PowerOf(kind, p) IN FloorRoot(PowSum(x, y, P) * Pow2(P * S), P)

ExpectOK(e) ==
    IF Len(e.x) # Len(e.y) THEN e.status = "panic"
    ELSE LET lo == FloorFx(e.kind, e.p, e.x, e.y, e.S)
             w == IF e.prec >= 50 THEN 0 ELSE 1
         IN  e.status = "ok" /\ e.out.ok /\ lo - w <= e.out.fx /\ e.out.fx <= lo + 1 + w
ExpectModelAgrees(e) ==
    IF Len(e.x) # Len(e.y) THEN e.expectPanic
    ELSE ~e.expectPanic /\ e.lo = FloorFx(e.kind, e.p, e.x, e.y, e.S) /\ e.hi = e.lo + 1

DistHits(e) ==
    {"Dist_" \o e.kind}
    \cup (IF e.prec < 50 THEN {"F32"} ELSE {})
    \cup (IF e.e # 0 THEN {"Scaled"} ELSE {})
    \cup (IF e.x = e.y THEN {"EqualArgs"} ELSE {})
    \cup (IF e.status = "ok" /\ TriangleTight(e.xy, e.yz, e.xz) THEN {"TriangleTight"} ELSE {})
    \cup (IF Len(e.x) > 64 THEN {"LongVector"} ELSE {})
    \cup (IF e.kind = "mink" /\ e.p = 1 THEN {"Mink1"} ELSE {})
    \cup (IF e.kind = "mink" /\ e.p = 2 THEN {"Mink2"} ELSE {})

(* verdict c: "" = accepted, otherwise the failing clause.  Passed as an argument so that it
   is evaluated once. *)
Judge(e, c, hs) ==
    /\ IF c = "" THEN nbad' = nbad ELSE PrintT(<<"BAD", l, e.run, e.ev, c>>) /\ nbad' = nbad + 1
    /\ hits' = HitAll(hs)

MahaHits(e, c, allSkipped) ==
    (IF c = "unconstrained" THEN {"Maha_unconstrained"}
     ELSE {"Maha_" \o e.mode}
          \cup (IF e.mode = "cov" /\ IsIdentity(e.mat) THEN {"Maha_identity"} ELSE {})
          \cup (IF e.prec < 50 THEN {"Maha_f32"} ELSE {})
          \cup (IF Len(e.x) >= 4 THEN {"Maha_order45"} ELSE {})
          \cup (IF allSkipped THEN {"Maha_skipped"} ELSE {}))

(* j = MahaJudge(e) = <<clause, all closed forms skipped>>, evaluated once *)
JudgeMaha(e, j) == Judge(e, IF j[1] = "unconstrained" THEN "" ELSE j[1], MahaHits(e, j[1], j[2]))

Step ==
    LET e == Rec[l] IN
    /\ l <= Len(Rec)
    /\ l' = l + 1
    /\ CASE e.ev = "Dist" ->
              IF DistFits(e) THEN Judge(e, DistFirstFail(e), DistHits(e))
              ELSE Judge(e, "", {"Unfit"})
         [] e.ev = "Mismatch" -> Judge(e, IF MismatchOK(e) THEN "" ELSE "RejectsDifferentLengths", {"Mismatch"})
         [] e.ev = "Maha" -> JudgeMaha(e, MahaJudge(e))
         [] e.ev = "MahaMismatch" ->
              Judge(e, IF MahaMismatchOK(e) THEN "" ELSE "RejectsLengthNotMatchingCovariance", {"MahaMismatch"})
         [] e.ev = "Expect" ->
              Judge(e, IF ExpectOK(e) THEN "" ELSE IF Len(e.x) # Len(e.y) THEN "RejectsDifferentLengths" ELSE "ClosedFormFixedPoint",
                    {IF e.expectPanic THEN "ExpectPanic" ELSE "Expect"} \cup (IF ExpectModelAgrees(e) THEN {} ELSE {"ModelMismatch"}))
         [] OTHER -> Judge(e, "unknown event", {})

Init == l = 1 /\ nbad = 0 /\ hits = [h \in HitNames |-> 0]
Next == Step
Spec == Init /\ [][Next]_vars

AtEnd == (l = Len(Rec) + 1) =>
            PrintT(<<"VERDICT", ToJson([consumed |-> l - 1, bad |-> nbad, hits |-> hits])>>)
=============================================================================
