CONSTANTS MaxE = 4  Vals <- V11  With3 = TRUE
SPECIFICATION Spec
INVARIANT ModelSatisfiesProperty
INVARIANT NeverPanicsOnMatchingLengths
INVARIANT QuadIsClosedForm
CHECK_DEADLOCK FALSE
