----------------------------- MODULE DistancesMC -----------------------------
(***************************************************************************)
(* C17 design model (A) for the coordinate-wise distances, shaped like the *)
(* code in src/math/distance/{manhattan,euclidian,minkowski,hamming}.rs:   *)
(*                                                                         *)
(*     if x.len() != y.len() { panic!(..) }          action Check          *)
(*     let mut acc = 0;                                                    *)
(*     for i in 0..x.len() { acc += term(x[i], y[i]) }   action Accum      *)
(*     finish(acc)          // identity | sqrt | p-th root | / len         *)
(*                                                       action Finish     *)
(*                                                                         *)
(* over exact integers.  One behaviour evaluates the five calls the        *)
(* harness makes for one input -- d(x,y), d(y,x), d(x,x), d(y,z), d(x,z)   *)
(* -- and TLC checks in every terminal state that the outputs satisfy the  *)
(* very predicate (DistFirstFail of module Distances) that validates the   *)
(* recorded outputs of the real code.  The initial states enumerate all    *)
(* inputs of the configured scope, so this is an exhaustive proof, for     *)
(* that scope, that                                                        *)
(*   - the loop computes the closed form (Accum/Finish versus the          *)
(*     recursive definition PowSum / HamCount used by the predicate),      *)
(*   - the closed forms are metrics, and the fixed-point formulation of    *)
(*     the axioms (floor/round to 2^-S, two units of slack in the triangle *)
(*     inequality) never rejects an exact value -- i.e. the predicates do  *)
(*     not over-demand,                                                    *)
(*   - different lengths lead to "panic" and equal lengths never do.       *)
(*                                                                         *)
(* The model's root is the exact floor root at scale 2^S (integers); the   *)
(* real code rounds to nearest, so for the spec -> impl direction each     *)
(* terminal state prints REPLAY {kind,p,x,y,S,lo,hi}: the admissible       *)
(* interval [floor, floor+1] for round(d * 2^S).  The harness replays      *)
(* these inputs through the real API (events "Expect" of DistancesTrace).  *)
(***************************************************************************)
EXTENDS Distances, TLC, Json

CONSTANTS Vals,        \* set of integer component values
          MaxLen,      \* vector lengths 1..MaxLen
          WithZ,       \* TRUE: all triples (x,y,z);  FALSE: pairs (z = x) plus length mismatches
          Replay       \* TRUE: print REPLAY lines in terminal states

(* value sets for the configurations (a .cfg file cannot write negative numbers) *)
V22 == -2..2
V102 == {-1, 0, 2}

(* the distance kinds of the model: <<kind, p>> *)
Kinds == { <<"man", 0>>, <<"euc", 0>>, <<"ham", 0>>,
           <<"mink", 1>>, <<"mink", 2>>, <<"mink", 3>>, <<"mink", 4>> }

(* fixed-point scale of the model's root, such that acc * 2^(P*S) < 2^30 for the
   largest scope used (MaxLen 3, |difference| <= 4) *)
ScaleOf(kind, p) == CASE IsHamming(kind) -> 16
                      [] PowerOf(kind, p) <= 2 -> 12
                      [] PowerOf(kind, p) = 3 -> 7
                      [] OTHER -> 5

VARIABLES kind, p, x, y, z,   \* the input (constant along a behaviour)
          ci,                 \* index of the call being evaluated, 1..5
          pc,                 \* "check" | "loop" | "finish" | "done" | "panic"
          i, acc,             \* loop counter and accumulator of the current call
          res                 \* results of the finished calls (projection records)
vars == <<kind, p, x, y, z, ci, pc, i, acc, res>>

Vecs(n) == [1..n -> Vals]
Calls == << <<x, y>>, <<y, x>>, <<x, x>>, <<y, z>>, <<x, z>> >>
A == Calls[ci][1]
B == Calls[ci][2]

Init == /\ \E k \in Kinds : kind = k[1] /\ p = k[2]
        /\ \E n \in 1..MaxLen :
              /\ x \in Vecs(n)
              /\ IF WithZ THEN y \in Vecs(n) /\ z \in Vecs(n)
                 ELSE /\ z = x
                      /\ \E m \in 1..MaxLen : y \in Vecs(m)
        /\ ci = 1 /\ pc = "check" /\ i = 1 /\ acc = 0 /\ res = <<>>

Check == /\ pc = "check"
         /\ pc' = IF Len(A) # Len(B) THEN "panic" ELSE "loop"
         /\ i' = 1 /\ acc' = 0
         /\ UNCHANGED <<kind, p, x, y, z, ci, res>>

Term(a, b) == CASE kind = "man" -> Abs(a - b)
                [] kind = "euc" -> (a - b) * (a - b)
                [] kind = "mink" -> Pow(Abs(a - b), p)
                [] kind = "ham" -> IF a # b THEN 1 ELSE 0

Accum == /\ pc = "loop"
         /\ IF i <= Len(A)
            THEN acc' = acc + Term(A[i], B[i]) /\ i' = i + 1 /\ pc' = pc
            ELSE pc' = "finish" /\ UNCHANGED <<i, acc>>
         /\ UNCHANGED <<kind, p, x, y, z, ci, res>>

(* the value the call returns, as the projection record the predicates read:
   pw is the exact power sum (T = 0), fx the floor of the root at scale 2^S *)
Result(a) ==
    LET P == PowerOf(kind, p)
        S == ScaleOf(kind, p)
    IN  IF kind = "ham"
        THEN [ok |-> TRUE, sgn |-> IF a = 0 THEN 0 ELSE 1, pw |-> a,
              fx |-> (a * Pow2(S)) \div Len(A), bits |-> <<a>>]
        ELSE [ok |-> TRUE, sgn |-> IF a = 0 THEN 0 ELSE 1, pw |-> a,
              fx |-> FloorRoot(a * Pow2(P * S), P), bits |-> <<a>>]

Finish == /\ pc = "finish"
          /\ res' = Append(res, Result(acc))
          /\ IF ci < 5 THEN ci' = ci + 1 /\ pc' = "check" ELSE ci' = ci /\ pc' = "done"
          /\ UNCHANGED <<kind, p, x, y, z, i, acc>>

Next == Check \/ Accum \/ Finish
Spec == Init /\ [][Next]_vars

Done == pc \in {"done", "panic"}

(* Manhattan / Euclidean value of (x,y) by definition, for the Minkowski-1/-2 clauses *)
AltOf == IF kind = "mink" /\ p = 1
         THEN [kind |-> "man", ok |-> TRUE, fx |-> PowSum(x, y, 1) * Pow2(ScaleOf("man", 0))]
         ELSE IF kind = "mink" /\ p = 2
         THEN [kind |-> "euc", ok |-> TRUE, fx |-> FloorRoot(PowSum(x, y, 2) * Pow2(2 * ScaleOf("euc", 0)), 2)]
         ELSE [kind |-> "none", ok |-> FALSE, fx |-> 0]

(* the terminal state written as the event record of the trace vocabulary *)
ModelEvent ==
    [kind |-> kind, p |-> p, prec |-> 52, e |-> 0, S |-> ScaleOf(kind, p), T |-> 0,
     x |-> x, y |-> y, z |-> z, status |-> "ok",
     xy |-> res[1], yx |-> res[2], xx |-> res[3], yz |-> res[4], xz |-> res[5], alt |-> AltOf]

(* INVARIANTS *)
ModelSatisfiesProperty == pc = "done" => DistFirstFail(ModelEvent) = ""
RejectsExactlyMismatches ==
    /\ pc = "panic" => Len(x) # Len(y)
    /\ pc = "done" => Len(x) = Len(y)
    /\ pc = "panic" => MismatchOK([x |-> x, y |-> y, status |-> "panic"])
LoopComputesClosedForm ==        \* loop invariant of Accum, not only the terminal state
    pc \in {"loop", "finish"} =>
        acc = IF kind = "ham" THEN Cardinality({j \in 1..(i - 1) : A[j] # B[j]})
              ELSE SumUpTo([j \in 1..(i - 1) |-> Pow(Abs(A[j] - B[j]), PowerOf(kind, p))], i - 1)

PrintReplay ==
    (Replay /\ Done) =>
        PrintT(<<"REPLAY", ToJson([kind |-> kind, p |-> p, x |-> x, y |-> y, S |-> ScaleOf(kind, p),
                                   panic |-> (pc = "panic"),
                                   lo |-> IF pc = "panic" THEN 0 ELSE res[1].fx,
                                   hi |-> IF pc = "panic" THEN 0 ELSE res[1].fx + 1])>>)
=============================================================================
