CONSTANTS Vals <- V102  MaxLen = 2  WithZ = TRUE  Replay = FALSE
SPECIFICATION Spec
INVARIANT ModelSatisfiesProperty
INVARIANT RejectsExactlyMismatches
INVARIANT LoopComputesClosedForm
CHECK_DEADLOCK FALSE
