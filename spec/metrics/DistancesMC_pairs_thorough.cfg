CONSTANTS Vals <- V22  MaxLen = 3  WithZ = FALSE  Replay = TRUE
SPECIFICATION Spec
INVARIANT ModelSatisfiesProperty
INVARIANT RejectsExactlyMismatches
INVARIANT LoopComputesClosedForm
INVARIANT PrintReplay
CHECK_DEADLOCK FALSE
