CONSTANTS MaxE = 2  Vals <- V11  With3 = FALSE
SPECIFICATION Spec
INVARIANT ModelSatisfiesProperty
INVARIANT NeverPanicsOnMatchingLengths
INVARIANT QuadIsClosedForm
CHECK_DEADLOCK FALSE
