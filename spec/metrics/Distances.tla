------------------------------ MODULE Distances ------------------------------
(***************************************************************************)
(* C17 -- "Distance functions are metrics and equal their closed forms".   *)
(*                                                                         *)
(* Property predicates (P) for smartcore's math::distance module, written  *)
(* from the property statement:                                            *)
(*                                                                         *)
(*   For all finite vectors of equal length the Euclidean, Manhattan,      *)
(*   Minkowski (integer order p >= 1), Hamming and Mahalanobis (built from *)
(*   a positive-definite covariance or from full-rank data) distances      *)
(*   equal their closed-form definitions, are non-negative, vanish for     *)
(*   identical arguments, are symmetric and satisfy the triangle           *)
(*   inequality up to rounding.  Minkowski of order 1 and 2 coincides with *)
(*   Manhattan and Euclidean, and Mahalanobis with identity covariance     *)
(*   coincides with Euclidean.  Vectors of different length (or of a       *)
(*   length that does not match the covariance) are rejected.              *)
(*                                                                         *)
(* The same operators are (a) the invariant of the design models           *)
(* DistancesMC / DistancesMahaMC, which TLC explores exhaustively over     *)
(* small integer vectors, and (b) the acceptance condition of              *)
(* DistancesTrace, which validates events recorded from the real code.     *)
(*                                                                         *)
(* HOW FLOATS REACH THIS MODULE.  TLA+ has no reals.  All inputs are       *)
(* integer vectors (the harness may multiply them by an exact power of two *)
(* 2^e before the call and divides the result by 2^e again -- exact in     *)
(* binary floating point -- which is how "large and tiny magnitudes" are   *)
(* exercised).  A returned float v is seen through the projection record   *)
(*                                                                         *)
(*    r.ok    v is finite and the two integers below fit                   *)
(*    r.sgn   sign of v, exact                                             *)
(*    r.fx    round(v * 2^S)          fixed point; S is a field of the event*)
(*    r.pw    round(v^P * M * 2^T)    P = 1 Manhattan, 2 Euclidean and     *)
(*                                    Mahalanobis, p Minkowski; Hamming:   *)
(*                                    P = 1, M = length (else M = 1)       *)
(*    r.bits  IEEE-754 bit pattern of the value as returned (4 x 16 bit)   *)
(*                                                                         *)
(* v |-> round(v^P M 2^T) is monotone on v >= 0, and the closed forms say  *)
(* exactly that d^P is an integer (power sum) or a rational (Mahalanobis), *)
(* so the closed-form clauses compare r.pw with exact integer arithmetic.  *)
(* The sign clause (NonNeg) covers the v < 0 side the even powers forget.  *)
(*                                                                         *)
(* TOLERANCES are derived here, never in the harness.  `prec` is the       *)
(* number of fraction bits of the float type (52 or 23).  TLC integers are *)
(* 32 bit: the harness chooses S and T from the *inputs* such that         *)
(*      n * maxdiff^P * 2^T < 2^29    and    n * maxdiff * 2^S < 2^27      *)
(* (n * maxdiff >= any of the distances), and `Fits` re-checks it.         *)
(***************************************************************************)
EXTENDS Integers, Sequences, FiniteSets, TLC

Abs(a) == IF a < 0 THEN -a ELSE a
Max2(a, b) == IF a >= b THEN a ELSE b

RECURSIVE Pow(_, _)
Pow(b, k) == IF k = 0 THEN 1 ELSE b * Pow(b, k - 1)
Pow2(k) == Pow(2, k)

Cap == 1073741824     \* 2^30; every product formed below stays under it

(* a*b, or Cap+1 when the product would exceed Cap (a, b >= 0); never overflows *)
SatMul(a, b) == IF a = 0 \/ b = 0 THEN 0
                ELSE IF a > Cap \/ b > Cap \/ a > Cap \div b THEN Cap + 1 ELSE a * b
RECURSIVE SatPow(_, _)
SatPow(b, k) == IF k = 0 THEN 1 ELSE SatMul(b, SatPow(b, k - 1))

RECURSIVE SumUpTo(_, _)
SumUpTo(f, n) == IF n = 0 THEN 0 ELSE f[n] + SumUpTo(f, n - 1)
RECURSIVE MaxUpTo(_, _)
MaxUpTo(f, n) == IF n = 0 THEN 0 ELSE Max2(f[n], MaxUpTo(f, n - 1))

(***************************************************************************)
(* Closed forms on integer vectors.                                        *)
(*   Manhattan      d   = PowSum(x, y, 1)                                  *)
(*   Euclidean      d^2 = PowSum(x, y, 2)                                  *)
(*   Minkowski(p)   d^p = PowSum(x, y, p)                                  *)
(*   Hamming        d * len = HamCount(x, y)                               *)
(***************************************************************************)
PowSum(x, y, p) == SumUpTo([i \in 1..Len(x) |-> Pow(Abs(x[i] - y[i]), p)], Len(x))
HamCount(x, y) == Cardinality({i \in 1..Len(x) : x[i] # y[i]})
MaxDiff(x, y) == MaxUpTo([i \in 1..Len(x) |-> Abs(x[i] - y[i])], Len(x))

PowerOf(kind, p) == CASE kind = "man" -> 1 [] kind = "euc" -> 2 [] kind = "mink" -> p
                      [] kind \in {"ham", "hami"} -> 1 [] kind = "maha" -> 2
IsHamming(kind) == kind \in {"ham", "hami"}

(* the integers the closed-form clause forms fit (re-check of the harness' choice of T) *)
Fits(x, y, P, T) == SatMul(SatMul(Len(x), SatPow(Max2(MaxDiff(x, y), 1), P)), Pow2(T)) <= Cap

(***************************************************************************)
(* Rounding allowance for r.pw against the exact integer Nt = N * 2^T.     *)
(* f64: the power sum of integers below 2^30 is exact, powf and the root   *)
(* are accurate to an ulp, re-raising to the P-th power multiplies the     *)
(* relative error by P: |error| <= 2^30 * 2^-48 << 1/2, so round() returns *)
(* Nt itself: allowance 0.                                                 *)
(* f32: n additions, P-th powers and a root, each within an ulp 2^-24; the *)
(* 1/p exponent is itself rounded: relative error of v^P below             *)
(* (P+2)(n+8) 2^-23, plus one unit for the final rounding.  Computed       *)
(* without overflow as k*(Nt div 2^21) + (k*(Nt mod 2^21)) div 2^21.       *)
(***************************************************************************)
PwTol(Nt, n, P, prec) ==
    IF prec >= 50 THEN 0
    ELSE LET k == (P + 2) * (n + 8)
             sh == Pow2(prec - 2)
             \* k * (Nt mod sh) / sh, rounded up, formed without exceeding 2^31 for n in the thousands
             lowpart == (k * ((Nt % sh) \div 4096 + 1)) \div (sh \div 4096)
         IN  1 + k * (Nt \div sh) + lowpart

PowClosedForm(x, y, P, T, prec, r) ==
    LET Nt == PowSum(x, y, P) * Pow2(T)
    IN  r.ok /\ Abs(r.pw - Nt) <= PwTol(Nt, Len(x), P, prec)

(* Hamming: r.pw = round(d * len) is the number of differing positions, and the
   fixed-point value is the quotient to within one unit of 2^-S per coordinate *)
HamClosedForm(x, y, S, r) ==
    LET k == HamCount(x, y)
        n == Len(x)
    IN  r.ok /\ r.pw = k /\ Abs(r.fx * n - k * Pow2(S)) <= n

(***************************************************************************)
(* Metric axioms on projection records.                                    *)
(***************************************************************************)
NonNeg(r) == r.ok /\ r.sgn >= 0 /\ r.fx >= 0
IsZero(r) == r.ok /\ r.sgn = 0            \* exactly zero, not "small"
(* |x_i - y_i| = |y_i - x_i| exactly in IEEE arithmetic and every closed form depends on the
   arguments through these only: symmetry is required bit for bit (DESIGN 3, C17) *)
Symmetric(rxy, ryx) == rxy.ok /\ ryx.ok /\ rxy.bits = ryx.bits

(* allowance of the fixed-point comparisons: 1/2 unit of quantisation per value involved, plus
   for f32 the relative rounding error (n+8) 2^-23 of each value (sum a of the values) *)
FxSlack(a, n, prec) == IF prec >= 50 THEN 0 ELSE ((n + 8) * (a \div 1048576 + 1)) \div 8

TriangleS(rxy, ryz, rxz, slack) ==
    /\ rxy.ok /\ ryz.ok /\ rxz.ok
    /\ rxz.fx <= rxy.fx + ryz.fx + 2 + slack
Triangle(rxy, ryz, rxz, n, prec) ==
    TriangleS(rxy, ryz, rxz, FxSlack(rxy.fx + ryz.fx + rxz.fx, n, prec))
TriangleTight(rxy, ryz, rxz) == rxz.fx >= rxy.fx + ryz.fx - 1 /\ rxy.fx > 0 /\ ryz.fx > 0

AgreeS(r, alt, slack) == r.ok /\ alt.ok /\ Abs(r.fx - alt.fx) <= 1 + slack
Agree(r, alt, n, prec) == AgreeS(r, alt, FxSlack(r.fx + alt.fx, n, prec))

(***************************************************************************)
(* The complete verdict on one "Dist" event: the name of the first clause  *)
(* that fails, or "" .  e has fields kind, p, prec, S, T, x, y, z, status, *)
(* xy, yx, xx, yz, xz (projection records of d(x,y), d(y,x), ...), alt.    *)
(* Equal lengths: the property promises a value, so a panic is a failure.  *)
(***************************************************************************)
ClosedForm(e, a, b, r) ==
    IF IsHamming(e.kind) THEN HamClosedForm(a, b, e.S, r)
    ELSE PowClosedForm(a, b, PowerOf(e.kind, e.p), e.T, e.prec, r)

DistFits(e) == IsHamming(e.kind) \/
    LET P == PowerOf(e.kind, e.p)
    IN  Fits(e.x, e.y, P, e.T) /\ Fits(e.y, e.z, P, e.T) /\ Fits(e.x, e.z, P, e.T)

DistFirstFail(e) ==
    LET n == Len(e.x) IN
    IF e.status # "ok" THEN "Returns"
    ELSE IF ~(/\ ClosedForm(e, e.x, e.y, e.xy) /\ ClosedForm(e, e.y, e.x, e.yx)
              /\ ClosedForm(e, e.x, e.x, e.xx) /\ ClosedForm(e, e.y, e.z, e.yz)
              /\ ClosedForm(e, e.x, e.z, e.xz)) THEN "ClosedForm"
    ELSE IF ~(NonNeg(e.xy) /\ NonNeg(e.yx) /\ NonNeg(e.xx) /\ NonNeg(e.yz) /\ NonNeg(e.xz)) THEN "NonNeg"
    ELSE IF ~(/\ IsZero(e.xx)
              /\ (e.x = e.y => IsZero(e.xy) /\ IsZero(e.yx))
              /\ (e.y = e.z => IsZero(e.yz))
              /\ (e.x = e.z => IsZero(e.xz))) THEN "ZeroOnEqual"
    ELSE IF ~Symmetric(e.xy, e.yx) THEN "Symmetry"
    ELSE IF ~Triangle(e.xy, e.yz, e.xz, n, e.prec) THEN "Triangle"
    ELSE IF e.kind = "mink" /\ e.p = 1 /\ ~(e.alt.kind = "man" /\ Agree(e.xy, e.alt, n, e.prec)) THEN "Mink1IsManhattan"
    ELSE IF e.kind = "mink" /\ e.p = 2 /\ ~(e.alt.kind = "euc" /\ Agree(e.xy, e.alt, n, e.prec)) THEN "Mink2IsEuclidean"
    ELSE ""

(* different lengths are rejected: the call must panic (statement: "are rejected") *)
MismatchOK(e) == Len(e.x) # Len(e.y) => e.status = "panic"

(***************************************************************************)
(* Mahalanobis.  Sigma integer symmetric of order n <= 5.                  *)
(*     d^2 = z^T Sigma^-1 z = (z^T adj(Sigma) z) / det(Sigma),  z = x - y  *)
(* Built from m data rows D: Sigma = G / (m (m-1)) with the integer matrix *)
(*     G[i][j] = m * Sum_k D[k][i] D[k][j] - (Sum_k D[k][i]) (Sum_k D[k][j])*)
(* (sample covariance, divisor m-1), hence                                 *)
(*     d^2 = m (m-1) (z^T adj(G) z) / det(G).                              *)
(* "Positive definite" / "full rank" is decided by Sylvester's criterion   *)
(* on Sigma resp. G; other inputs are outside the statement (unconstrained).*)
(***************************************************************************)
Order(M) == Len(M)
Sign(k) == IF k % 2 = 0 THEN 1 ELSE -1
(* M without row i and column j *)
SubMatrix(M, i, j) ==
    [r \in 1..(Len(M) - 1) |-> [c \in 1..(Len(M) - 1) |->
        M[IF r < i THEN r ELSE r + 1][IF c < j THEN c ELSE c + 1]]]
(* TLC evaluates [i \in S |-> e] lazily, on every application; TLCEval turns a matrix into an
   explicit value so that each entry is computed once (a performance device only) *)
EvalMat(M) == TLCEval([i \in 1..Len(M) |-> TLCEval([j \in 1..Len(M[i]) |-> M[i][j]])])
RECURSIVE Det(_)
Det(M) ==    \* cofactor expansion along the first row (orders 1..5 are used)
    IF Order(M) = 1 THEN M[1][1]
    ELSE IF Order(M) = 2 THEN M[1][1] * M[2][2] - M[1][2] * M[2][1]
    ELSE SumUpTo([j \in 1..Order(M) |-> Sign(1 + j) * M[1][j] * Det(SubMatrix(M, 1, j))], Order(M))
Adj(M) ==    \* adjugate: Adj[i][j] = cofactor(j, i)
    IF Order(M) = 1 THEN << <<1>> >>
    ELSE EvalMat([i \in 1..Order(M) |-> [j \in 1..Order(M) |-> Sign(i + j) * Det(SubMatrix(M, j, i))]])
LeadMinor(M, k) == Det([i \in 1..k |-> [j \in 1..k |-> M[i][j]]])
IsSquare(M) == Order(M) \in 1..5 /\ \A i \in 1..Order(M) : Len(M[i]) = Order(M)
IsSPD(M) == /\ IsSquare(M)
            /\ \A i, j \in 1..Order(M) : M[i][j] = M[j][i]
            /\ \A k \in 1..Order(M) : LeadMinor(M, k) > 0

Quad(A, z) == LET n == Len(z) IN
    SumUpTo([i \in 1..n |-> SumUpTo([j \in 1..n |-> A[i][j] * z[i] * z[j]], n)], n)

Gram(D) ==   \* the integer matrix G above; D a sequence of m rows of equal length n
    LET m == Len(D)
        n == Len(D[1])
        s == [i \in 1..n |-> SumUpTo([k \in 1..m |-> D[k][i]], m)]
    IN  EvalMat([i \in 1..n |-> [j \in 1..n |->
            m * SumUpTo([k \in 1..m |-> D[k][i] * D[k][j]], m) - s[i] * s[j]]])

RECURSIVE Gcd(_, _)
Gcd(a, b) == IF b = 0 THEN a ELSE Gcd(b, a % b)
RECURSIVE GcdUpTo(_, _)
GcdUpTo(f, n) == IF n = 0 THEN 0 ELSE Gcd(Abs(f[n]), GcdUpTo(f, n - 1))
MatGcd(M) == GcdUpTo([i \in 1..Len(M) |-> GcdUpTo(M[i], Len(M[i]))], Len(M))
MatDiv(M, g) == EvalMat([i \in 1..Len(M) |-> [j \in 1..Len(M[i]) |-> M[i][j] \div g]])

(* The matrix that plays Sigma and the rational factor c = <<cn, cd>> with
      d^2 = (cn / cd) * Quad(adj(M), z) / det(M).
   For data, G is divided by the gcd g of its entries (adj and det are homogeneous: the
   factor becomes m (m-1) / g); balanced designs have large common factors and the reduced
   matrix keeps determinants of order 4 and 5 inside the integer range. *)
GramGcd(mat) == LET g == MatGcd(Gram(mat)) IN IF g = 0 THEN 1 ELSE g
GramReduced(G) == LET g == MatGcd(G) IN MatDiv(G, IF g = 0 THEN 1 ELSE g)
MahaMatrix(mode, mat) == IF mode = "cov" THEN mat ELSE GramReduced(Gram(mat))
MahaFactor(mode, mat) == IF mode = "cov" THEN <<1, 1>> ELSE <<Len(mat) * (Len(mat) - 1), GramGcd(mat)>>
MahaConstrained(mode, mat) ==
    IF mode = "cov" THEN IsSPD(mat)
    ELSE Len(mat) >= 2 /\ Len(mat[1]) \in 1..5 /\ IsSPD(MahaMatrix(mode, mat))

(* exact d^2 as a reduced fraction <<num, den>>, den > 0; Ad = adj(M), De = det(M) > 0 *)
MahaSqA(Ad, De, c, x, y) ==
    LET z == [i \in 1..Len(x) |-> x[i] - y[i]]
        nu == c[1] * Quad(Ad, z)
        de == c[2] * De
        g == Gcd(Max2(nu, 1), de)
    IN  <<nu \div g, de \div g>>
MahaSq(M, c, x, y) == MahaSqA(Adj(M), Det(M), c, x, y)

(* bound on the 1-norm condition number of M: |M|_1 |adj M|_1 / det + 1 *)
ColSum(A, j) == SumUpTo([i \in 1..Len(A) |-> Abs(A[i][j])], Len(A))
Norm1(A) == MaxUpTo([j \in 1..Len(A) |-> ColSum(A, j)], Len(A))
CondBoundA(M, Ad, De) == SatMul(Norm1(M), Norm1(Ad)) \div De + 1
CondBound(M) == CondBoundA(M, Adj(M), Det(M))

(***************************************************************************)
(* Closed form for r.pw = round(d^2 * 2^T) against num/den:                *)
(*     | r.pw * den - num * 2^T |  <=  den + Rel                           *)
(* den = one unit of 2^-T (half for the quantisation, half slack); Rel is  *)
(* the rounding allowance of the LU inverse: the computed inverse has       *)
(* relative error ~ n cond eps and z^T E z is measured against              *)
(* z^T Sigma^-1 z >= |z|^2 / |Sigma|, which costs another factor cond:      *)
(* relative error of d^2 at most K * 2^-prec with K = 16 n cond^2 (this     *)
(* also covers the rounding of the covariance estimate, <= n m eps cond).   *)
(* Result "skip" when the integers do not fit 2^30 or the allowance would   *)
(* exceed them: the event is then unconstrained (counted, never a pass).    *)
(* Adjugate, determinant and K are computed once per event and passed down. *)
(***************************************************************************)
MahaKA(cb, n) == SatMul(16 * n, SatMul(cb, cb))
MahaK(M, n) == MahaKA(CondBound(M), n)

(* K * a * 2^-prec rounded up, or -1 when it cannot be formed below 2^30 *)
RelSlack(a, K, prec) ==
    LET sh1 == IF prec >= 50 THEN 67108864 ELSE 4096       \* 2^26 | 2^12
        sh2 == IF prec >= 50 THEN 67108864 ELSE 2048       \* 2^26 | 2^11
    IN  IF a > Cap \/ K > Cap \/ SatMul(K, a \div sh1 + 1) > Cap THEN -1
        ELSE (K * (a \div sh1 + 1)) \div sh2 + 1

MahaVerdictA(Ad, De, K, c, T, prec, x, y, r) ==
    LET q == MahaSqA(Ad, De, c, x, y)
        numT == SatMul(q[1], Pow2(T))
        rel == RelSlack(numT, K, prec)
    IN  IF rel < 0 \/ q[2] > Cap \div 4 THEN "skip"
        ELSE IF /\ r.ok /\ r.pw >= 0
                /\ r.pw <= (Cap + Cap \div 2) \div q[2]
                /\ Abs(r.pw * q[2] - numT) <= q[2] + rel
             THEN "ok" ELSE "bad"
MahaVerdict(M, c, T, prec, x, y, r) ==
    MahaVerdictA(Adj(M), Det(M), MahaK(M, Len(x)), c, T, prec, x, y, r)

(***************************************************************************)
(* Verdict on one "Maha" event (fields mode, mat, prec, S, T, x, y, z,     *)
(* status, xy, yx, xx, yz, xz, alt): "" (all clauses hold), the first      *)
(* failing clause, or "unconstrained" (covariance not positive definite /  *)
(* data not of full rank / wrong shapes: the statement says nothing).      *)
(***************************************************************************)
IsIdentity(M) == \A i, j \in 1..Order(M) : M[i][j] = (IF i = j THEN 1 ELSE 0)

MahaShapeOK(e) ==
    /\ e.mode \in {"cov", "data"}
    /\ Len(e.mat) >= 1
    /\ \A k \in 1..Len(e.mat) : Len(e.mat[k]) = Len(e.mat[1])
    /\ Len(e.x) = Len(e.mat[1]) /\ Len(e.y) = Len(e.mat[1]) /\ Len(e.z) = Len(e.mat[1])

MahaVerdictsA(e, Ad, De, K, c) ==
    [xy |-> MahaVerdictA(Ad, De, K, c, e.T, e.prec, e.x, e.y, e.xy),
     yx |-> MahaVerdictA(Ad, De, K, c, e.T, e.prec, e.y, e.x, e.yx),
     xx |-> MahaVerdictA(Ad, De, K, c, e.T, e.prec, e.x, e.x, e.xx),
     yz |-> MahaVerdictA(Ad, De, K, c, e.T, e.prec, e.y, e.z, e.yz),
     xz |-> MahaVerdictA(Ad, De, K, c, e.T, e.prec, e.x, e.z, e.xz)]

MahaFirstFailWith(e, K, v) ==
    LET n == Len(e.x)
        tri == RelSlack(e.xy.fx + e.yz.fx + e.xz.fx, K, e.prec)
    IN
    IF e.status # "ok" THEN "Returns"
    ELSE IF \E k \in DOMAIN v : v[k] = "bad" THEN "ClosedForm"
    ELSE IF ~(NonNeg(e.xy) /\ NonNeg(e.yx) /\ NonNeg(e.xx) /\ NonNeg(e.yz) /\ NonNeg(e.xz)) THEN "NonNeg"
    ELSE IF ~(/\ IsZero(e.xx)
              /\ (e.x = e.y => IsZero(e.xy) /\ IsZero(e.yx))
              /\ (e.y = e.z => IsZero(e.yz))
              /\ (e.x = e.z => IsZero(e.xz))) THEN "ZeroOnEqual"
    ELSE IF ~Symmetric(e.xy, e.yx) THEN "Symmetry"
    \* the fixed-point values of a Mahalanobis distance carry the relative error of the
    \* inverse (same K); where that allowance cannot be formed the clause is skipped
    ELSE IF tri >= 0 /\ ~TriangleS(e.xy, e.yz, e.xz, tri) THEN "Triangle"
    ELSE IF e.mode = "cov" /\ IsIdentity(e.mat)
            /\ ~(e.alt.kind = "euc" /\ AgreeS(e.xy, e.alt, RelSlack(e.xy.fx + e.alt.fx, K, e.prec))) THEN "IdentityIsEuclidean"
    ELSE ""

(* <<first failing clause or "" or "unconstrained", all five closed forms skipped?>> *)
MahaJudgeK(e, K, v) == <<MahaFirstFailWith(e, K, v), \A k \in DOMAIN v : v[k] = "skip">>
MahaJudgeAK(e, Ad, De, c, K) == MahaJudgeK(e, K, MahaVerdictsA(e, Ad, De, K, c))
MahaJudgeA(e, M, Ad, De, c) == MahaJudgeAK(e, Ad, De, c, MahaKA(CondBoundA(M, Ad, De), Len(e.x)))
MahaJudgeM(e, M, c) == MahaJudgeA(e, M, Adj(M), Det(M), c)
MahaJudge(e) ==
    IF ~MahaShapeOK(e) THEN <<"unconstrained", FALSE>>
    ELSE IF ~MahaConstrained(e.mode, e.mat) THEN <<"unconstrained", FALSE>>
    ELSE MahaJudgeM(e, MahaMatrix(e.mode, e.mat), MahaFactor(e.mode, e.mat))

MahaFirstFail(e) == MahaJudge(e)[1]
MahaAllSkipped(e) == MahaJudge(e)[2]

(* a vector whose length differs from the order of a positive-definite covariance is rejected *)
MahaMismatchOK(e) ==
    (IsSPD(e.mat) /\ (Len(e.x) # Order(e.mat) \/ Len(e.y) # Order(e.mat))) => e.status = "panic"

(***************************************************************************)
(* Integer roots for the design models: the largest r >= 0 with r^p <= v.  *)
(***************************************************************************)
RECURSIVE Bisect(_, _, _, _)
Bisect(v, p, lo, hi) ==     \* invariant lo^p <= v < hi^p
    IF hi - lo <= 1 THEN lo
    ELSE LET mid == (lo + hi) \div 2
         IN  IF SatPow(mid, p) <= v THEN Bisect(v, p, mid, hi) ELSE Bisect(v, p, lo, mid)
FloorRoot(v, p) == IF p = 1 THEN v ELSE Bisect(v, p, 0, 32769)   \* v < 2^30 and p >= 2: root < 2^15 + 1
=============================================================================
