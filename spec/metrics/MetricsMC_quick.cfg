CONSTANTS MaxBin = 5  MaxAuc = 5  MaxReg = 3  MaxHcv = 4
SPECIFICATION Spec
INVARIANT BinOK
INVARIANT AucOK
INVARIANT RegOK
INVARIANT HcvOK
CHECK_DEADLOCK FALSE
