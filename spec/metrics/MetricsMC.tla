------------------------------ MODULE MetricsMC ------------------------------
(***************************************************************************)
(* Model-checks the ALGEBRA of Metrics.tla on every small input: the       *)
(* definitions used as acceptance conditions in trace validation are       *)
(* cross-checked against independent formulations of the same textbook     *)
(* notions, so that a slip in a definition is caught here, by TLC, before  *)
(* it can mis-judge the code.  A pure function has no behaviour: the       *)
(* "model" is a one-step spec whose initial states are the inputs (Pick    *)
(* only stutters).                                                         *)
(*   kind "bin": all pairs of binary vectors, length 1..MaxBin             *)
(*   kind "auc": all (label, score in 0..2) vectors, length 1..MaxAuc      *)
(*   kind "reg": all integer target pairs over -2..2, length 1..MaxReg     *)
(*   kind "hcv": all labelling pairs over 3 labels, length 1..MaxHcv       *)
(***************************************************************************)
EXTENDS Metrics, TLC

CONSTANTS MaxBin, MaxAuc, MaxReg, MaxHcv

VARIABLES kind, a, b
vars == <<kind, a, b>>

Vecs(n, V) == [1..n -> V]
Init == \/ /\ kind = "bin" /\ \E n \in 1..MaxBin : a \in Vecs(n, {0, 1}) /\ b \in Vecs(n, {0, 1})
        \/ /\ kind = "auc" /\ \E n \in 1..MaxAuc : a \in Vecs(n, {0, 1}) /\ b \in Vecs(n, 0..2)
        \/ /\ kind = "reg" /\ \E n \in 1..MaxReg : a \in Vecs(n, (0 - 2)..2) /\ b \in Vecs(n, (0 - 2)..2)
        \/ /\ kind = "hcv" /\ \E n \in 1..MaxHcv : a \in Vecs(n, 0..2) /\ b \in Vecs(n, 0..2)
Pick == UNCHANGED vars
Next == Pick
Spec == Init /\ [][Next]_vars

n == Len(a)
Le(r, q) == Num(r) * Den(q) <= Num(q) * Den(r)        \* r <= q for positive denominators
Flip(x) == [i \in Idx(x) |-> 1 - x[i]]
Neg1(x) == [i \in Idx(x) |-> 0 - x[i]]

(* confusion counts partition the rows; accuracy = (TP + TN) / n; precision and recall
   exchange when the arguments do; F-beta from counts = F-beta from P and R (beta = 1/2, 1, 2)
   and lies between min and max of P and R; F_1 is symmetric *)
BinOK == (kind = "bin") =>
    /\ TP(a, b) + FP(a, b) + FN(a, b) + TN(a, b) = n
    /\ RatEq(Accuracy(a, b), << TP(a, b) + TN(a, b), n >>)
    /\ Precision(a, b) = Recall(b, a)
    /\ \A bb \in {<<1, 2>>, <<1, 1>>, <<2, 1>>} :
          TP(a, b) > 0 =>
             LET f == FBeta(a, b, bb[1], bb[2])
                 p == Precision(a, b)
                 r == Recall(a, b)
             IN  /\ RatEq(f, FBetaPR(p, r, bb[1], bb[2]))
                 /\ Den(f) > 0
                 /\ (Le(p, f) /\ Le(f, r)) \/ (Le(r, f) /\ Le(f, p))
    /\ (TP(a, b) > 0 => RatEq(FBeta(a, b, 1, 1), FBeta(b, a, 1, 1)))

(* AUC: within [0,1]; reversing the scores or exchanging the classes gives the complement;
   a strictly increasing map of the scores changes nothing; constant scores give 1/2 *)
AucOK == (kind = "auc" /\ Pos(a) # {} /\ Neg(a) # {}) =>
    LET r == AUC(a, b) IN
    /\ Den(r) > 0 /\ Num(r) >= 0 /\ Num(r) <= Den(r)
    /\ Num(AUC(a, Neg1(b))) = Den(r) - Num(r)
    /\ Num(AUC(Flip(a), b)) = Den(r) - Num(r)
    /\ AUC(a, [i \in Idx(b) |-> 3 * b[i] * b[i] + 1]) = r
    /\ (Cardinality(Range(b)) = 1 => 2 * Num(r) = Den(r))

(* regression: shift invariance; n SUM (y - mean)^2 = (n SUM y^2 - (SUM y)^2) (the integer form of SS_tot),
   perfect prediction, Cauchy-Schwarz MAE^2 <= MSE, R^2 <= 1, MSE through R^2 *)
RegOK == (kind = "reg") =>
    LET d == Diff(a, b) IN
    /\ SumSeq([i \in Idx(a) |-> (n * a[i] - SumSeq(a)) * (n * a[i] - SumSeq(a))]) = n * NSSTot(a)
    /\ NSSTot(a) >= 0
    /\ (Num(MSE(a, b, 1)) = 0 <=> a = b) /\ (Num(MAE(a, b, 1)) = 0 <=> a = b)
    /\ Num(MAE(a, b, 1)) * Num(MAE(a, b, 1)) <= n * Num(MSE(a, b, 1))
    /\ RatEq(MSE(a, b, 2), << Num(MSE(a, b, 1)), 4 * n >>)
    (* invariance under a common shift of truth and prediction: the justification of the
       offset family of the trace validation *)
    /\ \A k \in {0 - 3, 7, 1000} :
          LET ak == [i \in Idx(a) |-> a[i] + k]
              bk == [i \in Idx(b) |-> b[i] + k]
          IN  /\ MSE(ak, bk, 1) = MSE(a, b, 1)
              /\ MAE(ak, bk, 1) = MAE(a, b, 1)
              /\ R2(ak, bk) = R2(a, b)
    /\ (NSSTot(a) > 0 => /\ Num(R2(a, b)) <= Den(R2(a, b))
                         /\ R2(a, a) = << NSSTot(a), NSSTot(a) >>
                         (* predicting the mean everywhere gives R^2 = 0 (n b_i = SUM a) *)
                         /\ ((\A i \in Idx(b) : n * b[i] = SumSeq(a)) => Num(R2(a, b)) = 0))

(* clustering: purity criteria are dual under swap and hold for a single class / cluster;
   on the dyadic family the exact values lie in [0,1], are 1 exactly when the purity
   criterion holds, swap under exchange, and v is a mean of h and c *)
HcvOK == (kind = "hcv") =>
    LET CA == Range(a)
        CB == Range(b)
        t  == Table(a, b)
        ts == Table(b, a)
        rs == RowSum(t, CA, CB)
        cs == ColSum(t, CA, CB)
    IN
    (* the per-label formulation of "injective relabelling" is the pairwise one *)
    /\ (SameByRelabelling(a, b) <=> \A i, j \in Idx(a) : (a[i] = a[j]) <=> (b[i] = b[j]))
    /\ PureClusters(t, CA, CB) = PureClasses(ts, CB, CA)
    /\ (Cardinality(CA) = 1 => PureClusters(t, CA, CB))
    /\ (Cardinality(CB) = 1 => PureClasses(t, CA, CB))
    /\ (a = b => PureClusters(t, CA, CB) /\ PureClasses(t, CA, CB))
    /\ SumSet(CA, rs) = n /\ SumSet(CB, cs) = n
    /\ IsDyadic(t, rs, cs, CA, CB, n) =>
          LET h == DyadicH(t, rs, cs, CA, CB, n)
              c == DyadicC(t, rs, cs, CA, CB, n)
              v == HarmonicV(h, c)
          IN  /\ Den(h) > 0 /\ Num(h) >= 0 /\ Num(h) <= Den(h)
              /\ Den(c) > 0 /\ Num(c) >= 0 /\ Num(c) <= Den(c)
              /\ (Num(h) = Den(h)) <=> PureClusters(t, CA, CB)
              /\ (Num(c) = Den(c)) <=> PureClasses(t, CA, CB)
              /\ RatEq(h, DyadicC(ts, cs, rs, CB, CA, n))
              /\ Den(v) > 0
              /\ (Le(h, v) /\ Le(v, c)) \/ (Le(c, v) /\ Le(v, h))
=============================================================================
