------------------------------ MODULE AucModel ------------------------------
(***************************************************************************)
(* Design model (A) of AUC::get_score (src/metrics/auc.rs): the rank-sum   *)
(* (Mann-Whitney) algorithm with mid-ranks for ties.                       *)
(*                                                                         *)
(*   pc = "count"  pos / neg are counted                                   *)
(*   pc = "sort"   y_pred is sorted ascending, label_idx is the sorting    *)
(*                 permutation.  The sort (quick_argsort_mut) is not       *)
(*                 stable, so ANY permutation that sorts is admitted: the  *)
(*                 model is nondeterministic here and TLC explores every   *)
(*                 order of tied scores.                                   *)
(*   pc = "rank"   the while loop over i, one action per iteration:        *)
(*                 RankSingle  (i = n-1 or y[i] # y[i+1]):  rank[i] = i+1  *)
(*                 RankTie     scan j to the end of the run of equal       *)
(*                             scores, rank[i..j-1] = (i+1+j)/2, i = j-1   *)
(*                 (indices 0-based as in the code; ranks are kept DOUBLED *)
(*                 so that mid-ranks stay integers)                        *)
(*   pc = "sum"    auc = sum of the ranks at the positions holding a       *)
(*                 positive label                                          *)
(*   pc = "done"   (auc - pos (pos+1) / 2) / (pos neg)                     *)
(*                                                                         *)
(* Checked in every terminal state: the result equals the property's       *)
(* pair-counting definition Metrics!AUC exactly (as rationals), whatever   *)
(* order the sort leaves tied scores in.  RankInv is the loop invariant.   *)
(* Inputs: every label vector with both classes and every score vector     *)
(* over 0..MaxScore of length 2..MaxN.  Every input prints a REPLAY line   *)
(* (spec -> impl) with the input and the expected rational.                *)
(***************************************************************************)
EXTENDS Metrics, TLC, Json

CONSTANTS MaxN, MaxScore

VARIABLES a, s,            \* input: labels, scores (1-based sequences)
          pc, pos, neg,
          y, idx,          \* sorted scores and the permutation (0-based positions as in the code)
          i, rank2,        \* loop counter (0-based) and doubled ranks
          auc2             \* doubled rank sum of the positives
vars == <<a, s, pc, pos, neg, y, idx, i, rank2, auc2>>

n == Len(a)

Init == /\ \E m \in 2..MaxN : a \in [1..m -> {0, 1}] /\ s \in [1..m -> 0..MaxScore]
        /\ Pos(a) # {} /\ Neg(a) # {}
        /\ pc = "count" /\ pos = 0 /\ neg = 0 /\ y = <<>> /\ idx = <<>>
        /\ i = 0 /\ rank2 = <<>> /\ auc2 = 0

Count == /\ pc = "count"
         /\ pos' = Cardinality(Pos(a)) /\ neg' = Cardinality(Neg(a))
         /\ pc' = "sort"
         /\ UNCHANGED <<a, s, y, idx, i, rank2, auc2>>

(* the set of permutations f of 1..n (as sequences) with s o f non-decreasing: repeatedly
   take any of the remaining positions holding the smallest remaining score *)
RECURSIVE SortingPerms(_)
SortingPerms(R) ==
    IF R = {} THEN { <<>> }
    ELSE LET C == { p \in R : \A q \in R : s[p] <= s[q] }
         IN  UNION { { <<p>> \o t : t \in SortingPerms(R \ {p}) } : p \in C }
Sort == /\ pc = "sort"
        /\ \E f \in SortingPerms(1..n) :
              /\ y' = [p \in 1..n |-> s[f[p]]]
              /\ idx' = [p \in 1..n |-> f[p] - 1]
        /\ rank2' = [p \in 1..n |-> 0] /\ i' = 0
        /\ pc' = "rank"
        /\ UNCHANGED <<a, s, pos, neg, auc2>>

(* y[k] of the code (0-based k) is y[k+1] here.  `i == n - 1 || y[i] != y[i + 1]`, written
   with IF because TLC explores both sides of a disjunction inside an action *)
LastOfRun == IF i = n - 1 THEN TRUE ELSE y[i + 1] # y[i + 2]
RankSingle == /\ pc = "rank" /\ i < n
              /\ LastOfRun
              /\ rank2' = [rank2 EXCEPT ![i + 1] = 2 * (i + 1)]
              /\ i' = i + 1
              /\ UNCHANGED <<a, s, pc, pos, neg, y, idx, auc2>>

RankTie == /\ pc = "rank" /\ i < n
           /\ ~LastOfRun
           /\ LET RECURSIVE scan(_)
                  scan(j) == IF j < n /\ y[j + 1] = y[i + 1] THEN scan(j + 1) ELSE j
                  j == scan(i + 1)
              IN  /\ rank2' = [p \in 1..n |-> IF p - 1 >= i /\ p - 1 < j THEN i + 1 + j ELSE rank2[p]]
                  /\ i' = (j - 1) + 1
           /\ UNCHANGED <<a, s, pc, pos, neg, y, idx, auc2>>

RankEnd == /\ pc = "rank" /\ i >= n
           /\ pc' = "sum"
           /\ UNCHANGED <<a, s, pos, neg, y, idx, i, rank2, auc2>>

Sum == /\ pc = "sum"
       /\ auc2' = SumSeq([p \in 1..n |-> IF a[idx[p] + 1] = 1 THEN rank2[p] ELSE 0])
       /\ pc' = "done"
       /\ UNCHANGED <<a, s, pos, neg, y, idx, i, rank2>>

Next == Count \/ Sort \/ RankSingle \/ RankTie \/ RankEnd \/ Sum
Spec == Init /\ [][Next]_vars

(* (auc - pos (pos + 1) / 2) / (pos neg), numerator and denominator doubled *)
Result == << auc2 - pos * (pos + 1), 2 * pos * neg >>

Done == pc = "done"
(* loop invariant: the positions already passed carry the mid-rank of their score:
   twice the mid-rank of a value = (#smaller) + (#smaller-or-equal) + 1 *)
MinI == IF i <= n THEN i ELSE n
RankInv == (pc \in {"rank", "sum", "done"}) =>
    \A p \in 1..MinI :
        rank2[p] = Cardinality({ q \in 1..n : y[q] < y[p] }) + Cardinality({ q \in 1..n : y[q] <= y[p] }) + 1
ModelSatisfiesProperty == Done => /\ Den(AUC(a, s)) > 0
                                  /\ RatEq(Result, AUC(a, s))
(* one line per INPUT (the state after Count is unique per input) *)
EmitReplay == (pc = "sort") =>
    PrintT(<<"REPLAY", ToJson([kind |-> "auc", a |-> a, b |-> s,
                               num |-> Num(AUC(a, s)), den |-> Den(AUC(a, s))])>>)
=============================================================================
