--------------------------- MODULE DistancesMahaMC ---------------------------
(***************************************************************************)
(* C17 design model (A) for the Mahalanobis distance, shaped like          *)
(* src/math/distance/mahalanobis.rs:                                       *)
(*                                                                         *)
(*   new_from_covariance:  sigmaInv = sigma.lu().inverse()    (Init)       *)
(*   distance:  if x.len() != nrows || y.len() != nrows { panic }  Check   *)
(*              z[i] = x[i] - y[i]                                 Diff    *)
(*              for j in 0..n { for i in 0..n {                            *)
(*                  s += sigmaInv[i][j] * z[i] * z[j] } }          Quad    *)
(*              s.sqrt()                                           Root    *)
(*                                                                         *)
(* The inverse is kept exactly as adj(Sigma) / det(Sigma): the accumulator *)
(* holds the numerator over the common denominator det.  (The floating     *)
(* LU factorisation itself is the subject of C01, not of this model.)      *)
(* Initial states: every symmetric positive-definite integer 2x2 Sigma     *)
(* with entries bounded by MaxE (and, when With3, a family of 3x3), and    *)
(* every triple of vectors over Vals.  In every terminal state the five    *)
(* results must satisfy MahaFirstFail of module Distances -- closed form   *)
(* z^T adj z / det, non-negativity, zero on equal arguments, symmetry,     *)
(* triangle inequality in fixed point, identity covariance = Euclidean --  *)
(* the predicate that also validates the recorded outputs of the real code.*)
(***************************************************************************)
EXTENDS Distances, TLC

CONSTANTS MaxE,     \* bound on |entries| of Sigma
          Vals,     \* component values of the vectors
          With3     \* include the 3x3 family

V11 == -1..1
V22 == -2..2

S == 10      \* fixed-point scale of the root
T == 8       \* scale of the squared distance

VARIABLES sig, x, y, z, ci, pc, d, j, i, acc, res
vars == <<sig, x, y, z, ci, pc, d, j, i, acc, res>>

Sym2 == { << <<a, b>>, <<b, c>> >> : a \in 1..MaxE, b \in (-MaxE)..MaxE, c \in 1..MaxE }
(* 3x3: B B^T for unit lower triangular B with sub-diagonal entries in -1..1, times a diagonal *)
LowerB == { << <<1, 0, 0>>, <<a, 1, 0>>, <<b, c, 1>> >> : a \in -1..1, b \in -1..1, c \in -1..1 }
BBt(Bm) == [r \in 1..3 |-> [c \in 1..3 |-> SumUpTo([k \in 1..3 |-> Bm[r][k] * Bm[c][k]], 3)]]
Sym3 == { BBt(Bm) : Bm \in LowerB }
Sigmas == { M \in Sym2 : IsSPD(M) } \cup (IF With3 THEN Sym3 ELSE {})

Calls == << <<x, y>>, <<y, x>>, <<x, x>>, <<y, z>>, <<x, z>> >>
A == Calls[ci][1]
B == Calls[ci][2]
n == Order(sig)

Init == /\ sig \in Sigmas
        /\ LET VV == IF Order(sig) = 3 THEN {-1, 1} ELSE Vals     \* 3x3: corners only (8^3 triples)
           IN  x \in [1..Order(sig) -> VV] /\ y \in [1..Order(sig) -> VV] /\ z \in [1..Order(sig) -> VV]
        /\ ci = 1 /\ pc = "check" /\ d = <<>> /\ j = 1 /\ i = 1 /\ acc = 0 /\ res = <<>>

Check == /\ pc = "check"
         /\ pc' = IF Len(A) # n \/ Len(B) # n THEN "panic" ELSE "diff"
         /\ UNCHANGED <<sig, x, y, z, ci, d, j, i, acc, res>>

Diff == /\ pc = "diff"
        /\ d' = [k \in 1..n |-> A[k] - B[k]]
        /\ j' = 1 /\ i' = 1 /\ acc' = 0 /\ pc' = "quad"
        /\ UNCHANGED <<sig, x, y, z, ci, res>>

(* one iteration of the inner loop; acc is the numerator over det(sig) *)
QuadStep ==
    /\ pc = "quad"
    /\ IF j <= n
       THEN IF i <= n
            THEN /\ acc' = acc + Adj(sig)[i][j] * d[i] * d[j]
                 /\ i' = i + 1 /\ UNCHANGED <<j, pc>>
            ELSE i' = 1 /\ j' = j + 1 /\ UNCHANGED <<acc, pc>>
       ELSE pc' = "root" /\ UNCHANGED <<i, j, acc>>
    /\ UNCHANGED <<sig, x, y, z, ci, d, res>>

Result(num) ==   \* d^2 = num / det
    LET de == Det(sig)
    IN  [ok |-> TRUE, sgn |-> IF num = 0 THEN 0 ELSE IF num > 0 THEN 1 ELSE -1,
         pw |-> (num * Pow2(T)) \div de,
         fx |-> FloorRoot((num * Pow2(2 * S)) \div de, 2),
         bits |-> <<num>>]

Root == /\ pc = "root"
        /\ res' = Append(res, Result(acc))
        /\ IF ci < 5 THEN ci' = ci + 1 /\ pc' = "check" ELSE ci' = ci /\ pc' = "done"
        /\ UNCHANGED <<sig, x, y, z, d, j, i, acc>>

Next == Check \/ Diff \/ QuadStep \/ Root
Spec == Init /\ [][Next]_vars

ModelEvent ==
    [mode |-> "cov", mat |-> sig, prec |-> 52, e |-> 0, S |-> S, T |-> T, x |-> x, y |-> y, z |-> z,
     status |-> "ok", xy |-> res[1], yx |-> res[2], xx |-> res[3], yz |-> res[4], xz |-> res[5],
     alt |-> [kind |-> "euc", ok |-> TRUE, fx |-> FloorRoot(PowSum(x, y, 2) * Pow2(2 * S), 2)]]

ModelSatisfiesProperty == pc = "done" => MahaFirstFail(ModelEvent) = ""
NeverPanicsOnMatchingLengths == pc # "panic"
QuadIsClosedForm == pc = "root" => acc = Quad(Adj(sig), d)
=============================================================================
