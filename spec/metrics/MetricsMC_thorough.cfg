CONSTANTS MaxBin = 6  MaxAuc = 6  MaxReg = 4  MaxHcv = 5
SPECIFICATION Spec
INVARIANT BinOK
INVARIANT AucOK
INVARIANT RegOK
INVARIANT HcvOK
CHECK_DEADLOCK FALSE
