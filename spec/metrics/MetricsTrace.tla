----------------------------- MODULE MetricsTrace -----------------------------
(***************************************************************************)
(* C15 trace validation (impl -> spec).  Consumes the ndjson file recorded *)
(* by the harness crate c15 from the real smartcore::metrics functions on  *)
(* f64 and f32 Vec vectors and on owned ndarray vectors with a negative    *)
(* stride (ty "nd64"), one independent event per step, and evaluates the  *)
(* definitions of Metrics.tla on each.  Never blocks: a failing event      *)
(* prints <<"BAD", line, run, ev, clause>> and is counted.                 *)
(*                                                                         *)
(* Metric event: name, a, b (integers: labels; targets in units of 1/U;    *)
(*   dense ranks of the scores for AUC), b1/b2 (beta), S, e and off (the   *)
(*   library was fed (a/U + off) * 2^e; see Metrics.tla), fam (for AUC:    *)
(*   how the real scores were made from small integers k -- "scaled":      *)
(*   k * 2^e, "nextafter": 2^e + k ulps; b holds their dense ranks, which  *)
(*   is all the order-only definition of AUC needs), status in             *)
(*   {ok, panic}, fin (finite and in range), out = round(v * 2^S).         *)
(*   Decision table, first matching row:                                   *)
(*     lengths differ, pairwise metric     must be "panic"   (LengthMismatch)*)
(*     lengths differ, auc                 statement silent                *)
(*     input outside the documented domain (non-binary labels for the      *)
(*       binary metrics)                   not generated; unconstrained    *)
(*     exact denominator 0                 statement silent (Unconstrained)*)
(*     otherwise   status "ok", fin, and Close(out, Expected) (Value)      *)
(* HCV event: see Metrics!HcvVerdict.                                      *)
(* ArgSort event: Metrics!IsArgSort; fam = "killer" marks the adversarial   *)
(*   orders (median-of-three killers, partition tree a chain ~n/2 deep) on *)
(*   which a sort with a bounded explicit stack must still return (a panic *)
(*   is status "panic" and is rejected: Returns:argsort / Returns:auc).    *)
(* Size ladder: every metric is also called at lengths 255..1024 around    *)
(*   the multiples of 256 (the statement speaks of every pair of equal-    *)
(*   length vectors); the rational definitions are evaluated at full size. *)
(* hits counts, per metric, the constrained evaluations, and separately    *)
(* the interesting input classes (ties in AUC scores, degenerate class     *)
(* balance, single-class labellings, dyadic tables) for the vacuity check. *)
(***************************************************************************)
EXTENDS Metrics, TLC, Json, IOUtils

Rec == ndJsonDeserialize(IOEnv.TRACE)

VARIABLES l, nbad, hits
vars == <<l, nbad, hits>>

Hit(h, name) == [h EXCEPT ![name] = @ + 1]
HitIf(h, cond, name) == IF cond THEN Hit(h, name) ELSE h
MetricNames == {"accuracy", "precision", "recall", "fbeta", "auc", "mse", "mae", "r2"}
HitNames == MetricNames \cup
            {"LengthMismatch", "Unconstrained", "AucTies", "AucConstant", "SinglePosOrNeg", "Scaled", "Offset", "AucScaled", "AucNeighbours", "AucCloserThanEps", "R2ScaledFar", "AucKiller", "ArgSortKiller",
             "LengthLadder", "BlockMultiple", "HcvLadder", "NdStrided", "HcvNdStrided", "Nalgebra", "AucExtreme", "LengthMismatchBackEnd", "LengthMismatchOneVsN",
             "Expect", "Drift", "HCV", "HcvSingleClass", "HcvPure", "HcvMixed", "HcvDyadic",
             "HcvDyadicMixed", "HcvIndependent", "HcvIdentical", "ArgSort", "ArgSortLong"}

Bad(e, clause) == PrintT(<<"BAD", l, e.run, e.ev, clause>>)

(* guard against 32-bit overflow when the recorded output is wildly wrong: a correct
   output satisfies |out| * den <= |num| * 2^S + slack < 2^30 + 2^28 by the harness' choice
   of S, so anything larger is simply not close *)
CloseSafe(o, r, S, relShift) ==
    /\ Abs(o) <= 1342177280 \div Den(r)
    /\ Close(o, r, S, relShift)

InDomain(e) ==
    IF e.name \in {"precision", "recall", "fbeta"} THEN IsBinary(e.a) /\ IsBinary(e.b)
    ELSE IF e.name = "auc" THEN IsBinary(e.a)
    ELSE TRUE

MetricClass(e, r) ==
    IF Len(e.a) # Len(e.b) THEN (IF e.name \in Pairwise THEN "LengthMismatch" ELSE "Unconstrained")
    ELSE IF ~InDomain(e) \/ Len(e.a) = 0 THEN "Unconstrained"
    ELSE IF Den(r) = 0 THEN "Unconstrained"
    ELSE e.name

MetricVerdict(e, r, class) ==
    IF class = "LengthMismatch" THEN (IF e.status = "panic" THEN "" ELSE "RejectsLengthMismatch")
    ELSE IF class = "Unconstrained" THEN ""
    ELSE IF e.status # "ok" THEN "Returns:" \o e.name
    ELSE IF ~e.fin THEN "Finite:" \o e.name
    ELSE IF ~CloseSafe(e.out, r, e.S, RelShift(e.name)) THEN "Value:" \o e.name
    ELSE ""

StepMetric(e) ==
    LET same  == Len(e.a) = Len(e.b)
        r     == IF same /\ InDomain(e) /\ Len(e.a) > 0
                 THEN Expected(e.name, e.a, e.b, e.b1, e.b2, e.U) ELSE <<0, 0>>
        class == MetricClass(e, r)
        v     == MetricVerdict(e, r, class)
        con   == class \in MetricNames
        h1 == Hit(hits, class)
        h2 == HitIf(h1, con /\ e.name = "auc" /\ Cardinality(Range(e.b)) < Len(e.b), "AucTies")
        h3 == HitIf(h2, con /\ e.name = "auc" /\ Cardinality(Range(e.b)) = 1 /\ Len(e.b) > 2, "AucConstant")
        h4 == HitIf(h3, con /\ e.name \in {"auc", "precision", "recall", "fbeta"} /\ Len(e.a) > 2 /\
                        (Cardinality(Pos(e.a)) = 1 \/ Cardinality(Neg(e.a)) = 1), "SinglePosOrNeg")
        h5 == HitIf(h4, con /\ e.e # 0, "Scaled")
        h5b == HitIf(h5, con /\ e.off # 0, "Offset")
        h5c == HitIf(h5b, con /\ e.name = "auc" /\ e.fam = "scaled", "AucScaled")
        h5d == HitIf(h5c, con /\ e.name = "auc" /\ e.fam = "nextafter", "AucNeighbours")
        (* distinct scores of a positive and a negative that lie within machine epsilon of each
           other in absolute terms (scaled by 2^e <= 2^-30, or neighbouring floats) *)
        h5e == HitIf(h5d, con /\ e.name = "auc" /\ (e.fam = "nextafter" \/ (e.fam = "scaled" /\ e.e < 0)) /\
                          (\E p \in Pos(e.a), q \in Neg(e.a) : e.b[p] # e.b[q]), "AucCloserThanEps")
        h5f == HitIf(h5e, con /\ e.name = "r2" /\ Abs(e.e) >= 40, "R2ScaledFar")
        h5g == HitIf(h5f, con /\ e.name = "auc" /\ e.fam = "killer", "AucKiller")
        (* size ladder: lengths around and at multiples of 256 *)
        h5h == HitIf(h5g, con /\ Len(e.a) >= 255, "LengthLadder")
        h5i == HitIf(h5h, con /\ Len(e.a) >= 256 /\ Len(e.a) % 256 = 0, "BlockMultiple")
        h5j == HitIf(h5i, con /\ e.ty = "nd64", "NdStrided")
        h5k == HitIf(h5j, con /\ e.ty = "na64", "Nalgebra")
        (* top or bottom tie group at +-T::MAX / +-infinity, holding both a positive and a
           negative or at least two items *)
        h5l == HitIf(h5k, con /\ e.name = "auc" /\ e.fam = "extreme", "AucExtreme")
        h5m == HitIf(h5l, class = "LengthMismatch" /\ e.ty \in {"nd64", "na64"}, "LengthMismatchBackEnd")
        h5n == HitIf(h5m, class = "LengthMismatch" /\ (Len(e.a) = 1 \/ Len(e.b) = 1), "LengthMismatchOneVsN")
        h6 == HitIf(h5n, e.hasExpect, "Expect")
        (* the design model's rational differs from the definition's: cannot happen unless
           the replay file is stale; counted as drift *)
        h7 == HitIf(h6, e.hasExpect /\ con /\ ~RatEq(<<e.xnum, e.xden>>, r), "Drift")
    IN  /\ hits' = h7
        /\ IF v = "" THEN nbad' = nbad ELSE Bad(e, v) /\ nbad' = nbad + 1

StepHcv(e) ==
    LET wf == /\ Len(e.a) = Len(e.b) /\ Len(e.a) >= 1
              /\ SameByRelabelling(e.a, e.a2) /\ SameByRelabelling(e.b, e.b2)
        CA == Range(e.a)
        CB == Range(e.b)
        t  == IF wf THEN Table(e.a, e.b) ELSE <<>>
        v  == IF ~wf THEN "malformed input"
              ELSE IF e.status # "ok" THEN "Returns:hcv"
              ELSE HcvClause1(e.a, e.b, t, CA, CB, e.m, e.sw, e.rl)
        pure == wf /\ (PureClusters(t, CA, CB) \/ PureClasses(t, CA, CB))
        dy == wf /\ IsDyadic(t, RowSum(t, CA, CB), ColSum(t, CA, CB), CA, CB, Len(e.a))
        h1 == Hit(hits, "HCV")
        h2 == HitIf(h1, wf /\ (Cardinality(CA) = 1 \/ Cardinality(CB) = 1), "HcvSingleClass")
        h3 == HitIf(h2, pure, "HcvPure")
        h4 == HitIf(h3, wf /\ ~PureClusters(t, CA, CB) /\ ~PureClasses(t, CA, CB), "HcvMixed")
        h5 == HitIf(h4, dy, "HcvDyadic")
        h6 == HitIf(h5, dy /\ ~pure, "HcvDyadicMixed")
        (* exactly independent labellings: n * n_xy = a_x * b_y everywhere, >= 2 classes and clusters *)
        h7 == HitIf(h6, wf /\ Cardinality(CA) > 1 /\ Cardinality(CB) > 1 /\
                        (\A x \in CA, y \in CB :
                            Len(e.a) * t[<<x, y>>] = RowSum(t, CA, CB)[x] * ColSum(t, CA, CB)[y]), "HcvIndependent")
        h8 == HitIf(h7, wf /\ SameByRelabelling(e.a, e.b) /\ Cardinality(CA) > 1, "HcvIdentical")
        h9 == HitIf(h8, wf /\ Len(e.a) >= 255, "HcvLadder")
        h10 == HitIf(h9, wf /\ e.ty = "nd64", "HcvNdStrided")
    IN  /\ hits' = h10
        /\ IF v = "" THEN nbad' = nbad ELSE Bad(e, v) /\ nbad' = nbad + 1

StepArgSort(e) ==
    LET v == IF e.status # "ok" THEN "Returns:argsort"
             ELSE IF ~IsArgSort(e.x, e.sorted, e.index) THEN "IsArgSort" ELSE ""
    IN  /\ hits' = HitIf(HitIf(Hit(hits, "ArgSort"), Len(e.x) >= 8, "ArgSortLong"), e.fam = "killer", "ArgSortKiller")
        /\ IF v = "" THEN nbad' = nbad ELSE Bad(e, v) /\ nbad' = nbad + 1

Step ==
    LET e == Rec[l] IN
    /\ l <= Len(Rec)
    /\ l' = l + 1
    /\ CASE e.ev = "Metric" /\ e.name \in MetricNames -> StepMetric(e)
         [] e.ev = "HCV" -> StepHcv(e)
         [] e.ev = "ArgSort" -> StepArgSort(e)
         [] OTHER -> Bad(e, "unknown event") /\ nbad' = nbad + 1 /\ UNCHANGED hits

Init == l = 1 /\ nbad = 0 /\ hits = [x \in HitNames |-> 0]
Next == Step
Spec == Init /\ [][Next]_vars

AtEnd == (l = Len(Rec) + 1) =>
            PrintT(<<"VERDICT", ToJson([consumed |-> l - 1, bad |-> nbad, hits |-> hits])>>)
=============================================================================
