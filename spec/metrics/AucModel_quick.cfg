CONSTANTS MaxN = 4  MaxScore = 2
SPECIFICATION Spec
INVARIANT RankInv
INVARIANT ModelSatisfiesProperty
INVARIANT EmitReplay
CHECK_DEADLOCK FALSE
