------------------------------- MODULE Metrics -------------------------------
(***************************************************************************)
(* C15: evaluation metrics equal their textbook definitions.               *)
(*                                                                         *)
(* Every metric is defined here as an EXACT RATIONAL <<num, den>> of the   *)
(* integer-valued inputs (labels, integer targets in units of 1/U, dense   *)
(* ranks of scores), straight from the statement:                          *)
(*   accuracy   fraction of equal entries                                  *)
(*   precision, recall, F-beta   from the binary confusion counts          *)
(*   ROC-AUC    probability that a random positive is scored above a       *)
(*              random negative, ties counted one half (pair counting)     *)
(*   MSE, MAE, R^2   from the residuals                                    *)
(*   homogeneity, completeness, V-measure: from the entropies of the       *)
(*              contingency table -- TLA+ has no logarithm, so the spec    *)
(*              states what follows WITHOUT one: the combinatorial          *)
(*              characterisation of "conditional entropy zero", the range, *)
(*              swap symmetry, relabelling invariance, the harmonic-mean   *)
(*              identity, and the exact values on the DYADIC family        *)
(*              (all cells and marginals powers of two, where every        *)
(*              logarithm is an integer).                                  *)
(* A denominator of zero means the statement is silent (no predicted       *)
(* positive, a missing class, constant truth, no true positive for         *)
(* F-beta): such inputs are unconstrained.                                 *)
(*                                                                         *)
(* An observed floating-point result v is recorded as o = round(v * 2^S)   *)
(* (S <= 16 chosen by the harness from the input magnitudes so that no     *)
(* product below leaves 32 bits) and accepted by Close iff it is within    *)
(* one unit of 2^-S (half a unit of quantisation, half a unit of slack)    *)
(* of the exact rational, plus a relative slack of 2^-20 (2^-9 for R^2,    *)
(* whose single-precision evaluation subtracts nearly equal numbers).      *)
(* Finer numerical accuracy is not decided by this technique.              *)
(*                                                                         *)
(* MetricsMC.tla model-checks the algebra of this module on all small      *)
(* inputs; AucModel.tla is a design model of the rank-sum algorithm the    *)
(* code uses for AUC, checked against the pair-counting definition below;  *)
(* MetricsTrace.tla evaluates the same operators on recorded calls.        *)
(***************************************************************************)
EXTENDS Naturals, Integers, Sequences, FiniteSets

Abs(x) == IF x < 0 THEN 0 - x ELSE x
RECURSIVE Pow2(_)
Pow2(k) == IF k <= 0 THEN 1 ELSE 2 * Pow2(k - 1)
Range(s) == { s[i] : i \in DOMAIN s }
Idx(a) == 1..Len(a)
Num(r) == r[1]
Den(r) == r[2]

RECURSIVE SumTo(_, _)          \* f[1] + ... + f[n]
SumTo(f, n) == IF n = 0 THEN 0 ELSE f[n] + SumTo(f, n - 1)
SumSeq(f) == SumTo(f, Len(f))
RECURSIVE SumSet(_, _)         \* SUM_{x \in S} f[x]
SumSet(S, f) == IF S = {} THEN 0 ELSE LET x == CHOOSE y \in S : TRUE IN f[x] + SumSet(S \ {x}, f)

(***************************************************************************)
(* classification                                                          *)
(***************************************************************************)
Accuracy(a, b) == << Cardinality({ i \in Idx(a) : a[i] = b[i] }), Len(a) >>

(* binary confusion counts, positive class = 1 *)
TP(a, b) == Cardinality({ i \in Idx(a) : a[i] = 1 /\ b[i] = 1 })
FP(a, b) == Cardinality({ i \in Idx(a) : a[i] = 0 /\ b[i] = 1 })
FN(a, b) == Cardinality({ i \in Idx(a) : a[i] = 1 /\ b[i] = 0 })
TN(a, b) == Cardinality({ i \in Idx(a) : a[i] = 0 /\ b[i] = 0 })
IsBinary(a) == \A i \in Idx(a) : a[i] \in {0, 1}

Precision(a, b) == << TP(a, b), TP(a, b) + FP(a, b) >>
Recall(a, b)    == << TP(a, b), TP(a, b) + FN(a, b) >>
(* F_beta = (1+beta^2) P R / (beta^2 P + R) = (1+beta^2) TP / ((1+beta^2) TP + beta^2 FN + FP)
   with beta = b1 / b2.  Defined (as a function of P and R) only when P and R are and
   P + R > 0, i.e. TP > 0; FBetaCounts is the count form, FBetaPR the form over P and R --
   MetricsMC checks that they agree. *)
FBetaCounts(tp, fp, fn, b1, b2) ==
    << (b1 * b1 + b2 * b2) * tp, (b1 * b1 + b2 * b2) * tp + b1 * b1 * fn + b2 * b2 * fp >>
FBeta(a, b, b1, b2) == IF TP(a, b) = 0 THEN <<0, 0>>
                       ELSE FBetaCounts(TP(a, b), FP(a, b), FN(a, b), b1, b2)
FBetaPR(p, r, b1, b2) ==   \* p, r rationals
    << (b1 * b1 + b2 * b2) * Num(p) * Num(r),
       b1 * b1 * Num(p) * Den(r) + b2 * b2 * Num(r) * Den(p) >>

(* ROC-AUC by pair counting; s = scores (any integers preserving the order of the real
   scores, e.g. dense ranks).  Doubled so that a tie counts 1.  The definition uses the
   ORDER of the scores only (two scores tie iff they are equal), so it is invariant under
   every strictly increasing map (MetricsMC!AucOK); the harness therefore also feeds scores
   far from unit scale -- k * 2^e with e = -70..40, and neighbouring floats 2^e + k ulps --
   whose distinct values lie closer together than machine epsilon, and records their dense
   ranks: an implementation that ties "nearly equal" scores is wrong there by O(1).  For
   the same reason the top / bottom tie groups are also placed at +-T::MAX and +-infinity
   (family "extreme"): no finite or infinite score value is special to the definition. *)
Pos(a) == { i \in Idx(a) : a[i] = 1 }
Neg(a) == { i \in Idx(a) : a[i] = 0 }
AUC(a, s) ==
    LET P == Pos(a)
        N == Neg(a)
        gt == Cardinality({ pr \in P \X N : s[pr[1]] > s[pr[2]] })
        eq == Cardinality({ pr \in P \X N : s[pr[1]] = s[pr[2]] })
    IN  << 2 * gt + eq, 2 * Cardinality(P) * Cardinality(N) >>

(***************************************************************************)
(* regression; a, b hold the targets in units of 1/U.                      *)
(* MSE, MAE and R^2 depend on the residuals a - b and on the deviations of *)
(* a from its mean only, so they are invariant under a common shift of     *)
(* both vectors (MetricsMC!RegOK checks this on the definitions below).    *)
(* "Real targets of any scale" are therefore covered by two exact input    *)
(* transformations applied by the harness: multiplication by 2^e, and the  *)
(* OFFSET family y = a/U + off with a large exactly representable integer  *)
(* off (2^30, 1e9 for f64; 2^15, 5e4 for f32): the event records the small *)
(* integers a, b and off separately and the rationals are evaluated on     *)
(* a, b.  An implementation that is only right for targets near zero (for  *)
(* instance a one-pass  SUM y^2 - mean SUM y  for SS_tot) is wrong there   *)
(* by O(1), far outside the fixed-point tolerance.                         *)
(***************************************************************************)
Diff(a, b) == [i \in Idx(a) |-> a[i] - b[i]]
SqSeq(d)   == [i \in DOMAIN d |-> d[i] * d[i]]
AbsSeq(d)  == [i \in DOMAIN d |-> Abs(d[i])]
MSE(a, b, U) == << SumSeq(SqSeq(Diff(a, b))), Len(a) * U * U >>
MAE(a, b, U) == << SumSeq(AbsSeq(Diff(a, b))), Len(a) * U >>
(* R^2 = 1 - SS_res / SS_tot with SS_tot = SUM (y - mean)^2 = (n SUM y^2 - (SUM y)^2) / n;
   the unit U cancels *)
NSSTot(a) == Len(a) * SumSeq(SqSeq(a)) - SumSeq(a) * SumSeq(a)          \* n * SS_tot
R2(a, b) == << NSSTot(a) - Len(a) * SumSeq(SqSeq(Diff(a, b))), NSSTot(a) >>

(***************************************************************************)
(* fixed-point acceptance                                                  *)
(***************************************************************************)
Close(o, r, S, relShift) ==
    Abs(o * Den(r) - Num(r) * Pow2(S)) <= Den(r) + (Abs(o) \div Pow2(relShift)) * Den(r)
RatEq(r, q) == Num(r) * Den(q) = Num(q) * Den(r)

(* the metric `name` on (a, b): <<num, den>>, den = 0 where the statement is silent *)
Expected(name, a, b, b1, b2, U) ==
    CASE name = "accuracy"  -> Accuracy(a, b)
      [] name = "precision" -> Precision(a, b)
      [] name = "recall"    -> Recall(a, b)
      [] name = "fbeta"     -> FBeta(a, b, b1, b2)
      [] name = "auc"       -> AUC(a, b)
      [] name = "mse"       -> MSE(a, b, U)
      [] name = "mae"       -> MAE(a, b, U)
      [] name = "r2"        -> R2(a, b)
RelShift(name) == IF name = "r2" THEN 9 ELSE 20
(* the metrics that compare entries pairwise reject vectors of different length *)
Pairwise == {"accuracy", "precision", "recall", "fbeta", "mse", "mae", "r2"}

(***************************************************************************)
(* argsort (src/algorithm/sort/quick_sort.rs, used by AUC): the returned   *)
(* index vector is a permutation of 0..n-1, the vector is left sorted, and *)
(* position i of the result holds the element the index points to          *)
(***************************************************************************)
IsArgSort(x, sorted, index) ==
    /\ Len(sorted) = Len(x) /\ Len(index) = Len(x)
    /\ Range(index) = 0..(Len(x) - 1)
    /\ \A i \in Idx(x) : sorted[i] = x[index[i] + 1]
    /\ \A i \in 1..(Len(x) - 1) : sorted[i] <= sorted[i + 1]

(***************************************************************************)
(* clustering: homogeneity h, completeness c, V-measure v of a class       *)
(* labelling a and a cluster labelling b                                   *)
(***************************************************************************)
(* contingency table as a function on Classes \X Clusters *)
Table(a, b) == [ pr \in Range(a) \X Range(b) |->
                   Cardinality({ i \in Idx(a) : a[i] = pr[1] /\ b[i] = pr[2] }) ]
RowSum(tab, CA, CB) == [x \in CA |-> SumSet(CB, [y \in CB |-> tab[<<x, y>>]])]
ColSum(tab, CA, CB) == [y \in CB |-> SumSet(CA, [x \in CA |-> tab[<<x, y>>]])]

(* H(C|K) = 0  <=>  every cluster lies inside one class;  H(K|C) = 0 dually.  In
   particular H(C|K) = 0 when there is a single class. *)
PureClusters(tab, CA, CB) == \A y \in CB : Cardinality({ x \in CA : tab[<<x, y>>] > 0 }) = 1
PureClasses(tab, CA, CB)  == \A x \in CA : Cardinality({ y \in CB : tab[<<x, y>>] > 0 }) = 1

(* a2 is an injective relabelling of a: a[i] = a[j] <=> a2[i] = a2[j] for all i, j.  Stated
   per label value (O(n * #labels), the lengths go up to 1024): every label of a is sent to
   exactly one label of a2, and no two labels are merged. *)
SameByRelabelling(a, a2) ==
    /\ Len(a) = Len(a2)
    /\ \A x \in Range(a) : Cardinality({ a2[i] : i \in { k \in Idx(a) : a[k] = x } }) = 1
    /\ Cardinality(Range(a2)) = Cardinality(Range(a))

(* dyadic family *)
RECURSIVE IsPow2(_)
IsPow2(k) == k = 1 \/ (k > 1 /\ k % 2 = 0 /\ IsPow2(k \div 2))
RECURSIVE Log2(_)
Log2(k) == IF k <= 1 THEN 0 ELSE 1 + Log2(k \div 2)
IsDyadic(tab, rs, cs, CA, CB, n) ==
    /\ IsPow2(n)
    /\ \A x \in CA : IsPow2(rs[x])
    /\ \A y \in CB : IsPow2(cs[y])
    /\ \A x \in CA, y \in CB : tab[<<x, y>>] = 0 \/ IsPow2(tab[<<x, y>>])
(* n * H(C) and n * H(C|K) in bits, integers on the dyadic family *)
NEntropy(ms, M, n) == SumSet(M, [x \in M |-> ms[x] * (Log2(n) - Log2(ms[x]))])
NCondEntropyCK(tab, cs, CA, CB) ==      \* n * H(C|K) = SUM n_xy (log b_y - log n_xy)
    SumSet(CA \X CB, [pr \in CA \X CB |->
        IF tab[pr] = 0 THEN 0 ELSE tab[pr] * (Log2(cs[pr[2]]) - Log2(tab[pr]))])
NCondEntropyKC(tab, rs, CA, CB) ==      \* n * H(K|C) = SUM n_xy (log a_x - log n_xy)
    SumSet(CA \X CB, [pr \in CA \X CB |->
        IF tab[pr] = 0 THEN 0 ELSE tab[pr] * (Log2(rs[pr[1]]) - Log2(tab[pr]))])
(* h = 1 - H(C|K)/H(C)  (1 when H(C) = 0);  c = 1 - H(K|C)/H(K)  (1 when H(K) = 0) *)
DyadicH(tab, rs, cs, CA, CB, n) ==
    LET hc == NEntropy(rs, CA, n)
    IN  IF hc = 0 THEN <<1, 1>> ELSE << hc - NCondEntropyCK(tab, cs, CA, CB), hc >>
DyadicC(tab, rs, cs, CA, CB, n) ==
    LET hk == NEntropy(cs, CB, n)
    IN  IF hk = 0 THEN <<1, 1>> ELSE << hk - NCondEntropyKC(tab, rs, CA, CB), hk >>
(* v = 2 h c / (h + c), 0 when h + c = 0 *)
HarmonicV(h, c) ==
    IF Num(h) * Den(c) + Num(c) * Den(h) = 0 THEN <<0, 1>>
    ELSE << 2 * Num(h) * Num(c), Num(h) * Den(c) + Num(c) * Den(h) >>

ONE16 == 65536
InUnit(o) == o >= 0 /\ o <= ONE16
Near(o, q) == Abs(o - q) <= 1

(***************************************************************************)
(* HCV verdict for one recorded triple of calls                            *)
(*   m  = hcv(a, b), sw = hcv(b, a), rl = hcv(a2, b2) with (a2, b2) an     *)
(*   injective relabelling of (a, b).  Each result: h, c, v (S = 16),      *)
(*   h12, c12, v12 (S = 12), hFin, cFin, vFin (finite?).                   *)
(* Returns "" or the first failing clause.  A non-finite homogeneity on a  *)
(* single-class labels_true (completeness on a single-cluster labels_pred) *)
(* is tagged: that is the defect already recorded in known_findings.       *)
(***************************************************************************)
HcvClause(a, b, tab, rs, cs, CA, CB, m, sw, rl) ==
    LET n == Len(a)
        pureK == PureClusters(tab, CA, CB)
        pureC == PureClasses(tab, CA, CB)
    IN
    IF pureK /\ ~(m.hFin /\ Near(m.h, ONE16))
    THEN (IF ~m.hFin /\ Cardinality(CA) = 1 THEN "HomogeneityOne@single-class:nonfinite" ELSE "HomogeneityOne")
    ELSE IF pureC /\ ~(m.cFin /\ Near(m.c, ONE16))
    THEN (IF ~m.cFin /\ Cardinality(CB) = 1 THEN "CompletenessOne@single-cluster:nonfinite" ELSE "CompletenessOne")
    ELSE IF ~(m.hFin /\ m.cFin /\ m.vFin /\ InUnit(m.h) /\ InUnit(m.c) /\ InUnit(m.v)) THEN "UnitInterval"
    (* conditional entropy positive => strictly below 1: the deficit H(.|.)/H(.) is at least
       (2 ln 2 / n) / ln(#labels) -- above 2^-11 for n <= 1024 items and <= 8 labels, and for
       n <= 200 and <= 16 labels -- far above the two units of 2^-16 demanded here *)
    ELSE IF (~pureK /\ m.h > ONE16 - 2) \/ (~pureC /\ m.c > ONE16 - 2) THEN "BelowOneWhenMixed"
    (* v (h + c) = 2 h c on the S = 12 values; each carries half a unit of error *)
    ELSE IF Abs(m.v12 * (m.h12 + m.c12) - 2 * m.h12 * m.c12) > 2 * (m.h12 + m.c12) + m.v12 + 4 THEN "VMeasure"
    ELSE IF ~(sw.hFin /\ sw.cFin /\ sw.vFin /\ Near(sw.h, m.c) /\ Near(sw.c, m.h) /\ Near(sw.v, m.v)) THEN "Swap"
    ELSE IF ~(rl.hFin /\ rl.cFin /\ rl.vFin /\ Near(rl.h, m.h) /\ Near(rl.c, m.c) /\ Near(rl.v, m.v)) THEN "Relabel"
    ELSE IF IsDyadic(tab, rs, cs, CA, CB, n) /\
            ~( /\ Close(m.h, DyadicH(tab, rs, cs, CA, CB, n), 16, 20)
               /\ Close(m.c, DyadicC(tab, rs, cs, CA, CB, n), 16, 20)
               /\ Close(m.v12, HarmonicV(DyadicH(tab, rs, cs, CA, CB, n), DyadicC(tab, rs, cs, CA, CB, n)), 12, 20) )
    THEN "DyadicValue"
    ELSE ""
HcvClause1(a, b, tab, CA, CB, m, sw, rl) ==
    HcvClause(a, b, tab, RowSum(tab, CA, CB), ColSum(tab, CA, CB), CA, CB, m, sw, rl)
HcvVerdict(a, b, m, sw, rl) == HcvClause1(a, b, Table(a, b), Range(a), Range(b), m, sw, rl)
=============================================================================
