--------------------------- MODULE Factorisations ---------------------------
(***************************************************************************)
(* C01 -- LU, QR, Cholesky and SVD factors multiply back to the input and  *)
(* solve A*X = B.   Contract specification (kind B, DESIGN.md section 3).  *)
(*                                                                         *)
(* What is specified.  For an integer-valued input matrix A (fed to the    *)
(* library as A * 2^se in f64 or f32, outputs descaled exactly) and the    *)
(* outputs of one public call, recorded as fixed-point integers            *)
(* q(v) = round(v * 2^S) together with exact sign / "== 1.0" patterns and  *)
(* dense ranks, each operator Ev<Call>(e) below decides one of             *)
(*                                                                         *)
(*    <<"pass", clause>>  the premise of the property holds for this input *)
(*                        and every clause of the contract holds           *)
(*    <<"bad",  clause>>  the premise holds and `clause` is violated       *)
(*    <<"unc",  clause>>  the statement is silent about this input         *)
(*                        (premise not certified): nothing is demanded     *)
(*    <<"oor",  clause>>  premise holds, call succeeded, but the products  *)
(*                        would leave TLC's 32-bit range: not decided      *)
(*                                                                         *)
(* Premises are decided *inside the specification, exactly*:               *)
(*  - "non-singular / full column rank, well-conditioned": the event       *)
(*    carries a certificate about the INPUT (an index set, an integer      *)
(*    matrix C and an integer d); the spec verifies Sub(A) * C = d * I in  *)
(*    integer arithmetic, which proves rank >= |index set|, and bounds the *)
(*    2-norm condition number by norms of A, C and d (WellCond).  An event *)
(*    whose certificate is missing, wrong or too large is unconstrained.   *)
(*  - "exactly rank-deficient": additionally an integer null-space basis N *)
(*    with A * N = 0 and rank N = n - r, both verified here.               *)
(*  - "symmetric positive definite": Sylvester's criterion on the leading  *)
(*    principal minors (orders <= 5) or strict diagonal dominance.         *)
(*  - "symmetric with a clearly negative eigenvalue": some principal minor *)
(*    is negative by a margin that forces lambda_min <= -||A|| / 2^10.     *)
(*                                                                         *)
(* Graded entries.  For some inputs the harness writes tiny numbers (at     *)
(* most 3 * 2^-60 relative to the scale of A; field `noise`) into zero      *)
(* positions of A before the call.  They are fifty binary orders below the *)
(* 2^-10 resolution of every clause, and the premise bounds cond(A), so    *)
(* the exact factors of the perturbed matrix differ from those of A by far *)
(* less than the tolerance: the contract remains stated for the integer    *)
(* matrix A and the specification does not read the field.                 *)
(*                                                                         *)
(* Contracts are polynomial identities evaluated on the fixed-point        *)
(* integers with the tolerance derived in FixPoint.tla from the            *)
(* quantisation step (coarse level: about 2^-10 relative to ||A||).        *)
(* Structural clauses (triangular, unit diagonal, permutation, signs,      *)
(* order of the singular values) are exact.                                *)
(***************************************************************************)
EXTENDS IntMat

CondLog2 == 12                      \* "well-conditioned" here: cond_2(A) <= 2^12 (certified upper bound)
CondSqBound == Pow2(2 * CondLog2)
NegLog2 == 10                       \* "clearly negative": lambda_min <= -||A||_inf / 2^10
AdjLimit == 4194304                 \* 2^22
DetLimit == 1073741824              \* 2^30
Big == 1073741824                   \* saturation value for products that may overflow

SatMul(a, b) == IF a = 0 \/ b = 0 THEN 0 ELSE IF a > Big \div b THEN Big ELSE a * b
RECURSIVE SatPow(_, _)
SatPow(a, k) == IF k <= 0 THEN 1 ELSE SatMul(a, SatPow(a, k - 1))

(***************************************************************************)
(* Certificates about the input                                            *)
(***************************************************************************)
InverseIdentity(B, Ct, d) ==
    \A i, j \in 1..Len(B) : Dot(B[i], Ct[j]) = (IF i = j THEN d ELSE 0)

CertWellFormed(A, c) ==
    /\ c.kind = "sub"
    /\ Len(c.rows) >= 1 /\ Len(c.rows) = Len(c.cols)
    /\ Distinct(c.rows) /\ Distinct(c.cols)
    /\ Range(c.rows) \subseteq 1..NRows(A)
    /\ Range(c.cols) \subseteq 1..NCols(A)
    /\ IsMat(c.adj, Len(c.rows), Len(c.rows))
    /\ c.det # 0 /\ Abs(c.det) <= DetLimit
    /\ MaxAbsM(c.adj) <= AdjLimit
    /\ SatMul(SatMul(Len(c.rows), Max2(1, MaxAbsM(A))), Max2(1, MaxAbsM(c.adj))) < Big

(* Sub(A) * adj = det * I with det # 0: the listed rows x columns of A form a
   non-singular matrix whose inverse is adj / det *)
CertOK(A, c) == /\ CertWellFormed(A, c)
                /\ InverseIdentity(Sub(A, c.rows, c.cols), Tr(c.adj), c.det)

(* sigma_max(A)^2 <= ||A||_1 ||A||_inf.  The certified square sub-matrix B is
   made of whole columns of A (tall / square) or whole rows (wide), hence
   sigma_min(A) >= sigma_min(B) = 1 / ||B^-1||_2 and
   ||B^-1||_2^2 <= ||B^-1||_1 ||B^-1||_inf <= ceil(||adj||_1/|d|) ceil(||adj||_inf/|d|). *)
WC(p, c1, ci) == /\ p >= 1 /\ p <= 65536 /\ c1 <= 4096
                 /\ p * c1 <= CondSqBound
                 /\ ci <= CondSqBound \div (p * c1)
WellCond(A, c) == WC(Norm1(A) * NormInf(A),
                     CeilDiv(Norm1(c.adj), Abs(c.det)),
                     CeilDiv(NormInf(c.adj), Abs(c.det)))

(* full rank min(m,n), certified and well-conditioned *)
FullRankWC(A, c, m, n) == /\ IsMat(A, m, n) /\ m >= 1 /\ n >= 1
                          /\ MaxAbsM(A) <= 64
                          /\ CertOK(A, c)
                          /\ Len(c.rows) = Min2(m, n)
                          /\ WellCond(A, c)

(* rank exactly r = |c.rows| < min(m,n): r independent rows/columns certified,
   and n - r independent null vectors (N has a diagonal block with non-zero
   diagonal in the rows c.piv) with A * N = 0.  Well-conditioned means here
   that the smallest NON-ZERO singular value is bounded away from 0:
   sigma_r(A) >= sigma_min(certified r x r block) (interlacing). *)
RankDefWC(A, c, m, n) ==
    /\ IsMat(A, m, n) /\ MaxAbsM(A) <= 64
    /\ CertOK(A, c)
    /\ Len(c.rows) < Min2(m, n)
    /\ LET k == n - Len(c.rows) IN
         /\ IsMat(c.N, n, k)
         /\ MaxAbsM(c.N) <= 64
         /\ Len(c.piv) = k /\ Distinct(c.piv) /\ Range(c.piv) \subseteq 1..n
         /\ \A j, jj \in 1..k : (c.N[c.piv[j]][jj] = 0) <=> (j # jj)
         /\ LET AN == Mul(A, c.N) IN \A i \in 1..m : \A j \in 1..k : AN[i][j] = 0
    /\ WellCond(A, c)

(***************************************************************************)
(* Symmetric matrices: definiteness decided exactly                        *)
(***************************************************************************)
SylvesterScope(A) == \/ (Len(A) <= 4 /\ MaxAbsM(A) <= 48)
                     \/ (Len(A) = 5 /\ MaxAbsM(A) <= 16)
LeadingMinors(A) == [k \in 1..Len(A) |-> Det(Leading(A, k))]
AllPositive(s) == \A k \in 1..Len(s) : s[k] > 0
(* a_ii > sum_{j # i} |a_ij| for every i (which also forces a_ii > 0) *)
DiagDominant(A) == \A i \in 1..Len(A) : A[i][i] > 0 /\ 2 * A[i][i] > L1(A[i])
PosDef(A) == \/ DiagDominant(A)
             \/ (SylvesterScope(A) /\ AllPositive(LeadingMinors(A)))

(* A principal sub-matrix B (order k) with det B < 0 has an odd number of
   negative eigenvalues; all |eigenvalues of B| <= rho = ||B||_inf, so the most
   negative one satisfies |lambda| >= |det B| / rho^(k-1), and by interlacing
   lambda_min(A) <= lambda_min(B).  "Clearly negative" = the resulting bound
   is at least ||A||_inf / 2^NegLog2. *)
NegMargin(A, B) == LET d == Det(B) IN
    /\ d < 0
    /\ -d >= CeilDiv(SatMul(SatPow(NormInf(B), Len(B) - 1), NormInf(A)), Pow2(NegLog2))
ClearlyIndefinite(A) ==
    \E S \in (SUBSET (1..Len(A))) \ {{}} : NegMargin(A, Principal(A, S))

(* beyond the orders for which all principal minors are enumerated, the 1 x 1
   principal minors still decide: a diagonal entry a_ii <= -||A||_inf / 2^NegLog2
   is an eigenvalue bound lambda_min <= a_ii (Rayleigh quotient of e_i) *)
NegDiagonal(A) == \E i \in 1..Len(A) : A[i][i] < 0 /\ -A[i][i] >= CeilDiv(NormInf(A), Pow2(NegLog2))

(* which way does exact elimination break down?  (used only to name the
   failing input class of a violated error clause) *)
RECURSIVE FirstNonPos(_, _)
FirstNonPos(s, k) == IF k > Len(s) THEN 0 ELSE IF s[k] <= 0 THEN k ELSE FirstNonPos(s, k + 1)
ErrClassOf(lm, f) == IF f = 0 THEN "none" ELSE IF lm[f] = 0 THEN "zeroPivot" ELSE "negPivot"
ErrClass(A) == IF SylvesterScope(A) THEN ErrClassOf(LeadingMinors(A), FirstNonPos(LeadingMinors(A), 1))
               ELSE "negDiag"

(***************************************************************************)
(* LU:  P A = L U,  L unit lower triangular, U upper triangular, P a       *)
(* permutation.   o = [L, Lsg, Lone, U, Usg, Pint, P]                      *)
(***************************************************************************)
LUCheck(A, o, n, S, w) ==
    IF ~(o.Pint /\ IsPermMatrix(o.P, n)) THEN "LU.P-perm"
    ELSE IF ~(IsMat(o.L, n, n) /\ IsMat(o.U, n, n) /\ IsMat(o.Lsg, n, n)
              /\ IsMat(o.Lone, n, n) /\ IsMat(o.Usg, n, n)) THEN "LU.shape"
    ELSE IF ~(ZeroAbove(o.Lsg) /\ UnitDiag(o.Lone)) THEN "LU.L-unit-lower"
    ELSE IF ~ZeroBelow(o.Usg) THEN "LU.U-upper"
    ELSE IF ~ProdNearQQ(o.L, Tr(o.U), ScaleM(Mul(o.P, A), Pow2(2 * S)), w,
                        n * MaxAbsM(o.L) * MaxAbsM(o.U)) THEN "LU.PA=LU"
    ELSE "pass"

(* common preamble of every success clause.  e.fin = FALSE ("<clause>.nan")
   means some returned number is NaN / infinite or exceeds 2*10^9 fixed-point
   units (about 2*10^6 in real terms, impossible for a certified premise). *)
Outcome(e, clause, check) ==
    IF e.status # "ok" THEN <<"bad", clause \o "." \o e.status>>
    ELSE IF ~e.fin THEN <<"bad", clause \o ".nan">>
    ELSE IF ~e.inr THEN <<"oor", clause>>
    ELSE IF check = "pass" THEN <<"pass", clause>>
    ELSE <<"bad", check>>

EvLU(e) ==
    IF ~(e.m = e.n /\ FullRankWC(e.A, e.cert, e.m, e.n)) THEN <<"unc", "LU">>
    ELSE Outcome(e, "LU", IF e.status = "ok" /\ e.fin /\ e.inr
                          THEN LUCheck(e.A, e.out, e.n, e.S, e.w) ELSE "-")

(***************************************************************************)
(* Residual clauses.  X is n x p at scale 2^S, B is m x p exact.           *)
(*   square:  A X = B                                                      *)
(*   tall:    A^T (A X - B) = 0      (least squares)                       *)
(*   rank-deficient: additionally N^T X = 0 (X orthogonal to null(A), i.e. *)
(*            X is the least-squares solution of minimum norm)             *)
(***************************************************************************)
ResidualOK(A, X, B, S, w) ==
    ProdNearIQ(A, Tr(X), ScaleM(B, Pow2(S)), w, NCols(A) * MaxAbsM(A) * MaxAbsM(X))

(* R = A X - 2^S B carries an error of at most IQTol(A[i]) in row i (exact
   left operand); A^T R then carries sum_i |a_ic| * IQTol(A[i]). *)
NormalEqCol(At, R, rowTol, w, mag) ==   \* R: one column of the residual, as a vector over rows of A
    \A c \in 1..Len(At) :
        Near(Dot(At[c], R), 0, Dot([i \in 1..Len(rowTol) |-> Abs(At[c][i])], rowTol) + Slack(w, Len(R), mag))
NormalEqOK(A, At, Xt, Bt, S, w, mag) ==
    \A j \in 1..Len(Xt) :
        NormalEqCol(At,
                    [i \in 1..Len(A) |-> Dot(A[i], Xt[j]) - Pow2(S) * Bt[j][i]],
                    [i \in 1..Len(A) |-> IQTol(A[i])], w, mag)
NormalEq(A, X, B, S, w) ==
    NormalEqOK(A, Tr(A), Tr(X), Tr(B), S, w,
               Len(A) * MaxAbsM(A) * (NCols(A) * MaxAbsM(A) * MaxAbsM(X) + Pow2(S) * MaxAbsM(B)))

MinNormOK(Nt, Xt, w) ==
    \A c \in 1..Len(Nt) : \A j \in 1..Len(Xt) :
        Near(Dot(Nt[c], Xt[j]), 0,
             IQTol(Nt[c]) + Slack(w, Len(Nt[c]), Len(Nt[c]) * MaxAbsV(Nt[c]) * MaxAbsV(Xt[j]))
                          + FwdSlack(w, Len(Nt[c]) * MaxAbsV(Nt[c]) * MaxAbsV(Xt[j])))

SolveShapeOK(e, p) == IsMat(e.B, e.m, p) /\ p >= 1 /\ IsMat(e.out.X, e.n, p)

SolveCheck(e, rankdef) ==
    IF ~SolveShapeOK(e, NCols(e.B)) THEN "X.shape"
    ELSE IF e.m = e.n /\ ~rankdef
         THEN (IF ResidualOK(e.A, e.out.X, e.B, e.S, e.w) THEN "pass" ELSE "AX=B")
    ELSE IF ~NormalEq(e.A, e.out.X, e.B, e.S, e.w) THEN "At(AX-B)=0"
    ELSE IF rankdef /\ ~MinNormOK(Tr(e.cert.N), Tr(e.out.X), e.w) THEN "Nt*X=0"
    ELSE "pass"

(* inverse: A X = I *)
EvInv(e) ==
    IF ~(e.m = e.n /\ FullRankWC(e.A, e.cert, e.m, e.n)) THEN <<"unc", "Inv">>
    ELSE Outcome(e, "Inv",
                 IF e.status = "ok" /\ e.fin /\ e.inr
                 THEN (IF ~IsMat(e.out.X, e.n, e.n) THEN "Inv.shape"
                       ELSE IF ResidualOK(e.A, e.out.X, Ident(e.n, 1), e.S, e.w) THEN "pass"
                       ELSE "Inv.A*inv=I")
                 ELSE "-")

(***************************************************************************)
(* QR:  A = Q R,  Q^T Q = I,  R upper triangular.  o = [Q, R, Rsg]         *)
(***************************************************************************)
QRCheck(A, o, m, n, S, w) ==
    IF ~(IsMat(o.Q, m, n) /\ IsMat(o.R, n, n) /\ IsMat(o.Rsg, n, n)) THEN "QR.shape"
    ELSE IF ~ZeroBelow(o.Rsg) THEN "QR.R-upper"
    ELSE IF ~ProdNearQQ(Tr(o.Q), Tr(o.Q), Ident(n, Pow2(2 * S)), w,
                        m * MaxAbsM(o.Q) * MaxAbsM(o.Q)) THEN "QR.QtQ=I"
    ELSE IF ~ProdNearQQ(o.Q, Tr(o.R), ScaleM(A, Pow2(2 * S)), w,
                        n * MaxAbsM(o.Q) * MaxAbsM(o.R)) THEN "QR.A=QR"
    ELSE "pass"

EvQR(e) ==
    IF ~(e.m >= e.n /\ FullRankWC(e.A, e.cert, e.m, e.n)) THEN <<"unc", "QR">>
    ELSE Outcome(e, "QR", IF e.status = "ok" /\ e.fin /\ e.inr
                          THEN QRCheck(e.A, e.out, e.m, e.n, e.S, e.w) ELSE "-")

(***************************************************************************)
(* Cholesky:  A = L L^T, L lower triangular, U = L^T; error clause.        *)
(* o = [L, Lsg, U, Usg]                                                    *)
(***************************************************************************)
CholCheck(A, o, n, S, w) ==
    IF ~(IsMat(o.L, n, n) /\ IsMat(o.U, n, n) /\ IsMat(o.Lsg, n, n) /\ IsMat(o.Usg, n, n)) THEN "Chol.shape"
    ELSE IF ~ZeroAbove(o.Lsg) THEN "Chol.L-lower"
    ELSE IF ~(Tr(o.L) = o.U /\ Tr(o.Lsg) = o.Usg) THEN "Chol.U=Lt"
    ELSE IF ~ProdNearQQ(o.L, o.L, ScaleM(A, Pow2(2 * S)), w,
                        n * MaxAbsM(o.L) * MaxAbsM(o.L)) THEN "Chol.A=LLt"
    ELSE "pass"

(* "spd": certified positive definite and well-conditioned -- factors required
   "neg": clearly negative eigenvalue -- an error is required
   "unc": anything else (semidefinite boundary, tiny margins, not symmetric) *)
SymClass(e) ==
    IF ~(e.m = e.n /\ IsMat(e.A, e.n, e.n) /\ IsSymmetric(e.A)) THEN "unc"
    ELSE IF PosDef(e.A)
         THEN (IF FullRankWC(e.A, e.cert, e.n, e.n) THEN "spd" ELSE "unc")
    ELSE IF SylvesterScope(e.A) /\ ClearlyIndefinite(e.A) THEN "neg"
    ELSE IF ~SylvesterScope(e.A) /\ NegDiagonal(e.A) THEN "neg"
    ELSE "unc"

EvCholAs(e, class) ==
    CASE class = "spd" ->
            Outcome(e, "Chol.ok", IF e.status = "ok" /\ e.fin /\ e.inr
                                  THEN CholCheck(e.A, e.out, e.n, e.S, e.w) ELSE "-")
      [] class = "neg" ->
            IF e.status = "err" THEN <<"pass", "Chol.err">>
            ELSE <<"bad", "Chol.mustErr." \o ErrClass(e.A) \o "."
                           \o (IF e.status = "ok" /\ ~e.fin THEN "nan" ELSE e.status)>>
      [] OTHER -> <<"unc", "Chol">>
EvChol(e) == EvCholAs(e, SymClass(e))

(***************************************************************************)
(* SVD:  A = U diag(s) V^T;  s >= 0 non-increasing;  V^T V = I;  the first *)
(* min(m,n) columns of U orthonormal (for wide A the remaining columns of  *)
(* the m x n matrix U belong to zero singular values and cannot be).       *)
(* o = [U, V, s, sRk, sSg, Sm, SmSg, SmOk]                                 *)
(*                                                                         *)
(* The reconstruction is checked twice: as A V = U diag(s) at full scale   *)
(* (equivalent because V is square with V^T V = I), and directly as the    *)
(* triple product at the coarser scale 2^6 per factor, where                *)
(* (qu + du)(qs + ds)(qv + dv) with |d.| <= h = 9/16 deviates by at most    *)
(* h(|qs qv| + |qu qv| + |qu qs|) + h^2(|qu| + |qs| + |qv|) + h^3.          *)
(***************************************************************************)
SNonIncreasing(rk) == \A i \in 1..(Len(rk) - 1) : rk[i] >= rk[i + 1]
SNonNegative(sgn) == \A i \in 1..Len(sgn) : sgn[i] >= 0

AVeqUSOn(A, Vt, U, s, S, la, sl) ==
    \A i \in 1..Len(A) : \A j \in 1..Len(Vt) :
        Near(Pow2(S) * Dot(A[i], Vt[j]), U[i][j] * s[j],
             Pow2(S) * HalfUp(la[i]) + HalfUp(Abs(U[i][j]) + Abs(s[j]) + 1) + sl)
AVeqUS(A, Vt, U, s, S, w, mag) == AVeqUSOn(A, Vt, U, s, S, RowL1(A), Slack(w, NCols(A), mag))

RECURSIVE Triple(_, _, _, _)   \* sum_k u_k s_k v_k
Triple(u, s, v, k) == IF k = 0 THEN 0 ELSE u[k] * s[k] * v[k] + Triple(u, s, v, k - 1)
RECURSIVE TripleTol(_, _, _, _)
TripleTol(u, s, v, k) ==
    IF k = 0 THEN 1
    ELSE CeilDiv(9 * (Abs(s[k] * v[k]) + Abs(u[k] * v[k]) + Abs(u[k] * s[k])), 16)
         + CeilDiv(Abs(u[k]) + Abs(s[k]) + Abs(v[k]), 3) + 1
         + TripleTol(u, s, v, k - 1)
Coarse(M, d) == [i \in 1..Len(M) |-> [j \in 1..Len(M[i]) |-> Requant(M[i][j], d)]]
RebuildOK(A, U6, s6, V6, S, w) ==     \* all factors at scale 2^(S-4)
    \A i \in 1..Len(A) : \A j \in 1..Len(V6) :
        Near(Triple(U6[i], s6, V6[j], Len(s6)), A[i][j] * Pow2(3 * (S - 4)),
             TripleTol(U6[i], s6, V6[j], Len(s6))
             + Slack(w, Len(s6), Len(s6) * MaxAbsV(U6[i]) * MaxAbsV(s6) * MaxAbsV(V6[j])))

SVDCheck(A, o, m, n, S, w) ==
    IF ~(IsMat(o.U, m, n) /\ IsMat(o.V, n, n) /\ Len(o.s) = n /\ Len(o.sRk) = n /\ Len(o.sSg) = n) THEN "SVD.shape"
    ELSE IF ~SNonNegative(o.sSg) THEN "SVD.s-nonneg"
    ELSE IF ~SNonIncreasing(o.sRk) THEN "SVD.s-sorted"
    ELSE IF ~(o.SmOk /\ IsMat(o.Sm, n, n) /\ IsMat(o.SmSg, n, n)
              /\ \A i, j \in 1..n : IF i = j THEN o.Sm[i][i] = o.s[i] ELSE o.SmSg[i][j] = 0) THEN "SVD.S=diag(s)"
    ELSE IF ~ProdNearQQ(Tr(o.V), Tr(o.V), Ident(n, Pow2(2 * S)), w,
                        n * MaxAbsM(o.V) * MaxAbsM(o.V)) THEN "SVD.VtV=I"
    ELSE IF ~ProdNearQQ(TopRows(Tr(o.U), Min2(m, n)), TopRows(Tr(o.U), Min2(m, n)),
                        Ident(Min2(m, n), Pow2(2 * S)), w,
                        m * MaxAbsM(o.U) * MaxAbsM(o.U)) THEN "SVD.UtU=I"
    ELSE IF ~AVeqUS(A, Tr(o.V), o.U, o.s, S, w,
                    n * MaxAbsM(A) * Pow2(S) * MaxAbsM(o.V)) THEN "SVD.AV=US"
    ELSE IF o.tri /\ ~RebuildOK(A, Coarse(o.U, 4), [k \in 1..n |-> Requant(o.s[k], 4)], Coarse(o.V, 4), S, w)
         THEN "SVD.A=USVt"     \* (o.tri: the triple product fits 32 bits; AV = US above is the full-scale form)
    ELSE "pass"

SVDShapeName(e) == IF e.m = e.n THEN "SVD.square" ELSE IF e.m > e.n THEN "SVD.tall" ELSE "SVD.wide"

(* The factor clauses of the SVD are demanded for full-rank input of any
   shape.  (For exactly rank-deficient input the statement only speaks about
   the solver; the factors are then not constrained here.) *)
EvSVD(e) ==
    IF ~FullRankWC(e.A, e.cert, e.m, e.n) THEN <<"unc", "SVD">>
    ELSE Outcome(e, SVDShapeName(e), IF e.status = "ok" /\ e.fin /\ e.inr
                                     THEN SVDCheck(e.A, e.out, e.m, e.n, e.S, e.w) ELSE "-")

(***************************************************************************)
(* Solvers.  e.method in {"lu","qr","chol","svd","svd_ref"}                *)
(*   lu    : square, certified non-singular           -> A X = B           *)
(*   qr    : m >= n, certified full column rank       -> A X = B / LS      *)
(*   chol  : "spd" -> A X = B ;  "neg" -> an error is required             *)
(*   svd   : as qr; and certified rank-deficient      -> LS of minimum norm*)
(***************************************************************************)
SolveName(e, rankdef) ==
    (IF e.method = "svd_ref" THEN "svd" ELSE e.method)
        \o (IF rankdef THEN ".minnorm" ELSE IF e.m > e.n THEN ".ls" ELSE ".square")

SolveOutcome(e, rankdef) ==
    Outcome(e, SolveName(e, rankdef),
            IF e.status = "ok" /\ e.fin /\ e.inr THEN SolveCheck(e, rankdef) ELSE "-")

EvSolveChol(e, class) ==
    CASE class = "spd" -> SolveOutcome(e, FALSE)
      [] class = "neg" -> IF e.status = "err" THEN <<"pass", "chol.err">>
                          ELSE <<"bad", "chol.mustErr." \o ErrClass(e.A) \o "."
                                         \o (IF e.status = "ok" /\ ~e.fin THEN "nan" ELSE e.status)>>
      [] OTHER -> <<"unc", "chol">>

EvSolve(e) ==
    IF ~(IsMat(e.A, e.m, e.n) /\ e.m >= e.n) THEN <<"unc", "Solve">>
    ELSE IF e.method = "chol" THEN EvSolveChol(e, SymClass(e))
    ELSE IF e.method = "lu"
         THEN (IF e.m = e.n /\ FullRankWC(e.A, e.cert, e.m, e.n) THEN SolveOutcome(e, FALSE)
               ELSE <<"unc", "lu">>)
    ELSE IF e.method = "qr"
         THEN (IF FullRankWC(e.A, e.cert, e.m, e.n) THEN SolveOutcome(e, FALSE)
               ELSE <<"unc", "qr">>)
    ELSE IF e.method \in {"svd", "svd_ref"}
         THEN (IF FullRankWC(e.A, e.cert, e.m, e.n) THEN SolveOutcome(e, FALSE)
               ELSE IF RankDefWC(e.A, e.cert, e.m, e.n) THEN SolveOutcome(e, TRUE)
               ELSE <<"unc", "svd">>)
    ELSE <<"bad", "unknown-method">>

(***************************************************************************)
(* Model comparison (spec -> impl).  The design models LUModel.tla and     *)
(* CholeskyModel.tla print, per terminal state, the input and the model's  *)
(* observable; the harness runs the real code on each input and records    *)
(* both.  A difference is MODEL-DRIFT (the code may legitimately be        *)
(* refactored away from the model), never a violation; the property        *)
(* clauses are judged by the ordinary events recorded for the same inputs. *)
(***************************************************************************)
EvLUCmp(e) ==
    IF /\ e.status = "ok" /\ e.fin
       /\ SameQ(e.got.L, e.expect.L) /\ SameQ(e.got.U, e.expect.U) /\ e.got.P = e.expect.P
    THEN <<"pass", "LU=model">> ELSE <<"drift", "LU">>
EvCholCmp(e) ==
    IF e.status = e.expect.status /\ (e.status = "ok" => e.fin = e.expect.fin)
    THEN <<"pass", "Chol=model">> ELSE <<"drift", "Chol">>

(* dispatch *)
Judge(e) ==
    CASE e.ev = "LU" -> EvLU(e)
      [] e.ev = "Inv" -> EvInv(e)
      [] e.ev = "QR" -> EvQR(e)
      [] e.ev = "Chol" -> EvChol(e)
      [] e.ev = "SVD" -> EvSVD(e)
      [] e.ev = "Solve" -> EvSolve(e)
      [] e.ev = "LUCmp" -> EvLUCmp(e)
      [] e.ev = "CholCmp" -> EvCholCmp(e)
      [] OTHER -> <<"bad", "unknown-event">>
=============================================================================
