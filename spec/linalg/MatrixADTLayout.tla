--------------------------- MODULE MatrixADTLayout ---------------------------
(***************************************************************************)
(* C03 / C20 -- implementation-shaped design model of the STORAGE LAYOUTS. *)
(*                                                                         *)
(* MatrixADT says what every operation returns on the logical view.  The   *)
(* three back ends keep the entries in a flat buffer:                      *)
(*   DenseMatrix   : column-major Vec, addressed values[col*nrows + row]    *)
(*   ndarray       : a buffer + strides; row-major ("C") when built from   *)
(*                   row-major data, column-major ("F") after              *)
(*                   reversed_axes() (= transpose) or an F-order build      *)
(*   nalgebra      : column-major VecStorage                               *)
(* A stored matrix is [r, c, ord, raw]; View(S) is the abstraction         *)
(* function to the MatrixADT value.  The operations whose code touches the *)
(* buffer directly (instead of going through get(row, col)) are            *)
(* transcribed from the Rust sources, index arithmetic and loop cursors    *)
(* included, and TLC checks on every small store (both orders, all         *)
(* shapes up to MaxR x MaxC over Vals) and every pair of stores:           *)
(*                                                                         *)
(*   DenseRefines   every transcribed DenseMatrix operation commutes with   *)
(*                  View: View(op_dense(S)) = op_ADT(View(S)), and its      *)
(*                  panic guard is exactly the negated shape contract      *)
(*                  (C03: "independent of the internal storage order").     *)
(*   BindingFacts   the transcribed ndarray / nalgebra operations (as they  *)
(*                  are in the repaired tree) commute with View on every    *)
(*                  layout.  Next to them the module keeps the MEMORY-ORDER *)
(*                  variants (MemOrder..., FoldFrom0..., FirstProduct...):  *)
(*                  flatten / reshape that follow the buffer, max / min     *)
(*                  folded from 0, dot that multiplies 1xN by Nx1 only,     *)
(*                  equality on the buffers alone.  These are the shapes    *)
(*                  the defects found by the C03 / C20 checks had (repaired *)
(*                  by the `fix:` commits 4709141, 0c6d7e5, bf8c8ce,        *)
(*                  1896648) and the shape a regression would take again.   *)
(*                  BindingFacts states exactly when such a variant still   *)
(*                  commutes with View, and every Witness... action is      *)
(*                  enabled exactly on the stores where it does not: TLC's  *)
(*                  action coverage shows that the scope contains inputs    *)
(*                  that tell the right implementation from the variant.    *)
(***************************************************************************)
EXTENDS MatrixADT, TLC

CONSTANTS MaxR, MaxC, LVals
LValsQ == {-1, 2}
LValsT == {-2, 0, 3}

Store(r, c, ord, raw) == [r |-> r, c |-> c, ord |-> ord, raw |-> raw]
(* element (i, j), 1-based, of a stored matrix *)
Get(S, i, j) == IF S.ord = "F" THEN S.raw[(j - 1) * S.r + i] ELSE S.raw[(i - 1) * S.c + j]
View(S) == MkMat(S.r, S.c, LAMBDA i, j : Get(S, i, j))
N(S) == S.r * S.c

(* a column-major store whose (i, j) entry is F(i, j): what a sequence of m.set(i, j, ..)
   on a zeroed DenseMatrix leaves behind *)
MkF(r, c, F(_, _)) == Store(r, c, "F", [x \in 1..(r * c) |-> F(((x - 1) % r) + 1, ((x - 1) \div r) + 1)])

(***************************************************************************)
(* DenseMatrix, transcribed (src/linalg/naive/dense_matrix.rs)             *)
(***************************************************************************)
(* from_vec: for row, col: m.set(row, col, values[col + row * ncols]) *)
DenseFromVec(r, c, values) == MkF(r, c, LAMBDA i, j : values[(j - 1) + (i - 1) * c + 1])
(* new: the buffer is taken as it is *)
DenseNew(r, c, values) == Store(r, c, "F", values)
(* to_row_vector: v[r * ncols + c] = self.get(r, c) *)
DenseToRowVector(S) == [x \in 1..N(S) |-> Get(S, ((x - 1) \div S.c) + 1, ((x - 1) % S.c) + 1)]
(* transpose: m is ncols x nrows; m.set(c, r, self.get(r, c)) *)
DenseTranspose(S) == MkF(S.c, S.r, LAMBDA i, j : Get(S, j, i))
(* reshape: the source is walked row by row while a cursor (dst_r, dst_c) walks the
   destination: dst.set(dst_r, dst_c, self.get(r, c)); if dst_c + 1 >= ncols then
   (dst_c, dst_r) := (0, dst_r + 1) else dst_c += 1.  The loop is kept as a loop. *)
RECURSIVE ReshapeLoop(_, _, _, _, _, _)
ReshapeLoop(S, nc, k, dr, dc, acc) ==      \* k = number of source entries already copied
    IF k = N(S) THEN acc
    ELSE LET sr == (k \div S.c) + 1
             sc == (k % S.c) + 1
             acc2 == [acc EXCEPT ![<<dr, dc>>] = Get(S, sr, sc)]
         IN  IF dc + 1 >= nc THEN ReshapeLoop(S, nc, k + 1, dr + 1, 0, acc2)
                             ELSE ReshapeLoop(S, nc, k + 1, dr, dc + 1, acc2)
DenseReshape(S, nr, nc) ==
    LET cells == ReshapeLoop(S, nc, 0, 0, 0, [p \in (0..(nr - 1)) \X (0..(nc - 1)) |-> 0])
    IN  MkF(nr, nc, LAMBDA i, j : cells[<<i - 1, j - 1>>])
DenseReshapePanics(S, nr, nc) == N(S) # nr * nc
(* dot: works on the raw buffers *)
DenseDotPanics(S, T) == \/ (S.r # 1 /\ T.r # 1) /\ (S.c # 1 /\ T.c # 1)
                        \/ N(S) # N(T)
DenseDot(S, T) == SeqSum([x \in 1..N(S) |-> S.raw[x] * T.raw[x]])
(* max_diff, norm, sum, min, max: folds over the raw buffer *)
DenseMaxDiff(S, T) == SeqMax([x \in 1..N(S) |-> Abs(S.raw[x] - T.raw[x])])
DenseSum(S) == SeqSum(S.raw)
DenseNorm1(S) == SeqSum(MapSeq(S.raw, Abs))
DenseMax(S) == SeqMax(S.raw)
(* PartialEq: shapes, then buffers *)
DenseEq(S, T) == S.r = T.r /\ S.c = T.c /\ S.raw = T.raw
(* copy_from: shape check, then clone_from_slice of the buffer *)
DenseCopyFromPanics(S, T) == S.r # T.r \/ S.c # T.c
DenseCopyFrom(S, T) == [S EXCEPT !.raw = T.raw]
(* h_stack / v_stack / slice / matmul go through get and set *)
DenseHStack(S, T) == MkF(S.r, S.c + T.c, LAMBDA i, j : IF j <= S.c THEN Get(S, i, j) ELSE Get(T, i, j - S.c))
DenseVStack(S, T) == MkF(S.r + T.r, S.c, LAMBDA i, j : IF i <= S.r THEN Get(S, i, j) ELSE Get(T, i - S.r, j))
DenseMatMul(S, T) == MkF(S.r, T.c, LAMBDA i, j : SeqSum([t \in 1..S.c |-> Get(S, i, t) * Get(T, t, j)]))
(* HighOrderOperations::ab, the DenseMatrix override: (d1, d2, d3, d4) per flag pair, panic
   iff d1 # d4, result d2 x d3 *)
DenseABDims(S, ta, T, tb) ==
    IF ta /\ ~tb THEN <<S.r, S.c, T.c, T.r>>
    ELSE IF ~ta /\ tb THEN <<S.c, S.r, T.r, T.c>>
    ELSE <<S.r, S.c, T.r, T.c>>                          \* (true, true)
DenseABPanics(S, ta, T, tb) == LET d == DenseABDims(S, ta, T, tb) IN d[1] # d[4]
DenseAB(S, ta, T, tb) ==
    LET d == DenseABDims(S, ta, T, tb) IN
    MkF(d[2], d[3], LAMBDA r, c : SeqSum([i \in 1..d[1] |->
            IF ta /\ ~tb THEN Get(S, i, r) * Get(T, i, c)
            ELSE IF ~ta /\ tb THEN Get(S, r, i) * Get(T, c, i)
            ELSE Get(S, i, r) * Get(T, c, i)]))
(* DenseMatrixIterator::next: cursor (cur_r, cur_c), stop when cur_r*max_c + cur_c >= max_c*max_r *)
RECURSIVE IterLoop(_, _, _, _)
IterLoop(S, cr, cc, acc) ==
    IF cr * S.c + cc >= S.c * S.r THEN acc
    ELSE IF cc + 1 >= S.c THEN IterLoop(S, cr + 1, 0, Append(acc, Get(S, cr + 1, cc + 1)))
    ELSE IterLoop(S, cr, cc + 1, Append(acc, Get(S, cr + 1, cc + 1)))
DenseIter(S) == IterLoop(S, 0, 0, <<>>)

(***************************************************************************)
(* ndarray binding, transcribed (src/linalg/ndarray_bindings.rs)           *)
(***************************************************************************)
Flip(ord) == IF ord = "F" THEN "C" ELSE "F"
NdTranspose(S)   == Store(S.c, S.r, Flip(S.ord), S.raw)          \* clone().reversed_axes(): same buffer
NdToRowVector(S) == DenseToRowVector(S)                          \* self.iter().copied().collect(): logical order
(* reshape: as_standard_layout().into_owned().into_shape((nr, nc)) *)
NdReshape(S, nr, nc) == Store(nr, nc, "C", DenseToRowVector(S))
(* dot: the two vector-shape guards of DenseMatrix, then a zip of the logical iterators *)
NdDotPanics(S, T) == \/ (S.r # 1 /\ T.r # 1) /\ (S.c # 1 /\ T.c # 1)
                     \/ N(S) # N(T)
NdDot(S, T) == SeqSum([x \in 1..N(S) |-> DenseToRowVector(S)[x] * DenseToRowVector(T)[x]])
(* ndarray's own PartialEq compares shape and logical content *)
NdEq(S, T) == S.r = T.r /\ S.c = T.c /\ DenseToRowVector(S) = DenseToRowVector(T)
(***************************************************************************)
(* nalgebra binding, transcribed (src/linalg/nalgebra_bindings.rs)         *)
(***************************************************************************)
(* to_row_vector: self.transpose().reshape_generic(1, n): the column-major data of the
   transpose = the row-major data of self *)
NaToRowVector(S) == NdTranspose(DenseTranspose(S)).raw
NaReshape(S, nr, nc) == Store(nr, nc, "C", DenseToRowVector(S))   \* row-major copy, from_row_slice
NaMax(S) == SeqMax(S.raw)                                         \* fold from -infinity
NaMin(S) == SeqMin(S.raw)                                         \* fold from +infinity

(***************************************************************************)
(* The memory-order variants (see the header): what the code looks like    *)
(* when it follows the buffer instead of the logical view                  *)
(***************************************************************************)
MemOrderFlatten(S) == S.raw                                       \* into_shape(n) / reshape_generic(1, n)
MemOrderReshape(S, nr, nc) == Store(nr, nc, S.ord, S.raw)         \* into_shape((nr, nc)) on the buffer
RECURSIVE FoldMax0(_, _)
FoldMax0(s, n) == IF n = 0 THEN 0 ELSE Max2(s[n], FoldMax0(s, n - 1))   \* let mut m = T::zero(); m = m.max(v)
FoldFrom0Max(S) == FoldMax0(S.raw, N(S))
RECURSIVE FoldMin0(_, _)
FoldMin0(s, n) == IF n = 0 THEN 0 ELSE Min2(s[n], FoldMin0(s, n - 1))
FoldFrom0Min(S) == FoldMin0(S.raw, N(S))
(* self.dot(&other.reversed_axes())[[0, 0]]: an (r x c)(c' x r') product, entry (0, 0) *)
FirstProductDotPanics(S, T) == S.c # T.c
FirstProductDot(S, T) == SeqSum([k \in 1..S.c |-> Get(S, 1, k) * Get(T, 1, k)])
(* equality decided on the buffers alone (length and content), shapes not compared *)
BufferOnlyEq(S, T) == N(S) = N(T) /\ S.raw = T.raw

(***************************************************************************)
(* The state: two stored matrices (all of them are initial states)         *)
(***************************************************************************)
VARIABLES A, B
vars == <<A, B>>

Stores == UNION { { Store(r, c, ord, raw) : ord \in {"C", "F"}, raw \in [1..(r * c) -> LVals] } :
                  r \in 1..MaxR, c \in 1..MaxC }
IsF(S) == S.ord = "F"
RowMajorLike(S) == S.ord = "C" \/ S.r = 1 \/ S.c = 1          \* memory order = logical row-major order

Init == A \in Stores /\ B \in Stores

(* witnesses: each is enabled exactly on the inputs where a memory-order variant does not
   commute with View *)
WitnessNdFlatten == /\ Vec(MemOrderFlatten(A)) # ToRowVector(View(A)) /\ UNCHANGED vars
WitnessNdReshape == /\ \E nr \in 1..N(A) : N(A) % nr = 0 /\ View(MemOrderReshape(A, nr, N(A) \div nr)) # Reshape(View(A), nr, N(A) \div nr)
                    /\ UNCHANGED vars
WitnessNaFlatten == /\ IsF(A) /\ Vec(MemOrderFlatten(A)) # ToRowVector(View(A)) /\ UNCHANGED vars
WitnessNaMax     == /\ FoldFrom0Max(A) # MaxOf(View(A)) /\ UNCHANGED vars
WitnessNaMin     == /\ FoldFrom0Min(A) # MinOf(View(A)) /\ UNCHANGED vars
WitnessNdDotColumn == /\ A.c = 1 /\ B.c = 1 /\ A.r = B.r /\ ~FirstProductDotPanics(A, B)
                      /\ FirstProductDot(A, B) # Dot(View(A), View(B))
                      /\ UNCHANGED vars
WitnessNdDotLength == /\ A.c = 1 /\ B.c = 1 /\ A.r # B.r /\ ~FirstProductDotPanics(A, B) /\ UNCHANGED vars   \* accepted, not rejected
(* two stores of different shape whose buffers coincide (1xN against Nx1, a vector against
   its transpose, constant matrices of equal size, 2x3 against 3x2 with the same column-major
   data): equality on the buffers alone answers TRUE where the ADT answers FALSE *)
WitnessEqBufferOnly == /\ BufferOnlyEq(A, B) /\ ~EqM(View(A), View(B)) /\ UNCHANGED vars
Next == \/ WitnessNdFlatten \/ WitnessNdReshape \/ WitnessNaFlatten \/ WitnessNaMax \/ WitnessNaMin
        \/ WitnessNdDotColumn \/ WitnessNdDotLength \/ WitnessEqBufferOnly
Spec == Init /\ [][Next]_vars

(***************************************************************************)
(* DenseMatrix refines the ADT (only column-major stores are DenseMatrix   *)
(* values)                                                                 *)
(***************************************************************************)
DenseRefines1(S) ==
    /\ View(DenseFromVec(S.r, S.c, View(S).d)) = View(S)
    /\ View(DenseNew(S.r, S.c, S.raw)) = FromColMajor(S.r, S.c, S.raw)
    /\ DenseToRowVector(S) = ToRowVector(View(S)).d
    /\ DenseIter(S) = View(S).d
    /\ View(DenseTranspose(S)) = Transpose(View(S))
    /\ \A nr \in 1..(N(S) + 1), nc \in 1..(N(S) + 1) :
          /\ DenseReshapePanics(S, nr, nc) <=> ~EnReshape(View(S), nr, nc)
          /\ ~DenseReshapePanics(S, nr, nc) => View(DenseReshape(S, nr, nc)) = Reshape(View(S), nr, nc)
    /\ DenseSum(S) = Sum(View(S)) /\ DenseNorm1(S) = Norm1(View(S)) /\ DenseMax(S) = MaxOf(View(S))

DenseRefines2(S, T) ==
    /\ DenseEq(S, T) <=> EqM(View(S), View(T))
    /\ DenseCopyFromPanics(S, T) <=> ~EnAdd(View(S), View(T))
    /\ ~DenseCopyFromPanics(S, T) => /\ View(DenseCopyFrom(S, T)) = View(T)
                                      /\ DenseMaxDiff(S, T) = MaxDiff(View(S), View(T))
    \* dot: on every pair on which the statement defines it, guard and value are the ADT's
    /\ DotDefined(View(S), View(T)) =>
          /\ DenseDotPanics(S, T) <=> ~EnDotM(View(S), View(T))
          /\ ~DenseDotPanics(S, T) => DenseDot(S, T) = Dot(View(S), View(T))
    /\ EnHStack(View(S), View(T)) => View(DenseHStack(S, T)) = HStack(View(S), View(T))
    /\ EnVStack(View(S), View(T)) => View(DenseVStack(S, T)) = VStack(View(S), View(T))
    /\ EnMatMul(View(S), View(T)) => View(DenseMatMul(S, T)) = MatMul(View(S), View(T))
    /\ \A ta, tb \in BOOLEAN :
          (ta \/ tb) =>          \* the (false, false) case delegates to matmul
             /\ DenseABPanics(S, ta, T, tb) <=> ~EnAB(View(S), ta, View(T), tb)
             /\ ~DenseABPanics(S, ta, T, tb) => View(DenseAB(S, ta, T, tb)) = AB(View(S), ta, View(T), tb)

DenseRefines == /\ IsF(A) => DenseRefines1(A)
                /\ (IsF(A) /\ IsF(B)) => DenseRefines2(A, B)

(***************************************************************************)
(* The bindings refine the ADT on every layout; the memory-order variants  *)
(* do so exactly under the stated conditions                               *)
(***************************************************************************)
BindingFacts ==
    /\ View(NdTranspose(A)) = Transpose(View(A))
    /\ Vec(NdToRowVector(A)) = ToRowVector(View(A))
    /\ \A nr \in 1..N(A) : N(A) % nr = 0 =>
           /\ View(NdReshape(A, nr, N(A) \div nr)) = Reshape(View(A), nr, N(A) \div nr)
           /\ View(NaReshape(A, nr, N(A) \div nr)) = Reshape(View(A), nr, N(A) \div nr)
    /\ IsF(A) => Vec(NaToRowVector(A)) = ToRowVector(View(A))
    /\ NaMax(A) = MaxOf(View(A)) /\ NaMin(A) = MinOf(View(A))
    /\ DotDefined(View(A), View(B)) =>
           /\ NdDotPanics(A, B) <=> ~EnDotM(View(A), View(B))
           /\ ~NdDotPanics(A, B) => NdDot(A, B) = Dot(View(A), View(B))
    /\ NdEq(A, B) <=> EqM(View(A), View(B))
    \* ---- the memory-order variants
    /\ RowMajorLike(A) => Vec(MemOrderFlatten(A)) = ToRowVector(View(A))
    /\ RowMajorLike(A) => \A nr \in 1..N(A) : N(A) % nr = 0 =>
                              View(MemOrderReshape(A, nr, N(A) \div nr)) = Reshape(View(A), nr, N(A) \div nr)
    \* ... and after a transpose of a row-major matrix the buffer is NOT row-major any more
    /\ (A.ord = "C" /\ A.r >= 2 /\ A.c >= 2) => ~RowMajorLike(NdTranspose(A))
    /\ (\E x \in 1..N(A) : A.raw[x] >= 0) => FoldFrom0Max(A) = MaxOf(View(A))  \* right unless all entries are negative
    /\ (\E x \in 1..N(A) : A.raw[x] <= 0) => FoldFrom0Min(A) = MinOf(View(A))
    /\ (A.r = 1 /\ B.r = 1) => /\ FirstProductDotPanics(A, B) <=> ~SameShape(View(A), View(B))
                               /\ ~FirstProductDotPanics(A, B) => FirstProductDot(A, B) = Dot(View(A), View(B))
    /\ (A.c = 1 /\ B.c = 1) => ~FirstProductDotPanics(A, B) /\ FirstProductDot(A, B) = Get(A, 1, 1) * Get(B, 1, 1)
    /\ (A.r = B.r /\ A.c = B.c /\ A.ord = B.ord) => (BufferOnlyEq(A, B) <=> EqM(View(A), View(B)))
=============================================================================
