SPECIFICATION Spec
CONSTANTS
    N = 3
    K = 1
INVARIANT ExactLU
INVARIANT NonSingular
INVARIANT Replay
CHECK_DEADLOCK FALSE
