SPECIFICATION Spec
CONSTANTS
    N = 3
    K = 1
INVARIANT ExactLU
INVARIANT NonSingular
INVARIANT Accepts
INVARIANT Replay
CHECK_DEADLOCK FALSE
