----------------------------- MODULE MatrixADT -----------------------------
(***************************************************************************)
(* C03 / C20.  The dense matrix / vector abstract data type of smartcore   *)
(* (traits BaseMatrix, BaseVector, MatrixStats, MatrixPreprocessing,       *)
(* HighOrderOperations), specified on the LOGICAL rows-by-columns view.    *)
(*                                                                         *)
(* A matrix value is a record [k |-> "m", r, c, d] where d is the          *)
(* row-major flattening (a sequence of r*c integers); a vector value is    *)
(* [k |-> "v", r |-> 1, c |-> n, d].  Nothing in this module knows how an  *)
(* implementation stores its data (column-major Vec, ndarray strides,      *)
(* nalgebra VecStorage): that is the point of the property -- every        *)
(* operation "returns the value defined by the corresponding mathematical  *)
(* formula on the logical rows-by-columns view of the data, independent    *)
(* of the internal storage order".                                         *)
(*                                                                         *)
(* Contents                                                                *)
(*   1. values and helpers                                                 *)
(*   2. the operations, one definition each (copying and in-place          *)
(*      variants share the definition: "each in-place variant produces the *)
(*      same result as its copying counterpart")                           *)
(*   3. shape contracts (Enabled...) and the classes of operations whose   *)
(*      incompatible-shape calls must be rejected / must answer FALSE      *)
(*   4. rational-valued results (mean, var, std, cov, div, scale) as exact *)
(*      fractions and the acceptance of a fixed-point observation          *)
(*   5. non-functional results: argmax (ties), unique (order), softmax     *)
(*      (the facts the statement gives)                                    *)
(*   6. Sem / QInt / QBool / QRat: dispatch by operation name, used by the *)
(*      register-file state machine (MatrixADT_MC) and by trace validation *)
(*      (MatrixTrace, BackendAgree)                                        *)
(*                                                                         *)
(* Index arguments are 1-based here; the trace specs add 1 to the 0-based  *)
(* indices of the Rust API.                                                *)
(***************************************************************************)
EXTENDS Integers, Sequences, FiniteSets

(***************************************************************************)
(* 1. Values                                                               *)
(***************************************************************************)
Mat(r, c, d) == [k |-> "m", r |-> r, c |-> c, d |-> d]
Vec(d)       == [k |-> "v", r |-> 1, c |-> Len(d), d |-> d]
Empty        == [k |-> "e", r |-> 0, c |-> 0, d |-> <<>>]

IsM(A) == A.k = "m"
IsV(A) == A.k = "v"

(* element (i, j), 1-based, of the logical view *)
At(A, i, j) == A.d[(i - 1) * A.c + j]

(* the r-by-c matrix whose (i, j) entry is F(i, j) *)
MkMat(r, c, F(_, _)) ==
    Mat(r, c, [x \in 1..(r * c) |-> F(((x - 1) \div c) + 1, ((x - 1) % c) + 1)])
MkVec(n, F(_)) == Vec([x \in 1..n |-> F(x)])

Abs(x) == IF x < 0 THEN -x ELSE x
Sgn(x) == IF x < 0 THEN -1 ELSE IF x = 0 THEN 0 ELSE 1
Max2(a, b) == IF a < b THEN b ELSE a
Min2(a, b) == IF a < b THEN a ELSE b

RECURSIVE SumIdx(_, _)
SumIdx(s, n) == IF n = 0 THEN 0 ELSE s[n] + SumIdx(s, n - 1)
SeqSum(s) == SumIdx(s, Len(s))

RECURSIVE MaxIdx(_, _)
MaxIdx(s, n) == IF n = 1 THEN s[1] ELSE Max2(s[n], MaxIdx(s, n - 1))
SeqMax(s) == MaxIdx(s, Len(s))      \* s non-empty
RECURSIVE MinIdx(_, _)
MinIdx(s, n) == IF n = 1 THEN s[1] ELSE Min2(s[n], MinIdx(s, n - 1))
SeqMin(s) == MinIdx(s, Len(s))      \* s non-empty

Range(s) == { s[i] : i \in DOMAIN s }

RECURSIVE IPow(_, _)
IPow(x, p) == IF p = 0 THEN 1 ELSE x * IPow(x, p - 1)

MapSeq(s, F(_)) == [i \in 1..Len(s) |-> F(s[i])]

Row(A, i) == [j \in 1..A.c |-> At(A, i, j)]
Col(A, j) == [i \in 1..A.r |-> At(A, i, j)]

SameShape(A, B) == A.r = B.r /\ A.c = B.c
IsVecShaped(A)  == A.r = 1 \/ A.c = 1
NonEmpty(A)     == A.r >= 1 /\ A.c >= 1

(***************************************************************************)
(* 2. Operations                                                           *)
(***************************************************************************)
(* ---- construction.  `from_array`, `from_vec`, `from_2d_array`,           *)
(* `from_2d_vec` take ROW-major data; `DenseMatrix::new` documents          *)
(* COLUMN-major data; row/column_vector_from_* build 1xN / Nx1.             *)
FromRowMajor(r, c, data) == Mat(r, c, data)
FromColMajor(r, c, data) == MkMat(r, c, LAMBDA i, j : data[(j - 1) * r + i])
RowVector(data)  == Mat(1, Len(data), data)
ColVector(data)  == Mat(Len(data), 1, data)
Eye(n)           == MkMat(n, n, LAMBDA i, j : IF i = j THEN 1 ELSE 0)
Fill(r, c, v)    == MkMat(r, c, LAMBDA i, j : v)
FromRowVector(V) == Mat(1, V.c, V.d)
ToRowVector(A)   == Vec(A.d)                       \* flattening is row-major
GetRow(A, i)     == Vec(Row(A, i))

(* ---- structure *)
Transpose(A) == MkMat(A.c, A.r, LAMBDA i, j : At(A, j, i))

HStack(A, B) == MkMat(A.r, A.c + B.c,
                      LAMBDA i, j : IF j <= A.c THEN At(A, i, j) ELSE At(B, i, j - A.c))
VStack(A, B) == Mat(A.r + B.r, A.c, A.d \o B.d)

(* rows r0..r1 and columns c0..c1 inclusive, 1-based (Rust: r0-1 .. r1, half open) *)
Slice(A, r0, r1, c0, c1) ==
    MkMat(r1 - r0 + 1, c1 - c0 + 1, LAMBDA i, j : At(A, r0 + i - 1, c0 + j - 1))

(* reshape preserves the row-major flattening *)
Reshape(A, r, c) == Mat(r, c, A.d)

(* take along axis 0 (rows) / 1 (columns); idx is a sequence of 1-based indices,
   repetitions and arbitrary order allowed *)
Take(A, idx, axis) ==
    IF axis = 0 THEN MkMat(Len(idx), A.c, LAMBDA i, j : At(A, idx[i], j))
                ELSE MkMat(A.r, Len(idx), LAMBDA i, j : At(A, i, idx[j]))
VTake(V, idx) == Vec([i \in 1..Len(idx) |-> V.d[idx[i]]])

SetAt(A, i, j, v) == [A EXCEPT !.d[(i - 1) * A.c + j] = v]

(* ---- element-wise; the result has the kind and shape of the first operand *)
Map1(A, F(_))       == [A EXCEPT !.d = [x \in 1..Len(A.d) |-> F(A.d[x])]]
Map2(A, B, F(_, _)) == [A EXCEPT !.d = [x \in 1..Len(A.d) |-> F(A.d[x], B.d[x])]]

Add(A, B) == Map2(A, B, LAMBDA x, y : x + y)
Sub(A, B) == Map2(A, B, LAMBDA x, y : x - y)
Mul(A, B) == Map2(A, B, LAMBDA x, y : x * y)
AddScalar(A, s) == Map1(A, LAMBDA x : x + s)
SubScalar(A, s) == Map1(A, LAMBDA x : x - s)
MulScalar(A, s) == Map1(A, LAMBDA x : x * s)
Negative(A)     == Map1(A, LAMBDA x : -x)
AbsM(A)         == Map1(A, LAMBDA x : Abs(x))
PowM(A, p)      == Map1(A, LAMBDA x : IPow(x, p))          \* p a natural number
Binarize(A, t)  == Map1(A, LAMBDA x : IF x > t THEN 1 ELSE 0)

(* ---- products *)
MatMul(A, B) ==
    MkMat(A.r, B.c, LAMBDA i, j : SeqSum([t \in 1..A.c |-> At(A, i, t) * At(B, t, j)]))
OpT(A, t) == IF t THEN Transpose(A) ELSE A
AB(A, ta, B, tb) == MatMul(OpT(A, ta), OpT(B, tb))          \* op(A) * op(B)
Dot(A, B) == SeqSum([x \in 1..Len(A.d) |-> A.d[x] * B.d[x]])

(* ---- reductions *)
Sum(A)      == SeqSum(A.d)
MaxOf(A)    == SeqMax(A.d)
MinOf(A)    == SeqMin(A.d)
Norm1(A)    == SeqSum(MapSeq(A.d, Abs))
NormInf(A)  == SeqMax(MapSeq(A.d, Abs))
NormNInf(A) == SeqMin(MapSeq(A.d, Abs))
NormPPow(A, p) == SeqSum([x \in 1..Len(A.d) |-> IPow(Abs(A.d[x]), p)])   \* (||A||_p)^p
MaxDiff(A, B)  == IF Len(A.d) = 0 THEN 0
                  ELSE SeqMax([x \in 1..Len(A.d) |-> Abs(A.d[x] - B.d[x])])

(* ---- equality tests: FALSE on operands of different shape *)
EqM(A, B)          == SameShape(A, B) /\ A.d = B.d
ApproxEq(A, B, e)  == SameShape(A, B) /\ \A x \in 1..Len(A.d) : Abs(A.d[x] - B.d[x]) <= e

(***************************************************************************)
(* 3. Shape contracts                                                      *)
(***************************************************************************)
EnAdd(A, B)      == SameShape(A, B)                     \* add sub mul div copy_from max_diff
EnMatMul(A, B)   == A.c = B.r
EnAB(A, ta, B, tb) == (IF ta THEN A.r ELSE A.c) = (IF tb THEN B.c ELSE B.r)
EnHStack(A, B)   == A.r = B.r
EnVStack(A, B)   == A.c = B.c
EnReshape(A, r, c) == r * c = A.r * A.c
(* dot on matrices is a vector operation: both operands are vector shaped (1xN or Nx1) and
   have the same length; the orientation does not matter ("dot ... do[es] not depend on
   the ... orientation of the data", C20; DenseMatrix computes 1xN . Nx1 as well).  Vector-
   shaped operands of different length are an incompatible pair (rejected).  What a 2x2
   against a 1x4 should do is not said by the statement; such pairs are never generated. *)
EnDotM(A, B)     == /\ IsVecShaped(A) /\ IsVecShaped(B) /\ Len(A.d) = Len(B.d)
DotDefined(A, B) == IsVecShaped(A) /\ IsVecShaped(B)
EnSlice(A, r0, r1, c0, c1) == 1 <= r0 /\ r0 <= r1 /\ r1 <= A.r /\ 1 <= c0 /\ c0 <= c1 /\ c1 <= A.c
EnTake(A, idx, axis) == \A i \in 1..Len(idx) : 1 <= idx[i] /\ idx[i] <= (IF axis = 0 THEN A.r ELSE A.c)
EnIdx(A, i, j)   == 1 <= i /\ i <= A.r /\ 1 <= j /\ j <= A.c

(***************************************************************************)
(* 4. Rational-valued results.  A fraction is <<num, den>> with den > 0.   *)
(* An observation o is the fixed-point integer round(v * 2^10).  It is     *)
(* accepted iff it lies within `tol` units (plus the quantisation step) of *)
(* the exact value; the floor of num*2^10/den is computed without forming  *)
(* num*2^10 (32-bit integers in TLC).                                      *)
(***************************************************************************)
FxBits == 10
FxOne == 1024               \* 2^FxBits
RatFloor(num, den) == (num \div den) * FxOne + ((num % den) * FxOne) \div den
RatClose(num, den, o, tol) ==
    LET fl == RatFloor(num, den) IN (o - fl >= -1 - tol) /\ (o - fl <= 2 + tol)

(* relative slack for single precision: a value of magnitude `mag` carries an absolute
   error of a few units in the 24th bit; 2^-18 * mag, expressed in units of 2^-10 *)
TolTy(ty, mag) == IF ty = "f32" THEN (mag \div 256) + 1 ELSE 0

Frac(num, den) == IF den < 0 THEN <<-num, -den>> ELSE <<num, den>>

(* mean of a sequence of integers *)
MeanFrac(xs) == <<SeqSum(xs), Len(xs)>>

(* population variance  (1/n) sum (x - mean)^2  =  (n*sum y^2 - (sum y)^2) / n^2,
   where y = x - x[1]: variance is invariant under a common shift, which keeps the
   integers small even when the data carry an offset of 10^8. *)
VarFrac(xs) ==
    LET n  == Len(xs)
        ys == [i \in 1..n |-> xs[i] - xs[1]]
        s1 == SeqSum(ys)
        s2 == SeqSum([i \in 1..n |-> ys[i] * ys[i]])
    IN  <<n * s2 - s1 * s1, n * n>>
Spread(xs) == SeqMax(xs) - SeqMin(xs)

(* "accurate relative to the spread of the data": error at most 2^-10 * spread^2
   (plus quantisation).  var <= spread^2 / 4, so this is a relative accuracy of 2^-8
   on the variance itself for the worst data and is insensitive to any common offset. *)
VarTol(xs) == Spread(xs) * Spread(xs) + 2
VarClose(xs, o) == LET f == VarFrac(xs) IN RatClose(f[1], f[2], o, VarTol(xs))

(* standard deviation: o is round(std * 2^10).  Compared through its square at the
   coarser scale 2^5 (o5 = floor(o / 32); o5^2 has scale 2^10). *)
StdClose(xs, o) ==
    LET f   == VarFrac(xs)
        vfl == RatFloor(f[1], f[2])
        tol == VarTol(xs)
        o5  == o \div 32
        lo  == IF o5 >= 1 THEN o5 - 1 ELSE 0
    IN  /\ o >= 0
        /\ o <= (Spread(xs) + 1) * FxOne          \* std <= spread (also keeps the squares in range)
        /\ lo * lo <= vfl + tol + 1
        /\ (o5 + 2) * (o5 + 2) >= vfl - tol

(* the sequences a statistic along an axis is computed from: axis 0 = one value per
   column (over the rows), axis 1 = one value per row *)
Lanes(A, axis) == IF axis = 0 THEN [j \in 1..A.c |-> Col(A, j)] ELSE [i \in 1..A.r |-> Row(A, i)]

(* sample covariance of the columns, (1/(m-1)) sum_k (x_ki - mu_i)(x_kj - mu_j)
   = (m * sum x_i x_j - sum x_i * sum x_j) / (m (m-1));  defined for m >= 2 *)
CovFrac(A, i, j) ==
    \* covariance is invariant under a shift of either column: computed on y = x - x[1], which keeps the
    \* integers small when the columns carry a large common offset
    LET m  == A.r
        ci == Col(A, i)
        cj == Col(A, j)
        xi == [k \in 1..m |-> ci[k] - ci[1]]
        xj == [k \in 1..m |-> cj[k] - cj[1]]
    IN  <<m * SeqSum([k \in 1..m |-> xi[k] * xj[k]]) - SeqSum(xi) * SeqSum(xj), m * (m - 1)>>
(* accuracy relative to the spread of the columns (like var): the tolerance does not grow with a common offset,
   except for the rounding of the offset data themselves in single precision *)
ColSpread(A) == SeqMax([j \in 1..A.c |-> Spread(Col(A, j))]) + 1
CovTol(ty, A, sp) == TolTy(ty, 4 * sp * sp * A.r) + (IF ty = "f32" THEN (NormInf(A) * sp * A.r) \div 16384 ELSE 0)

(***************************************************************************)
(* 5. Results the statement does not pin down to one value                 *)
(***************************************************************************)
(* argmax: one index per row, each attaining the row maximum (with repeated maxima any
   of them is "the index of the maximum value") -- 1-based here *)
IsArgmax(A, out) ==
    /\ Len(out) = A.r
    /\ \A i \in 1..A.r : /\ 1 <= out[i] /\ out[i] <= A.c
                         /\ At(A, i, out[i]) = SeqMax(Row(A, i))

(* unique: every value exactly once; the order is not part of the property *)
IsUnique(A, out) ==
    /\ Range(out) = Range(A.d)
    /\ Cardinality(Range(out)) = Len(out)
IsSortedAsc(out) == \A i \in 1..(Len(out) - 1) : out[i] < out[i + 1]

(* softmax of a finite vector is a probability vector: every entry finite and in
   [0, 1], the entries sum to one, and the map is monotone (x_i < x_j => p_i <= p_j,
   x_i = x_j => p_i = p_j).  Observation: p quantised with scale 2^20; the sum of n
   rounded entries may be off by n/2 units, plus a few units of rounding in the code. *)
SoftS == 1048576
IsSoftmax(A, out) ==
    LET n == Len(A.d) IN
    /\ Len(out) = n
    /\ \A x \in 1..n : out[x] >= 0 /\ out[x] <= SoftS
    /\ Abs(SeqSum(out) - SoftS) <= (n \div 2) + 8
    /\ \A x, y \in 1..n : /\ (A.d[x] < A.d[y] => out[x] <= out[y])
                          /\ (A.d[x] = A.d[y] => out[x] = out[y])
(* the largest input gets at least 1/n of the mass *)
SoftmaxTop(A, out) ==
    LET n == Len(A.d) IN
    \A x \in 1..n : (A.d[x] = SeqMax(A.d)) => (out[x] * n >= SoftS - n)

(***************************************************************************)
(* 6. Dispatch by operation name.                                          *)
(*                                                                         *)
(* An operation call is (op, A, B, ia, iv, iw): the operand values, a      *)
(* sequence of integer arguments and up to two integer lists (data, index  *)
(* vector, mean / std vectors).  Boolean flags are 0 / 1.                  *)
(*                                                                         *)
(* Sem gives, for every operation that produces a matrix or a vector, the  *)
(* record [en, val]: `en` is the shape contract, `val` the result.  The    *)
(* in-place variants ("..._mut", set, copy_from, element updates) have the *)
(* same `val`; the state machines write it to the first operand's          *)
(* register instead of a destination register.                             *)
(***************************************************************************)
(* the result is only evaluated when the shape contract holds (operator arguments are lazy) *)
R_(en, val) == IF en THEN [en |-> TRUE, val |-> val] ELSE [en |-> FALSE, val |-> Empty]
B01(x) == x = 1

(* constructions through the NATIVE API of a back end (ndarray: slice_move / slice_axis_inplace of a larger
   array -- row offset, column offset, stepped --, invert_axis, t().to_owned(), broadcast().to_owned(),
   remove_index; nalgebra: rows(..)/columns(..).into_owned(), remove_row, resize).  A user of the bindings
   hands over such matrices; the buffer behind them may be larger than, offset against, or ordered
   differently from the logical content.  The ADT only sees the logical content: row-major data `iv`. *)
NativeBuildOps == {"nat_row_offset", "nat_col_offset", "nat_inplace", "nat_strided", "nat_reversed",
                   "nat_t_owned", "nat_broadcast", "nat_remove_row", "nat_resize"}
BuildOps == NativeBuildOps \cup
            {"from_array", "from_vec", "from_2d_array", "from_2d_vec", "new",
             "row_vector_from_array", "row_vector_from_vec",
             "column_vector_from_array", "column_vector_from_vec",
             "eye", "zeros", "ones", "fill",
             "v_from_array", "v_zeros", "v_ones", "v_fill",
             \* vectors built through the native API (negative stride, stepped, offset into a longer buffer)
             "v_nat_reversed", "v_nat_strided", "v_nat_offset"}
(* matrix -> matrix, copying *)
(* serde_json / serde_bincode: Deserialize(Serialize(A)), which must reproduce shape and entries *)
UnaryOps == {"serde_json", "serde_bincode", "clone", "transpose", "negative", "abs", "add_scalar", "sub_scalar", "mul_scalar",
             "pow", "binarize", "slice", "reshape", "take"}
BinaryOps == {"add", "sub", "mul", "matmul", "ab", "h_stack", "v_stack"}
(* in place: the destination is the first operand *)
InPlaceOps == {"negative_mut", "abs_mut", "add_scalar_mut", "sub_scalar_mut", "mul_scalar_mut",
               "pow_mut", "binarize_mut", "add_mut", "sub_mut", "mul_mut", "copy_from",
               "set", "add_element_mut", "sub_element_mut", "mul_element_mut"}
ConvOps == {"from_row_vector", "to_row_vector", "get_row"}
VecOps == {"v_clone", "v_add", "v_sub", "v_mul", "v_add_scalar", "v_sub_scalar", "v_mul_scalar", "v_take"}
VecInPlaceOps == {"v_add_mut", "v_sub_mut", "v_mul_mut", "v_add_scalar_mut", "v_sub_scalar_mut",
                  "v_mul_scalar_mut", "v_copy_from", "v_set", "v_add_element_mut",
                  "v_sub_element_mut", "v_mul_element_mut"}
RegOps == BuildOps \cup UnaryOps \cup BinaryOps \cup InPlaceOps \cup ConvOps \cup VecOps \cup VecInPlaceOps
WritesFirst == InPlaceOps \cup VecInPlaceOps

(* operations whose call on operands of incompatible shape must be rejected (panic):
   "binary arithmetic, products, dot, stacking, reshape and copy" *)
RejectOps == {"add", "sub", "mul", "add_mut", "sub_mut", "mul_mut", "div", "div_mut",
              "matmul", "ab", "dot", "h_stack", "v_stack", "reshape", "copy_from",
              "v_add", "v_sub", "v_mul", "v_add_mut", "v_sub_mut", "v_mul_mut", "v_div", "v_div_mut",
              "v_dot", "v_copy_from"}
(* equality tests answer FALSE on such operands *)
EqOps == {"eq", "approximate_eq", "v_eq", "v_approximate_eq"}

Sem(op, A, B, ia, iv, iw) ==
    CASE op \in {"from_array", "from_vec", "from_2d_array", "from_2d_vec"} \cup NativeBuildOps ->
            R_(Len(iv) = ia[1] * ia[2], FromRowMajor(ia[1], ia[2], iv))
      [] op = "new" -> R_(Len(iv) = ia[1] * ia[2], FromColMajor(ia[1], ia[2], iv))
      [] op \in {"row_vector_from_array", "row_vector_from_vec"} -> R_(TRUE, RowVector(iv))
      [] op \in {"column_vector_from_array", "column_vector_from_vec"} -> R_(TRUE, ColVector(iv))
      [] op = "eye"   -> R_(TRUE, Eye(ia[1]))
      [] op = "zeros" -> R_(TRUE, Fill(ia[1], ia[2], 0))
      [] op = "ones"  -> R_(TRUE, Fill(ia[1], ia[2], 1))
      [] op = "fill"  -> R_(TRUE, Fill(ia[1], ia[2], ia[3]))
      [] op \in {"v_from_array", "v_nat_reversed", "v_nat_strided", "v_nat_offset"} -> R_(TRUE, Vec(iv))
      [] op = "v_zeros" -> R_(TRUE, MkVec(ia[1], LAMBDA x : 0))
      [] op = "v_ones"  -> R_(TRUE, MkVec(ia[1], LAMBDA x : 1))
      [] op = "v_fill"  -> R_(TRUE, MkVec(ia[1], LAMBDA x : ia[2]))
      \* ---- conversions
      [] op = "from_row_vector" -> R_(IsV(A), FromRowVector(A))
      [] op = "to_row_vector"   -> R_(IsM(A), ToRowVector(A))
      [] op = "get_row"         -> R_(IsM(A) /\ 1 <= ia[1] /\ ia[1] <= A.r, GetRow(A, ia[1]))
      \* ---- unary
      [] op \in {"clone", "v_clone", "serde_json", "serde_bincode"} -> R_(TRUE, A)
      [] op = "transpose" -> R_(IsM(A), Transpose(A))
      [] op \in {"negative", "negative_mut"} -> R_(TRUE, Negative(A))
      [] op \in {"abs", "abs_mut"} -> R_(TRUE, AbsM(A))
      [] op \in {"add_scalar", "add_scalar_mut", "v_add_scalar", "v_add_scalar_mut"} -> R_(TRUE, AddScalar(A, ia[1]))
      [] op \in {"sub_scalar", "sub_scalar_mut", "v_sub_scalar", "v_sub_scalar_mut"} -> R_(TRUE, SubScalar(A, ia[1]))
      [] op \in {"mul_scalar", "mul_scalar_mut", "v_mul_scalar", "v_mul_scalar_mut"} -> R_(TRUE, MulScalar(A, ia[1]))
      [] op \in {"pow", "pow_mut"} -> R_(ia[1] >= 0, PowM(A, ia[1]))
      [] op \in {"binarize", "binarize_mut"} -> R_(TRUE, Binarize(A, ia[1]))
      [] op = "slice" -> R_(EnSlice(A, ia[1], ia[2], ia[3], ia[4]), Slice(A, ia[1], ia[2], ia[3], ia[4]))
      [] op = "reshape" -> R_(EnReshape(A, ia[1], ia[2]), Reshape(A, ia[1], ia[2]))
      [] op = "take" -> R_(EnTake(A, iv, ia[1]), Take(A, iv, ia[1]))
      [] op = "v_take" -> R_(EnTake(A, iv, 1), VTake(A, iv))
      \* ---- binary element-wise
      [] op \in {"add", "add_mut", "v_add", "v_add_mut"} -> R_(EnAdd(A, B), Add(A, B))
      [] op \in {"sub", "sub_mut", "v_sub", "v_sub_mut"} -> R_(EnAdd(A, B), Sub(A, B))
      [] op \in {"mul", "mul_mut", "v_mul", "v_mul_mut"} -> R_(EnAdd(A, B), Mul(A, B))
      [] op \in {"copy_from", "v_copy_from"} -> R_(EnAdd(A, B), B)
      \* ---- products and stacking
      [] op = "matmul" -> R_(EnMatMul(A, B), MatMul(A, B))
      [] op = "ab" -> R_(EnAB(A, B01(ia[1]), B, B01(ia[2])), AB(A, B01(ia[1]), B, B01(ia[2])))
      [] op = "h_stack" -> R_(EnHStack(A, B), HStack(A, B))
      [] op = "v_stack" -> R_(EnVStack(A, B), VStack(A, B))
      \* ---- single elements
      [] op = "set" -> R_(EnIdx(A, ia[1], ia[2]), SetAt(A, ia[1], ia[2], ia[3]))
      [] op = "add_element_mut" -> R_(EnIdx(A, ia[1], ia[2]), SetAt(A, ia[1], ia[2], At(A, ia[1], ia[2]) + ia[3]))
      [] op = "sub_element_mut" -> R_(EnIdx(A, ia[1], ia[2]), SetAt(A, ia[1], ia[2], At(A, ia[1], ia[2]) - ia[3]))
      [] op = "mul_element_mut" -> R_(EnIdx(A, ia[1], ia[2]), SetAt(A, ia[1], ia[2], At(A, ia[1], ia[2]) * ia[3]))
      [] op = "v_set" -> R_(EnIdx(A, 1, ia[1]), SetAt(A, 1, ia[1], ia[2]))
      [] op = "v_add_element_mut" -> R_(EnIdx(A, 1, ia[1]), SetAt(A, 1, ia[1], A.d[ia[1]] + ia[2]))
      [] op = "v_sub_element_mut" -> R_(EnIdx(A, 1, ia[1]), SetAt(A, 1, ia[1], A.d[ia[1]] - ia[2]))
      [] op = "v_mul_element_mut" -> R_(EnIdx(A, 1, ia[1]), SetAt(A, 1, ia[1], A.d[ia[1]] * ia[2]))
      [] OTHER -> R_(FALSE, Empty)

(* Integer-valued observations: [en, out] with out a sequence of integers. *)
(* DenseMatrix::iter() consumed through the other documented ways of using an Iterator: nth, skip, step_by,
   count, last (each must behave like the corresponding number of next() calls on the row-major sequence) *)
(* copy_row_as_vec / copy_col_as_vec into a caller buffer of length ia[2] >= the row (column) length,
   pre-filled with ia[3]: the leading cells receive the row (column), the tail and the length stay *)
CopyIntoOps == {"copy_row_into", "copy_col_into"}
IterOps == {"iter_nth", "iter_skip", "iter_step", "iter_count", "iter_last"}
QIntOps == IterOps \cup CopyIntoOps \cup
           {"shape", "get", "get_row_as_vec", "get_col_as_vec", "copy_row_as_vec", "copy_col_as_vec",
            "iter", "sum", "min", "max", "norm1", "norm_inf", "norm_ninf", "norm2sq", "normp",
            "max_diff", "dot",
            "v_len", "v_get", "v_to_vec", "v_sum", "v_norm1", "v_norm_inf", "v_norm_ninf",
            "v_norm2sq", "v_normp", "v_dot"}
Q_(en, out) == IF en THEN [en |-> TRUE, out |-> out] ELSE [en |-> FALSE, out |-> <<>>]
QInt(op, A, B, ia) ==
    CASE op = "shape" -> Q_(TRUE, <<A.r, A.c>>)
      [] op = "get" -> Q_(EnIdx(A, ia[1], ia[2]), <<At(A, ia[1], ia[2])>>)
      [] op \in {"get_row_as_vec", "copy_row_as_vec"} -> Q_(1 <= ia[1] /\ ia[1] <= A.r, Row(A, ia[1]))
      [] op \in {"get_col_as_vec", "copy_col_as_vec"} -> Q_(1 <= ia[1] /\ ia[1] <= A.c, Col(A, ia[1]))
      [] op \in {"iter", "v_to_vec"} -> Q_(TRUE, A.d)                  \* row-major iteration
      \* iter().nth(k-1): the k-th element, or nothing when there are fewer
      [] op = "copy_row_into" -> Q_(1 <= ia[1] /\ ia[1] <= A.r /\ ia[2] >= A.c,
                                    Row(A, ia[1]) \o [x \in 1..(ia[2] - A.c) |-> ia[3]])
      [] op = "copy_col_into" -> Q_(1 <= ia[1] /\ ia[1] <= A.c /\ ia[2] >= A.r,
                                    Col(A, ia[1]) \o [x \in 1..(ia[2] - A.r) |-> ia[3]])
      [] op = "iter_nth"  -> Q_(ia[1] >= 1, IF ia[1] <= Len(A.d) THEN <<A.d[ia[1]]>> ELSE <<>>)
      \* iter().skip(k).collect()
      [] op = "iter_skip" -> Q_(ia[1] >= 0, SubSeq(A.d, ia[1] + 1, Len(A.d)))
      \* iter().step_by(k).collect(): elements 1, 1+k, 1+2k, ...
      [] op = "iter_step" -> Q_(ia[1] >= 1, IF Len(A.d) = 0 THEN <<>>
                                            ELSE [x \in 1..(((Len(A.d) - 1) \div ia[1]) + 1) |-> A.d[(x - 1) * ia[1] + 1]])
      [] op = "iter_count" -> Q_(TRUE, <<Len(A.d)>>)
      [] op = "iter_last"  -> Q_(TRUE, IF Len(A.d) = 0 THEN <<>> ELSE <<A.d[Len(A.d)]>>)
      [] op \in {"sum", "v_sum"} -> Q_(TRUE, <<Sum(A)>>)
      [] op = "min" -> Q_(NonEmpty(A), <<MinOf(A)>>)
      [] op = "max" -> Q_(NonEmpty(A), <<MaxOf(A)>>)
      [] op \in {"norm1", "v_norm1"} -> Q_(TRUE, <<Norm1(A)>>)
      [] op \in {"norm_inf", "v_norm_inf"} -> Q_(NonEmpty(A), <<NormInf(A)>>)
      [] op \in {"norm_ninf", "v_norm_ninf"} -> Q_(NonEmpty(A), <<NormNInf(A)>>)
      [] op \in {"norm2sq", "v_norm2sq"} -> Q_(TRUE, <<NormPPow(A, 2)>>)
      [] op \in {"normp", "v_normp"} -> Q_(ia[1] >= 1, <<NormPPow(A, ia[1])>>)
      [] op = "max_diff" -> Q_(SameShape(A, B), <<MaxDiff(A, B)>>)
      [] op = "dot" -> Q_(EnDotM(A, B), <<Dot(A, B)>>)
      [] op = "v_dot" -> Q_(A.c = B.c, <<Dot(A, B)>>)
      [] op = "v_len" -> Q_(TRUE, <<A.c>>)
      [] op = "v_get" -> Q_(1 <= ia[1] /\ ia[1] <= A.c, <<A.d[ia[1]]>>)
      [] OTHER -> Q_(FALSE, <<>>)

(* observations that went through sqrt / powf and were squared (raised) back by the
   harness: exact in double precision; in single precision the root carries a relative
   error of a few 2^-24 (powf, and the exponent 1/p itself), hence 2^-18 relative *)
RootedOps == {"norm2sq", "normp", "v_norm2sq", "v_normp"}
IntClose(ty, op, expect, o) ==
    IF op \in RootedOps /\ ty = "f32" THEN Abs(o - expect) <= 1 + (expect \div 262144)
    ELSE o = expect

(* p-norms of NON-integer order p = p2/2 (p2 odd: 1/2, 3/2, 5/2).  TLA+ has no real powers, so the
   value itself is not recomputed; what the formula (sum |x_i|^p)^(1/p) implies in integers is:
   the result is a finite number, and it is bracketed by the norms that ARE computable --
   max|x| <= ||x||_p <= ||x||_1 for p >= 1, and ||x||_1 <= ||x||_p <= n * ||x||_1 for p = 1/2.
   (A negative entry raised to a non-integer power before the absolute value is taken gives NaN:
   "not finite".)  Agreement of the three back ends on the value is BackendAgree's business. *)
NormHalfOps == {"norm_half", "v_norm_half"}
NormHalfOK(ty, A, p2, o) ==
    LET n1 == Norm1(A)
        ni == NormInf(A)
        n  == Len(A.d)
        t  == 2 + TolTy(ty, n * n1)
    IN  IF p2 >= 2 THEN o >= ni * FxOne - t /\ o <= n1 * FxOne + t
        ELSE o >= n1 * FxOne - t /\ o <= n * n1 * FxOne + t

(* p-norms of NEGATIVE finite order p = -p2/2 (p2 = 1, 2, 4: p = -1/2, -1, -2) of operands without zero
   entries: (sum |x_i|^p)^(1/p).  Decided without real powers:
     p = -1   : 1 / sum(1/|x_i|) = prod|x| / sum_i prod_{j # i}|x_j|, an exact fraction;
     all magnitudes equal to c : c * n^(1/p), i.e. c/n^2 (p = -1/2), c/n (p = -1), c/sqrt(n) (p = -2; compared
                through the square);
     otherwise: min|x| * n^(1/p) <= value <= min|x|  (the lower end weakened to min|x| / n^2).
   In particular for two or more entries and p = -1 the value is strictly below min|x|. *)
NormNegOps == {"norm_neg", "v_norm_neg"}
RECURSIVE ProdIdx(_, _, _)
ProdIdx(s, n, skip) == IF n = 0 THEN 1 ELSE (IF n = skip THEN 1 ELSE Abs(s[n])) * ProdIdx(s, n - 1, skip)
NormNegOK(ty, A, p2, o) ==
    LET n  == Len(A.d)
        mn == NormNInf(A)
        mx == NormInf(A)
        t  == 2 + TolTy(ty, mx)
    IN  IF p2 = 2 THEN RatClose(ProdIdx(A.d, n, 0), SeqSum([i \in 1..n |-> ProdIdx(A.d, n, i)]), o, t)
        ELSE IF mn = mx THEN
             (IF p2 = 1 THEN RatClose(mn, n * n, o, t)
              ELSE \* p = -2: o ~ 1024 * c / sqrt(n)  <=>  o^2 * n ~ c^2 * 2^20
                   LET lo == IF o > t THEN o - t ELSE 0 IN
                   lo * lo * n <= mn * mn * 1048576 /\ (o + t) * (o + t) * n >= mn * mn * 1048576)
        ELSE o * n * n >= mn * FxOne - t * n * n /\ o <= mn * FxOne + t
NormNegDefined(A) == Len(A.d) >= 1 /\ Len(A.d) <= 4 /\ \A x \in 1..Len(A.d) : A.d[x] # 0 /\ Abs(A.d[x]) <= 20

QBool(op, A, B, ia) ==
    CASE op \in {"eq", "v_eq"} -> EqM(A, B)
      [] op \in {"approximate_eq", "v_approximate_eq"} -> ApproxEq(A, B, ia[1])
      [] OTHER -> FALSE

(* Rational-valued observations.  QRat gives [en, con, fr, tol]: the sequences (row-major
   for matrix results) of fractions and of tolerances; con[x] = FALSE marks an entry on
   which the statement imposes nothing (division by zero). *)
QRatOps == {"column_mean", "mean", "cov", "div", "div_mut", "div_scalar", "div_scalar_mut", "scale_mut",
            "v_mean", "v_div", "v_div_mut", "v_div_scalar", "v_div_scalar_mut"}
VarOps == {"var", "std", "v_var", "v_std"}
QRNone == [en |-> FALSE, con |-> <<>>, fr |-> <<>>, tol |-> <<>>]
QR_(en, n, Con(_), Fr(_), Tol(_)) ==
    IF en THEN [en |-> TRUE, con |-> [x \in 1..n |-> Con(x)], fr |-> [x \in 1..n |-> Fr(x)], tol |-> [x \in 1..n |-> Tol(x)]]
    ELSE QRNone

(* (the lanes and the tolerance are operator PARAMETERS: evaluated once, not once per lane) *)
MeanLanes(ls, tol) == QR_(TRUE, Len(ls), LAMBDA x : TRUE, LAMBDA x : MeanFrac(ls[x]), LAMBDA x : tol)

CovAll(A, tol) == QR_(TRUE, A.c * A.c, LAMBDA x : TRUE,
                      LAMBDA x : CovFrac(A, ((x - 1) \div A.c) + 1, ((x - 1) % A.c) + 1), LAMBDA x : tol)

QRat(ty, op, A, B, ia, iv, iw) ==
    CASE op \in {"column_mean", "mean"} ->
            IF NonEmpty(A) THEN MeanLanes(Lanes(A, IF op = "mean" THEN ia[1] ELSE 0), TolTy(ty, NormInf(A))) ELSE QRNone
      [] op = "v_mean" -> QR_(A.c >= 1, 1, LAMBDA x : TRUE, LAMBDA x : MeanFrac(A.d), LAMBDA x : TolTy(ty, NormInf(A)))
      [] op = "cov" ->
            IF A.r >= 2 THEN CovAll(A, CovTol(ty, A, ColSpread(A))) ELSE QRNone
      [] op \in {"div", "div_mut", "v_div", "v_div_mut"} ->
            IF ~EnAdd(A, B) THEN QRNone
            ELSE QR_(TRUE, Len(A.d), LAMBDA x : B.d[x] # 0, LAMBDA x : Frac(A.d[x], B.d[x]),
                     LAMBDA x : TolTy(ty, Abs(A.d[x])))
      [] op \in {"div_scalar", "div_scalar_mut", "v_div_scalar", "v_div_scalar_mut"} ->
            QR_(TRUE, Len(A.d), LAMBDA x : ia[1] # 0, LAMBDA x : Frac(A.d[x], ia[1]),
                LAMBDA x : TolTy(ty, Abs(A.d[x])))
      [] op = "scale_mut" ->
            \* (x - mean[lane]) / std[lane]; lane = column (axis 0) or row (axis 1)
            LET lane(x) == IF ia[1] = 0 THEN ((x - 1) % A.c) + 1 ELSE ((x - 1) \div A.c) + 1 IN
            QR_(Len(iv) = (IF ia[1] = 0 THEN A.c ELSE A.r) /\ Len(iw) = Len(iv), Len(A.d),
                LAMBDA x : iw[lane(x)] # 0,
                LAMBDA x : Frac(A.d[x] - iv[lane(x)], iw[lane(x)]),
                LAMBDA x : TolTy(ty, Abs(A.d[x]) + Abs(iv[lane(x)])))
      [] OTHER -> QRNone

RatSeqClose(q, out) ==
    /\ Len(out) = Len(q.fr)
    /\ \A x \in 1..Len(out) : q.con[x] => RatClose(q.fr[x][1], q.fr[x][2], out[x], q.tol[x])

(* var / std along an axis (matrix) or of a vector: one observation per lane *)
VarLanes(op, A, ia) == IF op \in {"v_var", "v_std"} THEN <<A.d>> ELSE Lanes(A, ia[1])
VarSeqClose(op, A, ia, out) ==
    LET ls == VarLanes(op, A, ia) IN
    /\ Len(out) = Len(ls)
    /\ \A x \in 1..Len(ls) : IF op \in {"var", "v_var"} THEN VarClose(ls[x], out[x]) ELSE StdClose(ls[x], out[x])
=============================================================================
