----------------------------- MODULE BackendAgree -----------------------------
(***************************************************************************)
(* C20 -- all matrix back ends give the same answers.                      *)
(*                                                                         *)
(* The property has two halves.  That every back end computes the VALUE    *)
(* the matrix algebra defines is checked per back end by MatrixTrace (the  *)
(* C03 specification instantiated at DenseMatrix, ndarray::Array2 and      *)
(* nalgebra::DMatrix).  This module states the other half literally: the   *)
(* same call on the same data yields THE SAME OBSERVATION on the three     *)
(* back ends --                                                            *)
(*   * the same outcome class: all return, or all reject (panic); none     *)
(*     hangs ("timeout") -- "shape mismatches are handled the same way by  *)
(*     all backends", "terminates on all three";                           *)
(*   * integer-valued results (register contents read back through         *)
(*     get(i,j), shapes, sums, minima, maxima, dot products, norms,        *)
(*     arg-max, unique, booleans) identical;                               *)
(*   * rational / floating results equal "up to rounding": fixed-point     *)
(*     observations within AgreeTol units of each other, where the unit is *)
(*     the quantisation step recorded in the event.                        *)
(*                                                                         *)
(* Two kinds of events:                                                    *)
(*   {ev:"Agree", run, step, op, ..., obs:<<o_dense, o_ndarray, o_nalg>>}  *)
(*       one call of an op-program (run = program number); o = [be,        *)
(*       status, kind, r, c, d, out, flag, bool] as in MatrixTrace         *)
(*   {ev:"Est", run, op, n, p, obs:<<...>>} one estimator / decomposition  *)
(*       solved on the three back ends; o = [be, status, out, flag] with   *)
(*       out the fixed-point observable (predictions, transformed data,    *)
(*       factors, singular values, metric values), scale 2^10              *)
(*                                                                         *)
(* Programs are stateful: once the back ends disagree at a step their      *)
(* registers differ, and later disagreements of the same program carry no  *)
(* information.  The first disagreement of a program is reported (BAD),    *)
(* the rest of that program is skipped and counted.  The spec never        *)
(* blocks.                                                                 *)
(***************************************************************************)
EXTENDS Integers, Sequences, FiniteSets, TLC, Json, IOUtils

Rec == ndJsonDeserialize(IOEnv.TRACE)

VARIABLES l, skiprun, nbad, hits
vars == <<l, skiprun, nbad, hits>>

Abs(x) == IF x < 0 THEN -x ELSE x
NONFIN == 1999999999

(* operations whose observation went through floating point division / sqrt / exp *)
FloatOps == {"column_mean", "mean", "var", "std", "cov", "div", "div_mut", "div_scalar", "div_scalar_mut",
             "scale_mut", "softmax_mut", "v_mean", "v_var", "v_std", "v_div", "v_div_mut", "v_div_scalar",
             "v_div_scalar_mut", "norm_half", "v_norm_half", "norm_neg", "v_norm_neg"}
AgreeTol == 2          \* "up to rounding": two quantisation steps

SeqClose(a, b, tol) ==
    /\ Len(a) = Len(b)
    /\ \A x \in 1..Len(a) :
          IF a[x] = NONFIN \/ b[x] = NONFIN THEN a[x] = b[x]        \* non-finite on one side only is a disagreement
          ELSE Abs(a[x] - b[x]) <= tol

(* two observations of the same call agree *)
SameObs(op, o1, o2) ==
    /\ o1.status = o2.status
    /\ o1.status \in {"ok", "panic"}                 \* in particular: nobody timed out or was skipped
    /\ (o1.status = "ok" =>
          /\ o1.kind = o2.kind
          /\ o1.flag = o2.flag
          /\ (o1.kind \in {"m", "v"} => o1.r = o2.r /\ o1.c = o2.c /\ o1.d = o2.d)
          /\ (o1.kind = "q" => SeqClose(o1.out, o2.out, IF op \in FloatOps THEN AgreeTol ELSE 0))
          /\ (o1.kind = "b" => o1.bool = o2.bool))

AllAgree(e) == \A i \in 2..Len(e.obs) : SameObs(e.op, e.obs[1], e.obs[i])

(* estimators and decompositions: all three terminate with the same kind of outcome and
   the observables agree: exactly where they are discrete (class
   labels, one-hot matrices, votes of seeded forests, neighbours' labels), within EstTol
   quantisation steps of 2^-10 where they are real numbers ("up to rounding": the back
   ends may add in a different order; iterative solvers stop within their own tolerance,
   far below 2^-10 on the O(1)..O(100) data used) *)
ExactEst == {"logistic", "gaussian_nb", "bernoulli_nb", "multinomial_nb", "categorical_nb", "knn_classifier",
             "tree_classifier", "forest_classifier", "onehot"}
EstTol == 4
SameEst(e, o1, o2) ==
    /\ o1.status = o2.status                         \* all succeed, all report an error, or all panic alike
    /\ o1.status \in {"ok", "err", "panic"}          \* (a panic on all three is a matter for the estimator's own
                                                      \*  property, not for back-end independence); no timeout
    /\ (o1.status = "ok" =>
          /\ o1.flag /\ o2.flag                      \* every number finite and in range
          /\ SeqClose(o1.out, o2.out, IF e.op \in ExactEst THEN 0 ELSE EstTol))
EstAgree(e) == \A i \in 2..Len(e.obs) : SameEst(e, e.obs[1], e.obs[i])

Bad(e, clause) == PrintT(<<"BAD", l, e.run, e.op, clause>>)

(* why a disagreement happened, for the report: which outcome classes were seen *)
Clause(e) ==
    IF \E i \in 1..Len(e.obs) : e.obs[i].status \in {"timeout"} THEN "Timeout"
    ELSE IF \E i, j \in 1..Len(e.obs) : e.obs[i].status # e.obs[j].status THEN "OutcomeDiffers"
    ELSE "ValueDiffers"

HitNames == {"agree_ok", "agree_reject", "agree_float", "agree_transposed_operand",
             "skipped_after_disagreement", "est_exact", "est_float", "est_err", "est_panic_on_all"}
Upd(hs) == [h \in HitNames |-> IF h \in hs THEN hits[h] + 1 ELSE hits[h]]

OnAgree(e, ok) ==
    IF e.run = skiprun
    THEN /\ hits' = Upd({"skipped_after_disagreement"}) /\ UNCHANGED <<skiprun, nbad>>
    ELSE IF ok
    THEN /\ hits' = Upd((IF e.obs[1].status = "panic" THEN {"agree_reject"} ELSE {"agree_ok"})
                        \cup (IF e.op \in FloatOps THEN {"agree_float"} ELSE {})
                        \cup (IF e.atr \/ e.btr THEN {"agree_transposed_operand"} ELSE {}))
         /\ UNCHANGED <<skiprun, nbad>>
    ELSE /\ Bad(e, Clause(e))
         /\ nbad' = nbad + 1 /\ skiprun' = e.run /\ UNCHANGED hits

OnEst(e, ok) ==
    IF ok
    THEN /\ hits' = Upd(IF e.obs[1].status = "err" THEN {"est_err"} ELSE IF e.obs[1].status = "panic" THEN {"est_panic_on_all"} ELSE IF e.op \in ExactEst THEN {"est_exact"} ELSE {"est_float"})
         /\ UNCHANGED <<skiprun, nbad>>
    ELSE /\ Bad(e, Clause(e)) /\ nbad' = nbad + 1 /\ UNCHANGED <<skiprun, hits>>

Step ==
    LET e == Rec[l] IN
    /\ l <= Len(Rec)
    /\ l' = l + 1
    /\ CASE e.ev = "Agree" -> OnAgree(e, AllAgree(e))
         [] e.ev = "Est"   -> OnEst(e, EstAgree(e))
         [] OTHER -> UNCHANGED <<skiprun, nbad, hits>>

Init == /\ l = 1 /\ skiprun = -1 /\ nbad = 0 /\ hits = [h \in HitNames |-> 0]
Next == Step
Spec == Init /\ [][Next]_vars

AtEnd == (l = Len(Rec) + 1) =>
            PrintT(<<"VERDICT", ToJson([consumed |-> l - 1, bad |-> nbad, hits |-> hits])>>)
=============================================================================
