----------------------------- MODULE EigenModel -----------------------------
(***************************************************************************)
(* A closed-form reference model for C02 on 2 x 2 matrices, used to        *)
(* model-check the PREDICATES of Eigen.tla (not the code): for every       *)
(* integer matrix A = [[a,b],[c,dd]] over -K..K whose discriminant         *)
(* (a-dd)^2 + 4bc is plus or minus a perfect square the spectrum and the   *)
(* eigenvectors are rational and are written down exactly:                 *)
(*    disc = r^2  >= 0 :  lambda = (tr +- r)/2,  v = (2b, 2 lambda - 2a)   *)
(*                        (or (2 lambda - 2dd, 2c), or a unit vector when  *)
(*                        A is diagonal), scaled by a power of two into    *)
(*                        [1/2,1) as the harness does;                     *)
(*    disc = -r^2 <  0 :  lambda = tr/2 +- i r/2  (a conjugate pair; the   *)
(*                        statement does not constrain V there).           *)
(* One action, Solve, fills in the observable.  TLC then checks, in every  *)
(* solved state:                                                           *)
(*    Vieta    the exact values satisfy sum = trace, product = det;        *)
(*    Accepts  GenCheck (the predicate trace validation applies to the     *)
(*             real evd(false)) accepts the exactly rounded observable --  *)
(*             no false alarm from the tolerance calculus;                 *)
(*    Rejects  GenCheck rejects it when one eigenvalue is off by an eighth *)
(*             of the largest one ("sum=trace"), and when a conjugate pair *)
(*             is reported with equal signs ("conj-pairs").                *)
(* Matrices with an irrational spectrum are skipped (counted by the action *)
(* Skip); they are exercised against the real code by trace validation.    *)
(***************************************************************************)
EXTENDS Eigen, TLC, Json

R == INSTANCE Rational

CONSTANT K
VARIABLES A0, phase, kind, dx, ex, vx
vars == <<A0, phase, kind, dx, ex, vx>>

FS == 10

Init == /\ A0 \in [1..2 -> [1..2 -> (-K)..K]]
        /\ phase = "in"
        /\ kind = "none"
        /\ dx = <<R!Zero, R!Zero>> /\ ex = <<R!Zero, R!Zero>>
        /\ vx = <<<<R!Zero, R!Zero>>, <<R!Zero, R!Zero>>>>

Tr2 == A0[1][1] + A0[2][2]
Det2 == A0[1][1] * A0[2][2] - A0[1][2] * A0[2][1]
Disc == (A0[1][1] - A0[2][2]) * (A0[1][1] - A0[2][2]) + 4 * A0[1][2] * A0[2][1]

ISqrt(x) == CHOOSE r \in 0..(x + 1) : r * r <= x /\ (r + 1) * (r + 1) > x
IsSquare(x) == x >= 0 /\ ISqrt(x) * ISqrt(x) = x

RECURSIVE BitLen(_)
BitLen(x) == IF x = 0 THEN 0 ELSE 1 + BitLen(x \div 2)

(* integer vector (x, y) # 0 scaled by the power of two that puts max|.| into [1/2, 1) *)
Normalised(x, y) == LET p == Pow2(BitLen(Max2(Abs(x), Abs(y)))) IN <<R!Q(x, p), R!Q(y, p)>>

(* eigenvector of the real eigenvalue lam2 / 2 ; `which` distinguishes the two
   eigenvalues of a diagonal matrix with equal entries *)
EigVec(lam2, which) ==
    LET a == A0[1][1]  b == A0[1][2]  c == A0[2][1]  dd == A0[2][2] IN
    IF b # 0 THEN Normalised(2 * b, lam2 - 2 * a)
    ELSE IF c # 0 THEN Normalised(lam2 - 2 * dd, 2 * c)
    ELSE IF a # dd THEN (IF lam2 = 2 * a THEN Normalised(1, 0) ELSE Normalised(0, 1))
    ELSE (IF which = 1 THEN Normalised(1, 0) ELSE Normalised(0, 1))

Solve ==
    /\ phase = "in"
    /\ IsSquare(Abs(Disc))
    /\ LET r == ISqrt(Abs(Disc)) IN
       IF Disc >= 0
       THEN /\ kind' = "real"
            /\ dx' = <<R!Q(Tr2 + r, 2), R!Q(Tr2 - r, 2)>>
            /\ ex' = <<R!Zero, R!Zero>>
            /\ LET v1 == EigVec(Tr2 + r, 1)
                   v2 == EigVec(Tr2 - r, 2)
               IN  vx' = <<<<v1[1], v2[1]>>, <<v1[2], v2[2]>>>>     \* columns are eigenvectors
       ELSE /\ kind' = "complex"
            /\ dx' = <<R!Q(Tr2, 2), R!Q(Tr2, 2)>>
            /\ ex' = <<R!Q(r, 2), R!Q(-r, 2)>>
            /\ vx' = vx
    /\ phase' = "done"
    /\ UNCHANGED A0

Skip == /\ phase = "in" /\ ~IsSquare(Abs(Disc))
        /\ phase' = "skipped"
        /\ UNCHANGED <<A0, kind, dx, ex, vx>>

Next == Solve \/ Skip
Spec == Init /\ [][Next]_vars

(***************************************************************************)
(* Properties                                                              *)
(***************************************************************************)
Vieta ==
    phase = "done" =>
        /\ R!Add(dx[1], dx[2]) = R!OfInt(Tr2)
        /\ R!Add(R!Sub(R!Mul(dx[1], dx[2]), R!Mul(ex[1], ex[2])), R!Zero) = R!OfInt(Det2)
        /\ R!Add(ex[1], ex[2]) = R!Zero

QV(x) == [i \in 1..2 |-> R!RoundScaled(x[i], Pow2(FS))]
Rank2(x) == IF x[1] = x[2] THEN <<1, 1>> ELSE IF R!Lt(x[1], x[2]) THEN <<1, 2>> ELSE <<2, 1>>
Observed(d, sg) ==
    [d |-> d, e |-> QV(ex), dRk |-> Rank2(dx), eaRk |-> <<1, 1>>, eSg |-> sg,
     V |-> [i \in 1..2 |-> QV(vx[i])], vnz |-> <<TRUE, TRUE>>]
Signs == <<R!Sign(ex[1]), R!Sign(ex[2])>>

Accepts == phase = "done" => GenCheck(A0, Observed(QV(dx), Signs), 2, FS, "f64") = "pass"

Off(d) == [d EXCEPT ![1] = @ + MaxAbsV(d) \div 8 + 64]
RejectsValue == phase = "done" => GenCheck(A0, Observed(Off(QV(dx)), Signs), 2, FS, "f64") = "EVD.gen.sum=trace"
RejectsPair == (phase = "done" /\ kind = "complex") =>
                   GenCheck(A0, Observed(QV(dx), <<1, 1>>), 2, FS, "f64") = "EVD.gen.conj-pairs"

(* spec -> impl: the exactly rounded spectrum per solved input; the harness
   runs the real evd(false) on it and the trace spec compares the two
   multisets (a difference is MODEL-DRIFT, not a violation) *)
Replay == phase = "done" =>
    PrintT(<<"REPLAY", ToJson([A |-> A0, d |-> QV(dx), e |-> QV(ex)])>>)
=============================================================================
