------------------------------- MODULE Eigen -------------------------------
(***************************************************************************)
(* C02 -- the eigen-decomposition returns genuine eigenvalues and          *)
(* eigenvectors.   Contract specification (kind B, DESIGN.md section 3).   *)
(*                                                                         *)
(* An event records one call evd(symmetric) on an integer-valued square    *)
(* matrix A (fed to the library as D A D^-1 2^se with D a power-of-two     *)
(* diagonal -- an exact similarity, "badly balanced" input -- and the      *)
(* outputs descaled exactly):                                              *)
(*    d, e    real / imaginary parts, fixed point round(v 2^S)             *)
(*    dRk     dense ranks of d          (exact order and equality)         *)
(*    eaRk    dense ranks of |e|,  eSg  exact signs of e                   *)
(*    V       eigenvector matrix, fixed point; for the general solver each *)
(*            column was divided by the power of two that brings its       *)
(*            largest entry into [1/2,1) (eigenvectors are defined up to   *)
(*            scale; the contract below is homogeneous in each column)     *)
(*    vnz     column j of V has an entry that is not exactly 0.0           *)
(*                                                                         *)
(* Symmetric solver, every symmetric A (no further premise):               *)
(*    e == 0 exactly;  d non-increasing (exact, on ranks);                 *)
(*    V^T V = I;   A V = V diag(d)                                         *)
(* General solver, every square A:                                         *)
(*    the non-real values form conjugate pairs: the (d, |e|) pairs with    *)
(*    e > 0 and those with e < 0 are the same multiset (bit-exact);        *)
(*    sum d = trace A;   sum (d^2 - e^2) = trace A^2;                      *)
(*    every column j with e[j] = 0:  v_j # 0  and  A v_j = d_j v_j.        *)
(*    (When all e are 0 this is the full identity A V = V diag(d); such    *)
(*    events are counted separately as "EVD.gen.real".)                    *)
(* All four identities are residual-type: a backward-stable solver meets   *)
(* them with an error of c n u ||A|| whatever the conditioning of the      *)
(* eigenproblem, so no well-separatedness premise is needed at the coarse  *)
(* fixed-point level.  Tolerances are derived from the quantisation step   *)
(* as in FixPoint.tla.                                                     *)
(*                                                                         *)
(* Badly balanced input.  The library is handed D A D^-1 and promises      *)
(* accuracy relative to the norm of THAT matrix, which exceeds ||A|| by up *)
(* to 2^s, s = max(bal) - min(bal); carrying an eigenvector back to the    *)
(* coordinates of A multiplies its rows by 2^-bal[i], another factor of up *)
(* to 2^s.  The rounding slack of every clause is therefore multiplied by  *)
(* 4^s (BalAmp), and an event is only judged when that still is below the  *)
(* resolution of the contract: s <= 10 for f64 (4^s 2^11 u ||A|| < one     *)
(* fixed-point unit), s <= 2 for f32; otherwise it is unconstrained.       *)
(***************************************************************************)
EXTENDS IntMat

RECURSIVE SumV(_, _)
SumV(x, k) == IF k = 0 THEN 0 ELSE x[k] + SumV(x, k - 1)
Sum(x) == SumV(x, Len(x))
RECURSIVE TraceR(_, _)
TraceR(A, k) == IF k = 0 THEN 0 ELSE A[k][k] + TraceR(A, k - 1)
Trace(A) == TraceR(A, Len(A))
RECURSIVE TraceSqR(_, _, _)
TraceSqR(A, At, k) == IF k = 0 THEN 0 ELSE Dot(A[k], At[k]) + TraceSqR(A, At, k - 1)
TraceSq(A) == TraceSqR(A, Tr(A), Len(A))            \* trace(A^2) = sum_ij a_ij a_ji

(* the iterative solvers apply O(n) sweeps: rounding slack with c = 256 *)
EvdSlack(w, n, mag) == Slack(w, 4 * n, mag)

RECURSIVE MaxV(_, _)
MaxV(x, k) == IF k = 1 THEN x[1] ELSE Max2(x[k], MaxV(x, k - 1))
RECURSIVE MinV(_, _)
MinV(x, k) == IF k = 1 THEN x[1] ELSE Min2(x[k], MinV(x, k - 1))
BalSpread(bal) == MaxV(bal, Len(bal)) - MinV(bal, Len(bal))
BalOK(w, bal) == BalSpread(bal) <= (IF w = "f64" THEN 10 ELSE 2)
BalAmp(bal) == Pow2(2 * BalSpread(bal))

SortedDesc(rk) == \A i \in 1..(Len(rk) - 1) : rk[i] >= rk[i + 1]
AllZero(x) == \A i \in 1..Len(x) : x[i] = 0

(* (A v_j)_i = d_j v_ij for the columns j in J.
   Left side: exact integers times quantised v, scaled by 2^S to meet the
   right side, a product of two quantised values. *)
EigColsOn(A, Vt, V, d, J, S, la, sl) ==
    \A j \in J : \A i \in 1..Len(A) :
        Near(Pow2(S) * Dot(A[i], Vt[j]), V[i][j] * d[j],
             Pow2(S) * HalfUp(la[i]) + HalfUp(Abs(V[i][j]) + Abs(d[j]) + 1) + sl)
EigCols(A, Vt, V, d, J, S, w, mag) == EigColsOn(A, Vt, V, d, J, S, RowL1(A), EvdSlack(w, Len(A), mag))

EigMag(A, V, d, n, S) == Max2(n * MaxAbsM(A) * Pow2(S) * MaxAbsM(V), MaxAbsM(V) * MaxAbsV(d))
(* the slack only looks at mag for f32, where BalOK keeps amp <= 16 *)
Amped(w, mag, amp) == IF w = "f64" THEN mag ELSE mag * amp

ShapeOK(o, n) == /\ Len(o.d) = n /\ Len(o.e) = n /\ Len(o.dRk) = n /\ Len(o.eaRk) = n /\ Len(o.eSg) = n
                 /\ IsMat(o.V, n, n) /\ Len(o.vnz) = n

SymCheck(A, o, n, S, w) ==
    IF ~ShapeOK(o, n) THEN "EVD.shape"
    ELSE IF ~(AllZero(o.eSg) /\ AllZero(o.e)) THEN "EVD.sym.e=0"
    ELSE IF ~SortedDesc(o.dRk) THEN "EVD.sym.sorted"
    ELSE IF ~ProdNearQQ(Tr(o.V), Tr(o.V), Ident(n, Pow2(2 * S)), w,
                        4 * n * MaxAbsM(o.V) * MaxAbsM(o.V)) THEN "EVD.sym.VtV=I"
    ELSE IF ~EigCols(A, Tr(o.V), o.V, o.d, 1..n, S, w, EigMag(A, o.V, o.d, n, S)) THEN "EVD.sym.AV=VD"
    ELSE "pass"

(***************************************************************************)
(* General solver                                                          *)
(***************************************************************************)
CountKey(o, n, sgn, a, b) == Cardinality({ i \in 1..n : o.eSg[i] = sgn /\ o.dRk[i] = a /\ o.eaRk[i] = b })
ConjugatePairs(o, n) ==
    \A i \in 1..n : o.eSg[i] # 0 =>
        CountKey(o, n, 1, o.dRk[i], o.eaRk[i]) = CountKey(o, n, -1, o.dRk[i], o.eaRk[i])

TraceOK(A, d, n, S, w, amp) ==
    Near(Sum(d), Pow2(S) * Trace(A), HalfUp(n) + EvdSlack(w, n, Amped(w, n * Pow2(S) * Max2(1, MaxAbsM(A)), amp)))

(* squares at the coarser scale 2^(S-4): |(q + h)^2 - q^2| <= 2|q|h + h^2 with h < 9/16 *)
SqTol(x) == [i \in 1..Len(x) |-> CeilDiv(9 * Abs(x[i]), 8) + 1]
TraceSqOn(A, d6, e6, n, S, w, amp) ==
    Near(Dot(d6, d6) - Dot(e6, e6), Pow2(2 * (S - 4)) * TraceSq(A),
         Sum(SqTol(d6)) + Sum(SqTol(e6)) + EvdSlack(w, n, Amped(w, Dot(d6, d6) + Dot(e6, e6), amp)))
TraceSqOK(A, o, n, S, w, amp) ==
    TraceSqOn(A, [i \in 1..n |-> Requant(o.d[i], 4)], [i \in 1..n |-> Requant(o.e[i], 4)], n, S, w, amp)

RealCols(o, n) == { j \in 1..n : o.eSg[j] = 0 }

GenCheckAmp(A, o, n, S, w, amp) ==
    IF ~ShapeOK(o, n) THEN "EVD.shape"
    ELSE IF ~ConjugatePairs(o, n) THEN "EVD.gen.conj-pairs"
    ELSE IF ~TraceOK(A, o.d, n, S, w, amp) THEN "EVD.gen.sum=trace"
    ELSE IF ~TraceSqOK(A, o, n, S, w, amp) THEN "EVD.gen.sumsq=trace2"
    ELSE IF ~(\A j \in RealCols(o, n) : o.vnz[j]) THEN "EVD.gen.v-nonzero"
    ELSE IF ~EigCols(A, Tr(o.V), o.V, o.d, RealCols(o, n), S, w,
                     Amped(w, EigMag(A, o.V, o.d, n, S), amp)) THEN "EVD.gen.Av=dv"
    ELSE "pass"
GenCheck(A, o, n, S, w) == GenCheckAmp(A, o, n, S, w, 1)       \* no balancing similarity

Outcome(e, clause, check) ==
    IF e.status # "ok" THEN <<"bad", clause \o "." \o e.status>>
    ELSE IF ~e.fin THEN <<"bad", clause \o ".nan">>
    ELSE IF ~e.inr THEN <<"oor", clause>>
    ELSE IF check = "pass" THEN <<"pass", clause>>
    ELSE <<"bad", check>>

GenName(e) == IF e.status = "ok" /\ e.fin /\ e.inr /\ Len(e.out.eSg) = e.n /\ ~AllZero(e.out.eSg)
              THEN "EVD.gen.complex" ELSE "EVD.gen.real"

(***************************************************************************)
(* Model comparison (spec -> impl): the closed-form 2 x 2 model of         *)
(* EigenModel.tla against the real evd(false).  Spectra are compared as    *)
(* multisets of (d, e) pairs, one fixed-point unit of slack.  A difference *)
(* is MODEL-DRIFT; a call that did not return is judged by its ordinary    *)
(* EVD event, not here.                                                    *)
(***************************************************************************)
SamePair(g, x, i, k) == Abs(g.d[i] - x.d[k]) <= 1 /\ Abs(g.e[i] - x.e[k]) <= 1
EvCmp(e) ==
    IF ~(e.status = "ok" /\ e.fin) THEN <<"unc", "EVDCmp">>
    ELSE IF \/ (SamePair(e.got, e.expect, 1, 1) /\ SamePair(e.got, e.expect, 2, 2))
            \/ (SamePair(e.got, e.expect, 1, 2) /\ SamePair(e.got, e.expect, 2, 1))
         THEN <<"pass", "EVD=model">> ELSE <<"drift", "EVD">>

Judge(e) ==
    IF e.ev = "EVDCmp" THEN EvCmp(e)
    ELSE IF e.ev # "EVD" THEN <<"bad", "unknown-event">>
    ELSE IF ~(e.n >= 1 /\ IsMat(e.A, e.n, e.n) /\ MaxAbsM(e.A) <= 64) THEN <<"unc", "EVD.input">>
    ELSE IF e.sym
         THEN (IF ~IsSymmetric(e.A) THEN <<"unc", "EVD.sym">>
               ELSE Outcome(e, "EVD.sym", IF e.status = "ok" /\ e.fin /\ e.inr
                                          THEN SymCheck(e.A, e.out, e.n, e.S, e.w) ELSE "-"))
    ELSE IF ~(Len(e.bal) = e.n /\ BalOK(e.w, e.bal)) THEN <<"unc", "EVD.gen">>
    ELSE Outcome(e, GenName(e), IF e.status = "ok" /\ e.fin /\ e.inr
                                THEN GenCheckAmp(e.A, e.out, e.n, e.S, e.w, BalAmp(e.bal)) ELSE "-")
=============================================================================
