----------------------------- MODULE MatrixTrace -----------------------------
(***************************************************************************)
(* C03 / C20 trace validation (impl -> spec, and the second half of        *)
(* spec -> impl).  Consumes the ndjson file recorded by `c03 gen-*` /      *)
(* `c03 replay-spec` (and `c20 ...`) from the real matrix back ends.       *)
(*                                                                         *)
(* Every run is an op-program on a register file of NReg registers, each   *)
(* holding a matrix, a vector, or nothing.  The harness executes one       *)
(* operation of the real API per event and reports what it then reads back *)
(* from the destination register with get(i, j) only (shape + row-major    *)
(* content), or the returned scalar / vector / boolean, or "panic".  This  *)
(* spec keeps its own copy of the register file, evaluates the operation   *)
(* of the same name of MatrixADT on it, and compares.                      *)
(*                                                                         *)
(* Event shapes (integers, booleans, strings only; indices 1-based)        *)
(*   {ev:"Reset", run, be, ty}                 new run: all registers empty*)
(*   {ev:"Op",   run, op, a, b, dst, ia, iv, iw, status, kind, r, c, d,    *)
(*               out, flag, bool}                                          *)
(*   {ev:"Stat", ... same fields ..., ik, ir, ic, id}  self-contained      *)
(*               query whose operand is given inline (large offsets, large *)
(*               softmax arguments, which must not enter the registers)    *)
(* a, b, dst are register numbers (0 = none); ia / iv / iw the integer     *)
(* arguments; kind/r/c/d the observation of the destination register;      *)
(* out the observation of a query; flag = "every observed number was an    *)
(* integer (register ops) / finite and in range (queries)".                *)
(*                                                                         *)
(* The spec never blocks.  A failing event is printed as BAD and counted;  *)
(* the register file then continues from the OBSERVED content, so that one *)
(* wrong operation is reported once and the rest of the run is still       *)
(* validated step by step.                                                 *)
(***************************************************************************)
EXTENDS MatrixADT, TLC, Json, IOUtils

Rec == ndJsonDeserialize(IOEnv.TRACE)
NReg == 4

VARIABLES l, regs, ty, nbad, hits,
          mode,  \* number codec of the run: "plain", "scale" (all numbers times 2^se), "ulp" (floats next to 0.1)
          nh     \* the last accepted non-integer p-norm of the run: [s: operand data, d: their magnitudes, p, o]
vars == <<l, regs, ty, nbad, hits, mode, nh>>

NoNH == [s |-> <<>>, d |-> <<>>, p |-> 0, o |-> 0]

EmptyRegs == [i \in 1..NReg |-> Empty]
RegOf(i) == IF i >= 1 /\ i <= NReg THEN regs[i] ELSE Empty

Bad(e, clause) == PrintT(<<"BAD", l, e.run, e.op, clause>>)

NONFIN == 1999999999          \* the harness' encoding of a non-finite / out-of-range number

(***************************************************************************)
(* Verdict of one event: "" when the observation is what the specification *)
(* demands, otherwise the name of the violated clause.                     *)
(***************************************************************************)
ExpectReject(e) == IF e.status = "panic" THEN "" ELSE "ShouldPanic"

CheckReg(e, A, B) ==
    LET s == Sem(e.op, A, B, e.ia, e.iv, e.iw) IN
    IF ~s.en THEN (IF e.op \in RejectOps /\ A.k # "e" /\ (e.b = 0 \/ B.k # "e") THEN ExpectReject(e) ELSE "Malformed")
    ELSE IF e.status # "ok" THEN "Panicked"
    ELSE IF ~e.flag THEN "NotInteger"
    ELSE IF e.kind # s.val.k \/ e.r # s.val.r \/ e.c # s.val.c THEN "Shape"
    ELSE IF e.d # s.val.d THEN "Value"
    ELSE ""

CheckQInt(e, A, B) ==
    LET q == QInt(e.op, A, B, e.ia) IN
    IF e.op = "dot" /\ ~DotDefined(A, B) THEN "Malformed"
    ELSE IF ~q.en THEN (IF e.op \in RejectOps THEN ExpectReject(e) ELSE "Malformed")
    ELSE IF e.status # "ok" THEN "Panicked"
    ELSE IF ~e.flag THEN "NotInteger"
    ELSE IF Len(e.out) # Len(q.out) THEN "Shape"
    ELSE IF \A x \in 1..Len(q.out) : IntClose(ty, e.op, q.out[x], e.out[x]) THEN "" ELSE "Value"

(* equality tests never panic: on operands of different shape they answer FALSE *)
CheckQBool(e, A, B) ==
    IF e.status # "ok" THEN "EqPanicked"
    ELSE IF e.bool = QBool(e.op, A, B, e.ia) THEN "" ELSE "EqValue"

CheckQRat(e, A, B) ==
    LET q == QRat(ty, e.op, A, B, e.ia, e.iv, e.iw) IN
    IF ~q.en THEN (IF e.op \in RejectOps /\ A.k # "e" /\ B.k # "e" THEN ExpectReject(e) ELSE "Malformed")
    ELSE IF e.status # "ok" THEN "Panicked"
    ELSE IF Len(e.out) # Len(q.fr) THEN "Shape"
    ELSE IF \E x \in 1..Len(e.out) : q.con[x] /\ e.out[x] = NONFIN THEN "NotFinite"
    ELSE IF RatSeqClose(q, e.out) THEN "" ELSE "Value"

CheckVar(e, A) ==
    IF A.k = "e" \/ Len(A.d) = 0 THEN "Malformed"
    ELSE IF e.status # "ok" THEN "Panicked"
    ELSE IF Len(e.out) # Len(VarLanes(e.op, A, e.ia)) THEN "Shape"
    ELSE IF \E x \in 1..Len(e.out) : e.out[x] = NONFIN THEN "NotFinite"
    ELSE IF VarSeqClose(e.op, A, e.ia, e.out) THEN "" ELSE "Accuracy"

(* softmax: the statement speaks of vectors; the implementation normalises over all
   entries of a matrix, so only 1xN / Nx1 operands are constrained *)
CheckSoftmax(e, A) ==
    IF A.k = "e" \/ Len(A.d) = 0 THEN "Malformed"
    ELSE IF ~IsVecShaped(A) THEN ""
    ELSE IF e.status # "ok" THEN "Panicked"
    ELSE IF ~e.flag THEN "NotFinite"
    ELSE IF IsSoftmax(A, e.out) /\ SoftmaxTop(A, e.out) THEN "" ELSE "NotProbability"

CheckNormHalf(e, A) ==
    IF A.k = "e" \/ Len(A.d) = 0 \/ Len(e.ia) # 1 THEN "Malformed"
    ELSE IF e.status # "ok" THEN "Panicked"
    ELSE IF Len(e.out) # 1 THEN "Shape"
    ELSE IF e.out[1] = NONFIN THEN "NotFinite"
    ELSE IF ~NormHalfOK(ty, A, e.ia[1], e.out[1]) THEN "Value"
    \* a norm does not depend on the signs of the entries: norm_p(A) = norm_p(|A|) = norm_p(-A).  The
    \* generator follows a norm by the same norm of the negated / absolute operand; the two observations of
    \* the same back end must coincide (up to rounding)
    ELSE IF nh.p = e.ia[1] /\ nh.d = MapSeq(A.d, Abs)
            /\ Abs(e.out[1] - nh.o) > 2 + TolTy(ty, (Abs(nh.o) \div 1024) + 1) THEN "SignDependent"
    ELSE ""

(* Iterator::size_hint after k calls of next(): the bounds must bracket the number of elements left *)
CheckSizeHint(e, A) ==
    IF ~IsM(A) \/ Len(e.ia) # 1 THEN "Malformed"
    ELSE IF e.status # "ok" THEN "Panicked"
    ELSE IF Len(e.out) # 2 THEN "Shape"
    ELSE LET left == IF Len(A.d) >= e.ia[1] THEN Len(A.d) - e.ia[1] ELSE 0 IN
         IF e.out[1] <= left /\ (e.out[2] < 0 \/ left <= e.out[2]) THEN "" ELSE "Value"

CheckNormNeg(e, A) ==
    IF A.k = "e" \/ Len(e.ia) # 1 \/ ~NormNegDefined(A) THEN "Malformed"
    ELSE IF e.status # "ok" THEN "Panicked"
    ELSE IF Len(e.out) # 1 THEN "Shape"
    ELSE IF e.out[1] = NONFIN THEN "NotFinite"
    ELSE IF NormNegOK(ty, A, e.ia[1], e.out[1]) THEN "" ELSE "Value"

CheckArgmax(e, A) ==
    IF ~IsM(A) \/ ~NonEmpty(A) THEN "Malformed"
    ELSE IF e.status # "ok" THEN "Panicked"
    ELSE IF IsArgmax(A, [i \in 1..Len(e.out) |-> e.out[i] + 1]) THEN "" ELSE "Value"

CheckUnique(e, A) ==
    IF A.k = "e" THEN "Malformed"
    ELSE IF e.status # "ok" THEN "Panicked"
    ELSE IF ~e.flag THEN "NotInteger"
    ELSE IF IsUnique(A, e.out) THEN "" ELSE "Value"

(***************************************************************************)
(* Only an in-place operation may change a register, and only its first    *)
(* operand's.  The harness reads every operand back after the call         *)
(* (apost / bpost: [ok, r, c, d]); a copying method that leaves its        *)
(* receiver or its argument changed ("each in-place variant produces the   *)
(* same result as its copying counterpart" -- and nothing else) fails the  *)
(* clause OperandChanged.                                                  *)
(***************************************************************************)
SameAs(X, ok, r, c, d) == ok /\ r = X.r /\ c = X.c /\ d = X.d
OperandsIntact(e, A, B) ==
    \/ e.ev # "Op" \/ e.status # "ok"
    \/ /\ (e.apost /\ A.k # "e") => SameAs(A, e.aok, e.ar, e.ac, e.ad)
       /\ (e.bpost /\ B.k # "e") => SameAs(B, e.bok, e.br, e.bc, e.bd)

CheckOp(e, A, B) ==
    CASE e.op \in RegOps  -> CheckReg(e, A, B)
      [] e.op \in QIntOps -> CheckQInt(e, A, B)
      [] e.op \in EqOps   -> CheckQBool(e, A, B)
      [] e.op \in QRatOps -> CheckQRat(e, A, B)
      [] e.op \in VarOps  -> CheckVar(e, A)
      [] e.op = "softmax_mut" -> CheckSoftmax(e, A)
      [] e.op \in NormHalfOps -> CheckNormHalf(e, A)
      [] e.op = "iter_size_hint" -> CheckSizeHint(e, A)
      [] e.op \in NormNegOps -> CheckNormNeg(e, A)
      [] e.op = "argmax"  -> CheckArgmax(e, A)
      [] e.op \in {"unique", "v_unique"} -> CheckUnique(e, A)
      [] OTHER -> "UnknownOp"

Verdict(e, A, B, cl) == IF cl = "" /\ ~OperandsIntact(e, A, B) THEN "OperandChanged" ELSE cl
Check(e, A, B) == Verdict(e, A, B, CheckOp(e, A, B))

(***************************************************************************)
(* Per-clause counters for the vacuity check of the driver: one counter    *)
(* per operation (accepted result), one per rejected incompatible call,    *)
(* and a few for the cases on which the statement is silent.               *)
(***************************************************************************)
AllOps == RegOps \cup QIntOps \cup EqOps \cup QRatOps \cup VarOps \cup NormHalfOps \cup NormNegOps \cup {"iter_size_hint","softmax_mut", "argmax", "unique", "v_unique"}
RejName(op) == "reject_" \o op
HitNames == AllOps \cup { RejName(op) : op \in RejectOps }
            \cup {"eq_false_on_shape_mismatch", "eq_false_same_size_other_shape", "approx_false_same_size_other_shape",
                  "eq_true", "eq_false_same_shape", "binary_mixed_layout", "norm_sign_independent", "unconstrained_div0",
                  "reject_ab_00", "reject_ab_01", "reject_ab_10", "reject_ab_11", "reject_vector_shaped_operand",
                  "op_on_native_operand", "operands_intact_after_copying_call",
                  "op_in_scale_mode", "op_in_ulp_mode", "unique_in_scale_mode", "unique_in_ulp_mode",
                  "minmax_in_scale_mode", "minmax_in_ulp_mode", "dot_cross_orientation",
                  "serde_non_square", "copy_into_longer_buffer", "op_on_more_than_1024_elements", "reduction_on_more_than_1024_elements", "iter_adaptor_non_square", "unconstrained_softmax_matrix",
                  "unique_sorted", "argmax_tie", "inplace_equals_copy"}

TieAt(A, i, m) == Cardinality({j \in 1..A.c : At(A, i, j) = m}) > 1     \* m: the row maximum, evaluated once
HitSet(e, A, B, cl) ==
    IF cl # "" THEN {}
    ELSE (IF e.status = "panic" THEN {RejName(e.op)} ELSE {e.op})
         \cup (IF e.op \in EqOps /\ A.k # "e" /\ B.k # "e" /\ ~SameShape(A, B) THEN {"eq_false_on_shape_mismatch"} ELSE {})
         \* the two equality tests, separately, on operands of different shape but equal size (the case a
         \* comparison of the storage buffers alone gets wrong), and their TRUE / FALSE answers on equal shapes
         \cup (IF e.op = "eq" /\ IsM(A) /\ IsM(B) /\ ~SameShape(A, B) /\ Len(A.d) = Len(B.d)
               THEN {"eq_false_same_size_other_shape"} ELSE {})
         \cup (IF e.op = "approximate_eq" /\ IsM(A) /\ IsM(B) /\ ~SameShape(A, B) /\ Len(A.d) = Len(B.d)
               THEN {"approx_false_same_size_other_shape"} ELSE {})
         \* a binary call one of whose operands (only) descends from a transpose / column-major constructor
         \cup (IF e.ev = "Op" /\ e.b # 0 /\ IsM(A) /\ IsM(B) /\ e.atr # e.btr THEN {"binary_mixed_layout"} ELSE {})
         \cup (IF e.op \in NormHalfOps /\ nh.p = e.ia[1] /\ nh.d = MapSeq(A.d, Abs) /\ nh.s # A.d THEN {"norm_sign_independent"} ELSE {})
         \* rejected incompatible calls: the four flag combinations of ab, and calls whose second operand is
         \* vector shaped (1xq / qx1, over- or under-sized)
         \cup (IF e.op = "ab" /\ e.status = "panic"
               THEN {IF e.ia[1] = 0 THEN (IF e.ia[2] = 0 THEN "reject_ab_00" ELSE "reject_ab_01")
                                    ELSE (IF e.ia[2] = 0 THEN "reject_ab_10" ELSE "reject_ab_11")} ELSE {})
         \cup (IF e.status = "panic" /\ e.b # 0 /\ IsM(B) /\ IsVecShaped(B) THEN {"reject_vector_shaped_operand"} ELSE {})
         \cup (IF e.ev = "Op" /\ e.a # 0 /\ e.anat THEN {"op_on_native_operand"} ELSE {})
         \cup (IF e.ev = "Op" /\ e.status = "ok" /\ e.apost /\ A.k # "e" THEN {"operands_intact_after_copying_call"} ELSE {})
         \cup (IF mode = "scale" THEN {"op_in_scale_mode"} ELSE IF mode = "ulp" THEN {"op_in_ulp_mode"} ELSE {})
         \cup (IF e.op \in {"unique", "v_unique"} /\ mode = "scale" THEN {"unique_in_scale_mode"} ELSE {})
         \cup (IF e.op \in {"unique", "v_unique"} /\ mode = "ulp" THEN {"unique_in_ulp_mode"} ELSE {})
         \cup (IF e.op \in {"min", "max", "argmax"} /\ mode = "scale" THEN {"minmax_in_scale_mode"} ELSE {})
         \cup (IF e.op \in {"min", "max", "argmax"} /\ mode = "ulp" THEN {"minmax_in_ulp_mode"} ELSE {})
         \cup (IF e.op = "dot" /\ e.status = "ok" /\ ~SameShape(A, B) THEN {"dot_cross_orientation"} ELSE {})
         \* the size ladder: operands whose element count crosses 64 / 128 / ... / 1024 (internal block sizes)
         \cup (IF A.k # "e" /\ Len(A.d) > 1024 THEN {"op_on_more_than_1024_elements"} ELSE {})
         \cup (IF A.k # "e" /\ Len(A.d) > 1024 /\ e.op \in {"sum", "v_sum", "mean", "v_mean", "column_mean", "dot", "v_dot", "norm1", "v_norm1"}
               THEN {"reduction_on_more_than_1024_elements"} ELSE {})
         \cup (IF e.op \in IterOps /\ IsM(A) /\ A.r # A.c THEN {"iter_adaptor_non_square"} ELSE {})
         \cup (IF e.op \in {"serde_json", "serde_bincode"} /\ IsM(A) /\ A.r # A.c THEN {"serde_non_square"} ELSE {})
         \cup (IF e.op \in CopyIntoOps /\ IsM(A) /\ e.ia[2] > (IF e.op = "copy_row_into" THEN A.c ELSE A.r) THEN {"copy_into_longer_buffer"} ELSE {})
         \cup (IF e.op = "eq" /\ e.status = "ok" /\ e.bool THEN {"eq_true"} ELSE {})
         \cup (IF e.op = "eq" /\ e.status = "ok" /\ ~e.bool /\ A.k # "e" /\ B.k # "e" /\ SameShape(A, B) THEN {"eq_false_same_shape"} ELSE {})
         \cup (IF e.op \in {"div", "div_mut", "v_div", "v_div_mut"} /\ e.status = "ok" /\ \E x \in 1..Len(B.d) : B.d[x] = 0
               THEN {"unconstrained_div0"} ELSE {})
         \cup (IF e.op = "softmax_mut" /\ ~IsVecShaped(A) THEN {"unconstrained_softmax_matrix"} ELSE {})
         \cup (IF e.op \in {"unique", "v_unique"} /\ e.status = "ok" /\ IsSortedAsc(e.out) THEN {"unique_sorted"} ELSE {})
         \cup (IF e.op = "argmax" /\ \E i \in 1..A.r : TieAt(A, i, SeqMax(Row(A, i))) THEN {"argmax_tie"} ELSE {})
         \cup (IF e.op \in WritesFirst /\ e.status = "ok" THEN {"inplace_equals_copy"} ELSE {})

(***************************************************************************)
(* The register file after the event: the OBSERVED content of the written  *)
(* register (destination, or first operand for in-place operations).  A    *)
(* register whose observation is not all-integer is dropped (the harness   *)
(* drops it as well); after a panic nothing changes (the harness restores  *)
(* the operand of an in-place call from a copy).                           *)
(***************************************************************************)
Target(e) == IF e.op \in WritesFirst THEN e.a ELSE e.dst
(* the operands as read back after the call (the registers hold whatever the call left in them) *)
Post(X, ok, r, c, d) == IF X.k = "e" THEN X ELSE IF ok THEN [k |-> X.k, r |-> r, c |-> c, d |-> d] ELSE Empty
AfterOperands(e) ==
    IF e.ev # "Op" THEN regs
    ELSE [i \in 1..NReg |->
            IF e.apost /\ i = e.a THEN Post(regs[i], e.aok, e.ar, e.ac, e.ad)
            ELSE IF e.bpost /\ i = e.b THEN Post(regs[i], e.bok, e.br, e.bc, e.bd)
            ELSE regs[i]]
WriteTarget(e, rg) ==
    IF e.ev # "Op" \/ e.op \notin RegOps \/ e.status # "ok" \/ Target(e) < 1 \/ Target(e) > NReg THEN rg
    ELSE IF ~e.flag THEN [rg EXCEPT ![Target(e)] = Empty]
    ELSE [rg EXCEPT ![Target(e)] = [k |-> e.kind, r |-> e.r, c |-> e.c, d |-> e.d]]
NextRegs(e) == WriteTarget(e, AfterOperands(e))

(* TLC re-evaluates a LET definition at every use inside a quantifier or function
   constructor; values needed more than once are therefore passed as operator arguments
   (evaluated once). *)
UpdHits(hs) == [h \in HitNames |-> IF h \in hs THEN hits[h] + 1 ELSE hits[h]]

Judge(e, A, B, cl) ==
    /\ IF cl = "" THEN nbad' = nbad ELSE Bad(e, cl) /\ nbad' = nbad + 1
    /\ hits' = UpdHits(HitSet(e, A, B, cl))
    /\ regs' = NextRegs(e)
    /\ nh' = IF e.op \in NormHalfOps /\ cl = "" THEN [s |-> A.d, d |-> MapSeq(A.d, Abs), p |-> e.ia[1], o |-> e.out[1]] ELSE nh
    /\ UNCHANGED <<ty, mode>>

OnEvent(e, A, B) == Judge(e, A, B, Check(e, A, B))

Step ==
    LET e == Rec[l] IN
    /\ l <= Len(Rec)
    /\ l' = l + 1
    /\ IF e.ev = "Reset"
       THEN /\ regs' = EmptyRegs /\ ty' = e.ty /\ mode' = e.mode /\ nh' = NoNH /\ UNCHANGED <<nbad, hits>>
       ELSE OnEvent(e, IF e.ev = "Stat" THEN [k |-> e.ik, r |-> e.ir, c |-> e.ic, d |-> e.id] ELSE RegOf(e.a),
                    RegOf(e.b))

Init == /\ l = 1 /\ regs = EmptyRegs /\ ty = "f64" /\ mode = "plain" /\ nbad = 0 /\ nh = NoNH
        /\ hits = [h \in HitNames |-> 0]
Next == Step
Spec == Init /\ [][Next]_vars

AtEnd == (l = Len(Rec) + 1) =>
            PrintT(<<"VERDICT", ToJson([consumed |-> l - 1, bad |-> nbad, hits |-> hits])>>)
=============================================================================
