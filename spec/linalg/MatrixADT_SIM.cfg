CONSTANTS NR = 3  MaxR = 4  MaxC = 4  MaxOps = 12  Bnd = 300  MaxDim = 8  Seeded = TRUE
CONSTANTS Vals <- ValsT  Scal <- ScalT
SPECIFICATION SimSpec
INVARIANT TypeOK
INVARIANT Laws
INVARIANT Replay
CHECK_DEADLOCK FALSE
