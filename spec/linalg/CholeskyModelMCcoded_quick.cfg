SPECIFICATION Spec
CONSTANTS
    N = 3
    K = 1
    NanIsError = FALSE
INVARIANT PivotsAreMinorRatios
INVARIANT FactorsExact
INVARIANT SpdAccepted
INVARIANT ErrorClause
INVARIANT DefectExtent
INVARIANT Replay
CHECK_DEADLOCK FALSE
