------------------------------ MODULE LUModel ------------------------------
(***************************************************************************)
(* Design model of `lu_mut` (src/linalg/lu.rs): the column-oriented        *)
(* ("JAMA") LU factorisation with partial pivoting and its pivot           *)
(* bookkeeping, transcribed action for action, executed in EXACT rational  *)
(* arithmetic on every N x N integer matrix over -K..K.                     *)
(*                                                                         *)
(*   Col    column j:  for each row i, subtract the inner product of the   *)
(*          already computed part of row i with the (progressively         *)
(*          updated) column, exactly as the code's LUcolj buffer does      *)
(*   Pivot  first row p >= j of maximal |LUcolj[p]| (strict comparison),   *)
(*          rows p and j of the working matrix and of `piv` exchanged      *)
(*   Scale  if the pivot is non-zero divide the sub-column by it           *)
(*                                                                         *)
(* The observable is what `LU::L()`, `LU::U()` and `LU::pivot()` return:   *)
(* L = strictly lower part + unit diagonal, U = upper part, P[i][piv[i]]=1.*)
(*                                                                         *)
(* Checked in every terminal state (TLC, exhaustively):                    *)
(*   ExactLU      P A = L U as an identity between rationals, L unit lower,*)
(*                U upper, P a permutation matrix, |L| <= 1;               *)
(*   NonSingular  det A # 0  =>  no zero on the diagonal of U (so `solve`  *)
(*                and `inverse` do not take the "Matrix is singular" exit);*)
(*   Accepts      the property predicate LUCheck of Factorisations.tla --  *)
(*                the one trace validation applies to the real code --     *)
(*                accepts the exactly rounded factors (the tolerance       *)
(*                calculus raises no false alarm on a correct answer);     *)
(*   Rejects      and rejects them once a single entry of U is off by an   *)
(*                eighth of max|U| (the predicate is not vacuous).         *)
(* A failure of any of these is an error of the model or of the predicate, *)
(* never a verdict about the code.                                         *)
(***************************************************************************)
EXTENDS Factorisations, TLC, Json

R == INSTANCE Rational

CONSTANTS N, K                           \* order, entry bound
Vals == (-K)..K
VARIABLES A0, a, piv, j, phase
vars == <<A0, a, piv, j, phase>>

FS == 10                                 \* fixed-point scale used by the predicate check

Init == /\ A0 \in [1..N -> [1..N -> Vals]]
        /\ a = [i \in 1..N |-> [k \in 1..N |-> R!OfInt(A0[i][k])]]
        /\ piv = [i \in 1..N |-> i]
        /\ j = 1
        /\ phase = "col"

RECURSIVE SumK(_, _, _)                  \* sum_{t <= k} row[t] * col[t]
SumK(row, col, k) == IF k = 0 THEN R!Zero ELSE R!Add(R!Mul(row[k], col[k]), SumK(row, col, k - 1))

RECURSIVE ColFrom(_, _, _)               \* rows i..N of the column update
ColFrom(i, col, jj) ==
    IF i > N THEN col
    ELSE ColFrom(i + 1,
                 [col EXCEPT ![i] = R!Sub(col[i], SumK(a[i], col, Min2(i - 1, jj - 1)))],
                 jj)

Col == /\ phase = "col"
       /\ LET col == ColFrom(1, [i \in 1..N |-> a[i][j]], j)
          IN  a' = [i \in 1..N |-> [a[i] EXCEPT ![j] = col[i]]]
       /\ phase' = "pivot"
       /\ UNCHANGED <<A0, piv, j>>

RECURSIVE ArgMax(_, _)
ArgMax(i, p) == IF i > N THEN p
                ELSE ArgMax(i + 1, IF R!Gt(R!AbsR(a[i][j]), R!AbsR(a[p][j])) THEN i ELSE p)

Swap(f, p, q) == [f EXCEPT ![p] = f[q], ![q] = f[p]]

Pivot == /\ phase = "pivot"
         /\ LET p == ArgMax(j + 1, j)
            IN  /\ a' = Swap(a, p, j)
                /\ piv' = Swap(piv, p, j)
         /\ phase' = "scale"
         /\ UNCHANGED <<A0, j>>

Scale == /\ phase = "scale"
         /\ a' = IF R!IsZero(a[j][j]) THEN a
                 ELSE [i \in 1..N |-> IF i > j THEN [a[i] EXCEPT ![j] = R!Div(a[i][j], a[j][j])] ELSE a[i]]
         /\ j' = j + 1
         /\ phase' = IF j = N THEN "done" ELSE "col"
         /\ UNCHANGED <<A0, piv>>

Next == Col \/ Pivot \/ Scale
Spec == Init /\ [][Next]_vars

(***************************************************************************)
(* Observables                                                             *)
(***************************************************************************)
Lx == [i \in 1..N |-> [k \in 1..N |-> IF i > k THEN a[i][k] ELSE IF i = k THEN R!One ELSE R!Zero]]
Ux == [i \in 1..N |-> [k \in 1..N |-> IF i <= k THEN a[i][k] ELSE R!Zero]]
Px == [i \in 1..N |-> [k \in 1..N |-> IF piv[i] = k THEN 1 ELSE 0]]

RECURSIVE RDot(_, _, _)
RDot(x, y, k) == IF k = 0 THEN R!Zero ELSE R!Add(R!Mul(x[k], y[k]), RDot(x, y, k - 1))

(* the observables are passed as arguments so that TLC builds them once per state *)
ExactOn(L, Ut, P) ==
    /\ IsPermMatrix(P, N)
    /\ \A i, k \in 1..N : RDot(L[i], Ut[k], N) = R!OfInt(A0[piv[i]][k])
    /\ \A i, k \in 1..N : i > k => ~R!Gt(R!AbsR(L[i][k]), R!One)
ExactLU == phase = "done" => ExactOn(Lx, [k \in 1..N |-> [t \in 1..N |-> Ux[t][k]]], Px)

NonSingular ==
    phase = "done" => (Det(A0) # 0 => \A k \in 1..N : ~R!IsZero(a[k][k]))

Quant(M) == [i \in 1..N |-> [k \in 1..N |-> R!RoundScaled(M[i][k], Pow2(FS))]]
Sg(M) == [i \in 1..N |-> [k \in 1..N |-> R!Sign(M[i][k])]]
IsOne(M) == [i \in 1..N |-> [k \in 1..N |-> IF M[i][k] = R!One THEN 1 ELSE 0]]
Observed(U) == [L |-> Quant(Lx), Lsg |-> Sg(Lx), Lone |-> IsOne(Lx),
                U |-> U, Usg |-> Sg(Ux), Pint |-> TRUE, P |-> Px]

Accepts ==
    (phase = "done" /\ Det(A0) # 0) => LUCheck(A0, Observed(Quant(Ux)), N, FS, "f64") = "pass"

Perturbed(U) == [U EXCEPT ![1] = [U[1] EXCEPT ![N] = @ + MaxAbsM(U) \div 8 + 8]]
Rejects ==
    (phase = "done" /\ Det(A0) # 0) => LUCheck(A0, Observed(Perturbed(Quant(Ux))), N, FS, "f64") = "LU.PA=LU"

(* spec -> impl: one line per terminal state with the input and the exactly
   rounded factors of the model; the harness runs the real lu() on each input
   and the trace spec compares (a difference is MODEL-DRIFT, not a violation) *)
Replay == phase = "done" =>
    PrintT(<<"REPLAY", ToJson([kind |-> "lu", A |-> A0, L |-> Quant(Lx), U |-> Quant(Ux), P |-> Px])>>)
=============================================================================
