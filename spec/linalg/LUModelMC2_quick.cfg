SPECIFICATION Spec
CONSTANTS
    N = 2
    K = 3
INVARIANT ExactLU
INVARIANT NonSingular
INVARIANT Accepts
INVARIANT Rejects
INVARIANT Replay
CHECK_DEADLOCK FALSE
