CONSTANTS NR = 2  MaxR = 2  MaxC = 2  MaxOps = 2  Bnd = 8  MaxDim = 4  Seeded = FALSE
CONSTANTS Vals <- ValsT  Scal <- ScalT
SPECIFICATION Spec
VIEW View
INVARIANT TypeOK
INVARIANT Laws
CHECK_DEADLOCK FALSE
