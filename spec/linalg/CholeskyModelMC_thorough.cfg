SPECIFICATION Spec
CONSTANTS
    N = 4
    K = 1
    NanIsError = TRUE
INVARIANT PivotsAreMinorRatios
INVARIANT FactorsExact
INVARIANT SpdAccepted
INVARIANT ErrorClause
INVARIANT DefectExtent
CHECK_DEADLOCK FALSE
