SPECIFICATION Spec
CONSTANTS
    N = 4
    K = 1
    Variant = "current"
INVARIANT PivotsAreMinorRatios
INVARIANT FactorsExact
INVARIANT SpdAccepted
INVARIANT ErrorClause
INVARIANT OkIsFinite
INVARIANT DefectExtent
INVARIANT Replay
CHECK_DEADLOCK FALSE
