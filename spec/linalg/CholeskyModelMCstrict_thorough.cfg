SPECIFICATION Spec
CONSTANTS
    N = 4
    K = 1
    Variant = "strict"
INVARIANT PivotsAreMinorRatios
INVARIANT FactorsExact
INVARIANT SpdAccepted
INVARIANT ErrorClause
INVARIANT OkIsFinite
INVARIANT DefectExtent
CHECK_DEADLOCK FALSE
