SPECIFICATION Spec
CONSTANTS
    N = 3
    K = 2
    Variant = "strict"
INVARIANT PivotsAreMinorRatios
INVARIANT FactorsExact
INVARIANT SpdAccepted
INVARIANT ErrorClause
INVARIANT OkIsFinite
INVARIANT DefectExtent
CHECK_DEADLOCK FALSE
