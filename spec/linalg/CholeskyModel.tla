---------------------------- MODULE CholeskyModel ----------------------------
(***************************************************************************)
(* Design model of `cholesky_mut` (src/linalg/cholesky.rs), the            *)
(* Cholesky-Banachiewicz row sweep with its negative-pivot rejection,      *)
(* executed exactly -- including the IEEE-754 special values a division by *)
(* a zero pivot produces -- on every symmetric N x N integer matrix over   *)
(* -K..K.                                                                  *)
(*                                                                         *)
(* Exactness without square roots.  The code stores l_jk (k < j) and       *)
(* l_kk = sqrt(d_k).  Writing l_jk = r_jk / sqrt(d_k) the quantities the   *)
(* algorithm forms are all rational:                                       *)
(*     l_ki * l_ji = r_ki * r_ji / d_i        s^2 = r_jk^2 / d_k           *)
(*     d_j = a_jj - sum_k r_jk^2 / d_k        r_jk = a_jk - sum_{i<k} ...  *)
(* so the model keeps the numerators r_jk (variable `r`) and the pivots    *)
(* d_k (`d`).  As soon as a pivot is 0 the quotient r / sqrt(0) is +-inf   *)
(* or nan and is stored as such; products with a special value only need   *)
(* the sign / zero-ness of the other factor, which r shares with l.        *)
(*                                                                         *)
(*   Off(j,k)  s = (a_jk - sum_{i<k} l_ki l_ji) / l_kk ;  acc += s*s       *)
(*   Diag(j)   dj = a_jj - acc ;  reject or store sqrt(dj), per Variant:   *)
(*                                                                         *)
(*   Variant = "current"   reject iff dj < 0 or dj is nan.  This is        *)
(*       cholesky_mut as it stands in /repo (`d < T::zero() || d.is_nan()`,*)
(*       commit a05df8f).  An exactly zero pivot is still accepted; what   *)
(*       follows it is +-inf (=> -inf pivot => rejected) or nan            *)
(*       (=> rejected).  The REPLAY lines compared with the real code come *)
(*       from this variant.                                                *)
(*   Variant = "strict"    reject unless dj > 0 (`!(d > T::zero())`): the  *)
(*       alternative repair.  Model-checked so that the properties below   *)
(*       are known not to prefer one repair over the other.                *)
(*   Variant = "regress-a05df8f"   reject iff dj < 0 only, the IEEE        *)
(*       comparison being FALSE for nan.  This is the DEFECT REPAIRED BY   *)
(*       COMMIT a05df8f (0/0 = nan after a zero pivot passed as "not       *)
(*       negative" and nan factors were returned).  Kept only as a named   *)
(*       regression shape: DefectExtent pins down exactly which inputs it  *)
(*       mishandles, which is the input class the trace specification      *)
(*       names ("...mustErr.zeroPivot.nan") should the defect come back.   *)
(*                                                                         *)
(* Checked by TLC in every terminal state:                                 *)
(*   PivotsAreMinorRatios  d_j * M_{j-1} = M_j (leading principal minors), *)
(*                  the link between the algorithm and Sylvester's         *)
(*                  criterion used by the premise operators of             *)
(*                  Factorisations.tla;                                    *)
(*   FactorsExact   outcome ok with positive pivots => A = L L^T exactly;  *)
(*   SpdAccepted    PosDef(A) (as trace validation decides it) => ok with  *)
(*                  positive pivots                      (every variant);  *)
(*   ErrorClause    ClearlyIndefinite(A) => err   ("current" and "strict");*)
(*   OkIsFinite     an accepted factorisation has finite factors           *)
(*                                                ("current" and "strict");*)
(*   DefectExtent   "regress-a05df8f" violates the error clause exactly on *)
(*                  inputs of class "zeroPivot" (first non-positive        *)
(*                  leading minor is 0), returning factors that contain    *)
(*                  nan.                                                   *)
(* The statement is silent on the semidefinite boundary, and so are these  *)
(* properties: there "current" may answer ok (zero last pivot) where       *)
(* "strict" answers err; neither is demanded, neither is flagged.          *)
(***************************************************************************)
EXTENDS Factorisations, TLC, Json

R == INSTANCE Rational

CONSTANTS N, K, Variant
ASSUME Variant \in {"current", "strict", "regress-a05df8f"}
VARIABLES A0, r, d, j, k, acc, outcome
vars == <<A0, r, d, j, k, acc, outcome>>

Pairs == { <<p, q>> \in (1..N) \X (1..N) : q <= p }
Sym(f) == [p \in 1..N |-> [q \in 1..N |-> IF q <= p THEN f[<<p, q>>] ELSE f[<<q, p>>]]]

Init == /\ A0 \in { Sym(f) : f \in [Pairs -> (-K)..K] }
        /\ r = [p \in 1..N |-> [q \in 1..N |-> R!Zero]]
        /\ d = [p \in 1..N |-> R!Zero]
        /\ j = 1 /\ k = 1
        /\ acc = R!Zero
        /\ outcome = "run"

(* l_pi * l_qi for i a finished column: exact when both numerators are finite *)
ProdL(x, y, di) ==
    IF R!IsQ(x) /\ R!IsQ(y) /\ R!IsQ(di) /\ ~R!IsZero(di) THEN R!Div(R!Mul(x, y), di)
    ELSE IF R!IsQ(x) /\ R!IsQ(y) THEN (IF R!IsNan(di) THEN R!Nan ELSE R!Mul(x, y))   \* di = 0 only if x, y are special
    ELSE R!Mul(x, y)                          \* a special factor: sign / zero of the other suffices

RECURSIVE SumL(_, _, _)
SumL(rk, rj, i) == IF i = 0 THEN R!Zero ELSE R!Add(ProdL(rk[i], rj[i], d[i]), SumL(rk, rj, i - 1))

(* numerator / sqrt(dk) *)
Quot(num, dk) ==
    IF R!IsNan(dk) THEN R!Nan
    ELSE IF R!IsZero(dk) THEN R!Div(num, R!Zero)
    ELSE num                                   \* finite value num / sqrt(dk), kept as its numerator
SquareOf(s, dk) ==
    IF R!IsQ(s) /\ R!IsQ(dk) /\ ~R!IsZero(dk) THEN R!Div(R!Mul(s, s), dk) ELSE R!Mul(s, s)

Off == /\ outcome = "run" /\ k < j
       /\ LET s == Quot(R!Sub(R!OfInt(A0[j][k]), SumL(r[k], r[j], k - 1)), d[k])
          IN  /\ r' = [r EXCEPT ![j] = [r[j] EXCEPT ![k] = s]]
              /\ acc' = R!Add(acc, SquareOf(s, d[k]))
       /\ k' = k + 1
       /\ UNCHANGED <<A0, d, j, outcome>>

Diag == /\ outcome = "run" /\ k = j
        /\ LET dj == R!Sub(R!OfInt(A0[j][j]), acc)
               rejected == CASE Variant = "current" -> R!Lt(dj, R!Zero) \/ R!IsNan(dj)
                             [] Variant = "strict" -> ~R!Gt(dj, R!Zero)
                             [] OTHER -> R!Lt(dj, R!Zero)          \* regress-a05df8f
           IN  IF rejected
               THEN outcome' = "err" /\ UNCHANGED <<d, j, k, acc>>
               ELSE /\ d' = [d EXCEPT ![j] = dj]
                    /\ outcome' = IF j = N THEN "ok" ELSE "run"
                    /\ j' = j + 1 /\ k' = 1 /\ acc' = R!Zero
        /\ UNCHANGED <<A0, r>>

Next == Off \/ Diag
Spec == Init /\ [][Next]_vars

(***************************************************************************)
(* Properties of terminal states                                           *)
(***************************************************************************)
Done == outcome \in {"ok", "err"}
PositivePivots == \A p \in 1..N : R!IsQ(d[p]) /\ R!Sign(d[p]) > 0
SomeNan == \/ \E p \in 1..N : R!IsNan(d[p])
           \/ \E p, q \in 1..N : q < p /\ R!IsNan(r[p][q])

MinorRatio(lm, p) ==      \* d_p * M_{p-1} = M_p   (M_0 = 1)
    R!Mul(d[p], R!OfInt(IF p = 1 THEN 1 ELSE lm[p - 1])) = R!OfInt(lm[p])
RECURSIVE PrefixPositive(_, _)
PrefixPositive(lm, p) == p = 0 \/ (lm[p] > 0 /\ PrefixPositive(lm, p - 1))
(* every pivot computed after an all-positive prefix is the ratio of minors *)
PivotsOn(lm, upto) == \A p \in 1..upto : PrefixPositive(lm, p - 1) => MinorRatio(lm, p)
PivotsAreMinorRatios == Done => PivotsOn(LeadingMinors(A0), IF outcome = "ok" THEN N ELSE j - 1)

(* A = L L^T with l_pq = r_pq / sqrt(d_q), l_qq = sqrt(d_q):
   a_pq = sum_{i<q} r_pi r_qi / d_i + r_pq      (q < p)
   a_pp = sum_{i<p} r_pi^2 / d_i + d_p *)
RECURSIVE Gram(_, _, _)
Gram(rp, rq, i) == IF i = 0 THEN R!Zero ELSE R!Add(R!Div(R!Mul(rp[i], rq[i]), d[i]), Gram(rp, rq, i - 1))
FactorsExact ==
    (outcome = "ok" /\ PositivePivots) =>
        \A p \in 1..N : \A q \in 1..p :
            R!Add(Gram(r[p], r[q], q - 1), IF q < p THEN r[p][q] ELSE d[p]) = R!OfInt(A0[p][q])

SpdAccepted == (Done /\ PosDef(A0)) => (outcome = "ok" /\ PositivePivots)

ErrorClause == (Done /\ Variant # "regress-a05df8f" /\ ClearlyIndefinite(A0)) => outcome = "err"

DefectExtent ==
    (Done /\ Variant = "regress-a05df8f" /\ ClearlyIndefinite(A0)) =>
        \/ outcome = "err"
        \/ (outcome = "ok" /\ SomeNan /\ ErrClass(A0) = "zeroPivot")

(* spec -> impl: the outcome of the design (status and whether every stored
   value is a finite number); printed by the "current" configuration and
   compared with the real cholesky().  The model is exact; the real code
   rounds sqrt(d), so on an input whose exact elimination meets a ZERO pivot
   after an irrational square root (sqrt(2)^2 # 2 in floating point) the real
   pivot is +-tiny instead of 0 and the branch taken may differ.  Such inputs
   lie on the semidefinite boundary or are rejected either way; they are the
   expected MODEL-DRIFT of this comparison. *)
AllFinite == /\ \A p \in 1..N : R!IsQ(d[p])
             /\ \A p, q \in 1..N : q < p => R!IsQ(r[p][q])
OkIsFinite == (outcome = "ok" /\ Variant # "regress-a05df8f") => AllFinite
Replay == Done =>
    PrintT(<<"REPLAY", ToJson([kind |-> "chol", A |-> A0, status |-> outcome,
                               fin |-> (outcome = "ok" /\ AllFinite)])>>)
=============================================================================
