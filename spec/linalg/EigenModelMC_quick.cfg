SPECIFICATION Spec
CONSTANTS
    K = 4
INVARIANT Vieta
INVARIANT Accepts
INVARIANT RejectsValue
INVARIANT RejectsPair
INVARIANT Replay
CHECK_DEADLOCK FALSE
