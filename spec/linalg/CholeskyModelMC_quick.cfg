SPECIFICATION Spec
CONSTANTS
    N = 3
    K = 2
    NanIsError = TRUE
INVARIANT PivotsAreMinorRatios
INVARIANT FactorsExact
INVARIANT SpdAccepted
INVARIANT ErrorClause
INVARIANT DefectExtent
CHECK_DEADLOCK FALSE
