------------------------ MODULE FactorisationsTrace ------------------------
(***************************************************************************)
(* C01 trace validation (impl -> spec).  Consumes the ndjson file recorded *)
(* by harness/c01 from the real lu / qr / cholesky / svd / solve / inverse *)
(* calls, one event per line, and evaluates Judge(e) of Factorisations.tla *)
(* on every line.  The spec never blocks: a violated clause is printed as  *)
(* <<"BAD", line, run, ev, clause>> and counted; at the end of the file    *)
(* one <<"VERDICT", json>> line reports events consumed, bad events and    *)
(* the per-clause hit counters used by the driver's vacuity guard.         *)
(*                                                                         *)
(* hits:  <clause>  number of events on which the clause was demanded and  *)
(*                  held;   "unc:<call>" statement silent (premise not     *)
(*                  certified);   "oor:<clause>" not decidable in 32 bits; *)
(*                  "drift:<call>" real output differs from the design     *)
(*                  model's (model comparison events only).                *)
(***************************************************************************)
EXTENDS Factorisations, TLC, Json, IOUtils

Rec == ndJsonDeserialize(IOEnv.TRACE)

VARIABLES l, nbad, hits
vars == <<l, nbad, hits>>

Bump(h, k) == IF k \in DOMAIN h THEN [h EXCEPT ![k] = @ + 1] ELSE h @@ (k :> 1)

KeyOf(v) == IF v[1] = "pass" THEN v[2]
            ELSE IF v[1] = "unc" THEN "unc:" \o v[2]
            ELSE IF v[1] = "oor" THEN "oor:" \o v[2]
            ELSE IF v[1] = "drift" THEN "drift:" \o v[2]
            ELSE "bad"

(* v is passed as an argument so that Judge is evaluated once per event *)
Apply(e, v) ==
    /\ hits' = Bump(hits, KeyOf(v))
    /\ IF v[1] = "bad"
       THEN /\ PrintT(<<"BAD", l, e.run, e.ev, v[2]>>)
            /\ nbad' = nbad + 1
       ELSE nbad' = nbad

Step == /\ l <= Len(Rec)
        /\ l' = l + 1
        /\ Apply(Rec[l], Judge(Rec[l]))

Init == l = 1 /\ nbad = 0 /\ hits = [x \in {"bad"} |-> 0]
Next == Step
Spec == Init /\ [][Next]_vars

AtEnd == (l = Len(Rec) + 1) =>
            PrintT(<<"VERDICT", ToJson([consumed |-> l - 1, bad |-> nbad, hits |-> hits])>>)
=============================================================================
