SPECIFICATION Spec
CONSTANTS
    N = 4
    K = 1
    Variant = "regress-a05df8f"
INVARIANT PivotsAreMinorRatios
INVARIANT FactorsExact
INVARIANT SpdAccepted
INVARIANT ErrorClause
INVARIANT OkIsFinite
INVARIANT DefectExtent
CHECK_DEADLOCK FALSE
