----------------------------- MODULE MatrixADT_MC -----------------------------
(***************************************************************************)
(* C03 / C20.  The register-file state machine over the matrix ADT of      *)
(* MatrixADT, used in two ways.                                            *)
(*                                                                         *)
(* (1) Exhaustive model checking (MatrixADT_MC_quick/thorough.cfg):        *)
(*     NR registers, all matrices up to MaxR x MaxC over Vals, all         *)
(*     programs of at most MaxOps calls.  The invariants are algebraic     *)
(*     LAWS relating the operations to each other (transpose involution,   *)
(*     (AB)^T = B^T A^T, reshape / flatten preserve the row-major order,   *)
(*     column-major construction = row-major construction of the           *)
(*     transpose, take of the identity index vector is the identity,       *)
(*     stack-then-slice returns the parts, the four flag combinations of   *)
(*     `ab`, dot = 1xN by Nx1 product, variance >= 0 and shift invariant,  *)
(*     cov diagonal = variance numerator, ...).  This checks the           *)
(*     specification against itself: a wrong definition in MatrixADT       *)
(*     breaks a law on some reachable register content.                    *)
(*                                                                         *)
(* (2) Program generation for the spec -> impl direction                   *)
(*     (MatrixADT_SIM.cfg, `-simulate`): with Seeded = TRUE the Build      *)
(*     action draws larger matrices from a family of seeded patterns       *)
(*     (mixed sign, all negative, all equal, zeros); every behaviour of    *)
(*     MaxOps calls is printed as one REPLAY line, replayed by the harness *)
(*     on the real back ends, and its events are validated by MatrixTrace. *)
(*                                                                         *)
(* One action per family of operations; within a family the operation name *)
(* is a parameter, so that the semantics live in one place (MatrixADT!Sem).*)
(* In-place operations write their first operand's register; a call whose  *)
(* shape contract fails leaves every register unchanged (action Reject).   *)
(***************************************************************************)
EXTENDS MatrixADT, TLC, Json

CONSTANTS NR,        \* number of registers
          MaxR, MaxC, \* largest shape Build creates
          Vals,      \* entries of built matrices (exhaustive mode)
          Scal,      \* scalar arguments
          MaxOps,    \* program length
          Bnd,       \* largest |entry| kept (state constraint as a guard)
          MaxDim,    \* largest dimension kept
          Seeded     \* FALSE: exhaustive Build over Vals; TRUE: seeded patterns

(* value sets for the configuration files (negative literals cannot be written there) *)
ValsQ == {-1, 2}
ValsT == {-1, 0, 2}
ScalQ == {-1, 2}
ScalT == {-2, 0, 3}

VARIABLES regs,   \* the register file
          prog,   \* history: the calls made so far (for REPLAY; not part of the VIEW)
          last    \* register written by the last call (0: none); focuses the law check
vars == <<regs, prog, last>>

Reg(i) == IF i = 0 THEN Empty ELSE regs[i]
Regs0 == 0..NR
RegsM == { i \in 1..NR : IsM(regs[i]) /\ NonEmpty(regs[i]) }
RegsV == { i \in 1..NR : IsV(regs[i]) /\ regs[i].c >= 1 }

Call(op, a, b, dst, ia, iv, iw) == [op |-> op, a |-> a, b |-> b, dst |-> dst, ia |-> ia, iv |-> iv, iw |-> iw]

Bounded(A) == /\ A.r <= MaxDim /\ A.c <= MaxDim
              /\ \A x \in 1..Len(A.d) : Abs(A.d[x]) <= Bnd

(* perform a register-writing call whose contract holds *)
Do(op, a, b, dst, ia, iv, iw) ==
    LET s == Sem(op, Reg(a), Reg(b), ia, iv, iw) IN
    /\ Len(prog) < MaxOps
    /\ s.en
    /\ Bounded(s.val)
    /\ regs' = [regs EXCEPT ![IF op \in WritesFirst THEN a ELSE dst] = s.val]
    /\ last' = (IF op \in WritesFirst THEN a ELSE dst)
    /\ prog' = Append(prog, Call(op, a, b, dst, ia, iv, iw))

(* an observation: the registers do not change *)
Ask(op, a, b, ia, iv, iw) ==
    /\ Len(prog) < MaxOps
    /\ UNCHANGED regs
    /\ last' = 0
    /\ prog' = Append(prog, Call(op, a, b, 0, ia, iv, iw))

(***************************************************************************)
(* seeded data patterns (program generation only)                          *)
(***************************************************************************)
SeedData(seed, n) ==
    LET cls == seed % 5 IN
    [x \in 1..n |->
        CASE cls = 0 -> ((seed * x * 7 + x * x * 3 + seed) % 13) - 6          \* mixed sign
          [] cls = 1 -> -1 - ((seed * x + x * x) % 9)                         \* all negative
          [] cls = 2 -> (seed % 7) - 3                                        \* all equal
          [] cls = 3 -> IF (x + seed) % 3 = 0 THEN ((x * seed) % 5) - 2 ELSE 0 \* mostly zero
          [] OTHER   -> 1 + ((seed + x * 5) % 9)]                             \* all positive

Build ==
    \E dst \in 1..NR, r \in 1..MaxR, c \in 1..MaxC :
       IF Seeded
       THEN \E seed \in 0..19, via \in {"from_array", "from_2d_array", "new", "from_vec"} :
               Do(via, 0, 0, dst, <<r, c>>, SeedData(seed, r * c), <<>>)
       ELSE \E d \in [1..(r * c) -> Vals], via \in {"from_array", "new"} :
               Do(via, 0, 0, dst, <<r, c>>, d, <<>>)

BuildSpecial ==
    \E dst \in 1..NR :
       \/ \E n \in 1..MaxR : Do("eye", 0, 0, dst, <<n>>, <<>>, <<>>)
       \/ \E r \in 1..MaxR, c \in 1..MaxC, v \in Scal : Do("fill", 0, 0, dst, <<r, c, v>>, <<>>, <<>>)
       \/ \E n \in 1..MaxC, v \in Scal : Do("v_fill", 0, 0, dst, <<n, v>>, <<>>, <<>>)

Structural ==
    \E a \in RegsM, dst \in 1..NR :
       LET A == regs[a] IN
       \/ Do("transpose", a, 0, dst, <<>>, <<>>, <<>>)
       \/ \E r0 \in 1..A.r, c0 \in 1..A.c : \E r1 \in r0..A.r, c1 \in c0..A.c :
             Do("slice", a, 0, dst, <<r0, r1, c0, c1>>, <<>>, <<>>)
       \/ \E r \in 1..(A.r * A.c) : (A.r * A.c) % r = 0 /\ Do("reshape", a, 0, dst, <<r, (A.r * A.c) \div r>>, <<>>, <<>>)
       \/ \E axis \in {0, 1}, k \in 1..2 :
             \E idx \in [1..k -> 1..(IF axis = 0 THEN A.r ELSE A.c)] :
                Do("take", a, 0, dst, <<axis>>, idx, <<>>)

Unary ==
    \E a \in RegsM, dst \in 1..NR :
       \/ \E op \in {"negative", "abs", "negative_mut", "abs_mut"} : Do(op, a, 0, dst, <<>>, <<>>, <<>>)
       \/ \E op \in {"add_scalar", "sub_scalar", "mul_scalar", "add_scalar_mut", "sub_scalar_mut", "mul_scalar_mut",
                     "binarize", "binarize_mut"}, s \in Scal : Do(op, a, 0, dst, <<s>>, <<>>, <<>>)
       \/ \E op \in {"pow", "pow_mut"}, p \in {2, 3} : Do(op, a, 0, dst, <<p>>, <<>>, <<>>)

Elementwise ==
    \E a \in RegsM, b \in RegsM, dst \in 1..NR :
       \E op \in {"add", "sub", "mul", "add_mut", "sub_mut", "mul_mut", "copy_from"} : Do(op, a, b, dst, <<>>, <<>>, <<>>)

Product ==
    \E a \in RegsM, b \in RegsM, dst \in 1..NR :
       \/ Do("matmul", a, b, dst, <<>>, <<>>, <<>>)
       \/ \E ta \in {0, 1}, tb \in {0, 1} : Do("ab", a, b, dst, <<ta, tb>>, <<>>, <<>>)

Stack ==
    \E a \in RegsM, b \in RegsM, dst \in 1..NR, op \in {"h_stack", "v_stack"} : Do(op, a, b, dst, <<>>, <<>>, <<>>)

Element ==
    \E a \in RegsM :
       \E i \in 1..regs[a].r, j \in 1..regs[a].c, v \in Scal,
          op \in {"set", "add_element_mut", "sub_element_mut", "mul_element_mut"} :
             Do(op, a, 0, 0, <<i, j, v>>, <<>>, <<>>)

ConvertM ==
    \E dst \in 1..NR, a \in RegsM :
       LET A == regs[a] IN
       \/ Do("to_row_vector", a, 0, dst, <<>>, <<>>, <<>>)
       \/ \E i \in 1..A.r : Do("get_row", a, 0, dst, <<i>>, <<>>, <<>>)

ConvertV ==
    \E dst \in 1..NR, a \in RegsV :
       LET A == regs[a] IN Do("from_row_vector", a, 0, dst, <<>>, <<>>, <<>>)

VectorOp ==
    \E a \in RegsV, dst \in 1..NR :
       \/ \E b \in RegsV, op \in {"v_add", "v_sub", "v_mul", "v_add_mut", "v_sub_mut", "v_mul_mut", "v_copy_from"} :
             Do(op, a, b, dst, <<>>, <<>>, <<>>)
       \/ \E s \in Scal, op \in {"v_add_scalar", "v_sub_scalar", "v_mul_scalar", "v_mul_scalar_mut"} :
             Do(op, a, 0, dst, <<s>>, <<>>, <<>>)
       \/ \E i \in 1..regs[a].c, v \in Scal, op \in {"v_set", "v_add_element_mut"} : Do(op, a, 0, 0, <<i, v>>, <<>>, <<>>)
       \/ \E k \in 1..2 : \E idx \in [1..k -> 1..regs[a].c] : Do("v_take", a, 0, dst, <<>>, idx, <<>>)

(* a call on operands of incompatible shape: rejected, nothing changes *)
Reject ==
    \E a \in RegsM, b \in RegsM :
       \/ \E op \in {"add", "sub", "mul", "add_mut", "copy_from", "matmul", "h_stack", "v_stack", "div"} :
             /\ ~Sem(IF op = "div" THEN "add" ELSE op, regs[a], regs[b], <<>>, <<>>, <<>>).en
             /\ Ask(op, a, b, <<>>, <<>>, <<>>)
       \/ \E ta \in {0, 1}, tb \in {0, 1} :
             /\ ~EnAB(regs[a], ta = 1, regs[b], tb = 1)
             /\ Ask("ab", a, b, <<ta, tb>>, <<>>, <<>>)
       \/ \E r \in 1..MaxDim, c \in 1..MaxDim :
             /\ ~EnReshape(regs[a], r, c)
             /\ Ask("reshape", a, 0, <<r, c>>, <<>>, <<>>)
       \/ /\ DotDefined(regs[a], regs[b]) /\ ~EnDotM(regs[a], regs[b])
          /\ Ask("dot", a, b, <<>>, <<>>, <<>>)

QueryM ==
    \E a \in RegsM :
       LET A == regs[a] IN
          \/ \E op \in {"shape", "sum", "min", "max", "norm1", "norm_inf", "norm_ninf", "norm2sq", "argmax", "unique",
                        "column_mean", "cov", "softmax_mut"} :
                /\ (op = "cov" => A.r >= 2)
                /\ Ask(op, a, 0, <<>>, <<>>, <<>>)
          \/ \E op \in {"mean", "var", "std"}, axis \in {0, 1} : Ask(op, a, 0, <<axis>>, <<>>, <<>>)
          \/ \E i \in 1..A.r : Ask("get_row_as_vec", a, 0, <<i>>, <<>>, <<>>)
          \/ \E j \in 1..A.c : Ask("get_col_as_vec", a, 0, <<j>>, <<>>, <<>>)
          \/ \E b \in RegsM :
                \/ \E op \in {"eq", "div", "max_diff"} :
                      /\ (op # "eq" => SameShape(A, regs[b]))
                      /\ Ask(op, a, b, <<>>, <<>>, <<>>)
                \/ \E eps \in {0, 1} : Ask("approximate_eq", a, b, <<eps>>, <<>>, <<>>)
                \/ EnDotM(A, regs[b]) /\ Ask("dot", a, b, <<>>, <<>>, <<>>)

QueryV ==
    \E a \in RegsV :
       LET A == regs[a] IN
          \/ \E op \in {"v_len", "v_to_vec", "v_sum", "v_norm2sq", "v_norm_inf", "v_unique", "v_mean", "v_var", "v_std"} :
                Ask(op, a, 0, <<>>, <<>>, <<>>)
          \/ \E b \in RegsV :
                \/ Ask("v_eq", a, b, <<>>, <<>>, <<>>)
                \/ Ask("v_dot", a, b, <<>>, <<>>, <<>>)

Init == /\ regs = [i \in 1..NR |-> Empty]
        /\ prog = <<>>
        /\ last = 0

Next == \/ Build \/ BuildSpecial \/ Structural \/ Unary \/ Elementwise \/ Product \/ Stack
        \/ Element \/ ConvertM \/ ConvertV \/ VectorOp \/ Reject \/ QueryM \/ QueryV

Spec == Init /\ [][Next]_vars

(***************************************************************************)
(* Program generation (spec -> impl).  In simulation mode TLC computes ALL *)
(* successors of a state before it picks one, which is far too slow for    *)
(* matrices up to 4x4 with free arguments.  SimNext is the same relation   *)
(* with every argument drawn by TLC!RandomElement (bound through a         *)
(* singleton set, so that each draw is made exactly once): one successor   *)
(* per operation family.  Every SimNext step is a Next step (the guards    *)
(* and effects are the same Do / Ask), only the way arguments are chosen   *)
(* differs.                                                                *)
(***************************************************************************)
(* the reference to `prog` keeps TLC from treating RE(S) with a constant S as a constant
   expression (which it would evaluate once and cache) *)
RE(Sx) == RandomElement(IF Len(prog) >= 0 THEN Sx ELSE {})
Pick(Sx, Pr(_)) == Sx # {} /\ \E x \in {RE(Sx)} : Pr(x)
Divisors(n) == { d \in 1..n : n % d = 0 }

SimBuild ==
    \E dst \in {RE(1..NR)}, r \in {RE(1..MaxR)}, c \in {RE(1..MaxC)}, seed \in {RE(0..19)},
       via \in {RE({"from_array", "from_2d_array", "new", "from_vec", "from_2d_vec"})} :
       Do(via, 0, 0, dst, <<r, c>>, SeedData(seed, r * c), <<>>)

SimVecBuild ==
    \E dst \in {RE(1..NR)}, n \in {RE(1..MaxC)}, seed \in {RE(0..19)} :
       Do("v_from_array", 0, 0, dst, <<>>, SeedData(seed, n), <<>>)

SimStructural ==
    Pick(RegsM, LAMBDA a : \E dst \in {RE(1..NR)}, k \in {RE(1..5)} :
       LET A == regs[a] IN
       CASE k = 1 -> Do("transpose", a, 0, dst, <<>>, <<>>, <<>>)
         [] k = 2 -> \E r0 \in {RE(1..A.r)}, c0 \in {RE(1..A.c)} : \E r1 \in {RE(r0..A.r)}, c1 \in {RE(c0..A.c)} :
                        Do("slice", a, 0, dst, <<r0, r1, c0, c1>>, <<>>, <<>>)
         [] k = 3 -> \E r \in {RE(Divisors(A.r * A.c))} : Do("reshape", a, 0, dst, <<r, (A.r * A.c) \div r>>, <<>>, <<>>)
         [] k = 4 -> \E axis \in {RE({0, 1})}, n \in {RE(1..4)} :
                        \E idx \in {[i \in 1..n |-> RE(1..(IF axis = 0 THEN A.r ELSE A.c))]} :
                           Do("take", a, 0, dst, <<axis>>, idx, <<>>)
         [] OTHER -> Do("clone", a, 0, dst, <<>>, <<>>, <<>>))

SimUnary ==
    Pick(RegsM, LAMBDA a : \E dst \in {RE(1..NR)}, s \in {RE(Scal)},
       op \in {RE({"negative", "abs", "negative_mut", "abs_mut", "add_scalar", "sub_scalar", "mul_scalar",
                   "add_scalar_mut", "sub_scalar_mut", "mul_scalar_mut", "binarize", "binarize_mut", "pow", "pow_mut"})} :
       Do(op, a, 0, dst, <<IF op \in {"pow", "pow_mut"} THEN 2 ELSE s>>, <<>>, <<>>))

SimBinary ==
    Pick(RegsM, LAMBDA a : Pick(RegsM, LAMBDA b : \E dst \in {RE(1..NR)}, ta \in {RE({0, 1})}, tb \in {RE({0, 1})},
       op \in {RE({"add", "sub", "mul", "add_mut", "sub_mut", "mul_mut", "copy_from", "matmul", "ab", "ab",
                   "h_stack", "v_stack"})} :
       LET s == Sem(op, regs[a], regs[b], <<ta, tb>>, <<>>, <<>>) IN
       IF s.en THEN Do(op, a, b, dst, IF op = "ab" THEN <<ta, tb>> ELSE <<>>, <<>>, <<>>)
       ELSE Ask(op, a, b, IF op = "ab" THEN <<ta, tb>> ELSE <<>>, <<>>, <<>>)))     \* incompatible: must be rejected

(* a second operand made to fit: B := a fresh matrix with A.c rows, then A * B *)
SimFit ==
    Pick(RegsM, LAMBDA a : \E b \in {RE(1..NR)}, c \in {RE(1..MaxC)}, seed \in {RE(0..19)} :
       b # a /\ Do("from_array", 0, 0, b, <<regs[a].c, c>>, SeedData(seed, regs[a].c * c), <<>>))

SimElement ==
    Pick(RegsM, LAMBDA a : \E i \in {RE(1..regs[a].r)}, j \in {RE(1..regs[a].c)}, v \in {RE(Scal)},
       op \in {RE({"set", "add_element_mut", "sub_element_mut", "mul_element_mut"})} :
       Do(op, a, 0, 0, <<i, j, v>>, <<>>, <<>>))

SimConvert ==
    \E dst \in {RE(1..NR)} :
       \/ Pick(RegsM, LAMBDA a : \E k \in {RE(1..2)}, i \in {RE(1..regs[a].r)} :
              IF k = 1 THEN Do("to_row_vector", a, 0, dst, <<>>, <<>>, <<>>) ELSE Do("get_row", a, 0, dst, <<i>>, <<>>, <<>>))
       \/ Pick(RegsV, LAMBDA a : Do("from_row_vector", a, 0, dst, <<>>, <<>>, <<>>))

SimVector ==
    Pick(RegsV, LAMBDA a : Pick(RegsV, LAMBDA b : \E dst \in {RE(1..NR)}, s \in {RE(Scal)},
       op \in {RE({"v_add", "v_sub", "v_mul", "v_add_mut", "v_sub_mut", "v_mul_mut", "v_copy_from",
                   "v_add_scalar", "v_sub_scalar", "v_mul_scalar", "v_mul_scalar_mut"})} :
       LET bin == op \in {"v_add", "v_sub", "v_mul", "v_add_mut", "v_sub_mut", "v_mul_mut", "v_copy_from"}
           sm  == Sem(op, regs[a], regs[b], <<s>>, <<>>, <<>>) IN
       IF sm.en THEN Do(op, a, IF bin THEN b ELSE 0, dst, IF bin THEN <<>> ELSE <<s>>, <<>>, <<>>)
       ELSE Ask(op, a, b, <<>>, <<>>, <<>>)))

SimQuery ==
    \/ Pick(RegsM, LAMBDA a :
          LET A == regs[a] IN
          \E op \in {RE({"shape", "sum", "min", "max", "norm1", "norm_inf", "norm_ninf", "norm2sq", "argmax", "unique",
                         "column_mean", "softmax_mut", "mean", "var", "std", "get_row_as_vec", "get_col_as_vec",
                         "copy_row_as_vec", "copy_col_as_vec", "cov"})},
             axis \in {RE({0, 1})}, i \in {RE(1..A.r)}, j \in {RE(1..A.c)} :
             /\ (op = "cov" => A.r >= 2)
             /\ Ask(op, a, 0,
                    CASE op \in {"mean", "var", "std"} -> <<axis>>
                      [] op \in {"get_row_as_vec", "copy_row_as_vec"} -> <<i>>
                      [] op \in {"get_col_as_vec", "copy_col_as_vec"} -> <<j>>
                      [] OTHER -> <<>>, <<>>, <<>>))
    \/ Pick(RegsM, LAMBDA a : Pick(RegsM, LAMBDA b :
          \E op \in {RE({"eq", "approximate_eq", "div", "max_diff", "dot"})} :
             /\ (op \in {"div", "max_diff"} => SameShape(regs[a], regs[b]))
             /\ (op = "dot" => DotDefined(regs[a], regs[b]))
             /\ Ask(op, a, b, IF op = "approximate_eq" THEN <<1>> ELSE <<>>, <<>>, <<>>)))
    \/ Pick(RegsV, LAMBDA a : Pick(RegsV, LAMBDA b :
          \E op \in {RE({"v_len", "v_to_vec", "v_sum", "v_norm2sq", "v_norm_inf", "v_unique", "v_mean", "v_var", "v_std",
                         "v_eq", "v_dot"})} :
             Ask(op, a, IF op \in {"v_eq", "v_dot"} THEN b ELSE 0, <<>>, <<>>, <<>>)))

SimNext == \/ SimBuild \/ SimVecBuild \/ SimStructural \/ SimUnary \/ SimBinary \/ SimFit \/ SimElement
           \/ SimConvert \/ SimVector \/ SimQuery
SimSpec == Init /\ [][SimNext]_vars

(* for exhaustive checking only the register contents and the number of calls matter *)
View == <<regs, Len(prog)>>

(***************************************************************************)
(* LAWS                                                                    *)
(***************************************************************************)
IdxTo(n) == [i \in 1..n |-> i]
Rev(n)   == [i \in 1..n |-> n + 1 - i]
ColMajorFlat(A) == [x \in 1..(A.r * A.c) |-> At(A, ((x - 1) % A.r) + 1, ((x - 1) \div A.r) + 1)]
FirstArgmax(A) == [i \in 1..A.r |-> CHOOSE j \in 1..A.c :
                        /\ At(A, i, j) = SeqMax(Row(A, i))
                        /\ \A t \in 1..(j - 1) : At(A, i, t) < At(A, i, j)]
RECURSIVE SortedOf(_)
SortedOf(Sx) == IF Sx = {} THEN <<>>
                ELSE LET m == CHOOSE a \in Sx : \A b \in Sx : a <= b IN <<m>> \o SortedOf(Sx \ {m})

Law1(A) ==
    /\ Transpose(Transpose(A)) = A
    /\ ToRowVector(A).d = A.d
    /\ Reshape(Reshape(A, 1, A.r * A.c), A.r, A.c) = A
    /\ Reshape(A, A.c, A.r).d = A.d
    /\ ToRowVector(Transpose(A)).d = ColMajorFlat(A)
    /\ FromColMajor(A.r, A.c, ColMajorFlat(A)) = A
    /\ FromColMajor(A.r, A.c, Transpose(A).d) = A
    /\ MatMul(A, Eye(A.c)) = A /\ MatMul(Eye(A.r), A) = A
    /\ Take(A, IdxTo(A.r), 0) = A /\ Take(A, IdxTo(A.c), 1) = A
    /\ Take(A, Rev(A.c), 1) = Transpose(Take(Transpose(A), Rev(A.c), 0))
    /\ Take(Take(A, Rev(A.r), 0), Rev(A.r), 0) = A
    /\ Slice(A, 1, A.r, 1, A.c) = A
    /\ \A i \in 1..A.r : GetRow(A, i).d = Slice(A, i, i, 1, A.c).d
    /\ \A j \in 1..A.c : Col(A, j) = Slice(A, 1, A.r, j, j).d
    /\ Negative(Negative(A)) = A
    /\ AbsM(Negative(A)) = AbsM(A)
    /\ Sum(Transpose(A)) = Sum(A)
    /\ MaxOf(A) = -MinOf(Negative(A))
    /\ Norm1(A) = Sum(AbsM(A)) /\ NormInf(A) = MaxOf(AbsM(A)) /\ NormNInf(A) = MinOf(AbsM(A))
    /\ NormPPow(A, 2) = Dot(A, A) /\ NormPPow(A, 1) = Norm1(A)
    /\ MinOf(A) <= MaxOf(A)
    /\ PowM(A, 2) = Mul(A, A)
    /\ AB(A, TRUE, A, FALSE) = Transpose(AB(A, TRUE, A, FALSE))        \* A^T A is symmetric
    /\ AB(A, FALSE, A, TRUE) = MatMul(A, Transpose(A))
    /\ IsArgmax(A, FirstArgmax(A))
    /\ IsUnique(A, SortedOf(Range(A.d))) /\ IsSortedAsc(SortedOf(Range(A.d)))
    /\ Binarize(A, MaxOf(A)).d = [x \in 1..Len(A.d) |-> 0]
    \* statistics
    /\ \A ax \in {0, 1} : \A x \in 1..Len(Lanes(A, ax)) :
          LET xs == Lanes(A, ax)[x] IN
          /\ VarFrac(xs)[1] >= 0
          /\ VarFrac(xs) = VarFrac([i \in 1..Len(xs) |-> xs[i] + 1000])     \* shift invariance
          /\ VarFrac(xs)[1] = 0 <=> Spread(xs) = 0
          /\ 4 * VarFrac(xs)[1] <= VarFrac(xs)[2] * Spread(xs) * Spread(xs) \* var <= spread^2/4
          /\ MeanFrac(xs)[1] >= SeqMin(xs) * Len(xs) /\ MeanFrac(xs)[1] <= SeqMax(xs) * Len(xs)
    /\ Lanes(A, 0) = Lanes(Transpose(A), 1)
    /\ A.r >= 2 => \A i, j \in 1..A.c :
          /\ CovFrac(A, i, j) = CovFrac(A, j, i)
          /\ CovFrac(A, i, i)[1] = VarFrac(Col(A, i))[1]       \* (m-1) cov_ii = m var_i

Law2(A, B) ==
    /\ SameShape(A, B) =>
          /\ Add(A, B) = Add(B, A) /\ Mul(A, B) = Mul(B, A)
          /\ Sub(A, B) = Add(A, Negative(B))
          /\ Transpose(Add(A, B)) = Add(Transpose(A), Transpose(B))
          /\ MaxDiff(A, B) = NormInf(Sub(A, B))
          /\ EqM(A, B) <=> (MaxDiff(A, B) = 0)
          /\ ApproxEq(A, B, 0) <=> EqM(A, B)
          /\ ApproxEq(A, B, MaxDiff(A, B))
          /\ (MaxDiff(A, B) > 0 => ~ApproxEq(A, B, MaxDiff(A, B) - 1))
    /\ ~SameShape(A, B) => ~EqM(A, B) /\ ~ApproxEq(A, B, 1000)
    /\ EnMatMul(A, B) =>
          /\ Transpose(MatMul(A, B)) = MatMul(Transpose(B), Transpose(A))
          /\ AB(A, FALSE, B, FALSE) = MatMul(A, B)
          /\ AB(Transpose(A), TRUE, B, FALSE) = MatMul(A, B)
          /\ AB(A, FALSE, Transpose(B), TRUE) = MatMul(A, B)
          /\ AB(Transpose(A), TRUE, Transpose(B), TRUE) = MatMul(A, B)
          /\ MatMul(A, B).r = A.r /\ MatMul(A, B).c = B.c
    /\ \A ta, tb \in BOOLEAN : EnAB(A, ta, B, tb) <=> EnMatMul(OpT(A, ta), OpT(B, tb))
    /\ EnHStack(A, B) =>
          /\ Slice(HStack(A, B), 1, A.r, 1, A.c) = A
          /\ Slice(HStack(A, B), 1, A.r, A.c + 1, A.c + B.c) = B
          /\ Transpose(HStack(A, B)) = VStack(Transpose(A), Transpose(B))
    /\ EnVStack(A, B) =>
          /\ Slice(VStack(A, B), 1, A.r, 1, A.c) = A
          /\ Slice(VStack(A, B), A.r + 1, A.r + B.r, 1, A.c) = B
    /\ EnDotM(A, B) => /\ Dot(A, B) = Dot(Transpose(A), B) /\ Dot(A, B) = Dot(A, Transpose(B))   \* any orientation
                       /\ Dot(A, B) = Dot(B, A)
    /\ (EnDotM(A, B) /\ SameShape(A, B)) =>
          /\ Dot(A, B) = Dot(B, A)
          /\ Dot(A, B) = Sum(Mul(A, B))
          /\ Dot(A, B) = At(MatMul(Reshape(A, 1, Len(A.d)), Reshape(B, Len(B.d), 1)), 1, 1)
          /\ Dot(Transpose(A), Transpose(B)) = Dot(A, B)                 \* orientation does not matter

LawV(V) ==
    /\ ToRowVector(FromRowVector(V)) = V
    /\ VTake(V, IdxTo(V.c)) = V
    /\ VarFrac(V.d)[1] >= 0

(* Every register content is checked against the laws in the state in which it was
   written, every pair of contents in the state in which the later of the two was
   written; `last` is therefore left out of the VIEW without losing any check. *)
IsMat(i) == IsM(regs[i]) /\ NonEmpty(regs[i])
Laws ==
    last # 0 =>
       /\ IsMat(last) => Law1(regs[last])
       /\ IsMat(last) => \A j \in 1..NR : IsMat(j) => Law2(regs[last], regs[j]) /\ Law2(regs[j], regs[last])
       /\ (IsV(regs[last]) /\ regs[last].c >= 1) => LawV(regs[last])

TypeOK ==
    \A i \in 1..NR : /\ regs[i].k \in {"e", "m", "v"}
                     /\ Len(regs[i].d) = regs[i].r * regs[i].c
                     /\ (regs[i].k = "v" => regs[i].r = 1)

(* spec -> impl: one line per finished program *)
Replay == (Len(prog) = MaxOps) => PrintT(<<"REPLAY", ToJson([prog |-> prog])>>)
=============================================================================
