CONSTANTS MaxR = 2  MaxC = 3
CONSTANTS LVals <- LValsQ
SPECIFICATION Spec
INVARIANT DenseRefines
INVARIANT BindingFacts
CHECK_DEADLOCK FALSE
