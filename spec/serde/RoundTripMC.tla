----------------------------- MODULE RoundTripMC -----------------------------
(***************************************************************************)
(* Design-level check of the C19 specification.                             *)
(*                                                                          *)
(* An ABSTRACT IMPLEMENTATION of "a library type with serde support and a   *)
(* hand-written PartialEq" produces histories, event by event, in exactly   *)
(* the vocabulary of the recorded traces; the history machine and the       *)
(* verdict operators of RoundTrip judge them.  TLC explores every history   *)
(* for a small abstract domain and checks                                   *)
(*                                                                          *)
(*   SOUND     the correct implementation -- in all its legitimate          *)
(*             variants: tolerance-based or exact `==`, `==` that ignores a *)
(*             field predictions do not depend on, nondeterministic         *)
(*             estimators, types without PartialEq, f32 values that JSON    *)
(*             rounds by one unit, other data that happens to give the same *)
(*             model, alternative fits that fail -- is never rejected;      *)
(*   SHARP     each injected fault is rejected on some history, and only by *)
(*             the clauses that describe it (coverage of the Detect_*       *)
(*             actions shows the rejections are reachable);                 *)
(*   GRAMMAR   the model only produces events the protocol admits.          *)
(*                                                                          *)
(* State-space hygiene: one history per behaviour; formats are tried in the *)
(* harness' order; the restored / alternative object is forgotten once its  *)
(* Eq step is over; a history stops after MaxViol clauses have fired.        *)
(* Measured: quick (MaxC = 4, d = h = 0 starts, 2 formats, MaxViol = 1)      *)
(* 205 652 distinct states; thorough (MaxC = 5, d = h = 0 starts -- the      *)
(* model is symmetric in d and h --, 3 formats, MaxViol = 2) 1 176 632.      *)
(*                                                                          *)
(* Abstract object state  s = [d, c, h, a]:                                    *)
(*   d  a discrete parameter  (what class labels / cluster ids depend on)   *)
(*   c  a continuous parameter, counted in "last-place units": two          *)
(*      neighbouring values have different bit patterns but the same or     *)
(*      adjacent fixed-point projection (cfx = c \div 2)                    *)
(*   h  a hidden field that predictions do not depend on (a split score, a  *)
(*      cached statistic)                                                   *)
(*   a  auxiliary state that only an AUXILIARY public method depends on      *)
(*      (the bootstrap masks of a forest fitted with keep_samples, read by   *)
(*      predict_oob): 0 = absent, the method answers "err"; 1 = present      *)
(* Observation of s on the (single, abstract) query: method 1 ("predict")    *)
(* gives discrete output d and continuous output c; method 2 ("aux") gives   *)
(* a when a > 0 and refuses otherwise.  Digest: injective in (d, c, h, a).   *)
(***************************************************************************)
EXTENDS RoundTrip, TLC

CONSTANTS MaxC,      \* continuous parameter ranges over 0..MaxC
          Faults,    \* the fault classes to inject (subset of AllFaults)
          WithPermuted, \* also model the third format (JSON with permuted keys)
          FullStart,    \* TRUE: every initial object state; FALSE: d = 0, h = 0 (the model is
                        \* symmetric under flipping d and h)
          MaxViol       \* a history is not continued after this many clauses have fired

AllFaults == {"serFail", "deFail", "deCorrupt", "deDropsHidden", "deDropsAux", "jsonSloppy", "jsonDiscrete",
              "eqSubset", "eqNotReflexive", "eqPanics", "nondetFit"}

States == [d : 0..1, c : 0..MaxC, h : 0..1, a : 0..1]

ObsOf(s) == [status |-> "ok", s |-> 1, parts |-> <<
               [name |-> "predict", status |-> "ok", shape |-> <<1, 1>>, dh |-> <<s.d>>, dl |-> <<0>>,
                ch |-> <<s.c>>, cl |-> <<0>>, cfx |-> <<s.c \div 2>>, cok |-> <<TRUE>>],
               IF s.a > 0
               THEN [name |-> "aux", status |-> "ok", shape |-> <<1, 1>>, dh |-> <<s.a>>, dl |-> <<0>>,
                     ch |-> <<>>, cl |-> <<>>, cfx |-> <<>>, cok |-> <<>>]
               ELSE [name |-> "aux", status |-> "err", shape |-> <<0, 0>>, dh |-> <<>>, dl |-> <<>>,
                     ch |-> <<>>, cl |-> <<>>, cfx |-> <<>>, cok |-> <<>>] >>]
DigOf(s) == <<s.d + 2 * s.a, 2 * s.c + s.h>>

VARIABLES st,        \* the history state of RoundTrip (spec side)
          s0,        \* the object under test (implementation side)
          r,         \* the restored object after De
          t,         \* the alternative object after Alt
          cfgI,      \* legitimate implementation choices: [tol, cmpH]
          fault,     \* "none" or the injected fault
          viol,      \* clauses that have fired so far
          protoOK,   \* every event so far was admitted by the protocol
          over       \* the (single) history of this behaviour has ended
vars == <<st, s0, r, t, cfgI, fault, viol, protoOK, over>>

(* ---- the implementation's `==` ----------------------------------------- *)
(* correct: compares the discrete parameter, the continuous one exactly or
   within one last-place unit (the library compares with T::epsilon()), and
   the hidden field or not -- all of these honour the statement *)
EqCorrect(a, b) == /\ a.d = b.d
                   /\ Abs(a.c - b.c) <= cfgI.tol
                   /\ (cfgI.cmpH => a.h = b.h)
(* fault "eqSubset": a hand-written PartialEq that looks at a subset of the
   fields only (cover tree: data only; k-NN: labels only; DBSCAN: labels only) *)
EqSubset(a, b) == a.d = b.d
(* fault "eqNotReflexive": a comparison that is false on some value even
   against itself (NaN-like) *)
EqNotRefl(a, b) == EqCorrect(a, b) /\ a.c # MaxC

EqImpl(a, b) == CASE fault = "eqSubset" -> EqSubset(a, b)
                  [] fault = "eqNotReflexive" -> EqNotRefl(a, b)
                  [] OTHER -> EqCorrect(a, b)

(* ---- what deserialisation may return ------------------------------------ *)
Restored(fmt, prec) ==
    LET exact == {s0}
        (* f32 through JSON: the decimal text is parsed as f64 and narrowed;
           allow one last-place unit either way *)
        rounded == {x \in States : x.d = s0.d /\ x.h = s0.h /\ x.a = s0.a /\ Abs(x.c - s0.c) <= 1}
        legit == IF IsJson(fmt) /\ prec = 32 THEN rounded ELSE exact
    IN CASE fault = "deCorrupt" ->      \* a field comes back wrong (swapped dimensions, wrong index ...)
              {x \in States : x.a = s0.a /\ x.h = s0.h /\ (x.d # s0.d \/ Abs(x.c - s0.c) >= 4)}
         [] fault = "deDropsAux" ->     \* #[serde(skip)] on state that only an auxiliary method reads:
              {[s0 EXCEPT !.a = 0]}      \* == and predict cannot tell, the auxiliary method can
         [] fault = "deDropsHidden" ->  \* a field is not (de)serialised and the type's == looks at it
              {[s0 EXCEPT !.h = 1 - @]}
         [] fault = "jsonSloppy" /\ IsJson(fmt) ->   \* too few digits written
              {x \in States : x.d = s0.d /\ x.h = s0.h /\ x.a = s0.a /\ Abs(x.c - s0.c) >= 4}
         [] fault = "jsonDiscrete" /\ IsJson(fmt) -> \* a label comes back different
              {[s0 EXCEPT !.d = 1 - @]}
         [] OTHER -> legit

Statuses(f) == IF fault = f THEN {"ok", "err"} ELSE {"ok"}

(* ---- steps: each builds the event the harness would record, asks the
        specification, and moves both sides ---------------------------------- *)
Judge1(e, v) == /\ Cardinality(viol) < MaxViol
                /\ protoOK' = (protoOK /\ P(st, e))
                /\ viol' = (IF v = "" THEN viol ELSE viol \cup {v})
                /\ st' = E(st, e)
Judge(e) == Judge1(e, V(st, e))   \* (operator arguments are evaluated once)

Init == /\ st = Idle
        /\ s0 \in (IF FullStart THEN States ELSE {x \in States : x.d = 0 /\ x.h = 0})
        /\ r = s0 /\ t = s0
        /\ cfgI \in [tol : {0, 1}, cmpH : BOOLEAN]
        /\ fault \in Faults \cup {"none"}
        /\ (fault = "deDropsAux" => s0.a = 1)    \* premise of that fault class
        /\ viol = {} /\ protoOK = TRUE /\ over = FALSE

Build == /\ st.phase = "idle" /\ ~over
         /\ \E det \in BOOLEAN, sup \in BOOLEAN, prec \in {32, 64}, hasEq \in BOOLEAN :
              /\ (fault = "deDropsHidden" => cfgI.cmpH)   \* premise of that fault class
              /\ (~hasEq => ~det /\ ~sup)                \* irrelevant without PartialEq
              /\ Judge([ev |-> "Built", det |-> det, sup |-> sup, prec |-> prec, hasEq |-> hasEq,
                        obs |-> ObsOf(s0), dig |-> DigOf(s0), digok |-> TRUE,
                        xd |-> <<1, 1>>, yd |-> IF sup THEN <<1, 1>> ELSE <<0, 0>>])
         /\ UNCHANGED <<s0, r, t, cfgI, fault, over>>

(* formats are tried in the order of the harness (the protocol admits any order) *)
NextFmts(done) == IF "bincode" \notin done THEN {"bincode"}
                  ELSE IF "json" \notin done THEN {"json"}
                  ELSE IF WithPermuted THEN {"jsonperm"} \ done ELSE {}
Ser == /\ Ready(st)
       /\ \E fmt \in NextFmts(st.fmts), status \in Statuses("serFail") :
            Judge([ev |-> "Ser", fmt |-> fmt, status |-> status])
       /\ r' = s0 /\ t' = s0
       /\ UNCHANGED <<s0, cfgI, fault, over>>

De == /\ st.phase = "ser"
      /\ \E status \in Statuses("deFail") :
           IF status = "ok"
           THEN \E x \in Restored(st.fmt, st.prec) :
                  /\ r' = x
                  /\ Judge([ev |-> "De", fmt |-> st.fmt, status |-> "ok", obs |-> ObsOf(x),
                            dig |-> DigOf(x), digok |-> TRUE])
           ELSE /\ r' = r
                /\ Judge([ev |-> "De", fmt |-> st.fmt, status |-> status, obs |-> NoObs,
                          dig |-> <<0, 0>>, digok |-> FALSE])
      /\ UNCHANGED <<s0, t, cfgI, fault, over>>

EqRestored == /\ st.phase = "de" /\ st.hasEq
              /\ Judge([ev |-> "Eq", kind |-> "restored", fmt |-> st.fmt, status |-> "ok",
                        result |-> EqImpl(s0, r)])
              /\ r' = s0
              /\ UNCHANGED <<s0, t, cfgI, fault, over>>

EqSelf == /\ Ready(st) /\ st.hasEq /\ ~st.selfDone
          /\ Judge([ev |-> "Eq", kind |-> "self", fmt |-> "-", status |-> "ok", result |-> EqImpl(s0, s0)])
          /\ UNCHANGED <<s0, r, t, cfgI, fault, over>>

(* the alternative object: a second fit on the same data gives the same state
   when fitting is deterministic and ANY state otherwise; a fit on other data
   may give any state at all -- also the same one *)
(* "indep" and "shift" (independent / translated other data) are the same thing at this
   level of abstraction: other rows and, for a supervised estimator, other targets *)
Hows == IF WithPermuted THEN {"same", "indep", "shift", "rowsonly"} ELSE {"same", "indep", "rowsonly"}
Alt == /\ Ready(st) /\ {"bincode", "json"} \subseteq st.fmts
       /\ \E how \in Hows, status \in {"ok", "err"} :
            LET role == IF how = "same" THEN "refit" ELSE "other"
                cands == IF status # "ok" \/ (how = "same" /\ st.det /\ fault # "nondetFit") THEN {s0}
                         ELSE {x \in States : x.h = s0.h /\ x.a = s0.a}
            IN \E x \in cands :
                 /\ t' = (IF status = "ok" /\ st.hasEq THEN x ELSE s0)
                 /\ r' = s0
                 /\ Judge([ev |-> "Alt", role |-> role, how |-> how, status |-> status,
                           obs |-> IF status = "ok" THEN ObsOf(x) ELSE NoObs,
                           xd |-> IF how = "same" THEN <<1, 1>> ELSE <<2, 2>>,
                           yd |-> IF ~st.sup THEN <<0, 0>>
                                  ELSE IF how \in {"same", "rowsonly"} THEN <<1, 1>> ELSE <<2, 2>>])
       /\ UNCHANGED <<s0, cfgI, fault, over>>

EqAlt == /\ st.phase = "alt" /\ st.hasEq
         /\ LET panics == fault = "eqPanics" /\ st.arole = "other" /\ t.d # s0.d
            IN Judge([ev |-> "Eq", kind |-> st.arole, fmt |-> st.ahow,
                      status |-> IF panics THEN "panic" ELSE "ok",
                      result |-> IF panics THEN FALSE ELSE EqImpl(s0, t)])
         /\ t' = s0
         /\ UNCHANGED <<s0, r, cfgI, fault, over>>

Finish == /\ Ready(st) /\ {"bincode", "json"} \subseteq st.fmts
          /\ Judge([ev |-> "End"])
          /\ over' = TRUE
          /\ UNCHANGED <<s0, r, t, cfgI, fault>>

(* ---- reachability witnesses: one action per fault class, enabled exactly
        when the specification has rejected a history of that class --------- *)
Expected == [f \in AllFaults \cup {"none"} |->
    CASE f = "serFail" -> {"SerFails"}
      [] f = "deFail" -> {"DeFails"}
      [] f = "deCorrupt" -> {"BincodeBits", "JsonDiscrete", "JsonValues", "EqRestored"}
      [] f = "deDropsHidden" -> {"EqRestored"}
      [] f = "deDropsAux" -> {"RestoredRefuses"}
      [] f = "jsonSloppy" -> {"JsonValues", "EqRestored"}
      [] f = "jsonDiscrete" -> {"JsonDiscrete", "EqRestored"}
      [] f = "eqSubset" -> {"EqOther"}
      [] f = "eqNotReflexive" -> {"EqSelf", "EqRestored", "EqRefit"}
      [] f = "eqPanics" -> {"EqPanics"}
      [] f = "nondetFit" -> {"EqRefit"}
      [] OTHER -> {}]

(* (stuttering steps: they exist only so that TLC's action coverage reports, per
   fault class, that a rejecting history is reachable) *)
Detect_serFail == fault = "serFail" /\ "SerFails" \in viol /\ UNCHANGED vars
Detect_deFail == fault = "deFail" /\ "DeFails" \in viol /\ UNCHANGED vars
Detect_deCorruptBits == fault = "deCorrupt" /\ "BincodeBits" \in viol /\ UNCHANGED vars
Detect_deCorruptJson == fault = "deCorrupt" /\ "JsonValues" \in viol /\ UNCHANGED vars
Detect_deDropsHidden == fault = "deDropsHidden" /\ "EqRestored" \in viol /\ UNCHANGED vars
Detect_deDropsAux == fault = "deDropsAux" /\ "RestoredRefuses" \in viol /\ UNCHANGED vars
Detect_jsonSloppy == fault = "jsonSloppy" /\ "JsonValues" \in viol /\ UNCHANGED vars
Detect_jsonDiscrete == fault = "jsonDiscrete" /\ "JsonDiscrete" \in viol /\ UNCHANGED vars
Detect_eqSubset == fault = "eqSubset" /\ "EqOther" \in viol /\ UNCHANGED vars
Detect_eqNotReflexive == fault = "eqNotReflexive" /\ "EqSelf" \in viol /\ UNCHANGED vars
Detect_eqPanics == fault = "eqPanics" /\ "EqPanics" \in viol /\ UNCHANGED vars
Detect_nondetFit == fault = "nondetFit" /\ "EqRefit" \in viol /\ UNCHANGED vars

Next == \/ Build \/ Ser \/ De \/ EqRestored \/ EqSelf \/ Alt \/ EqAlt \/ Finish
        \/ Detect_serFail \/ Detect_deFail \/ Detect_deCorruptBits \/ Detect_deCorruptJson
        \/ Detect_deDropsHidden \/ Detect_deDropsAux \/ Detect_jsonSloppy \/ Detect_jsonDiscrete \/ Detect_eqSubset
        \/ Detect_eqNotReflexive \/ Detect_eqPanics \/ Detect_nondetFit
Spec == Init /\ [][Next]_vars

(* ---- what TLC checks ------------------------------------------------------ *)
(* SOUND: no clause ever fires on the correct implementation *)
InvSound == fault = "none" => viol = {}
(* SHARP (precision half): a fault is only ever blamed through its own clauses *)
InvBlame == viol \subseteq Expected[fault]
(* GRAMMAR *)
InvProtocol == protoOK
(* consequences of the contract on accepted histories, stated independently of
   the verdict operators: on a history with no violation so far, the object
   restored through bincode is observationally identical, and whenever the
   statement demanded `==` to hold the implementation's answer was TRUE *)
InvBincodeIdentity ==
    (viol = {} /\ st.phase = "de" /\ st.fmt = "bincode") => ObsOf(r) = ObsOf(s0)
InvJsonClose ==
    (viol = {} /\ st.phase = "de" /\ IsJson(st.fmt)) =>
        /\ r.d = s0.d /\ (s0.a > 0 => r.a = s0.a)
        /\ Abs((r.c \div 2) - (s0.c \div 2)) <= 1
(* the statement never forces two observably identical models to be unequal *)
InvNoForcedInequality ==
    (st.phase = "alt" /\ st.hasEq /\ ObsOf(t) = ObsOf(s0)) => ~OtherIsDifferent(st)
=============================================================================
