CONSTANTS
  MaxC = 4
  WithPermuted = FALSE
  FullStart = FALSE
  MaxViol = 1
  Faults = {"serFail", "deFail", "deCorrupt", "deDropsHidden", "deDropsAux", "jsonSloppy", "jsonDiscrete", "eqSubset", "eqNotReflexive", "eqPanics", "nondetFit"}
SPECIFICATION Spec
INVARIANT InvSound
INVARIANT InvBlame
INVARIANT InvProtocol
INVARIANT InvBincodeIdentity
INVARIANT InvJsonClose
INVARIANT InvNoForcedInequality
CHECK_DEADLOCK FALSE
