--------------------------- MODULE RoundTripTrace ---------------------------
(***************************************************************************)
(* C19 trace validation (impl -> spec).  Consumes the ndjson file recorded  *)
(* by `c19 gen-models` from the real library -- one history per object, the *)
(* events Built / Ser / De / Eq / Alt / End of RoundTrip.tla -- and replays  *)
(* it through the history machine of RoundTrip: every event is first        *)
(* checked against the protocol guard P (a failure there is a defect of the *)
(* recorder, reported with clause "Protocol" and turned into a tool error   *)
(* by the driver), then judged by the verdict operator V of the property.   *)
(* The spec never blocks: a rejected event is printed (BAD ...) and the     *)
(* history goes on, so one defect does not hide another.                    *)
(***************************************************************************)
EXTENDS RoundTrip, TLC, Json, IOUtils

Rec == ndJsonDeserialize(IOEnv.TRACE)

VARIABLES l, st, nbad, hits
vars == <<l, st, nbad, hits>>

Bad(e, clause) == PrintT(<<"BAD", l, e.run, e.ev, clause>>)
Hit(h, name) == [h EXCEPT ![name] = @ + 1]

(* verdict and coverage class are computed once and passed on as arguments *)
Step1(e, ok, v, h, drift) ==
    /\ l' = l + 1
    /\ IF ~ok
       THEN /\ Bad(e, "Protocol")
            /\ nbad' = nbad + 1
            /\ hits' = hits
            (* resynchronise: a Built event always opens a new history *)
            /\ st' = IF e.ev = "Built" THEN E_Built(Idle, e) ELSE Idle
       ELSE /\ IF v = "" THEN nbad' = nbad ELSE Bad(e, v) /\ nbad' = nbad + 1
            /\ hits' = IF drift THEN Hit(Hit(hits, h), "StateDrift") ELSE Hit(hits, h)
            /\ (drift => PrintT(<<"INFO", ToJson([line |-> l, run |-> e.run, what |-> "StateDrift", fmt |-> e.fmt])>>))
            /\ st' = E(st, e)

Step == /\ l <= Len(Rec)
        /\ LET e == Rec[l] IN
           LET ok == P(st, e) IN
           Step1(e, ok, IF ok THEN V(st, e) ELSE "", IF ok THEN HitOf(st, e) ELSE "Unknown",
                 ok /\ e.ev = "De" /\ StateDrift(st, e))

Init == /\ l = 1 /\ st = Idle /\ nbad = 0
        /\ hits = [x \in HitNames |-> 0]
Next == Step
Spec == Init /\ [][Next]_vars

(* printed exactly once, when the whole file has been consumed; a history left
   open at the end of the file is reported through `open` *)
AtEnd == (l = Len(Rec) + 1) =>
            PrintT(<<"VERDICT", ToJson([consumed |-> l - 1, bad |-> nbad, open |-> (st.phase # "idle"), hits |-> hits])>>)
=============================================================================
