------------------------------ MODULE RoundTrip ------------------------------
(***************************************************************************)
(* C19 -- every model survives a serialise / deserialise round trip         *)
(* unchanged, and model equality is meaningful.                             *)
(*                                                                          *)
(* The unit of specification is the HISTORY of one object (an estimator, a  *)
(* transformer, a neighbour-search structure, a distance, a kernel or a     *)
(* dense matrix):                                                           *)
(*                                                                          *)
(*   Built(obs)                       the object exists; obs = what it does *)
(*     { Ser(fmt, status)             on a FRESH query input                *)
(*       De(fmt, status, obs', dig')  the restored object, same query       *)
(*       Eq(restored, fmt, result) }  original == restored   (fmt = bincode,*)
(*     Eq(self, result)               original == original      json, ...)  *)
(*     { Alt(role, how, obs'')        another object: a re-fit on the same  *)
(*       Eq(role, result) }           data, or a fit on OTHER data          *)
(*   End                                                                    *)
(*                                                                          *)
(* This module contains (1) the protocol of such a history as a state       *)
(* machine over an explicit state record `st` (operators P_x = "event x is  *)
(* admissible now", E_x = successor state), and (2) the PROPERTY, written   *)
(* from the statement of C19 as one verdict operator per event, V_x(st, e),*)
(* which returns the name of the violated clause or "" -- evaluated on the  *)
(* history so far, so every clause is an action property of the machine.    *)
(*                                                                          *)
(* The same operators are used twice:                                       *)
(*   * RoundTripMC.tla drives the machine with an abstract implementation   *)
(*     (correct, and with one injected fault at a time) and lets TLC check  *)
(*     that the verdicts accept every behaviour of the correct one and      *)
(*     reject each fault -- i.e. the property is neither over-demanding nor *)
(*     vacuous;                                                             *)
(*   * RoundTripTrace.tla replays the histories recorded from the real      *)
(*     library (harness/c19) through the machine, event by event.           *)
(*                                                                          *)
(* OBSERVATIONS.  `obs` = [status, s, parts]: status = "ok" | "panic" of    *)
(* the observation as a whole; parts = one record per PUBLIC OUTPUT-PRODUCING *)
(* METHOD of the type (predict, predict_oob, decision_function, transform,  *)
(* components / coefficients / intercept and the other read accessors,      *)
(* find / find_radius, distance, apply), each                               *)
(*   [name, status, shape, dh, dl, ch, cl, cfx, cok]                        *)
(* status = "ok" | "err" of that call; dh/dl = the two 32-bit halves of the  *)
(* IEEE bit pattern of every DISCRETE output (class label, cluster id,      *)
(* neighbour index, count); ch/cl = the same for every CONTINUOUS output    *)
(* (regression value, decision value, projected coordinate, coefficient,    *)
(* distance, kernel value); cfx = the continuous outputs in fixed point,    *)
(* round(v * 2^s), s chosen per object so that |cfx| <= 2^29 (s = 16 for    *)
(* values up to 8192); cok[i] = value i is finite and within range.         *)
(* A method the ORIGINAL refuses (e.g. predict_oob of a forest fitted       *)
(* without keep_samples) carries no obligation; a method the original       *)
(* answers must be answered identically by the restored object.             *)
(*                                                                          *)
(* dig = 64-bit digest of the object's complete binary serialisation        *)
(* (two halves); xd / yd = digests of the training rows / targets.          *)
(***************************************************************************)
EXTENDS Naturals, Integers, Sequences, FiniteSets

Abs(x) == IF x < 0 THEN 0 - x ELSE x

(***************************************************************************)
(* Comparing observations                                                   *)
(***************************************************************************)
PartOk(p) == p.status = "ok"
(* the observation was made and at least one method answered *)
ObsOk(o) == o.status = "ok" /\ \E i \in 1..Len(o.parts) : PartOk(o.parts[i])

(* every method the first object answers is answered by the second *)
AnswersAll(o1, o2) ==
    /\ o2.status = "ok"
    /\ Len(o1.parts) = Len(o2.parts)
    /\ \A i \in 1..Len(o1.parts) : PartOk(o1.parts[i]) => PartOk(o2.parts[i])

(* bit-for-bit identical: what a binary format must preserve *)
PartBitsEq(p, q) ==
    /\ p.shape = q.shape
    /\ p.dh = q.dh /\ p.dl = q.dl
    /\ p.ch = q.ch /\ p.cl = q.cl

PartDiscreteEq(p, q) ==
    /\ p.shape = q.shape
    /\ p.dh = q.dh /\ p.dl = q.dl
    /\ Len(p.ch) = Len(q.ch)

(* "up to the decimal rounding of floating-point numbers": every continuous
   output within ONE unit of the fixed-point grid (2^-16 for ordinary
   magnitudes -- eleven orders of magnitude coarser than a decimal
   rounding of a double, so a correct JSON round trip can never fail it,
   and any wrong field, index, sign or shape does).  Where the original
   itself produced a non-finite value nothing is demanded of that value
   (JSON cannot represent it). *)
PartValuesWithin1(p, q) ==
    /\ Len(p.cfx) = Len(q.cfx)
    /\ \A i \in 1..Len(p.cfx) :
          p.cok[i] => (q.cok[i] /\ Abs(p.cfx[i] - q.cfx[i]) <= 1)

(* lifted to whole observations, over the methods the original answers *)
OverAnswered(o1, o2, Rel(_, _)) ==
    \A i \in 1..Len(o1.parts) : PartOk(o1.parts[i]) => Rel(o1.parts[i], o2.parts[i])
BitsEq(o1, o2) == OverAnswered(o1, o2, PartBitsEq)
DiscreteEq(o1, o2) == OverAnswered(o1, o2, PartDiscreteEq)
ValuesWithin1(o1, o2) == OverAnswered(o1, o2, PartValuesWithin1)

(* two objects are OBSERVABLY DIFFERENT on the query input: for some method
   both answer, a discrete output differs or a continuous output differs by
   more than the slack above.  Used as a premise of the "does not equal"
   clause, so that two fits that happen to produce the same function (or
   functions equal up to rounding) are never required to compare unequal. *)
PartContinuousDiffer(p, q) ==
    \/ p.shape # q.shape
    \/ Len(p.cfx) # Len(q.cfx)
    \/ \E i \in 1..Len(p.cfx) : p.cok[i] /\ q.cok[i] /\ Abs(p.cfx[i] - q.cfx[i]) > 1
PartClearlyDiffer(p, q) ==
    \/ PartContinuousDiffer(p, q)
    \/ p.dh # q.dh \/ p.dl # q.dl
(* An object that also reports the continuous quantity behind its discrete
   answer (SVC: decision_function next to predict) can flip a label on a
   query lying exactly on its decision boundary while being the same
   function up to rounding: two SVC fits whose support vectors coincide
   (one fitted on a prefix of the other's rows that contains them all) have
   decision values +-1e-17 there.  For such an object only a difference of
   the continuous outputs beyond the slack counts as observable; a discrete
   difference alone does not (unless the object has no usable continuous
   output at all, e.g. a model whose state is NaN).  (This narrows the premise of the "does not
   equal" clause; it cannot raise an alarm.  Found as a false alarm of the
   thorough tier on the unchanged tree, run 12050.) *)
HasContinuous(o) == \E i \in 1..Len(o.parts) : PartOk(o.parts[i]) /\ \E j \in 1..Len(o.parts[i].cfx) : o.parts[i].cok[j]
ClearlyDiffer(o1, o2) ==
    /\ o1.status = "ok" /\ o2.status = "ok"
    /\ Len(o1.parts) = Len(o2.parts)
    /\ IF HasContinuous(o1) /\ HasContinuous(o2)
       THEN \E i \in 1..Len(o1.parts) :
               PartOk(o1.parts[i]) /\ PartOk(o2.parts[i]) /\ PartContinuousDiffer(o1.parts[i], o2.parts[i])
       ELSE \E i \in 1..Len(o1.parts) :
               PartOk(o1.parts[i]) /\ PartOk(o2.parts[i]) /\ PartClearlyDiffer(o1.parts[i], o2.parts[i])

IsJson(fmt) == fmt \in {"json", "jsonperm"}
Formats == {"bincode", "json", "jsonperm"}

(***************************************************************************)
(* The history state                                                        *)
(***************************************************************************)
NoObs == [status |-> "none", s |-> 0, parts |-> <<>>]

Idle == [phase |-> "idle", det |-> FALSE, sup |-> FALSE, prec |-> 64, hasEq |-> FALSE,
         obs |-> NoObs, dig |-> <<0, 0>>, digok |-> FALSE, xd |-> <<0, 0>>, yd |-> <<0, 0>>,
         fmt |-> "-", fmts |-> {}, robs |-> NoObs, rdig |-> <<0, 0>>, rdigok |-> FALSE,
         selfDone |-> FALSE,
         arole |-> "-", ahow |-> "-", aobs |-> NoObs, axd |-> <<0, 0>>, ayd |-> <<0, 0>>]

(* phases: idle -> built <-> (ser -> de [-> built after Eq restored])
                   built <-> alt (awaiting Eq role) ; built -> idle at End.
   `ready` = a new step of the history may start *)
Ready(st) == \/ st.phase = "built"
             \/ st.phase = "de" /\ ~st.hasEq
             \/ st.phase = "alt" /\ ~st.hasEq

(* ---- protocol guards: which event may come next (a harness / recorder
        error, never a defect of the library, when violated) ------------- *)
P_Built(st, e) == st.phase = "idle"
P_Ser(st, e)   == Ready(st) /\ e.fmt \in Formats /\ e.fmt \notin st.fmts
P_De(st, e)    == st.phase = "ser" /\ e.fmt = st.fmt
P_Eq(st, e)    ==
    CASE e.kind = "restored" -> st.phase = "de" /\ st.hasEq /\ e.fmt = st.fmt
      [] e.kind = "self"     -> Ready(st) /\ st.hasEq /\ ~st.selfDone
      [] e.kind \in {"refit", "other"} -> st.phase = "alt" /\ st.hasEq /\ e.kind = st.arole
      [] OTHER -> FALSE
P_Alt(st, e)   == Ready(st) /\ e.role \in {"refit", "other"} /\ (e.role = "refit" => e.how = "same")
(* a complete history has tried both formats *)
P_End(st, e)   == Ready(st) /\ {"bincode", "json"} \subseteq st.fmts

(* ---- successor states ------------------------------------------------ *)
E_Built(st, e) == [Idle EXCEPT !.phase = "built", !.det = e.det, !.sup = e.sup, !.prec = e.prec,
                               !.hasEq = e.hasEq, !.obs = e.obs, !.dig = e.dig, !.digok = e.digok,
                               !.xd = e.xd, !.yd = e.yd]
(* the restored / alternative objects are forgotten as soon as the step that
   concerns them is over (keeps the state small; nothing refers to them later) *)
ClearR(st) == [st EXCEPT !.robs = NoObs, !.rdig = <<0, 0>>, !.rdigok = FALSE]
ClearA(st) == [st EXCEPT !.arole = "-", !.ahow = "-", !.aobs = NoObs, !.axd = <<0, 0>>, !.ayd = <<0, 0>>]
E_Ser(st, e) == [ClearA(ClearR(st)) EXCEPT !.phase = IF e.status = "ok" THEN "ser" ELSE "built",
                                           !.fmt = e.fmt, !.fmts = @ \cup {e.fmt}]
E_De(st, e) == IF e.status = "ok"
               THEN [st EXCEPT !.phase = "de", !.robs = e.obs, !.rdig = e.dig, !.rdigok = e.digok]
               ELSE [st EXCEPT !.phase = "built"]
E_Eq(st, e) == [ClearA(ClearR(st)) EXCEPT !.phase = "built", !.selfDone = (@ \/ e.kind = "self")]
E_Alt(st, e) == [ClearR(st) EXCEPT !.phase = IF e.status = "ok" THEN "alt" ELSE "built",
                           !.arole = e.role, !.ahow = e.how, !.aobs = e.obs,
                           !.axd = e.xd, !.ayd = e.yd]
E_End(st, e) == Idle

(***************************************************************************)
(* THE PROPERTY, clause by clause.  Each V_x returns "" (nothing violated;  *)
(* this includes every case on which the statement is silent) or the name   *)
(* of the violated clause.                                                  *)
(***************************************************************************)

(* "serialisation never fails for a model fitted on finite data" -- the
   harness only builds objects from finite data, so every Ser must succeed,
   in every format *)
V_Ser(st, e) == IF e.status = "ok" THEN "" ELSE "SerFails"

(* "... can be serialised and deserialised again such that the restored
   object ... produces identical predictions, decision values or transforms
   on arbitrary inputs -- bit-for-bit through a binary format, up to the
   decimal rounding of floating-point numbers through JSON".
   Premise: the original answered (a method the original refuses carries no
   obligation); every method it answers -- not only `predict`: also
   predict_oob, decision_function, the read accessors ... -- must be
   answered by the copy, with the same outputs. *)
V_De(st, e) ==
    IF e.status # "ok" THEN "DeFails"
    ELSE IF ~ObsOk(st.obs) THEN ""
    ELSE IF ~AnswersAll(st.obs, e.obs) THEN "RestoredRefuses"
    ELSE IF e.fmt = "bincode"
         THEN (IF BitsEq(st.obs, e.obs) THEN "" ELSE "BincodeBits")
         ELSE IF ~DiscreteEq(st.obs, e.obs) THEN "JsonDiscrete"
         ELSE IF ~ValuesWithin1(st.obs, e.obs) THEN "JsonValues"
         ELSE ""

(* Design expectation that is NOT part of the statement (reported as
   MODEL-DRIFT, never as a violation): the complete serialised state of the
   restored object is identical -- always through bincode, and through JSON
   for f64 objects (the harness parses JSON with correct rounding). *)
StateDrift(st, e) ==
    /\ e.status = "ok" /\ st.digok
    /\ (e.fmt = "bincode" \/ st.prec = 64)
    /\ ~(e.digok /\ e.dig = st.dig)

(* Has JSON possibly rounded something?  Only then may `original == restored`
   be excused: for an f64 object the round trip is exact; for an f32 object
   the parse goes through f64 and may land one unit off, which the digest of
   the restored state reveals. *)
JsonMayHaveRounded(st) == st.prec = 32 /\ ~(st.digok /\ st.rdigok /\ st.rdig = st.dig)

(* premise of "does not equal a model fitted on different rows and targets":
   the rows differ, the targets differ (for an estimator that has targets),
   and the two models are observably different on the query input *)
OtherIsDifferent(st) ==
    /\ st.axd # st.xd
    /\ (st.sup => st.ayd # st.yd)
    /\ ClearlyDiffer(st.obs, st.aobs)

(* "the restored object compares equal to the original ... a model equals
   itself, its restored copy and (for deterministic estimators) a second fit
   on the same data, and it does not equal a model fitted on different rows
   and targets" *)
EqDemand(st, e) ==   (* "T" must be TRUE, "F" must be FALSE, "-" unconstrained *)
    CASE e.kind = "self" -> "T"
      [] e.kind = "restored" ->
           IF e.fmt = "bincode" THEN "T"
           ELSE IF JsonMayHaveRounded(st) THEN "-" ELSE "T"
      [] e.kind = "refit" -> IF st.det THEN "T" ELSE "-"
      [] e.kind = "other" -> IF OtherIsDifferent(st) THEN "F" ELSE "-"
      [] OTHER -> "-"

V_Eq(st, e) ==
    LET dem == EqDemand(st, e) IN
    IF dem = "-" THEN ""
    ELSE IF e.status # "ok" THEN "EqPanics"
    ELSE IF dem = "T" /\ ~e.result
         THEN (CASE e.kind = "self" -> "EqSelf" [] e.kind = "restored" -> "EqRestored" [] OTHER -> "EqRefit")
    ELSE IF dem = "F" /\ e.result THEN "EqOther"
    ELSE ""

(* Built, Alt and End carry no obligation of their own: a fit that fails is
   outside this property, and the alternative object only supplies the
   premise of the following Eq *)
V_Built(st, e) == ""
V_Alt(st, e) == ""
V_End(st, e) == ""

(***************************************************************************)
(* Coverage classes (for the vacuity checks and the evidence file)          *)
(***************************************************************************)
HitOf(st, e) ==
    CASE e.ev = "Built" -> IF e.hasEq THEN "Built" ELSE "BuiltNoEq"
      [] e.ev = "Ser" -> IF e.fmt = "bincode" THEN "SerBincode" ELSE "SerJson"
      [] e.ev = "De" -> IF ~ObsOk(st.obs) THEN "DeUnconstrained"
                        ELSE IF e.fmt = "bincode" THEN "DeBincode"
                        ELSE IF e.fmt = "json" THEN "DeJson" ELSE "DeJsonPermuted"
      [] e.ev = "Eq" ->
           LET dem == EqDemand(st, e) IN
           CASE e.kind = "self" -> "EqSelf"
             [] e.kind = "restored" -> IF dem = "-" THEN "EqRestoredRounded"
                                       ELSE IF e.fmt = "bincode" THEN "EqRestoredBincode" ELSE "EqRestoredJson"
             [] e.kind = "refit" -> IF dem = "-" THEN "EqRefitNondet" ELSE "EqRefit"
             [] e.kind = "other" -> IF dem = "F" THEN "EqOtherDemanded"
                                    ELSE IF e.status = "ok" /\ e.result /\ ClearlyDiffer(st.obs, st.aobs)
                                         THEN "EqOtherSilentButEqual"    (* e.g. other rows, same targets *)
                                    ELSE "EqOtherUnconstrained"
             [] OTHER -> "Unknown"
      [] e.ev = "Alt" -> IF e.status = "ok" THEN "Alt" ELSE "AltFitFails"
      [] e.ev = "End" -> "End"
      [] OTHER -> "Unknown"

HitNames == {"Built", "BuiltNoEq", "SerBincode", "SerJson", "DeUnconstrained", "DeBincode", "DeJson",
             "DeJsonPermuted", "EqSelf", "EqRestoredRounded", "EqRestoredBincode", "EqRestoredJson",
             "EqRefitNondet", "EqRefit", "EqOtherDemanded", "EqOtherSilentButEqual", "EqOtherUnconstrained",
             "Alt", "AltFitFails", "End", "Unknown", "StateDrift"}

(* one dispatcher per kind of operator, used by both bindings *)
P(st, e) == CASE e.ev = "Built" -> P_Built(st, e) [] e.ev = "Ser" -> P_Ser(st, e)
              [] e.ev = "De" -> P_De(st, e)       [] e.ev = "Eq" -> P_Eq(st, e)
              [] e.ev = "Alt" -> P_Alt(st, e)     [] e.ev = "End" -> P_End(st, e)
              [] OTHER -> FALSE
V(st, e) == CASE e.ev = "Built" -> V_Built(st, e) [] e.ev = "Ser" -> V_Ser(st, e)
              [] e.ev = "De" -> V_De(st, e)       [] e.ev = "Eq" -> V_Eq(st, e)
              [] e.ev = "Alt" -> V_Alt(st, e)     [] e.ev = "End" -> V_End(st, e)
              [] OTHER -> "UnknownEvent"
E(st, e) == CASE e.ev = "Built" -> E_Built(st, e) [] e.ev = "Ser" -> E_Ser(st, e)
              [] e.ev = "De" -> E_De(st, e)       [] e.ev = "Eq" -> E_Eq(st, e)
              [] e.ev = "Alt" -> E_Alt(st, e)     [] e.ev = "End" -> E_End(st, e)
              [] OTHER -> st

Clauses == {"SerFails", "DeFails", "RestoredRefuses", "BincodeBits", "JsonDiscrete", "JsonValues",
            "EqPanics", "EqSelf", "EqRestored", "EqRefit", "EqOther"}
=============================================================================
