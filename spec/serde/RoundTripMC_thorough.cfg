CONSTANTS
  MaxC = 4
  WithPermuted = TRUE
  FullStart = TRUE
  MaxViol = 2
  Faults = {"serFail", "deFail", "deCorrupt", "deDropsHidden", "jsonSloppy", "jsonDiscrete", "eqSubset", "eqNotReflexive", "eqPanics", "nondetFit"}
SPECIFICATION Spec
INVARIANT InvSound
INVARIANT InvBlame
INVARIANT InvProtocol
INVARIANT InvBincodeIdentity
INVARIANT InvJsonClose
INVARIANT InvNoForcedInequality
CHECK_DEADLOCK FALSE
