CONSTANTS
  MaxC = 5
  WithPermuted = TRUE
  FullStart = FALSE
  MaxViol = 2
  Faults = {"serFail", "deFail", "deCorrupt", "deDropsHidden", "deDropsAux", "jsonSloppy", "jsonDiscrete", "eqSubset", "eqNotReflexive", "eqPanics", "nondetFit"}
SPECIFICATION Spec
INVARIANT InvSound
INVARIANT InvBlame
INVARIANT InvProtocol
INVARIANT InvBincodeIdentity
INVARIANT InvJsonClose
INVARIANT InvNoForcedInequality
CHECK_DEADLOCK FALSE
