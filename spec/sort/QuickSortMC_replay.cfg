CONSTANTS MaxLen = 9  Vals = {0, 1, 2}  StackSize = 64
SPECIFICATION Spec
INVARIANT ModelSatisfiesProperty
INVARIANT EmitReplay
CHECK_DEADLOCK FALSE
