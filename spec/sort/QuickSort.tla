----------------------------- MODULE QuickSort -----------------------------
(***************************************************************************)
(* QuickArgSort::quick_argsort_mut (src/algorithm/sort/quick_sort.rs), the *)
(* index sort used by tree growth (C05: per-feature sample order) and by   *)
(* ROC-AUC (C15: ranking of scores).                                       *)
(*                                                                         *)
(* Predicate (P):  IsArgSort(v, idx, out) -- idx is a permutation of       *)
(* 0..n-1, v o idx is non-decreasing, and the vector left behind by the    *)
(* in-place variant is exactly v o idx.                                    *)
(*                                                                         *)
(* Model (A): the routine transcribed -- explicit stack of pending         *)
(* sub-ranges, insertion sort for ranges shorter than 8, median-of-three   *)
(* pivot with sentinels, inner scans without bound checks.  One action per *)
(* iteration of the outer `loop`.  Arrays are functions on 0..n-1, exactly *)
(* as in the code; an out-of-range access in the model is a TLC evaluation *)
(* error, so the model also shows that the unchecked scans stay in bounds. *)
(***************************************************************************)
EXTENDS Naturals, Integers, Sequences, FiniteSets, TLC, Json

IsPermOfIds(idx, n) ==
    /\ Len(idx) = n
    /\ {idx[i] : i \in 1..n} = 0 .. (n - 1)

(* v, idx, out are 1-based sequences (JSON arrays); idx holds 0-based positions *)
IsArgSort(v, idx, out) ==
    LET n == Len(v) IN
    /\ IsPermOfIds(idx, n)
    /\ Len(out) = n
    /\ \A i \in 1..n : out[i] = v[idx[i] + 1]
    /\ \A i \in 1..(n - 1) : out[i] <= out[i + 1]

--------------------------------------------------------------------------
CONSTANTS MaxLen, Vals, StackSize

VARIABLES orig, a, index, l, ir, stack, pc
vars == <<orig, a, index, l, ir, stack, pc>>

Swap(f, i, j) == [f EXCEPT ![i] = f[j], ![j] = f[i]]

(* insertion sort of positions lo+1..hi into the sorted prefix, as the code does *)
RECURSIVE ShiftDown(_, _, _, _, _, _)
ShiftDown(arr, idx, i, lo, av, bv) ==      \* the `while i >= l` loop; returns <<arr, idx, i>>
    IF i >= lo /\ ~(arr[i] <= av)
    THEN ShiftDown([arr EXCEPT ![i + 1] = arr[i]], [idx EXCEPT ![i + 1] = idx[i]], i - 1, lo, av, bv)
    ELSE <<arr, idx, i>>

RECURSIVE Insertion(_, _, _, _, _), InsertionPlace(_, _, _, _, _, _)
InsertionPlace(r, av, bv, j, lo, hi) ==
    Insertion([r[1] EXCEPT ![r[3] + 1] = av], [r[2] EXCEPT ![r[3] + 1] = bv], j + 1, lo, hi)
Insertion(arr, idx, j, lo, hi) ==
    IF j > hi THEN <<arr, idx>>
    ELSE InsertionPlace(ShiftDown(arr, idx, j - 1, lo, arr[j], idx[j]), arr[j], idx[j], j, lo, hi)

RECURSIVE ScanUp(_, _, _)
ScanUp(arr, i, p) == IF arr[i + 1] >= p THEN i + 1 ELSE ScanUp(arr, i + 1, p)
RECURSIVE ScanDown(_, _, _)
ScanDown(arr, j, p) == IF arr[j - 1] <= p THEN j - 1 ELSE ScanDown(arr, j - 1, p)

RECURSIVE Partition(_, _, _, _, _), PartitionStep(_, _, _, _, _)
PartitionStep(arr, idx, i2, j2, p) ==
    IF j2 < i2 THEN <<arr, idx, i2, j2>>
    ELSE Partition(Swap(arr, i2, j2), Swap(idx, i2, j2), i2, j2, p)
Partition(arr, idx, i, j, p) ==            \* returns <<arr, idx, i, j>> at `if j < i break`
    PartitionStep(arr, idx, ScanUp(arr, i, p), ScanDown(arr, j, p), p)

CondSwap(pair, c, i, j) == IF c THEN <<Swap(pair[1], i, j), Swap(pair[2], i, j)>> ELSE pair

Init == /\ \E n \in 1..MaxLen : orig \in [0 .. (n - 1) -> Vals]
        /\ a = orig
        /\ index = [i \in DOMAIN orig |-> i]
        /\ l = 0
        /\ ir = Cardinality(DOMAIN orig) - 1
        /\ stack = <<>>
        /\ pc = "loop"

SmallStore(r) == a' = r[1] /\ index' = r[2]
Small ==   \* ir - l < 7 : insertion sort, then pop a pending range or finish
    /\ pc = "loop"
    /\ ir - l < 7
    /\ SmallStore(Insertion(a, index, l + 1, l, ir))
    /\ IF stack = <<>>
       THEN pc' = "done" /\ UNCHANGED <<l, ir, stack>>
       ELSE /\ ir' = stack[Len(stack)]
            /\ l' = stack[Len(stack) - 1]
            /\ stack' = SubSeq(stack, 1, Len(stack) - 2)
            /\ UNCHANGED pc
    /\ UNCHANGED orig

(* Large: median of three, partition, push the larger part, continue with the smaller.
   Written as a chain of operators with parameters: TLC evaluates an argument once, whereas a
   LET name is re-evaluated at every use. *)
LargeFinish(arr, idx, i, j, p, b) ==
    /\ a' = [arr EXCEPT ![l + 1] = arr[j], ![j] = p]
    /\ index' = [idx EXCEPT ![l + 1] = idx[j], ![j] = b]
    /\ Len(stack) + 2 <= StackSize          \* otherwise the code panics
    /\ IF ir - i + 1 >= j - l
       THEN stack' = stack \o <<i, ir>> /\ ir' = j - 1 /\ UNCHANGED l
       ELSE stack' = stack \o <<l, j - 1>> /\ l' = i /\ UNCHANGED ir

LargePart(r, p, b) == LargeFinish(r[1], r[2], r[3], r[4], p, b)
LargePivot(s3) == LargePart(Partition(s3[1], s3[2], l + 1, ir, s3[1][l + 1]), s3[1][l + 1], s3[2][l + 1])
LargeM3(s2) == LargePivot(CondSwap(s2, s2[1][l] > s2[1][l + 1], l, l + 1))
LargeM2(s1) == LargeM3(CondSwap(s1, s1[1][l + 1] > s1[1][ir], l + 1, ir))
LargeM1(s0) == LargeM2(CondSwap(s0, s0[1][l] > s0[1][ir], l, ir))

Large ==
    /\ pc = "loop"
    /\ ir - l >= 7
    /\ LargeM1(<<Swap(a, (l + ir) \div 2, l + 1), Swap(index, (l + ir) \div 2, l + 1)>>)
    /\ UNCHANGED <<orig, pc>>

Next == Small \/ Large
Spec == Init /\ [][Next]_vars

N == Cardinality(DOMAIN orig)
AsSeq(f) == [i \in 1..N |-> f[i - 1]]
Done == pc = "done"
ModelSatisfiesProperty == Done => IsArgSort(AsSeq(orig), AsSeq(index), AsSeq(a))
(* loop invariant of the explicit stack: index is always a permutation carrying a *)
Carried == \A i \in DOMAIN a : a[i] = orig[index[i]]
StackBounded == Len(stack) <= StackSize
(* spec -> impl: one line per terminal state with the input and the model's result *)
EmitReplay == Done => PrintT(<<"REPLAY", ToJson([v |-> AsSeq(orig), idx |-> AsSeq(index)])>>)
=============================================================================
