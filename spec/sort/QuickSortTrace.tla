----------------------------- MODULE QuickSortTrace -----------------------------
(* impl -> spec: every recorded call of quick_argsort / quick_argsort_mut on the real
   code is checked against IsArgSort.  Float inputs are recorded as dense ranks (an
   order-isomorphic integer image), integer inputs verbatim. *)
EXTENDS Naturals, Integers, Sequences, FiniteSets, TLC, Json, IOUtils

Rec == ndJsonDeserialize(IOEnv.TRACE)

IsPermOfIds(idx, n) ==
    /\ Len(idx) = n
    /\ {idx[i] : i \in 1..n} = 0 .. (n - 1)

IsArgSort(v, idx, out) ==
    LET n == Len(v) IN
    /\ IsPermOfIds(idx, n)
    /\ Len(out) = n
    /\ \A i \in 1..n : out[i] = v[idx[i] + 1]
    /\ \A i \in 1..(n - 1) : out[i] <= out[i + 1]

VARIABLES l, nbad, hits
vars == <<l, nbad, hits>>

OK(e) == /\ e.status = "ok"
         /\ IsArgSort(e.v, e.idx, e.out)
         /\ (e.kind = "copy" => e.after = e.v)       \* quick_argsort leaves its receiver alone

Init == l = 1 /\ nbad = 0 /\ hits = [x \in {"small", "large", "ties"} |-> 0]
Next == /\ l <= Len(Rec)
        /\ l' = l + 1
        /\ LET e == Rec[l] IN
           /\ IF OK(e) THEN nbad' = nbad
              ELSE PrintT(<<"BAD", l, e.run, e.ev, "IsArgSort">>) /\ nbad' = nbad + 1
           /\ hits' = [hits EXCEPT ![IF Len(e.v) < 8 THEN "small" ELSE "large"] = @ + 1,
                                   !["ties"] = @ + (IF Cardinality({e.v[i] : i \in 1..Len(e.v)}) < Len(e.v) THEN 1 ELSE 0)]
Spec == Init /\ [][Next]_vars
AtEnd == (l = Len(Rec) + 1) =>
            PrintT(<<"VERDICT", ToJson([consumed |-> l - 1, bad |-> nbad, hits |-> hits])>>)
=============================================================================
