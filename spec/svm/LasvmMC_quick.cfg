CONSTANTS N = 3  Epochs = 1  CU = 2  Few = 1  MaxSmo = 2
          XS <- Rows3
SPECIFICATION Spec
INVARIANT TypeOK
INVARIANT ModelSatisfiesProperty
INVARIANT ExactDirection
INVARIANT Progress
CHECK_DEADLOCK FALSE
