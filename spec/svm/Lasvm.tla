-------------------------------- MODULE Lasvm --------------------------------
(***************************************************************************)
(* C10 -- abstract design model of the online (LASVM-style) SVC trainer,   *)
(* src/svm/svc.rs  Optimizer::{optimize, initialize, process, reprocess,   *)
(* smo, clean, finish}.                                                    *)
(*                                                                         *)
(* What is kept (one action per loop body / branch of the code):           *)
(*   - the visiting orders: one permutation for `initialize`, one per      *)
(*     epoch (SvmSchedule.tla), consumed element by element;               *)
(*   - `initialize`: rows are PROCESSed until `Few` of each class were     *)
(*     accepted (the code's constant is 5);                                *)
(*   - `process(i)`: a row already in the working set is accepted as is;   *)
(*     otherwise it is either rejected (its gradient says it cannot        *)
(*     improve the objective) or inserted AT THE FRONT of the working set  *)
(*     with coefficient 0 and immediately paired with some other member    *)
(*     in one SMO step;                                                    *)
(*   - `reprocess`: one SMO step on some pair, then `clean`;               *)
(*   - `smo` / `update`: alpha[i1] -= step, alpha[i2] += step, with the    *)
(*     step clipped by the four box distances exactly as the code clips    *)
(*     it (the two branches on the sign of the step);                      *)
(*   - `clean`: removal of members whose coefficient is 0;                 *)
(*   - `finish`: up to |sv| further SMO steps, then `clean`;               *)
(*   - the output: the working set (rows, in working-set order) and their  *)
(*     coefficients.                                                       *)
(* What is abstracted: gradients and kernel values.  Everything the code   *)
(* derives from them -- whether `process` rejects, which pair `select_pair`*)
(* returns, the raw Newton step, which zero-coefficient members `clean`    *)
(* drops, how often `reprocess` iterates -- is nondeterministic here.      *)
(* Coefficients live on an integer lattice (C = CU units), on which the    *)
(* code's clipping arithmetic (differences and min/max only) is exact.     *)
(*                                                                         *)
(* What TLC establishes: for EVERY visiting-order schedule, every label    *)
(* vector with both classes, every pair choice and every raw step, every   *)
(* reachable state -- in particular the returned model -- satisfies        *)
(* SvmContracts!SvcFeasible with slack 0: box in the direction of the      *)
(* sample's class, coefficients sum to zero, stored vectors are (distinct) *)
(* training rows.  Dual feasibility of the trainer is thus a consequence   *)
(* of its control structure and its clipping rule alone, independent of    *)
(* the numerical quantities; the same predicate is then evaluated on the   *)
(* real fits (SvmTrace.tla).  XS may contain repeated rows (also with both *)
(* classes), which exercises the assignment reading of "its own sample".   *)
(***************************************************************************)
EXTENDS SvmContracts, SvmPerms, TLC

CONSTANTS N,        \* number of training rows
          Epochs,   \* passes over the data
          CU,       \* C in lattice units
          Few,      \* accepted rows per class that end `initialize` (5 in the code)
          MaxSmo,   \* bound on the reprocess iterations per visited row and on `finish`
          XS        \* the training rows (sequence of N integer vectors)

ASSUME N \in Nat \ {0} /\ Len(XS) = N /\ CU \in Nat \ {0}

VARIABLES pc,       \* "drawInit" | "init" | "drawEpoch" | "visit" | "reproc" | "finish" | "done"
          ys,       \* labels after the code's remapping: -1 / +1 (row r is ys[r + 1])
          todo,     \* rest of the current visiting order (row numbers 0..N-1)
          sv,       \* working set: row numbers, newest first
          alpha,    \* coefficient of every row (0 outside the working set)
          cp, cn,   \* accepted positives / negatives during initialize
          ep,       \* epochs started
          budget    \* remaining SMO iterations of the current reprocess / finish loop

vars == <<pc, ys, todo, sv, alpha, cp, cn, ep, budget>>

Rows == 0..(N - 1)
Y(r) == ys[r + 1]
CMin(r) == IF Y(r) > 0 THEN 0 ELSE -CU          \* SupportVector::new: (cmin, cmax)
CMax(r) == IF Y(r) > 0 THEN CU ELSE 0
InSv(r) == \E k \in 1..Len(sv) : sv[k] = r

(* Optimizer::smo, lines "if step >= 0 { ... } else { ... }" followed by update():
   r1 gives, r2 receives *)
Clip(a, r1, r2, raw) ==
    IF raw >= 0
    THEN Min2(Min2(raw, a[r1] - CMin(r1)), CMax(r2) - a[r2])
    ELSE Max2(Max2(raw, CMin(r2) - a[r2]), a[r1] - CMax(r1))

Updated(a, r1, r2, raw) ==
    IF r1 = r2 THEN a          \* alpha -= step; alpha += step on the same entry
    ELSE [a EXCEPT ![r1] = @ - Clip(a, r1, r2, raw), ![r2] = @ + Clip(a, r1, r2, raw)]

RawSteps == (-2 * CU)..(2 * CU)

(* smo(None, None, ..): some pair of the working set, or no admissible pair *)
SmoAny(a, members) ==
    {a} \cup {Updated(a, r1, r2, raw) : r1 \in members, r2 \in members, raw \in RawSteps}

Members(s) == {s[k] : k \in 1..Len(s)}

(* clean: drop some of the members whose coefficient is zero *)
RECURSIVE Filter(_, _)
Filter(s, drop) == IF Len(s) = 0 THEN <<>>
                   ELSE IF Head(s) \in drop THEN Filter(Tail(s), drop)
                   ELSE <<Head(s)>> \o Filter(Tail(s), drop)

Cleaned(s, a) == {Filter(s, d) : d \in SUBSET {r \in Members(s) : a[r] = 0}}

(* process(i): the three outcomes.  Result: <<accepted?, sv', alpha'>> *)
ProcessOutcomes(r) ==
    IF InSv(r) THEN {<<TRUE, sv, alpha>>}
    ELSE (IF Len(sv) > 0 THEN {<<FALSE, sv, alpha>>} ELSE {})       \* rejected: needs gmin < gmax
         \cup {<<TRUE, <<r>> \o sv, a2>> :
                 a2 \in {alpha} \cup
                        {IF Y(r) > 0 THEN Updated(alpha, p, r, raw)   \* smo(None, Some(0)): new row receives
                                     ELSE Updated(alpha, r, p, raw)   \* smo(Some(0), None): new row gives
                           : p \in Members(sv) \cup {r}, raw \in RawSteps}}

Init ==
    /\ pc = "drawInit"
    /\ ys \in {y \in [1..N -> {-1, 1}] : (\E i \in 1..N : y[i] = 1) /\ (\E i \in 1..N : y[i] = -1)}
    /\ todo = <<>> /\ sv = <<>> /\ alpha = [r \in Rows |-> 0]
    /\ cp = 0 /\ cn = 0 /\ ep = 0 /\ budget = 0

DrawInit ==
    /\ pc = "drawInit"
    /\ \E p \in Perms(N) : todo' = p
    /\ pc' = "init"
    /\ UNCHANGED <<ys, sv, alpha, cp, cn, ep, budget>>

(* one iteration of the loop in `initialize` *)
InitVisit ==
    /\ pc = "init" /\ Len(todo) > 0 /\ ~(cp >= Few /\ cn >= Few)
    /\ LET r == Head(todo) IN
         /\ todo' = Tail(todo)
         /\ IF (Y(r) = 1 /\ cp < Few) \/ (Y(r) = -1 /\ cn < Few)
            THEN \E o \in ProcessOutcomes(r) :
                    /\ sv' = o[2] /\ alpha' = o[3]
                    /\ cp' = IF Y(r) = 1 /\ o[1] THEN cp + 1 ELSE cp
                    /\ cn' = IF Y(r) = -1 /\ o[1] THEN cn + 1 ELSE cn
            ELSE UNCHANGED <<sv, alpha, cp, cn>>
    /\ UNCHANGED <<pc, ys, ep, budget>>

InitEnd ==
    /\ pc = "init" /\ (Len(todo) = 0 \/ (cp >= Few /\ cn >= Few))
    /\ pc' = IF Epochs > 0 THEN "drawEpoch" ELSE "finish"
    /\ budget' = MaxSmo
    /\ todo' = <<>>
    /\ UNCHANGED <<ys, sv, alpha, cp, cn, ep>>

DrawEpoch ==
    /\ pc = "drawEpoch"
    /\ \E p \in Perms(N) : todo' = p
    /\ ep' = ep + 1
    /\ pc' = "visit"
    /\ UNCHANGED <<ys, sv, alpha, cp, cn, budget>>

(* `for i in permutate(n) { process(i, ..); loop { reprocess; ... } }` *)
Visit ==
    /\ pc = "visit" /\ Len(todo) > 0
    /\ \E o \in ProcessOutcomes(Head(todo)) : sv' = o[2] /\ alpha' = o[3]
    /\ todo' = Tail(todo)
    /\ pc' = "reproc" /\ budget' = MaxSmo
    /\ UNCHANGED <<ys, cp, cn, ep>>

(* one `reprocess`: smo(None, None) then clean; the loop runs at least once and stops when
   the gradient gap is small (abstracted: any time after the first iteration) *)
Reprocess ==
    /\ pc = "reproc" /\ budget > 0
    /\ \E a2 \in (IF Len(sv) = 0 THEN {alpha} ELSE SmoAny(alpha, Members(sv))) :
          /\ alpha' = a2
          /\ \E s2 \in Cleaned(sv, a2) : sv' = s2
    /\ \/ budget' = budget - 1 /\ pc' = "reproc"
       \/ budget' = 0 /\ pc' = "visit"
    /\ UNCHANGED <<ys, todo, cp, cn, ep>>

ReprocessEnd ==
    /\ pc = "reproc" /\ budget = 0
    /\ pc' = "visit"
    /\ UNCHANGED <<ys, todo, sv, alpha, cp, cn, ep, budget>>

EpochEnd ==
    /\ pc = "visit" /\ Len(todo) = 0
    /\ pc' = IF ep < Epochs THEN "drawEpoch" ELSE "finish"
    /\ budget' = MaxSmo
    /\ UNCHANGED <<ys, todo, sv, alpha, cp, cn, ep>>

(* finish: `while smo(..) && max_iter > 0`, then clean *)
FinishStep ==
    /\ pc = "finish" /\ budget > 0 /\ Len(sv) > 0
    /\ \E a2 \in SmoAny(alpha, Members(sv)) : alpha' = a2
    /\ budget' = budget - 1
    /\ UNCHANGED <<pc, ys, todo, sv, cp, cn, ep>>

FinishEnd ==
    /\ pc = "finish"
    /\ \E s2 \in Cleaned(sv, alpha) : sv' = s2
    /\ pc' = "done"
    /\ UNCHANGED <<ys, todo, alpha, cp, cn, ep, budget>>

Next == \/ DrawInit \/ InitVisit \/ InitEnd \/ DrawEpoch \/ Visit \/ Reprocess \/ ReprocessEnd
        \/ EpochEnd \/ FinishStep \/ FinishEnd

Spec == Init /\ [][Next]_vars

(* ---------------------------------------------------------------------- *)
(* the observable model and the property                                   *)
(* ---------------------------------------------------------------------- *)
Instances == [k \in 1..Len(sv) |-> XS[sv[k] + 1]]      \* SVC.instances
Weights   == [k \in 1..Len(sv) |-> alpha[sv[k]]]       \* SVC.w

TypeOK ==
    /\ pc \in {"drawInit", "init", "drawEpoch", "visit", "reproc", "finish", "done"}
    /\ \A k \in 1..Len(sv) : sv[k] \in Rows
    /\ \A k1, k2 \in 1..Len(sv) : k1 # k2 => sv[k1] # sv[k2]
    /\ \A r \in Rows : ~InSv(r) => alpha[r] = 0
    /\ cp \in 0..N /\ cn \in 0..N /\ ep \in 0..Epochs /\ budget \in 0..MaxSmo

(* the property predicate of the trace spec, with exact arithmetic (slack 0), in EVERY state *)
ModelSatisfiesProperty == SvcFeasible(XS, ys, Instances, Weights, CU, 0)

(* sharper than the observable: every coefficient sits on the side of its own row's class *)
ExactDirection == \A r \in Rows : alpha[r] >= CMin(r) /\ alpha[r] <= CMax(r)

(* bounded termination: the trainer always reaches `done` (no deadlock before it) *)
Progress == pc # "done" => ENABLED Next
=============================================================================
