---------------------------- MODULE SvmContracts ----------------------------
(***************************************************************************)
(* C10 -- what a fitted support-vector model must satisfy.                 *)
(*                                                                         *)
(* Statement (properties.jsonl, C10), classifier part:                     *)
(*   "For every two-class training set, kernel and C > 0, and for every    *)
(*    random visiting order the trainer may draw, the fitted classifier's  *)
(*    dual coefficients are feasible (each lies between 0 and C in the     *)
(*    direction of its own sample's class, and they sum to zero), its      *)
(*    support vectors are training rows, its decision function equals      *)
(*    sum_i w_i*K(sv_i, x) + b, and the predicted label is the larger      *)
(*    class value exactly when the decision value is positive."            *)
(* regressor part:                                                         *)
(*   "... the fitted regressor terminates with coefficients satisfying     *)
(*    |w_i| <= C and sum_i w_i = 0 and with the epsilon-insensitive        *)
(*    optimality conditions holding at every training point within the     *)
(*    tolerance (zero-weight points inside the tube, points with           *)
(*    |w_i| < C on its boundary, points with |w_i| = C on or outside it),  *)
(*    its prediction being the same kernel expansion."                     *)
(*                                                                         *)
(* The operators below are written from that text, over the OBSERVABLE     *)
(* model: `sv` (the rows stored in the model), `w` (their coefficients),   *)
(* `b`, and values of the decision function.  They are used twice:         *)
(*   - as the invariant of the abstract design models Lasvm.tla and        *)
(*     SvrSmo.tla (exact integers, slack q = 0), and                       *)
(*   - as the acceptance condition for every fit recorded from the real    *)
(*     code (SvmTrace.tla; fixed point, slack q >= 1 unit).                *)
(*                                                                         *)
(* Numbers.  Features are integers.  Coefficients, bias and decision       *)
(* values are fixed-point integers round(v*2^S) (error <= 1/2 unit):       *)
(*   scale 2^16 for box / sum / KKT (comparisons only, no products),       *)
(*   scale 2^10 for the kernel expansion (products with kernel values).    *)
(* `q` is the slack in units granted to a single quantised number; all     *)
(* tolerances are derived from it inside the operators.                    *)
(*                                                                         *)
(* Which coefficient belongs to which sample?  The model stores the        *)
(* support vector's features, not its row number, and training sets may    *)
(* contain the same row several times (even with both classes).  "Its own  *)
(* sample" is therefore read as: there is an injective assignment of the   *)
(* stored vectors to training rows with equal features under which the     *)
(* clause holds.  For the classifier this reduces to Hall's condition on   *)
(* counts (below); for the regressor the assignment is searched within     *)
(* each group of identical rows.                                           *)
(***************************************************************************)
EXTENDS Kernels

RECURSIVE SumFrom(_, _)
SumFrom(s, i) == IF i > Len(s) THEN 0 ELSE s[i] + SumFrom(s, i + 1)
Sum(s) == SumFrom(s, 1)

SeqMax(s) == CHOOSE v \in {s[i] : i \in 1..Len(s)} : \A j \in 1..Len(s) : s[j] <= v
SeqMin(s) == CHOOSE v \in {s[i] : i \in 1..Len(s)} : \A j \in 1..Len(s) : s[j] >= v

(* ---------------------------------------------------------------------- *)
(* support vectors are training rows                                       *)
(* ---------------------------------------------------------------------- *)
SvAreRows(X, sv) == \A k \in 1..Len(sv) : \E i \in 1..Len(X) : X[i] = sv[k]

(* ... and no training row is used more often than it occurs (needed for "its own
   sample" to make sense; implied by the injective reading above) *)
SvMatchable(X, sv) ==
    \A k \in 1..Len(sv) :
        Cardinality({k2 \in 1..Len(sv) : sv[k2] = sv[k]}) <= Cardinality({i \in 1..Len(X) : X[i] = sv[k]})

(* ---------------------------------------------------------------------- *)
(* dual feasibility, classifier                                            *)
(*   w[k] in [0, C] if its sample has the larger label, in [-C, 0] else    *)
(* ---------------------------------------------------------------------- *)
BoxOK(w, C, q) == \A k \in 1..Len(w) : w[k] >= -C - q /\ w[k] <= C + q

(* each of the m summands is off by <= q/2, the float sum by far less than a unit *)
SumZero(w, q) == Abs(Sum(w)) <= (Len(w) * q) \div 2 + q

(* direction: Hall's condition for assigning stored vectors to rows of equal features such
   that clearly positive coefficients (w > q) get a row of the larger class, clearly negative
   ones (w < -q) a row of the smaller class, and the rest (|w| <= q) any row *)
DirectionOK(X, y, sv, w, q) ==
    LET hi == SeqMax(y) IN
    \A k \in 1..Len(sv) :
        LET same == {k2 \in 1..Len(sv) : sv[k2] = sv[k]}
            rows == {i \in 1..Len(X) : X[i] = sv[k]}
            npos == Cardinality({k2 \in same : w[k2] > q})
            nneg == Cardinality({k2 \in same : w[k2] < -q})
            rpos == Cardinality({i \in rows : y[i] = hi})
        IN  /\ npos <= rpos
            /\ nneg <= Cardinality(rows) - rpos
            /\ Cardinality(same) <= Cardinality(rows)

SvcFeasible(X, y, sv, w, C, q) ==
    /\ Len(w) = Len(sv)
    /\ SvAreRows(X, sv)
    /\ BoxOK(w, C, q)
    /\ SumZero(w, q)
    /\ DirectionOK(X, y, sv, w, q)

(* ---------------------------------------------------------------------- *)
(* decision function = kernel expansion                                    *)
(*   f(x) = sum_i w_i K(sv_i, x) + b      at every recorded point x        *)
(* kernel values: exact rationals KNum/KDen for linear / polynomial of     *)
(* integer degree; for RBF / sigmoid / polynomial of fractional degree the *)
(* values `kq` logged from Kernel::apply (scale 2^10, themselves subject   *)
(* to Kernels.tla: KqRootClosed below re-checks the logged values of a     *)
(* fractional-degree polynomial against its closed form wherever the       *)
(* products fit, because logged values of a wrong kernel would still be    *)
(* consistent with a decision function computed from the same kernel).     *)
(* Identity checked:  den*(f - b) = sum_i w_i * num_i                      *)
(* Tolerance: w_i off by 1/2 -> |num_i|/2 each; a logged num_i off by 1/2  *)
(* -> (|w_i| + 1)/2 each; f and b off by 1/2 each -> den; + 2 den slack.   *)
(* ---------------------------------------------------------------------- *)
RECURSIVE ExpSum(_, _, _, _, _, _)
ExpSum(k, sv, w, kqcol, x, i) ==      \* sum_i w_i * num_i(x)
    IF i > Len(sv) THEN 0
    ELSE w[i] * (IF IsExactKernel(k) THEN KNum(k, sv[i], x) ELSE kqcol[i])
         + ExpSum(k, sv, w, kqcol, x, i + 1)

RECURSIVE ExpTol(_, _, _, _, _, _)
ExpTol(k, sv, w, kqcol, x, i) ==      \* sum_i |num_i| (+ |w_i| + 1 when num_i is itself quantised)
    IF i > Len(sv) THEN 0
    ELSE (IF IsExactKernel(k) THEN Abs(KNum(k, sv[i], x)) ELSE Abs(kqcol[i]) + Abs(w[i]) + 1)
         + ExpTol(k, sv, w, kqcol, x, i + 1)

ExpDen(k) == IF IsExactKernel(k) THEN KDen(k) ELSE 1024

ExpansionAt(k, sv, w, b, kqcol, x, fx, q) ==
    Abs(ExpDen(k) * (fx - b) - ExpSum(k, sv, w, kqcol, x, 1))
        <= (q * ExpTol(k, sv, w, kqcol, x, 1)) \div 2 + (q + 2) * ExpDen(k) + 1

(* pts: the points the decision function was recorded at; f[j] its value at pts[j];
   kq[i][j] = fx_10(K(pts[j], sv[i])) for the logged kernels (unused otherwise) *)
ExpansionOK(k, sv, w, b, kq, pts, f, q) ==
    /\ Len(f) = Len(pts)
    /\ \A j \in 1..Len(pts) :
          ExpansionAt(k, sv, w, b,
                      IF IsExactKernel(k) THEN <<>> ELSE [i \in 1..Len(sv) |-> kq[i][j]],
                      pts[j], f[j], q)

(* logged values of a fractional-degree polynomial kernel against the closed form;
   entries whose products do not fit 32 bits are skipped (KqRootChecked counts the others) *)
KqRootClosed(k, sv, kq, pts) ==
    \A i \in 1..Len(sv), j \in 1..Len(pts) :
        RootInRange(k, pts[j], sv[i], kq[i][j], 10) => RootClosedAt(k, pts[j], sv[i], kq[i][j], 10)

KqRootChecked(k, sv, kq, pts) ==
    \E i \in 1..Len(sv), j \in 1..Len(pts) : RootInRange(k, pts[j], sv[i], kq[i][j], 10)

(* logged values of the RBF kernel inside a fit against what characterises exp(-gamma d^2) on
   the (small-integer) squared distances: range, value 1 at distance 0, the Taylor enclosure
   for gamma d^2 <= 1, and -- for small fits -- non-increasing in d^2.  kq is at scale 2^10.
   Needed because a decision function computed from a wrong kernel is still consistent with
   the logged values of that same kernel. *)
KqRbfClosed(k, sv, kq, pts) ==
    /\ \A i \in 1..Len(sv), j \in 1..Len(pts) :
          /\ kq[i][j] >= 0 /\ kq[i][j] <= 1024
          /\ (D2(pts[j], sv[i]) = 0) => kq[i][j] = 1024
          /\ RbfTaylor(k.gn, k.gd, D2(pts[j], sv[i]), kq[i][j], 10)
    /\ (Len(pts) <= 24) =>
          \A i \in 1..Len(sv), j1 \in 1..Len(pts), j2 \in 1..Len(pts) :
              (D2(pts[j1], sv[i]) <= D2(pts[j2], sv[i])) => kq[i][j1] >= kq[i][j2]

(* ---------------------------------------------------------------------- *)
(* predicted label: the larger class value exactly when f(x) > 0           *)
(*   fs[j] = exact sign of the recorded decision value                     *)
(* ---------------------------------------------------------------------- *)
LabelOK(y, fs, pred) ==
    /\ Len(pred) = Len(fs)
    /\ \A j \in 1..Len(fs) : pred[j] = (IF fs[j] = 1 THEN SeqMax(y) ELSE SeqMin(y))

(* ---------------------------------------------------------------------- *)
(* regressor: feasibility                                                  *)
(* ---------------------------------------------------------------------- *)
SvrFeasible(X, sv, w, C, q) ==
    /\ Len(w) = Len(sv)
    /\ SvAreRows(X, sv)
    /\ SvMatchable(X, sv)
    /\ BoxOK(w, C, q)
    /\ SumZero(w, q)

(* ---------------------------------------------------------------------- *)
(* regressor: epsilon-insensitive optimality at one training point         *)
(*   r = y - f(x) (residual), wt = the point's coefficient (0 if the row   *)
(*   is not stored in the model), all at one scale.                        *)
(*                                                                         *)
(*   wt = 0            =>  |r| <= eps            (inside the tube)         *)
(*   0 < |wt| < C      =>  |r| = eps, sign r = sign wt   (on its boundary) *)
(*   |wt| = C          =>  |r| >= eps, sign r = sign wt  (on or outside)   *)
(*                                                                         *)
(* each within `tol`, plus q units for the quantisation of r and wt.  A    *)
(* coefficient within q of 0 (or of +-C) may be either case, so it only    *)
(* has to satisfy the weaker of the two adjacent conditions.               *)
(* ---------------------------------------------------------------------- *)
KktPoint(r, wt, C, eps, tol, q) ==
    /\ (wt >= -q /\ wt <= q) => Abs(r) <= eps + tol + q
    /\ (wt > q)  => r >= eps - tol - q
    /\ (wt < -q) => r <= -eps + tol + q
    /\ (wt > q /\ wt < C - q)   => r <= eps + tol + q
    /\ (wt < -q /\ wt > -C + q) => r >= -eps - tol - q

(* All training points.  Rows with identical features form a group; the stored vectors
   with these features carry the group's non-zero coefficients, the remaining rows of the
   group have coefficient 0.  The clause holds iff SOME one-to-one assignment of the
   group's coefficients (padded with zeros) to its rows satisfies KktPoint everywhere.

   The admissible residual interval [lo(wt), hi(wt)] of KktPoint has both end points
   non-decreasing in wt.  For such a monotone interval family a valid assignment exists
   iff the order-preserving one is valid (exchange argument: if r1 <= r2 are assigned
   wt1 >= wt2, then lo(wt2) <= lo(wt1) <= r1 <= r2 <= hi(wt2) <= hi(wt1), so swapping keeps
   both inside).  Hence: sort the residuals, sort the padded coefficients, compare
   position by position -- exact, and linear instead of factorial in the group size.
   res[i] = y[i] - f(X[i]) *)
InsertSorted(s, v) ==
    LET k == Cardinality({i \in 1..Len(s) : s[i] <= v}) IN
    SubSeq(s, 1, k) \o <<v>> \o SubSeq(s, k + 1, Len(s))

RECURSIVE SortSeq(_)
SortSeq(s) == IF Len(s) = 0 THEN <<>> ELSE InsertSorted(SortSeq(Tail(s)), Head(s))

KktSorted(rs, ws, C, eps, tol, q) ==      \* rs, ws sorted ascending, equal length
    \A j \in 1..Len(rs) : KktPoint(rs[j], ws[j], C, eps, tol, q)

KktGroup(ridx, widx, res, w, C, eps, tol, q) ==   \* index sequences of the group's rows / stored vectors
    /\ Len(widx) <= Len(ridx)
    /\ KktSorted(SortSeq([j \in 1..Len(ridx) |-> res[ridx[j]]]),
                 SortSeq([j \in 1..Len(ridx) |-> IF j <= Len(widx) THEN w[widx[j]] ELSE 0]),
                 C, eps, tol, q)

SvrKktOK(X, sv, w, res, C, eps, tol, q) ==
    \A i \in 1..Len(X) :
        \* evaluate each group once, at its first row
        (\A i2 \in 1..(i - 1) : X[i2] # X[i]) =>
            KktGroup(SelectSeq([i2 \in 1..Len(X) |-> i2], LAMBDA i2 : X[i2] = X[i]),
                     SelectSeq([k \in 1..Len(sv) |-> k], LAMBDA k : sv[k] = X[i]),
                     res, w, C, eps, tol, q)

(* ---------------------------------------------------------------------- *)
(* classification of a fit for coverage accounting (not part of the property) *)
(* ---------------------------------------------------------------------- *)
HasAtBound(w, C, q) == \E k \in 1..Len(w) : Abs(w[k]) >= C - q
HasStrictlyInside(w, C, q) == \E k \in 1..Len(w) : Abs(w[k]) > q /\ Abs(w[k]) < C - q
HasDuplicateRows(X) == \E i, j \in 1..Len(X) : i < j /\ X[i] = X[j]
=============================================================================
