CONSTANTS N = 4  Epochs = 1
SPECIFICATION Spec
INVARIANT TypeOK
INVARIANT DoneIsSchedule
INVARIANT EmitReplay
CHECK_DEADLOCK FALSE
