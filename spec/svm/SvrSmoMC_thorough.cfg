CONSTANTS N = 4  CU = 3  AnySign = TRUE
          XS <- Rows4
SPECIFICATION Spec
INVARIANT BoxInv
INVARIANT SumInv
INVARIANT ModelSatisfiesProperty
CHECK_DEADLOCK FALSE
