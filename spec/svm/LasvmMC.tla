------------------------------- MODULE LasvmMC -------------------------------
(* Model-checking instance of Lasvm.tla: the training rows (TLC's cfg syntax has no   *)
(* tuples).  Rows 2 and 3 are identical, so label vectors that give them different    *)
(* classes exercise the "duplicate row carrying both classes" case of DirectionOK.    *)
EXTENDS Lasvm
Rows4 == <<<<0>>, <<1>>, <<1>>, <<2>>>>
Rows5 == <<<<0, 0>>, <<1, 0>>, <<1, 0>>, <<2, 1>>, <<0, 0>>>>
Rows3 == <<<<0>>, <<1>>, <<1>>>>
=============================================================================
