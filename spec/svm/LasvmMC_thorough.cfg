CONSTANTS N = 4  Epochs = 1  CU = 2  Few = 1  MaxSmo = 1
          XS <- Rows4
SPECIFICATION Spec
INVARIANT TypeOK
INVARIANT ModelSatisfiesProperty
INVARIANT ExactDirection
INVARIANT Progress
CHECK_DEADLOCK FALSE
