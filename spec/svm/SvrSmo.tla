-------------------------------- MODULE SvrSmo --------------------------------
(***************************************************************************)
(* C10 -- abstract design model of the epsilon-SVR trainer,                *)
(* src/svm/svr.rs  Optimizer::smo.                                         *)
(*                                                                         *)
(* Every training row v carries two dual variables alpha[v][0] and         *)
(* alpha[v][1] (the code's `alpha: [T; 2]`), each in [0, C]; the model's   *)
(* coefficient of the row is  w_v = alpha[v][1] - alpha[v][0].  One        *)
(* iteration of the while-loop picks                                       *)
(*     (v1, i)  with the largest signed gradient among the variables that  *)
(*              may still move "down"  (find_min_max_gradient, gmax),      *)
(*     (v2, j)  among the variables that may still move "up" (second-order *)
(*              working-set selection, default svmin),                     *)
(* computes the unconstrained Newton step `delta` along the feasible       *)
(* direction and clips the pair back into the box [0,C]^2 with the four    *)
(* if-blocks transcribed below (the `i != j` and the `i == j` case).       *)
(*                                                                         *)
(* Kept: the two eligibility sets, the two update formulas, the clipping   *)
(* blocks, the construction of the output (rows with alpha0 # alpha1).     *)
(* Abstracted: gradients and kernel values -- which eligible pair is       *)
(* selected and the size of `delta` are nondeterministic; its SIGN is the  *)
(* one the code's selection rule (g_i > g_j) implies, unless AnySign.      *)
(* Coefficients live on the integer lattice 0..CU, on which the clipping   *)
(* arithmetic (sums, differences, comparisons) is exact.                   *)
(*                                                                         *)
(* What TLC establishes: every state reachable from alpha = 0 by any       *)
(* number of such iterations has all variables in [0, C] and               *)
(* sum_v w_v = 0, and the model the code would return from it satisfies    *)
(* SvmContracts!SvrFeasible with slack 0 (|w_v| <= C, sum zero, stored     *)
(* vectors are distinct training rows).  Termination and optimality depend *)
(* on the gradients and are checked on the real fits only (SvmTrace.tla).  *)
(***************************************************************************)
EXTENDS SvmContracts, TLC

CONSTANTS N,        \* rows
          CU,       \* C in lattice units
          AnySign,  \* TRUE: delta of either sign (stronger: the clipping alone keeps the box)
          XS        \* training rows (sequence of N integer vectors)

VARIABLE alpha      \* alpha[v] = <<alpha_v[0], alpha_v[1]>>, v in 1..N (tuple index 1 = code index 0)

A(al, v, i) == al[v][i + 1]
Set(al, v, i, x) == [al EXCEPT ![v][i + 1] = x]

(* find_min_max_gradient: who may be (v1,i) -- contributes to gmax -- and who may be (v2,j)
   -- contributes to gmin / passes the `if` in the selection loop *)
DownEligible(al, v, i) == IF i = 0 THEN A(al, v, 0) < CU ELSE A(al, v, 1) > 0
UpEligible(al, v, j)   == IF j = 0 THEN A(al, v, 0) > 0  ELSE A(al, v, 1) < CU

(* Sign of delta implied by the selection rule g_i > g_j, where the signed gradient is
   g = grad[1] for index 1 and g = -grad[0] for index 0 (find_min_max_gradient):
     i # j:  delta = (-grad_i - grad_j)/curv
             i=1, j=0:  -grad1(v1) - grad0(v2) = -(g_i - g_j) < 0   (both variables decrease)
             i=0, j=1:   -grad0(v1) - grad1(v2) =   g_i - g_j  > 0   (both variables increase)
     i = j:  delta = (grad_i - grad_j)/curv,  alpha_i -= delta, alpha_j += delta
             i=j=1:  g_i - g_j > 0      i=j=0:  -(g_i - g_j) < 0
   (curv > 0 always: non-positive curvature is replaced by tau = 1e-12).  In every case both
   variables move in the direction their eligibility permits (index 1 of v1 decreases, index 0
   of v1 increases; the opposite for v2), so a raw step can only overshoot the bound AHEAD of
   it -- the clipping blocks handle exactly that.  With AnySign = TRUE the model drops this
   knowledge and shows that the clipping alone keeps the pair inside the box. *)
SignOK(i, j, delta) ==
    \/ AnySign
    \/ IF (i = 1 /\ j = 0) \/ (i = 0 /\ j = 0) THEN delta < 0 ELSE delta > 0

(* `if i != j { ... }` *)
StepDiff(al, v1, i, v2, j, delta) ==
    LET diff == A(al, v1, i) - A(al, v2, j)
        a1 == Set(Set(al, v1, i, A(al, v1, i) + delta), v2, j, A(al, v2, j) + delta)   \* distinct cells (i # j)
        \* first pair of blocks: lower bound 0
        a2 == IF diff > 0
              THEN (IF A(a1, v2, j) < 0 THEN Set(Set(a1, v2, j, 0), v1, i, diff) ELSE a1)
              ELSE (IF A(a1, v1, i) < 0 THEN Set(Set(a1, v1, i, 0), v2, j, -diff) ELSE a1)
        \* second pair of blocks: upper bound C
        a3 == IF diff > 0
              THEN (IF A(a2, v1, i) > CU THEN Set(Set(a2, v1, i, CU), v2, j, CU - diff) ELSE a2)
              ELSE (IF A(a2, v2, j) > CU THEN Set(Set(a2, v2, j, CU), v1, i, CU + diff) ELSE a2)
    IN a3

(* `else { ... }`  (i == j) *)
StepSame(al, v1, i, v2, j, delta) ==
    LET sum == A(al, v1, i) + A(al, v2, j)
        a1 == Set(Set(al, v1, i, A(al, v1, i) - delta), v2, j, A(al, v2, j) + delta)
        a2 == IF sum > CU
              THEN (IF A(a1, v1, i) > CU THEN Set(Set(a1, v1, i, CU), v2, j, sum - CU) ELSE a1)
              ELSE (IF A(a1, v2, j) < 0 THEN Set(Set(a1, v2, j, 0), v1, i, sum) ELSE a1)
        a3 == IF sum > CU
              THEN (IF A(a2, v2, j) > CU THEN Set(Set(a2, v2, j, CU), v1, i, sum - CU) ELSE a2)
              ELSE (IF A(a2, v1, i) < 0 THEN Set(Set(a2, v1, i, 0), v2, j, sum) ELSE a2)
    IN a3

Deltas == (-2 * CU)..(2 * CU) \ {0}

Init == alpha = [v \in 1..N |-> <<0, 0>>]

(* one pass through the body of `while self.gmax - self.gmin > self.tol` *)
Iterate ==
    /\ N > 0
    /\ \E v1 \in 1..N, v2 \in 1..N, i \in {0, 1}, j \in {0, 1}, delta \in Deltas :
          /\ ~(v1 = v2 /\ i = j)                   \* g_i > g_j is strict
          /\ DownEligible(alpha, v1, i)
          /\ UpEligible(alpha, v2, j)
          /\ SignOK(i, j, delta)
          /\ alpha' = IF i # j THEN StepDiff(alpha, v1, i, v2, j, delta)
                               ELSE StepSame(alpha, v1, i, v2, j, delta)

Next == Iterate
Spec == Init /\ [][Next]_alpha

(* ---------------------------------------------------------------------- *)
(* the observable model and the property                                   *)
(* ---------------------------------------------------------------------- *)
Stored == SelectSeq([v \in 1..N |-> v], LAMBDA v : alpha[v][1] # alpha[v][2])   \* `if v.alpha[0] != v.alpha[1]`
Instances == [k \in 1..Len(Stored) |-> XS[Stored[k]]]
Weights   == [k \in 1..Len(Stored) |-> alpha[Stored[k]][2] - alpha[Stored[k]][1]]

BoxInv == \A v \in 1..N : alpha[v][1] \in 0..CU /\ alpha[v][2] \in 0..CU

RECURSIVE WSum(_)
WSum(v) == IF v = 0 THEN 0 ELSE alpha[v][2] - alpha[v][1] + WSum(v - 1)
SumInv == WSum(N) = 0

ModelSatisfiesProperty == SvrFeasible(XS, Instances, Weights, CU, 0)
=============================================================================
