------------------------------- MODULE Kernels -------------------------------
(***************************************************************************)
(* C10 -- the built-in kernel functions (src/svm/mod.rs):                  *)
(*                                                                         *)
(*   linear      K(x,z) = <x,z>                                            *)
(*   polynomial  K(x,z) = (gamma*<x,z> + coef0)^degree   (degree any real) *)
(*   RBF         K(x,z) = exp(-gamma*|x-z|^2)                              *)
(*   sigmoid     K(x,z) = tanh(gamma*<x,z> + coef0)                        *)
(*                                                                         *)
(* Property (statement of C10, last sentence): "The built-in kernels equal *)
(* their closed forms and are symmetric, and linear and RBF Gram matrices  *)
(* are positive semi-definite."                                            *)
(*                                                                         *)
(* Inputs are integer vectors; gamma = gn/gd and coef0 = cn/cd are small   *)
(* rationals with power-of-two denominators (exact binary floats).  Then   *)
(*   - linear and integer-degree polynomial values are rationals KNum/KDen *)
(*     that this module computes exactly;                                  *)
(*   - the degree of the polynomial kernel is a real parameter; it is      *)
(*     recorded as deg/dd with dd in {1, 2, 4}.  For dd > 1 and a          *)
(*     non-negative base the dd-th POWER of the value is the exact         *)
(*     rational (ArgNum/ArgDen)^deg, so the closed form is still decided   *)
(*     in integer arithmetic (RootClosed).  A negative base with a         *)
(*     fractional degree has no real closed form (powf yields NaN): the    *)
(*     statement is silent there and nothing is demanded;                  *)
(*   - exp and tanh are not available in TLA+.  For RBF and sigmoid the    *)
(*     closed form is pinned down by what *characterises* the function and *)
(*     is polynomial: value at 0, range, exact monotone dependence on the  *)
(*     (integer) argument, the functional equations                        *)
(*         exp(-(s+t)) = exp(-s)*exp(-t)                                   *)
(*         tanh(s+t)*(1 + tanh s * tanh t) = tanh s + tanh t,  tanh(-s) = -tanh s *)
(*     and the alternating Taylor enclosures near 0                        *)
(*         1 - t <= exp(-t) <= 1 - t + t^2/2       (0 <= t <= 1)           *)
(*         z - z^3/3 <= tanh z <= z                (0 <= z <= 1).          *)
(*     A monotone solution of the exponential equation is c^t; the Taylor  *)
(*     enclosure at a small t fixes the base to the quantisation step.     *)
(*   - positive semi-definiteness is checked through necessary conditions  *)
(*     that are polynomial: diagonal >= 0, every 2x2 principal minor >= 0, *)
(*     v'Kv >= 0 for every v in {-1,0,1}^n (n <= 5).  For the linear       *)
(*     kernel on integer data these are exact integer statements.          *)
(*                                                                         *)
(* Observed values arrive as fixed point  fx_S(v) = round(v * 2^S)  (error *)
(* at most half a unit), as exact integers where the value is an integer,  *)
(* as dense ranks (order and equality of floats, exactly) and as the four  *)
(* 16-bit quarters of the IEEE-754 pattern (bit-for-bit symmetry).         *)
(* Tolerances below are derived from the half-unit quantisation error of   *)
(* each operand plus one unit of slack for the rounding of the library's   *)
(* own double arithmetic (which is eleven orders of magnitude smaller).    *)
(*                                                                         *)
(* TLC integers are 32 bit.  Every product formed here is bounded by a     *)
(* guard evaluated first (InRange...); events outside are counted as       *)
(* skipped by the trace spec, never as passes of the clause.               *)
(***************************************************************************)
EXTENDS Integers, Sequences, FiniteSets

Abs(x) == IF x < 0 THEN -x ELSE x
Max2(a, b) == IF a >= b THEN a ELSE b
Min2(a, b) == IF a <= b THEN a ELSE b

RECURSIVE Pow(_, _)
Pow(b, e) == IF e <= 0 THEN 1 ELSE b * Pow(b, e - 1)
Pow2(e) == Pow(2, e)

RECURSIVE DotFrom(_, _, _)
DotFrom(x, z, i) == IF i > Len(x) THEN 0 ELSE x[i] * z[i] + DotFrom(x, z, i + 1)
Dot(x, z) == DotFrom(x, z, 1)

RECURSIVE D2From(_, _, _)
D2From(x, z, i) == IF i > Len(x) THEN 0 ELSE (x[i] - z[i]) * (x[i] - z[i]) + D2From(x, z, i + 1)
D2(x, z) == D2From(x, z, 1)      \* squared Euclidean distance

(* ---------------------------------------------------------------------- *)
(* exact closed forms of the rational kernels                              *)
(* ---------------------------------------------------------------------- *)
(* gamma*<x,z> + coef0 = ArgNum / ArgDen  with ArgDen = gd*cd > 0 *)
ArgNum(k, x, z) == k.gn * Dot(x, z) * k.cd + k.cn * k.gd
ArgDen(k) == k.gd * k.cd

(* kernels whose values are exact rationals KNum/KDen: linear, and polynomial of integer degree *)
IsExactKernel(k) == k.name = "linear" \/ (k.name = "poly" /\ k.dd = 1)
IsRootKernel(k) == k.name = "poly" /\ k.dd > 1           \* degree deg/dd, dd in {2, 4}

KNum(k, x, z) == IF k.name = "linear" THEN Dot(x, z) ELSE Pow(ArgNum(k, x, z), k.deg)
KDen(k) == IF k.name = "linear" THEN 1 ELSE Pow(ArgDen(k), k.deg)

(* 32-bit guard for KNum/KDen and for num*2^S: |base|^deg and den^deg stay below
   2^30 / 2^S.  Evaluated with divisions only, so it cannot overflow itself. *)
RECURSIVE PowFits(_, _, _)
PowFits(b, e, lim) == \* TRUE iff b^e <= lim   (b >= 0, lim >= 1)
    IF e <= 0 THEN TRUE
    ELSE IF b <= 1 THEN TRUE
    ELSE lim \div b >= 1 /\ PowFits(b, e - 1, lim \div b)

PolyInRange(k, x, z, S) ==
    LET lim == Pow2(30 - S) IN
    IF k.name = "linear" THEN Abs(Dot(x, z)) <= lim
    ELSE /\ k.deg >= 0 /\ k.deg <= 6
         /\ PowFits(Abs(ArgNum(k, x, z)), k.deg, lim)
         /\ PowFits(ArgDen(k), k.deg, lim \div Pow2(S))

(* ---------------------------------------------------------------------- *)
(* single evaluations  K(x,z)  -- event "K"                                *)
(*   in : kernel, x, z, S      out: v = fx_S(K(x,z)), isint/vint (exact    *)
(*   integer value when it is one), sgn (exact sign), bxz/bzx/bxx = bit    *)
(*   patterns of K(x,z), K(z,x), K(x,x) as four 16-bit quarters            *)
(* ---------------------------------------------------------------------- *)
OneBits == <<16368, 0, 0, 0>>          \* 0x3FF0 0000 0000 0000 = 1.0
MinusOneBits == <<49136, 0, 0, 0>>     \* 0xBFF0 ...            = -1.0

(* "are symmetric": K(x,z) and K(z,x) are the same double, bit for bit *)
KSymmetric(i, o) == o.bxz = o.bzx

(* linear: the inner product of integer vectors is an integer and must be returned exactly *)
LinearClosed(i, o) == o.isint /\ o.vint = Dot(i.x, i.z)

(* polynomial: |v*den - num*2^S| <= den   (half a unit of quantisation + half a unit slack) *)
PolyClosed(i, o) ==
    LET num == KNum(i.kernel, i.x, i.z)
        den == KDen(i.kernel)
    IN  Abs(o.v * den - num * Pow2(i.S)) <= den

(* polynomial of degree deg/dd, dd > 1, base B = ArgNum/ArgDen >= 0:  K = B^(deg/dd), i.e.
   K^dd = ArgNum^deg / ArgDen^deg exactly.  The observation v = fx_S(K) is within one unit of
   K*2^S (half a unit of quantisation, half a unit of slack), K >= 0, and t |-> t^dd is
   increasing on t >= 0, hence
        max(v-1, 0)^dd * den  <=  num * 2^(S*dd)  <=  (v+1)^dd * den .
   Both bounds are exact integer statements; nothing else is assumed about powf. *)
RootInRange(k, x, z, v, S) ==
    /\ k.deg >= 0 /\ k.deg <= 8 /\ k.dd \in {2, 4} /\ S * k.dd <= 24
    /\ ArgNum(k, x, z) >= 0 /\ v >= 0
    /\ PowFits(ArgNum(k, x, z), k.deg, Pow2(30 - S * k.dd))       \* num * 2^(S*dd) <= 2^30
    /\ PowFits(ArgDen(k), k.deg, Pow2(12))                        \* den <= 2^12
    /\ PowFits(v + 1, k.dd, Pow2(30) \div Pow(ArgDen(k), k.deg))  \* (v+1)^dd * den <= 2^30

RootClosedAt(k, x, z, v, S) ==
    LET num == Pow(ArgNum(k, x, z), k.deg)
        den == Pow(ArgDen(k), k.deg)
        mid == num * Pow2(S * k.dd)
    IN  /\ Pow(Max2(v - 1, 0), k.dd) * den <= mid
        /\ mid <= Pow(v + 1, k.dd) * den

RootClosed(i, o) == RootClosedAt(i.kernel, i.x, i.z, o.v, i.S)

(* no real closed form: fractional degree of a negative base *)
RootUndefined(k, x, z) == IsRootKernel(k) /\ ArgNum(k, x, z) < 0

(* RBF, pointwise: 0 < K <= 1, K(x,x) = 1 exactly, K(x,z) = 1 only if x = z is NOT
   demanded (tiny gamma*d^2 may round to 1); Taylor enclosure when gamma*d^2 <= 1 *)
RbfTaylor2(gn, gd, d2, v, S) ==
    \* 2*gd^2*(1 - t) <= 2*gd^2*K <= 2*gd^2*(1 - t + t^2/2),  t = gn*d2/gd, all times 2^S
    LET a == gn * d2 IN
    (a <= gd /\ gd <= 64 /\ S <= 14) =>
        /\ 2 * v * gd * gd >= Pow2(S) * (2 * gd * gd - 2 * a * gd) - 2 * gd * gd
        /\ 2 * v * gd * gd <= Pow2(S) * (2 * gd * gd - 2 * a * gd + a * a) + 2 * gd * gd

(* two more terms where 24*gd^4*2^S still fits:
   1 - t + t^2/2 - t^3/6 <= exp(-t) <= 1 - t + t^2/2 - t^3/6 + t^4/24   (0 <= t <= 1) *)
RbfTaylor4Guard(gd, S) == S <= 20 /\ gd <= 32 /\ 24 * gd * gd * gd * gd <= Pow2(30 - S)

RbfTaylor4(gn, gd, d2, v, S) ==
    LET a == gn * d2
        g4 == gd * gd * gd * gd
        low == 24 * g4 - 24 * a * gd * gd * gd + 12 * a * a * gd * gd - 4 * a * a * a * gd
    IN  (a <= gd /\ RbfTaylor4Guard(gd, S)) =>
            /\ 24 * g4 * v >= Pow2(S) * low - 24 * g4
            /\ 24 * g4 * v <= Pow2(S) * (low + a * a * a * a) + 24 * g4

RbfTaylor(gn, gd, d2, v, S) == RbfTaylor2(gn, gd, d2, v, S) /\ RbfTaylor4(gn, gd, d2, v, S)

RbfPoint(i, o) ==
    LET d2 == D2(i.x, i.z) IN
    /\ o.sgn = 1
    /\ o.v >= 0 /\ o.v <= Pow2(i.S)
    /\ o.bxx = OneBits
    /\ (d2 = 0) => o.bxz = OneBits
    /\ RbfTaylor(i.kernel.gn, i.kernel.gd, d2, o.v, i.S)

(* sigmoid, pointwise: -1 < K < 1, sign of K = sign of the argument, Taylor enclosure
   for |argument| <= 1 *)
SigTaylor(A, D, v, S) ==
    \* z = A/D in [0,1]:  3*D^3*(z - z^3/3) <= 3*D^3*tanh z <= 3*D^3*z
    (A >= 0 /\ A <= D) =>
        /\ 3 * v * D * D * D >= Pow2(S) * (3 * A * D * D - A * A * A) - 2 * 3 * D * D * D
        /\ 3 * v * D * D * D <= Pow2(S) * 3 * A * D * D + 2 * 3 * D * D * D

SigTaylorGuard(D, S) == D <= 32 /\ S <= 10    \* 3 * 2^S * D^3 <= 3 * 2^10 * 2^15 < 2^30

SigPoint(i, o) ==
    LET A == ArgNum(i.kernel, i.x, i.z)
        D == ArgDen(i.kernel)
    IN  /\ o.sgn = (IF A > 0 THEN 1 ELSE IF A < 0 THEN -1 ELSE 0)
        /\ Abs(o.v) <= Pow2(i.S)
        /\ (Abs(A) <= 16 * D) => (o.bxz # OneBits /\ o.bxz # MinusOneBits)
        /\ (SigTaylorGuard(D, i.S) /\ A >= 0) => SigTaylor(A, D, o.v, i.S)
        /\ (SigTaylorGuard(D, i.S) /\ A < 0) => SigTaylor(-A, D, -o.v, i.S)

(* ---------------------------------------------------------------------- *)
(* Gram matrices -- event "Gram"                                           *)
(*   in : kernel, X (n integer rows), S                                    *)
(*   out: G = fx_S of K(X_i,X_j), rk = dense ranks of the n*n floats,      *)
(*        isint/Gint = exact integer matrix when every entry is an integer *)
(* ---------------------------------------------------------------------- *)
Idx(n) == (1..n) \X (1..n)

GramSymmetric(n, o) == \A p \in Idx(n) : o.rk[p[1]][p[2]] = o.rk[p[2]][p[1]]

(* necessary conditions of positive semi-definiteness for a symmetric integer matrix M
   whose entries carry an absolute error of at most `h` half-units (h = 0: exact) *)
RECURSIVE QuadFrom(_, _, _, _, _)
QuadFrom(M, v, n, i, j) ==       \* sum_{(i,j) >= current, row-major} v_i v_j M_ij
    IF i > n THEN 0
    ELSE IF j > n THEN QuadFrom(M, v, n, i + 1, 1)
    ELSE v[i] * v[j] * M[i][j] + QuadFrom(M, v, n, i, j + 1)

RECURSIVE L1From(_, _)
L1From(v, i) == IF i > Len(v) THEN 0 ELSE Abs(v[i]) + L1From(v, i + 1)

PsdNecessary(M, n, h) ==
    /\ \A i \in 1..n : M[i][i] >= -h
    /\ \A p \in Idx(n) :
          p[1] < p[2] =>
             M[p[1]][p[1]] * M[p[2]][p[2]] - M[p[1]][p[2]] * M[p[1]][p[2]]
                >= -h * ((M[p[1]][p[1]] + M[p[2]][p[2]]) \div 2 + Abs(M[p[1]][p[2]]) + 1)
    /\ \A v \in [1..n -> {-1, 0, 1}] :
          \* each entry off by <= h/2 units: the form is off by <= (sum|v_i|)^2 * h / 2
          QuadFrom(M, v, n, 1, 1) >= -((L1From(v, 1) * L1From(v, 1) * h) \div 2 + h)

(* order-exactness of RBF: K is a strictly decreasing function of the integer |x-z|^2
   (no underflow while gamma*d^2 <= 700), and equal distances give equal doubles *)
RbfOrderGuard(k, X, n) == \A p \in Idx(n) : k.gn * D2(X[p[1]], X[p[2]]) <= 700 * k.gd

RbfOrder(X, n, rk, dd) ==        \* dd[i][j] = D2(X[i], X[j]), passed in (computed once)
    \A p \in Idx(n), q \in Idx(n) :
        /\ (dd[p[1]][p[2]] < dd[q[1]][q[2]]) <=> (rk[p[1]][p[2]] > rk[q[1]][q[2]])
        /\ (dd[p[1]][p[2]] = dd[q[1]][q[2]]) <=> (rk[p[1]][p[2]] = rk[q[1]][q[2]])

(* exp(-(s+t)) = exp(-s) exp(-t): whenever three recorded squared distances satisfy
   d_a + d_b = d_c the values must satisfy K_a*K_b = K_c (scale 2^S, operands off by <= 1/2) *)
RbfFunctional(n, G, dd, S) ==
    \A p \in Idx(n), q \in Idx(n), r \in Idx(n) :
        (dd[p[1]][p[2]] + dd[q[1]][q[2]] = dd[r[1]][r[2]]) =>
            Abs(G[p[1]][p[2]] * G[q[1]][q[2]] - G[r[1]][r[2]] * Pow2(S))
                <= (G[p[1]][p[2]] + G[q[1]][q[2]]) \div 2 + Pow2(S) \div 2 + 2

RbfGramPoints(k, n, G, dd, S) ==
    \A p \in Idx(n) :
        /\ G[p[1]][p[2]] >= 0 /\ G[p[1]][p[2]] <= Pow2(S)
        /\ (dd[p[1]][p[2]] = 0) => G[p[1]][p[2]] = Pow2(S)
        /\ RbfTaylor(k.gn, k.gd, dd[p[1]][p[2]], G[p[1]][p[2]], S)

(* sigmoid: strictly increasing in the integer argument numerator while |arg| <= 16,
   odd, and the addition theorem (guarded to S <= 9 so that 2^S * 2^(2S) < 2^30) *)
SigOrderGuard(k, n, aa) == \A p \in Idx(n) : Abs(aa[p[1]][p[2]]) <= 16 * ArgDen(k)

SigOrder(n, rk, aa) ==           \* aa[i][j] = ArgNum(k, X[i], X[j])
    \A p \in Idx(n), q \in Idx(n) :
        /\ (aa[p[1]][p[2]] < aa[q[1]][q[2]]) <=> (rk[p[1]][p[2]] < rk[q[1]][q[2]])
        /\ (aa[p[1]][p[2]] = aa[q[1]][q[2]]) <=> (rk[p[1]][p[2]] = rk[q[1]][q[2]])

SigOdd(n, G, aa) ==
    \A p \in Idx(n), q \in Idx(n) :
        (aa[p[1]][p[2]] = -aa[q[1]][q[2]]) => Abs(G[p[1]][p[2]] + G[q[1]][q[2]]) <= 1

SigAddition(n, G, aa, S) ==
    \* aa are numerators over the common denominator ArgDen(k): aa_p + aa_q = aa_r iff the arguments add
    \A p \in Idx(n), q \in Idx(n), r \in Idx(n) :
        (aa[p[1]][p[2]] + aa[q[1]][q[2]] = aa[r[1]][r[2]]) =>
            LET a == G[p[1]][p[2]]  b == G[q[1]][q[2]]  c == G[r[1]][r[2]]
                s2 == Pow2(2 * S)
            IN  Abs(c * (s2 + a * b) - (a + b) * s2) <= 3 * s2 + Abs(c) * ((Abs(a) + Abs(b)) \div 2 + 1)

SigGramPoints(k, n, G, aa, S) ==
    \A p \in Idx(n) :
        /\ Abs(G[p[1]][p[2]]) <= Pow2(S)
        /\ (aa[p[1]][p[2]] > 0) => G[p[1]][p[2]] >= 0
        /\ (aa[p[1]][p[2]] < 0) => G[p[1]][p[2]] <= 0
        /\ (aa[p[1]][p[2]] = 0) => G[p[1]][p[2]] = 0

DistMatrix(X, n) == [i \in 1..n |-> [j \in 1..n |-> D2(X[i], X[j])]]
ArgMatrix(k, X, n) == [i \in 1..n |-> [j \in 1..n |-> ArgNum(k, X[i], X[j])]]
DotMatrix(X, n) == [i \in 1..n |-> [j \in 1..n |-> Dot(X[i], X[j])]]
=============================================================================
