------------------------------- MODULE SvrSmoMC -------------------------------
(* Model-checking instance of SvrSmo.tla (TLC's cfg syntax has no tuples). *)
EXTENDS SvrSmo
Rows3 == <<<<0>>, <<1>>, <<1>>>>
Rows4 == <<<<0, 1>>, <<1, 0>>, <<1, 0>>, <<2, 2>>>>
=============================================================================
