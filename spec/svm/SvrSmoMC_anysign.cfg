CONSTANTS N = 3  CU = 3  AnySign = TRUE
          XS <- Rows3
SPECIFICATION Spec
INVARIANT BoxInv
INVARIANT SumInv
INVARIANT ModelSatisfiesProperty
CHECK_DEADLOCK FALSE
