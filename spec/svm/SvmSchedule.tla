----------------------------- MODULE SvmSchedule -----------------------------
(***************************************************************************)
(* C10 -- what the SVC trainer draws from its random source.               *)
(*                                                                         *)
(* `SVC::fit` (src/svm/svc.rs, Optimizer::optimize) asks `permutate(n)`    *)
(* for a fresh uniformly random visiting order of the n training rows      *)
(*   - once in `initialize` (seeding of the support-vector set), and       *)
(*   - once at the start of each of the `epoch` passes over the data.      *)
(* The source is `rand::thread_rng()`, which cannot be seeded, so a test   *)
(* can only ever see one schedule per run.  The property quantifies over   *)
(* ALL of them ("for every random visiting order the trainer may draw").   *)
(*                                                                         *)
(* This module is the model of that nondeterminism: a behaviour is a tuple *)
(* of 1 + Epochs permutations of 0..N-1.  TLC enumerates every behaviour   *)
(* and prints it as a REPLAY line; the harness injects each tuple through  *)
(* the cfg(smartcore_verif) hook `smartcore::verif::push_schedule` (a      *)
(* thread-local queue that `permutate` pops) and fits the real classifier  *)
(* under exactly that schedule.  The recorded models are then judged by    *)
(* SvmContracts.tla (see SvmTrace.tla).  `Lasvm.tla` extends this module   *)
(* with an abstract model of what the optimiser does between two draws.    *)
(***************************************************************************)
EXTENDS SvmPerms, TLC, Json

CONSTANTS N,        \* number of training rows
          Epochs    \* number of passes (SVCParameters.epoch)

ASSUME N \in Nat \ {0} /\ Epochs \in Nat

VARIABLE drawn      \* the orders drawn so far, oldest first

Init == drawn = <<>>

(* one call of Optimizer::permutate *)
Draw == /\ Len(drawn) < 1 + Epochs
        /\ \E p \in Perms(N) : drawn' = Append(drawn, p)

Done == Len(drawn) = 1 + Epochs

Next == Draw
Spec == Init /\ [][Next]_drawn

TypeOK == /\ Len(drawn) <= 1 + Epochs
          /\ \A k \in 1..Len(drawn) : IsPerm(drawn[k], N)

(* every complete behaviour is a schedule in the sense the trace spec checks *)
DoneIsSchedule == Done => IsSchedule(drawn, N, Epochs)

(* spec -> impl: one line per complete schedule (a distinct state, so printed once) *)
EmitReplay == Done => PrintT(<<"REPLAY", ToJson([n |-> N, epochs |-> Epochs, orders |-> drawn])>>)
=============================================================================
