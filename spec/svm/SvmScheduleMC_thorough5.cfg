CONSTANTS N = 5  Epochs = 1
SPECIFICATION Spec
INVARIANT TypeOK
INVARIANT DoneIsSchedule
INVARIANT EmitReplay
CHECK_DEADLOCK FALSE
