------------------------------ MODULE SvmTrace ------------------------------
(***************************************************************************)
(* C10 trace validation (impl -> spec).  Consumes the ndjson file recorded *)
(* by `harness/c10` from the real SVC::fit / decision_function / predict,  *)
(* SVR::fit / predict and Kernel::apply.  Every event is independent:      *)
(*                                                                         *)
(*   SvcFit  one fit of the classifier under one visiting-order schedule   *)
(*           (enumerated by SvmSchedule.tla and injected, or drawn by the  *)
(*           seeded generator and injected, or left to the real RNG)       *)
(*   SvrFit  one fit of the regressor                                      *)
(*   SvcBatch / SvrBatch  a fit followed by ONE decision_function /        *)
(*           predict call on B query rows (B on a ladder around 64, 128,   *)
(*           256, 512, 1024 and a few thousand) and by the same rows       *)
(*           evaluated in blocks of <= 64 rows                             *)
(*   K       one evaluation K(x,z), K(z,x), K(x,x)                         *)
(*   Gram    one Gram matrix of a small point set                          *)
(*                                                                         *)
(* and is judged by the predicate operators of SvmContracts.tla and        *)
(* Kernels.tla -- the same operators the design models Lasvm.tla and       *)
(* SvrSmo.tla are model-checked against.  `...Verdict(e)` returns the name *)
(* of the first clause of the property that fails on the event, or "".     *)
(* The spec never blocks: a failing event is printed (BAD ...) and counted.*)
(* `hits` counts, per tag, the events on which a clause was actually       *)
(* exercised (vacuity guard) and the events whose numeric clauses had to   *)
(* be skipped because a product would not fit TLC's 32-bit integers.       *)
(***************************************************************************)
EXTENDS SvmContracts, SvmPerms, TLC, Json, IOUtils

Rec == ndJsonDeserialize(IOEnv.TRACE)

VARIABLES l, nbad, hits
vars == <<l, nbad, hits>>

Q1 == 1      \* slack, in units, granted to one quantised number
QK == 2      \* slack for the KKT residuals (two quantised numbers are subtracted)

(* ---------------------------------------------------------------------- *)
(* classifier                                                              *)
(* ---------------------------------------------------------------------- *)
SvcExpChecked(o) == o.fok /\ o.prodok

SvcClauses(i, o, pts) ==
    IF ~o.finite THEN "Finite"
    ELSE IF ~o.wok THEN "BoxOK"
    ELSE IF ~(o.svint /\ Len(o.w16) = Len(o.sv) /\ Len(o.w10) = Len(o.sv) /\ SvAreRows(i.X, o.sv)) THEN "SvAreRows"
    ELSE IF ~BoxOK(o.w16, i.C16, Q1) THEN "BoxOK"
    ELSE IF ~SumZero(o.w16, Q1) THEN "SumZero"
    ELSE IF ~DirectionOK(i.X, i.y, o.sv, o.w16, Q1) THEN "DirectionOK"
    ELSE IF SvcExpChecked(o) /\ ~ExpansionOK(i.kernel, o.sv, o.w10, o.b10, o.kq, pts, o.f10, Q1) THEN "ExpansionOK"
    ELSE IF o.fok /\ IsRootKernel(i.kernel) /\ ~KqRootClosed(i.kernel, o.sv, o.kq, pts) THEN "PolyClosed"
    ELSE IF o.fok /\ i.kernel.name = "rbf" /\ ~KqRbfClosed(i.kernel, o.sv, o.kq, pts) THEN "RbfClosed"
    ELSE IF ~(o.predint /\ Len(o.fs) = Len(pts) /\ LabelOK(i.y, o.fs, o.pred)) THEN "LabelOK"
    ELSE ""

(* the property promises a model for every two-class training set: an error, a panic or
   a hang (watchdog) is a failure of the clause "Returns".  "Two-class" means two distinct label
   VALUES, whatever their arithmetic shape: the generator includes non-integer pairs inside one
   unit interval, pairs straddling zero inside (-1, 1), pairs closer than machine epsilon,
   adjacent floats, huge / subnormal pairs and -0.0 (field `lab`); such labels are carried as
   the codes 0 (smaller) / 1 (larger), predictions are mapped back by bit-pattern lookup *)
SvcVerdict(e) ==
    IF e.status # "ok" THEN "Returns" ELSE SvcClauses(e.in, e.out, e.in.X \o e.in.Q)

SvcTags(e) ==
    {"SvcFit", "Svc_" \o e.in.kernel.name}
    \cup (IF e.src = "sched" THEN {"SvcSched"} ELSE IF e.src = "unseeded" THEN {"SvcUnseeded"} ELSE {"SvcRand"})
    \cup (IF ~IsSchedule(e.in.sched, Len(e.in.X), e.in.epochs) THEN {"BadSchedule"} ELSE {})
    \cup (IF e.in.api THEN {"SvcApi"} ELSE {})            \* fitted / predicted through the api traits
    \cup (IF "off" \in DOMAIN e.in /\ e.in.kernel.name = "rbf" THEN {"SvcRbfOffset"} ELSE {})   \* rows shifted by 2^off
    \* label pairs with a special arithmetic shape (y then holds the order-preserving codes 0 / 1)
    \cup (IF e.in.lab # "int" THEN {"SvcFloatLabels", "SvcLab_" \o e.in.lab} ELSE {})
    \cup (IF Len(e.in.X) >= 129 THEN {"SvcLarge"} ELSE {})
    \cup (IF e.status = "ok"
          THEN (IF Len(e.in.sched) > 0 /\ e.out.left # 0 THEN {"Drift"} ELSE {})
               \cup (IF e.out.finite /\ e.out.wok /\ HasAtBound(e.out.w16, e.in.C16, 2) /\ HasStrictlyInside(e.out.w16, e.in.C16, 2)
                     THEN {"SvcBoundAndInside"} ELSE {})
               \cup (IF HasDuplicateRows(e.in.X) THEN {"SvcDupRows"} ELSE {})
               \cup (IF e.out.finite /\ SvcExpChecked(e.out) THEN {"SvcExpansion"} ELSE {"SvcExpSkipped"})
               \cup (IF Len(e.out.sv) < Len(e.in.X) THEN {"SvcSparse"} ELSE {})
               \cup (IF e.out.finite /\ e.out.fok /\ IsRootKernel(e.in.kernel)
                        /\ KqRootChecked(e.in.kernel, e.out.sv, e.out.kq, e.in.X \o e.in.Q)
                     THEN {"FitRootClosed"} ELSE {})
          ELSE {})

(* ---------------------------------------------------------------------- *)
(* regressor                                                               *)
(* ---------------------------------------------------------------------- *)
(* kernels for which the statement promises termination and optimality *)
PsdKernel(k) == \/ k.name \in {"linear", "rbf"}
                \/ (k.name = "poly" /\ k.dd = 1 /\ k.cn >= 0 /\ k.gn >= 0 /\ k.deg >= 1)   \* integer degree

Residuals(y16, f16) == [i \in 1..Len(y16) |-> y16[i] - f16[i]]

SvrClauses(i, o, pts) ==
    IF ~o.finite THEN "Finite"
    ELSE IF ~o.wok THEN "BoxOK"
    ELSE IF ~(o.svint /\ Len(o.w16) = Len(o.sv) /\ Len(o.w10) = Len(o.sv) /\ SvAreRows(i.X, o.sv)) THEN "SvAreRows"
    ELSE IF ~SvMatchable(i.X, o.sv) THEN "SvAreRows"
    ELSE IF ~BoxOK(o.w16, i.C16, Q1) THEN "BoxOK"
    ELSE IF ~SumZero(o.w16, Q1) THEN "SumZero"
    ELSE IF SvcExpChecked(o) /\ ~ExpansionOK(i.kernel, o.sv, o.w10, o.b10, o.kq, pts, o.f10, Q1) THEN "ExpansionOK"
    ELSE IF o.fok /\ IsRootKernel(i.kernel) /\ ~KqRootClosed(i.kernel, o.sv, o.kq, pts) THEN "PolyClosed"
    ELSE IF o.fok /\ i.kernel.name = "rbf" /\ ~KqRbfClosed(i.kernel, o.sv, o.kq, pts) THEN "RbfClosed"
    ELSE IF PsdKernel(i.kernel) /\ o.fok /\ Len(o.f16) = Len(i.X)
            /\ ~SvrKktOK(i.X, o.sv, o.w16, Residuals(i.y16, o.f16), i.C16, i.eps16, i.tol16, QK) THEN "SvrKKT"
    ELSE ""

SvrVerdict(e) ==
    IF e.status # "ok"
    THEN (IF PsdKernel(e.in.kernel) THEN "Terminates" ELSE "")   \* silent for non-PSD kernels
    ELSE SvrClauses(e.in, e.out, e.in.X \o e.in.Q)

SvrWeightOf(X, sv, w, i) ==      \* coefficient of a row whose features are unique in X
    IF \E k \in 1..Len(sv) : sv[k] = X[i] THEN w[CHOOSE k \in 1..Len(sv) : sv[k] = X[i]] ELSE 0

(* situation counters for the narrow-band family: all targets inside a band of width <= 2 eps
   (a constant function has zero loss; the bias alone decides the tube clause), the skewed
   part of it (band wider than eps), and fits that return no support vector at all *)
YRange(y16) == SeqMax(y16) - SeqMin(y16)

SvrTags(e) ==
    {"SvrFit", "Svr_" \o e.in.kernel.name}
    \cup (IF e.in.api THEN {"SvrApi"} ELSE {})
    \cup (IF "off" \in DOMAIN e.in /\ e.in.kernel.name = "rbf" THEN {"SvrRbfOffset"} ELSE {})
    \cup (IF Len(e.in.X) >= 91 /\ e.status = "ok" /\ 2 * Len(e.out.sv) >= Len(e.in.X) THEN {"SvrLargeDense"} ELSE {})
    \cup (IF YRange(e.in.y16) <= 2 * e.in.eps16 THEN {"SvrNarrowBand"} ELSE {})
    \cup (IF YRange(e.in.y16) <= 2 * e.in.eps16 /\ YRange(e.in.y16) > e.in.eps16 THEN {"SvrBandSkewed"} ELSE {})
    \cup (IF YRange(e.in.y16) = 0 THEN {"SvrConstantTargets"} ELSE {})
    \cup (IF e.status = "ok" /\ Len(e.out.sv) = 0 THEN {"SvrNoSv"} ELSE {})
    \cup (IF e.status = "ok" /\ Len(e.out.sv) = 0 /\ PsdKernel(e.in.kernel) /\ e.out.finite /\ e.out.fok
          THEN {"SvrNoSvKKT"} ELSE {})
    \cup (IF e.status = "ok" /\ e.out.finite /\ e.out.wok
          THEN (IF PsdKernel(e.in.kernel) /\ e.out.fok THEN {"SvrKKT"} ELSE {"SvrKKTSkipped"})
               \cup (IF Len(e.out.sv) < Len(e.in.X) THEN {"SvrZeroWeight"} ELSE {})
               \cup (IF HasStrictlyInside(e.out.w16, e.in.C16, 2) THEN {"SvrFree"} ELSE {})
               \cup (IF HasAtBound(e.out.w16, e.in.C16, 2) THEN {"SvrAtC"} ELSE {})
               \cup (IF HasAtBound(e.out.w16, e.in.C16, 2) /\ HasStrictlyInside(e.out.w16, e.in.C16, 2)
                     THEN {"SvrBoundAndInside"} ELSE {})
               \cup (IF HasDuplicateRows(e.in.X) THEN {"SvrDupRows"} ELSE {})
               \cup (IF SvcExpChecked(e.out) THEN {"SvrExpansion"} ELSE {"SvrExpSkipped"})
               \cup (IF e.out.fok /\ IsRootKernel(e.in.kernel)
                        /\ KqRootChecked(e.in.kernel, e.out.sv, e.out.kq, e.in.X \o e.in.Q)
                     THEN {"FitRootClosed"} ELSE {})
          ELSE IF e.status # "ok" THEN {"SvrNoResult"} ELSE {})

(* ---------------------------------------------------------------------- *)
(* batch evaluation                                                        *)
(*                                                                         *)
(* The decision function "equals sum_i w_i K(sv_i, x) + b": a function of  *)
(* the query row alone.  Hence the value a row receives cannot depend on   *)
(* how many rows are passed in the same call or on the row's position in   *)
(* the call.  The event carries the values of ONE call on all B rows (fbq) *)
(* and of the same rows evaluated in small blocks (fcq), both in fixed     *)
(* point at the largest scale 2^bs that keeps every value below 2^30       *)
(* (relative resolution 2^-30 -- far coarser than a re-association of the  *)
(* floating-point sum, far finer than any wrong term).  Clauses:           *)
(*   BatchConsistent  one value per row, |fbq[j] - fcq[j]| <= 1 for all j  *)
(*   BatchLabelOK     (classifier) the label of every row of the big call  *)
(*                    is the larger class iff its decision value is > 0    *)
(* and, through the ordinary clauses, ExpansionOK / LabelOK on the sampled *)
(* rows Q (block boundaries and random positions), whose recorded values   *)
(* are taken out of the big call.  O(B) for TLC, no model recomputation.   *)
(* ---------------------------------------------------------------------- *)
BatchConsistent(i, b) ==
    /\ b.bok
    /\ Len(b.fbq) = Len(i.batch.rows) /\ Len(b.fcq) = Len(i.batch.rows)
    /\ \A j \in 1..Len(b.fbq) : Abs(b.fbq[j] - b.fcq[j]) <= 1

BatchLabelOK(i, b) ==
    /\ b.pint /\ Len(b.fsb) = Len(i.batch.rows)
    /\ LabelOK(i.y, b.fsb, b.pb)

(* harness sanity: Q is the sample of the batch rows it claims to be *)
BatchWellFormed(i) ==
    /\ Len(i.Q) = Len(i.batch.sample)
    /\ \A s \in 1..Len(i.Q) : i.batch.sample[s] + 1 \in 1..Len(i.batch.rows)
                                /\ i.Q[s] = i.batch.rows[i.batch.sample[s] + 1]

SvcBatchVerdict(e) ==
    IF SvcVerdict(e) # "" THEN SvcVerdict(e)
    ELSE IF ~BatchConsistent(e.in, e.out.batch) THEN "BatchConsistent"
    ELSE IF ~BatchLabelOK(e.in, e.out.batch) THEN "BatchLabelOK"
    ELSE ""

SvrBatchVerdict(e) ==
    IF SvrVerdict(e) # "" THEN SvrVerdict(e)
    ELSE IF e.status = "ok" /\ ~BatchConsistent(e.in, e.out.batch) THEN "BatchConsistent"
    ELSE ""

BatchTags(e, name) ==
    {name}
    \cup (IF Len(e.in.batch.rows) > 256 THEN {name \o "Over256"} ELSE {})
    \cup (IF Len(e.in.batch.rows) > 1024 THEN {name \o "Over1024"} ELSE {})
    \cup (IF ~BatchWellFormed(e.in) THEN {"BadBatch"} ELSE {})

(* ---------------------------------------------------------------------- *)
(* kernels                                                                 *)
(* ---------------------------------------------------------------------- *)
KClauses(i, o) ==
    IF RootUndefined(i.kernel, i.x, i.z) THEN ""      \* fractional power of a negative base: statement silent
    ELSE IF ~o.qok THEN "KFinite"
    ELSE IF ~KSymmetric(i, o) THEN "KSymmetric"
    ELSE IF i.kernel.name = "linear" /\ ~LinearClosed(i, o) THEN "LinearClosed"
    ELSE IF i.kernel.name = "poly" /\ i.kernel.dd = 1 /\ PolyInRange(i.kernel, i.x, i.z, i.S) /\ ~PolyClosed(i, o) THEN "PolyClosed"
    ELSE IF IsRootKernel(i.kernel) /\ RootInRange(i.kernel, i.x, i.z, o.v, i.S) /\ ~RootClosed(i, o) THEN "PolyClosed"
    ELSE IF IsRootKernel(i.kernel) /\ o.sgn < 0 THEN "PolyClosed"      \* a real power of a non-negative base is >= 0
    ELSE IF i.kernel.name = "rbf" /\ ~RbfPoint(i, o) THEN "RbfClosed"
    ELSE IF i.kernel.name = "sigmoid" /\ ~SigPoint(i, o) THEN "SigmoidClosed"
    ELSE ""

KVerdict(e) == IF e.status # "ok" THEN "KReturns" ELSE KClauses(e.in, e.out)

KTags(e) ==
    {"K_" \o e.in.kernel.name}
    \* RBF is translation invariant, K(x + c, z + c) = K(x, z): events with in.off = e > 0 were evaluated
    \* at x + 2^e, z + 2^e and are judged here on the small integers x, z by the same clauses
    \cup (IF e.in.off > 0 THEN {"RbfOffset"} ELSE {})
    \cup (IF e.in.kernel.name = "poly" /\ e.in.kernel.dd = 1 /\ ~PolyInRange(e.in.kernel, e.in.x, e.in.z, e.in.S) THEN {"KSkipped"} ELSE {})
    \cup (IF RootUndefined(e.in.kernel, e.in.x, e.in.z) THEN {"KRootUndefined"}
          ELSE IF IsRootKernel(e.in.kernel) /\ e.status = "ok" /\ e.out.qok
          THEN (IF RootInRange(e.in.kernel, e.in.x, e.in.z, e.out.v, e.in.S)
                THEN {"KRoot" \o (IF e.in.kernel.dd = 2 THEN "2" ELSE "4")} ELSE {"KSkipped"})
          ELSE {})
    \cup (IF e.in.kernel.name = "rbf" /\ e.in.kernel.gn * D2(e.in.x, e.in.z) <= e.in.kernel.gd /\ D2(e.in.x, e.in.z) > 0
          THEN {"RbfTaylor"} ELSE {})
    \cup (IF e.in.kernel.name = "sigmoid" /\ SigTaylorGuard(ArgDen(e.in.kernel), e.in.S)
             /\ Abs(ArgNum(e.in.kernel, e.in.x, e.in.z)) <= ArgDen(e.in.kernel) /\ ArgNum(e.in.kernel, e.in.x, e.in.z) # 0
          THEN {"SigTaylor"} ELSE {})

GramClauses(i, o, n, dd, aa) ==
    IF ~o.qok THEN "KFinite"
    ELSE IF ~GramSymmetric(n, o) THEN "KSymmetric"
    ELSE IF i.kernel.name = "linear"
    THEN (IF ~(o.isint /\ o.Gint = DotMatrix(i.X, n)) THEN "LinearClosed"
          ELSE IF ~PsdNecessary(o.Gint, n, 0) THEN "LinearPSD" ELSE "")
    ELSE IF i.kernel.name = "rbf"
    THEN (IF ~RbfGramPoints(i.kernel, n, o.G, dd, i.S) THEN "RbfClosed"
          ELSE IF RbfOrderGuard(i.kernel, i.X, n) /\ ~RbfOrder(i.X, n, o.rk, dd) THEN "RbfOrder"
          ELSE IF i.S <= 14 /\ ~RbfFunctional(n, o.G, dd, i.S) THEN "RbfFunctional"
          ELSE IF i.S <= 14 /\ ~PsdNecessary(o.G, n, 1) THEN "RbfPSD" ELSE "")
    ELSE IF i.kernel.name = "sigmoid"
    THEN (IF ~SigGramPoints(i.kernel, n, o.G, aa, i.S) THEN "SigmoidClosed"
          ELSE IF SigOrderGuard(i.kernel, n, aa) /\ ~SigOrder(n, o.rk, aa) THEN "SigmoidOrder"
          ELSE IF ~SigOdd(n, o.G, aa) THEN "SigmoidOdd"
          ELSE IF i.S <= 9 /\ ~SigAddition(n, o.G, aa, i.S) THEN "SigmoidAddition" ELSE "")
    ELSE ""

GramVerdict(e) ==
    IF e.status # "ok" THEN "KReturns"
    ELSE GramClauses(e.in, e.out, Len(e.in.X), DistMatrix(e.in.X, Len(e.in.X)),
                     ArgMatrix(e.in.kernel, e.in.X, Len(e.in.X)))

GramTagsWith(e, n, dd, aa) ==
    {"Gram_" \o e.in.kernel.name}
    \cup (IF e.in.off > 0 THEN {"RbfGramOffset"} ELSE {})
    \cup (IF e.in.kernel.name = "rbf" /\ \E p \in Idx(n), q \in Idx(n), r \in Idx(n) :
                dd[p[1]][p[2]] > 0 /\ dd[q[1]][q[2]] > 0 /\ dd[p[1]][p[2]] + dd[q[1]][q[2]] = dd[r[1]][r[2]]
          THEN {"RbfFunctional"} ELSE {})
    \cup (IF e.in.kernel.name = "sigmoid" /\ e.in.S <= 9 /\ \E p \in Idx(n), q \in Idx(n), r \in Idx(n) :
                aa[p[1]][p[2]] # 0 /\ aa[q[1]][q[2]] # 0 /\ aa[p[1]][p[2]] + aa[q[1]][q[2]] = aa[r[1]][r[2]]
          THEN {"SigAddition"} ELSE {})
    \cup (IF \E a, b \in 1..n : a < b /\ e.in.X[a] = e.in.X[b] THEN {"GramSingular"} ELSE {})

GramTags(e) == GramTagsWith(e, Len(e.in.X), DistMatrix(e.in.X, Len(e.in.X)),
                            ArgMatrix(e.in.kernel, e.in.X, Len(e.in.X)))

(* ---------------------------------------------------------------------- *)
(* the trace machine                                                       *)
(* ---------------------------------------------------------------------- *)
HitNames == {"SvcFit", "Svc_linear", "Svc_rbf", "Svc_poly", "Svc_sigmoid", "SvcSched", "SvcRand", "SvcUnseeded",
             "BadSchedule", "Drift", "SvcBoundAndInside", "SvcDupRows", "SvcExpansion", "SvcExpSkipped", "SvcSparse",
             "SvrFit", "Svr_linear", "Svr_rbf", "Svr_poly", "Svr_sigmoid", "SvrKKT", "SvrKKTSkipped", "SvrZeroWeight",
             "SvrFree", "SvrAtC", "SvrBoundAndInside", "SvrDupRows", "SvrExpansion", "SvrExpSkipped", "SvrNoResult",
             "K_linear", "K_rbf", "K_poly", "K_sigmoid", "KSkipped", "RbfTaylor", "SigTaylor",
             "KRoot2", "KRoot4", "KRootUndefined", "FitRootClosed",
             "SvrNarrowBand", "SvrBandSkewed", "SvrConstantTargets", "SvrNoSv", "SvrNoSvKKT",
             "SvcApi", "SvrApi", "SvcLarge", "SvrLargeDense", "BadBatch",
             "RbfOffset", "RbfGramOffset", "SvcRbfOffset", "SvrRbfOffset",
             "SvcFloatLabels", "SvcLab_unit", "SvcLab_zero", "SvcLab_eps", "SvcLab_adjacent", "SvcLab_huge",
             "SvcLab_tiny", "SvcLab_negzero",
             "SvcBatch", "SvcBatchOver256", "SvcBatchOver1024", "SvrBatch", "SvrBatchOver256", "SvrBatchOver1024",
             "Gram_linear", "Gram_rbf", "Gram_sigmoid", "Gram_poly", "RbfFunctional", "SigAddition", "GramSingular",
             "Unknown"}

Verdict(e) == CASE e.ev = "SvcFit" -> SvcVerdict(e)
                [] e.ev = "SvrFit" -> SvrVerdict(e)
                [] e.ev = "SvcBatch" -> SvcBatchVerdict(e)
                [] e.ev = "SvrBatch" -> SvrBatchVerdict(e)
                [] e.ev = "K" -> KVerdict(e)
                [] e.ev = "Gram" -> GramVerdict(e)
                [] OTHER -> "unknown event"

Tags(e) == CASE e.ev = "SvcFit" -> SvcTags(e)
             [] e.ev = "SvrFit" -> SvrTags(e)
             [] e.ev = "SvcBatch" -> SvcTags(e) \cup BatchTags(e, "SvcBatch")
             [] e.ev = "SvrBatch" -> SvrTags(e) \cup BatchTags(e, "SvrBatch")
             [] e.ev = "K" -> KTags(e)
             [] e.ev = "Gram" -> GramTags(e)
             [] OTHER -> {"Unknown"}

(* v and tg are operator arguments so that TLC evaluates them once per event *)
Consume(e, v, tg) ==
    /\ IF v = "" THEN nbad' = nbad ELSE PrintT(<<"BAD", l, e.run, e.ev, v>>) /\ nbad' = nbad + 1
    /\ hits' = [h \in HitNames |-> hits[h] + (IF h \in tg THEN 1 ELSE 0)]

Step == /\ l <= Len(Rec)
        /\ l' = l + 1
        /\ Consume(Rec[l], Verdict(Rec[l]), Tags(Rec[l]))

Init == l = 1 /\ nbad = 0 /\ hits = [h \in HitNames |-> 0]
Next == Step
Spec == Init /\ [][Next]_vars

AtEnd == (l = Len(Rec) + 1) =>
            PrintT(<<"VERDICT", ToJson([consumed |-> l - 1, bad |-> nbad, hits |-> hits])>>)
=============================================================================
