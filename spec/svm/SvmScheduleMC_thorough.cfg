CONSTANTS N = 4  Epochs = 2
SPECIFICATION Spec
INVARIANT TypeOK
INVARIANT DoneIsSchedule
INVARIANT EmitReplay
CHECK_DEADLOCK FALSE
