------------------------------ MODULE SvmPerms ------------------------------
(***************************************************************************)
(* C10 -- visiting orders (constant-level definitions shared by            *)
(* SvmSchedule.tla, Lasvm.tla and SvmTrace.tla).                           *)
(*                                                                         *)
(* A visiting order of n rows is a sequence of length n that is a          *)
(* permutation of the row numbers 0..n-1 (the code numbers rows from 0).   *)
(* A schedule of a fit with e epochs is the sequence of the 1 + e orders   *)
(* the trainer draws: one in `initialize`, one per epoch.                  *)
(***************************************************************************)
EXTENDS Integers, Sequences, FiniteSets

IsPerm(p, n) ==
    /\ Len(p) = n
    /\ \A i \in 1..n : p[i] \in 0..(n - 1)
    /\ \A i, j \in 1..n : i # j => p[i] # p[j]

Perms(n) == {p \in [1..n -> 0..(n - 1)] : \A i, j \in 1..n : i # j => p[i] # p[j]}

(* as recorded by the harness; the empty schedule stands for "nothing injected: the
   library's own thread_rng decided" *)
IsSchedule(s, n, e) ==
    \/ Len(s) = 0
    \/ /\ Len(s) = 1 + e
       /\ \A k \in 1..Len(s) : IsPerm(s[k], n)
=============================================================================
