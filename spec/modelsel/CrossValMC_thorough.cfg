CONSTANTS MaxN = 6  MaxK = 3
SPECIFICATION Spec
INVARIANT InvNoLeak
INVARIANT InvDone
CHECK_DEADLOCK FALSE
