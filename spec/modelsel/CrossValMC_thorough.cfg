CONSTANTS MaxN = 6  MaxK = 4
SPECIFICATION Spec
INVARIANT InvNoLeak
INVARIANT InvDone
CHECK_DEADLOCK FALSE
