----------------------------- MODULE ModelSelTrace -----------------------------
(***************************************************************************)
(* C16 trace validation (impl -> spec).  Consumes the ndjson file recorded *)
(* by `vharness c16 gen-*` from the real KFold::split, train_test_split,   *)
(* cross_validate and cross_val_predict, one event per step.  Independent  *)
(* events (KFold, TTS) are checked against the predicates of KFoldPreds;   *)
(* cross-validation runs are replayed through the CrossVal protocol        *)
(* machine, each event against the guard of the action of the same name.   *)
(* The spec never blocks: a failing event is printed (BAD ...) and, inside *)
(* a cross-validation run, the rest of the run is skipped.                 *)
(***************************************************************************)
EXTENDS CrossVal, TLC, Json, IOUtils

Rec == ndJsonDeserialize(IOEnv.TRACE)

VARIABLES l, st, live, nbad, hits
vars == <<l, st, live, nbad, hits>>

Dummy == InitState("none", 0, 0, FALSE, FALSE, <<>>)

Bad(e, clause) == PrintT(<<"BAD", l, e.run, e.ev, clause>>)

KFoldOK(e) ==
    IF e.k < 2 THEN e.status = "panic"
    ELSE e.status = "ok" /\ IsKFoldSplit(e.n, e.k, e.shuffle, e.splits)

TTSOK(e) ==
    IF TTSShouldPanic(e.n, e.ny, e.tsM, e.tsE) THEN e.status = "panic"
    ELSE e.status = "ok" /\ IsTTS(e.n, e.tsM, e.tsE, e.shuffle, e.out)

Hit(name) == [hits EXCEPT ![name] = @ + 1]

Step ==
    LET e == Rec[l] IN
    /\ l <= Len(Rec)
    /\ l' = l + 1
    /\ CASE e.ev = "KFold" ->
              /\ IF KFoldOK(e) THEN nbad' = nbad ELSE Bad(e, "IsKFoldSplit") /\ nbad' = nbad + 1
              /\ hits' = Hit(IF e.k < 2 THEN "KFoldPanic" ELSE IF e.via > 0 THEN "KFoldVia" ELSE IF e.shuffle THEN "KFoldShuffled" ELSE "KFold")
              /\ UNCHANGED <<st, live>>
         [] e.ev = "TTS" ->
              /\ IF TTSOK(e) THEN nbad' = nbad ELSE Bad(e, "IsTTS") /\ nbad' = nbad + 1
              /\ hits' = Hit(IF TTSShouldPanic(e.n, e.ny, e.tsM, e.tsE) THEN "TTSPanic" ELSE "TTS")
              /\ UNCHANGED <<st, live>>
         [] e.ev = "CVStart" ->
              /\ st' = InitState(e.kind, e.n, e.k, e.shuffle, e.custom, e.splits)
              /\ live' = TRUE
              /\ hits' = Hit(IF e.custom THEN "CVStartCustom" ELSE "CVStart")
              /\ UNCHANGED nbad
         [] e.ev \in {"Fit", "Predict", "Score", "CVDone"} ->
              IF ~live THEN UNCHANGED <<st, live, nbad, hits>>
              ELSE IF st.phase = "failed"
              THEN \* the estimator failed on an earlier fold: whatever the driver still does is
                   \* not constrained, only the way the run ends is (G_DoneAfterFailure)
                   IF e.ev # "CVDone" THEN UNCHANGED <<st, live, nbad, hits>>
                   ELSE /\ st' = Dummy /\ live' = FALSE
                        /\ IF G_DoneAfterFailure(st, e)
                           THEN hits' = Hit("CVDoneAfterFailure") /\ UNCHANGED nbad
                           ELSE Bad(e, "G_DoneAfterFailure") /\ nbad' = nbad + 1 /\ UNCHANGED hits
              ELSE IF e.ev \in {"Fit", "Predict"} /\ e.failed
              THEN \* the failing call itself must still be the right call (right rows)
                   IF (IF e.ev = "Fit" THEN G_Fit(st, e) ELSE G_PredictRows(st, e))
                   THEN /\ st' = [st EXCEPT !.phase = "failed"]
                        /\ hits' = Hit("EstimatorFailed") /\ UNCHANGED <<live, nbad>>
                   ELSE /\ Bad(e, "G_" \o e.ev) /\ st' = Dummy /\ live' = FALSE /\ nbad' = nbad + 1
                        /\ UNCHANGED hits
              ELSE LET g == CASE e.ev = "Fit" -> G_Fit(st, e)
                              [] e.ev = "Predict" -> G_Predict(st, e)
                              [] e.ev = "Score" -> G_Score(st, e)
                              [] e.ev = "CVDone" -> G_Done(st, e)
                   IN  IF g
                       THEN /\ st' = CASE e.ev = "Fit" -> E_Fit(st, e)
                                       [] e.ev = "Predict" -> E_Predict(st, e)
                                       [] e.ev = "Score" -> E_Score(st, e)
                                       [] e.ev = "CVDone" -> Dummy
                            /\ live' = (e.ev # "CVDone")
                            /\ hits' = Hit(e.ev)
                            /\ UNCHANGED nbad
                       ELSE /\ Bad(e, "G_" \o e.ev)
                            /\ st' = Dummy /\ live' = FALSE /\ nbad' = nbad + 1
                            /\ UNCHANGED hits
         [] OTHER -> Bad(e, "unknown event") /\ nbad' = nbad + 1 /\ UNCHANGED <<st, live, hits>>

HitNames == {"CVStartCustom", "KFoldVia", "KFold", "KFoldShuffled", "KFoldPanic", "TTS", "TTSPanic", "CVStart", "Fit", "Predict", "Score", "CVDone", "EstimatorFailed", "CVDoneAfterFailure"}

Init == /\ l = 1 /\ st = Dummy /\ live = FALSE /\ nbad = 0
        /\ hits = [x \in HitNames |-> 0]

Next == Step
Spec == Init /\ [][Next]_vars

(* printed exactly once, when the whole file has been consumed; an unfinished
   cross-validation run at end of file (live) counts as bad *)
AtEnd == (l = Len(Rec) + 1) =>
            PrintT(<<"VERDICT", ToJson([consumed |-> l - 1, bad |-> nbad, live |-> live, hits |-> hits])>>)
NoLeakInv == live => NoLeak(st)
=============================================================================
