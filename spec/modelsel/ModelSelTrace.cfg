SPECIFICATION Spec
INVARIANT AtEnd
INVARIANT NoLeakInv
CHECK_DEADLOCK FALSE
