----------------------------- MODULE FoldSizes -----------------------------
(***************************************************************************)
(* Unbounded lemma behind C16 (TLAPS): the fold sizes used by              *)
(* KFold::test_indices -- n \div k for every fold, plus one for the first  *)
(* n % k folds -- differ by at most one, are all >= 1 when k <= n, and     *)
(* add up to n, for ALL n and k >= 1 (TLC checks the model only for        *)
(* n <= 64).  The sum is stated in closed form: r folds of size q+1 and    *)
(* k-r folds of size q.                                                    *)
(***************************************************************************)
EXTENDS Integers, TLAPS

FoldSize(n, k, i) == (n \div k) + (IF i <= n % k THEN 1 ELSE 0)

THEOREM Balanced ==
    ASSUME NEW n \in Nat, NEW k \in Nat, k >= 1,
           NEW i \in 1..k, NEW j \in 1..k
    PROVE  FoldSize(n, k, i) - FoldSize(n, k, j) \in {-1, 0, 1}
BY DEF FoldSize

THEOREM NonEmpty ==
    ASSUME NEW n \in Nat, NEW k \in Nat, k >= 1, k <= n, NEW i \in 1..k
    PROVE  FoldSize(n, k, i) >= 1
<1>1. n \div k >= 1
  BY SMT
<1> QED BY <1>1 DEF FoldSize

THEOREM SumIsN ==
    ASSUME NEW n \in Nat, NEW k \in Nat, k >= 1
    PROVE  LET q == n \div k
               r == n % k
           IN  /\ r \in 0..(k-1)
               /\ r * (q + 1) + (k - r) * q = n
<1> DEFINE q == n \div k
<1> DEFINE r == n % k
<1>1. n = k * q + r /\ r \in 0..(k-1)
  BY SMT
<1>2. r * (q + 1) + (k - r) * q = k * q + r
  <2>1. q \in Int /\ r \in Int
    BY <1>1
  <2> HIDE DEF q, r
  <2> QED BY <2>1, SMT
<1> QED BY <1>1, <1>2
=============================================================================
