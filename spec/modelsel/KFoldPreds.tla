----------------------------- MODULE KFoldPreds -----------------------------
(* Constant-level definitions shared by KFold, CrossVal and ModelSelTrace. *)
EXTENDS Naturals, Integers, Sequences, FiniteSets

Ids(n) == 0 .. (n - 1)
Range(s) == { s[i] : i \in DOMAIN s }
NoDup(s) == Cardinality(Range(s)) = Len(s)

SetMin(S) == CHOOSE a \in S : \A b \in S : a <= b
SetMax(S) == CHOOSE a \in S : \A b \in S : a >= b
IsBlock(S) == S = {} \/ Cardinality(S) = SetMax(S) - SetMin(S) + 1

(* splits: sequence of records [train |-> seq, test |-> seq] *)
IsKFoldSplit(n, k, shuffled, splits) ==
    /\ Len(splits) = k
    /\ \A i \in 1..k :
          LET te == Range(splits[i].test)
              tr == Range(splits[i].train)
          IN  /\ NoDup(splits[i].test)
              /\ NoDup(splits[i].train)
              /\ te \subseteq Ids(n)
              /\ tr = Ids(n) \ te
              /\ (~shuffled => IsBlock(te))
    /\ \A i, j \in 1..k : i < j => Range(splits[i].test) \cap Range(splits[j].test) = {}
    /\ UNION { Range(splits[i].test) : i \in 1..k } = Ids(n)
    /\ \A i, j \in 1..k : Len(splits[i].test) - Len(splits[j].test) \in {-1, 0, 1}

(***************************************************************************)
(* Single-precision arithmetic, exactly.  test_size = m * 2^e with m an    *)
(* integer of at most 24 bits (the harness decomposes the f32 bit pattern).*)
(* n*m is exact in integers; IEEE rounds it to 24 significant bits         *)
(* (ties to even); the cast to usize truncates.                            *)
(***************************************************************************)
RECURSIVE BitLen(_)
BitLen(x) == IF x = 0 THEN 0 ELSE 1 + BitLen(x \div 2)
RECURSIVE Pow2(_)
Pow2(i) == IF i = 0 THEN 1 ELSE 2 * Pow2(i - 1)

Round24(p) ==   \* <<q, s>> with value q * 2^s
    LET b == BitLen(p) IN
    IF b <= 24 THEN <<p, 0>>
    ELSE LET s == b - 24
             d == Pow2(s)
             q == p \div d
             r == p % d
             half == d \div 2
             up == (r > half) \/ (r = half /\ q % 2 = 1)
         IN  <<IF up THEN q + 1 ELSE q, s>>

F32MulFloor(n, m, e) ==   \* floor( fl32( n * (m * 2^e) ) ), m >= 0
    LET qs == Round24(n * m)
        ex == e + qs[2]
    IN  IF ex >= 0 THEN qs[1] * Pow2(ex)
        ELSE IF -ex >= 31 THEN 0 ELSE qs[1] \div Pow2(-ex)

(* is m*2^e in (0, 1] ?  (m odd or 1, so 2^0 = 1 is the only way to reach 1) *)
TsInRange(m, e) == /\ m > 0
                   /\ e <= 0
                   /\ (-e >= 31 \/ m <= Pow2(-e))

(* x has rows (id, 7*id+3), y[id] = 1000+id ; o is the observed record *)
TTSShouldPanic(n, ny, m, e) ==
    \/ n # ny
    \/ ~TsInRange(m, e)
    \/ F32MulFloor(n, m, e) < 1

IsTTS(n, m, e, shuffled, o) ==
    LET nt == F32MulFloor(n, m, e)
        tr == o.trainIds
        te == o.testIds
    IN  /\ Len(te) = nt
        /\ Len(tr) = n - nt
        /\ NoDup(tr) /\ NoDup(te)
        /\ Range(tr) \cap Range(te) = {}
        /\ Range(tr) \cup Range(te) = Ids(n)
        /\ o.trainCols = 2 /\ o.testCols = 2
        /\ Len(o.trainY) = Len(tr) /\ Len(o.testY) = Len(te)
        /\ Len(o.trainAux) = Len(tr) /\ Len(o.testAux) = Len(te)
        /\ \A i \in 1..Len(tr) : o.trainY[i] = 1000 + tr[i] /\ o.trainAux[i] = 7 * tr[i] + 3
        /\ \A i \in 1..Len(te) : o.testY[i] = 1000 + te[i] /\ o.testAux[i] = 7 * te[i] + 3
        /\ (~shuffled =>
              /\ \A i \in 1..Len(te) : te[i] = i - 1
              /\ \A i \in 1..Len(tr) : tr[i] = nt + i - 1)
=============================================================================
