CONSTANTS MaxN = 7  Shuffle = TRUE
SPECIFICATION Spec
INVARIANT ModelSatisfiesProperty
CHECK_DEADLOCK FALSE
