CONSTANTS MaxN = 5  Shuffle = TRUE
SPECIFICATION Spec
INVARIANT ModelSatisfiesProperty
CHECK_DEADLOCK FALSE
