CONSTANTS MaxN = 32  Shuffle = FALSE
SPECIFICATION Spec
INVARIANT ModelSatisfiesProperty
CHECK_DEADLOCK FALSE
