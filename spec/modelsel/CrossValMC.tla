----------------------------- MODULE CrossValMC -----------------------------
(***************************************************************************)
(* Design-level check of CrossVal: explore EVERY event sequence the guards *)
(* admit (any test block, any row order, train/test prediction in either   *)
(* order) for small n, k and check that the property's promises follow:    *)
(* NoLeak in every state, and at Done every row has exactly one held-out   *)
(* prediction.  Shows that the guards used for trace validation are strong *)
(* enough, and (coverage) that none of them is unsatisfiable.              *)
(***************************************************************************)
EXTENDS CrossVal, TLC

CONSTANTS MaxN, MaxK

VARIABLES st, done, nscore
vars == <<st, done, nscore>>

Asc(S) == LET RECURSIVE go(_)
              go(T) == IF T = {} THEN <<>> ELSE LET a == SetMin(T) IN <<a>> \o go(T \ {a})
          IN go(S)
Desc(S) == LET RECURSIVE go(_)
               go(T) == IF T = {} THEN <<>> ELSE LET a == SetMax(T) IN <<a>> \o go(T \ {a})
           IN go(S)
Orders(S) == {Asc(S), Desc(S)}

Init == /\ \E n \in 2..MaxN, k \in 2..MaxK, kind \in {"validate", "predict"}, sh \in BOOLEAN :
              k <= n /\ st = InitState(kind, n, k, sh, FALSE, <<>>)
        /\ done = FALSE /\ nscore = 0

Fit == /\ ~done
       /\ \E R \in SUBSET Ids(st.n) : \E rows \in Orders(R) :
            LET e == [f |-> st.folds + 1, rows |-> rows,
                      ys |-> [i \in 1..Len(rows) |-> 500 + rows[i]]]
            IN G_Fit(st, e) /\ st' = E_Fit(st, e)
       /\ UNCHANGED <<done, nscore>>

Predict == /\ ~done
           /\ \E R \in {st.fitRows, Ids(st.n) \ st.fitRows} : \E rows \in Orders(R) :
                LET e == [f |-> st.folds, rows |-> rows,
                          out |-> [i \in 1..Len(rows) |-> st.folds * 1000 + rows[i]]]
                IN G_Predict(st, e) /\ st' = E_Predict(st, e)
           /\ UNCHANGED <<done, nscore>>

Score == /\ ~done
         /\ LET e == [s |-> nscore + 1, ypred |-> st.lastOut,
                      ytrue |-> [i \in 1..Len(st.lastRows) |-> 500 + st.lastRows[i]]]
            IN G_Score(st, e) /\ st' = E_Score(st, e)
         /\ nscore' = nscore + 1
         /\ UNCHANGED done

Finish == /\ ~done
          /\ LET out == IF st.kind = "validate"
                        THEN [trainScore |-> st.trS, testScore |-> st.teS]
                        ELSE [yhat |-> [i \in 1..st.n |-> IF (i - 1) \in DOMAIN st.exp THEN st.exp[i - 1] ELSE 0 - 1]]
                 e == [kind |-> st.kind, status |-> "ok", out |-> out]
             IN G_Done(st, e)
          /\ done' = TRUE
          /\ UNCHANGED <<st, nscore>>

Next == Fit \/ Predict \/ Score \/ Finish
Spec == Init /\ [][Next]_vars

InvNoLeak == NoLeak(st)
InvDone == done =>
    /\ st.used = Ids(st.n)
    /\ st.folds = st.k
    /\ (st.kind = "predict" => DOMAIN st.exp = Ids(st.n))
    /\ (st.kind = "validate" => Len(st.trS) = st.k /\ Len(st.teS) = st.k)
    /\ \A f1, f2 \in DOMAIN st.seenBy : f1 # f2 =>
           (Ids(st.n) \ st.seenBy[f1]) \cap (Ids(st.n) \ st.seenBy[f2]) = {}
(* The guards are per event; a behaviour that paints itself into a corner (e.g. a middle
   block first when shuffling is off) is admitted step by step and rejected at Done, where
   `used = Ids(n)` and `folds = k` are demanded.  Coverage of Finish shows that complete
   behaviours exist. *)
=============================================================================
