CONSTANTS MaxN = 5  MaxK = 3
SPECIFICATION Spec
INVARIANT InvNoLeak
INVARIANT InvDone
CHECK_DEADLOCK FALSE
