----------------------------- MODULE KFold -----------------------------
(***************************************************************************)
(* C16, part 1.  Property predicates for k-fold splitting and              *)
(* train_test_split, and an implementation-shaped model of                 *)
(* KFold::test_indices / test_masks / KFoldIter::next.                     *)
(*                                                                         *)
(* Predicates (P): IsKFoldSplit, IsTTS.  They are the INVARIANT of the     *)
(* model below and the acceptance condition of ModelSelTrace.              *)
(***************************************************************************)
EXTENDS KFoldPreds

(***************************************************************************)
(* Model of the code (A).  State machine:                                  *)
(*   pc = "sizes"  : fold_sizes = n/k each, first n%k incremented          *)
(*   pc = "cut"    : one fold per step cut out of `indices` at `current`   *)
(*   pc = "mask"   : boolean masks, reversed, popped from the back         *)
(*   pc = "iter"   : one (train,test) pair per step, filtering 0..n-1      *)
(* `indices` is the identity or (shuffle) any permutation.                 *)
(***************************************************************************)
CONSTANTS MaxN, Shuffle

VARIABLES n, k, indices, sizes, current, tests, pending, result, pc
vars == <<n, k, indices, sizes, current, tests, pending, result, pc>>

Perms(S) == { f \in [1..Cardinality(S) -> S] : \A i, j \in DOMAIN f : i # j => f[i] # f[j] }

SeqOfSet(S) ==  \* ascending sequence of a finite set of naturals
    LET RECURSIVE go(_)
        go(T) == IF T = {} THEN <<>> ELSE LET a == SetMin(T) IN <<a>> \o go(T \ {a})
    IN go(S)

Init == /\ n \in 2..MaxN
        /\ k \in 2..n
        /\ indices \in (IF Shuffle THEN Perms(Ids(n)) ELSE { [i \in 1..n |-> i - 1] })
        /\ sizes = <<>> /\ current = 0 /\ tests = <<>> /\ pending = <<>> /\ result = <<>>
        /\ pc = "sizes"

Sizes == /\ pc = "sizes"
         /\ sizes' = [i \in 1..k |-> (n \div k) + (IF i <= n % k THEN 1 ELSE 0)]
         /\ pc' = "cut"
         /\ UNCHANGED <<n, k, indices, current, tests, pending, result>>

Cut == /\ pc = "cut"
       /\ IF Len(tests) < k
          THEN LET sz == sizes[Len(tests) + 1]
                   stop == current + sz
               IN  /\ tests' = Append(tests, [i \in 1..sz |-> indices[current + i]])
                   /\ current' = stop
                   /\ UNCHANGED <<pc, pending>>
          ELSE /\ pc' = "iter"
               \* test_masks, then reverse(): pending is popped from the back
               /\ pending' = [i \in 1..k |-> Range(tests[k + 1 - i])]
               /\ UNCHANGED <<tests, current>>
       /\ UNCHANGED <<n, k, indices, sizes, result>>

Iter == /\ pc = "iter"
        /\ IF pending # <<>>
           THEN LET mask == pending[Len(pending)]
                IN  /\ result' = Append(result,
                                    [train |-> SeqOfSet(Ids(n) \ mask), test |-> SeqOfSet(mask)])
                    /\ pending' = SubSeq(pending, 1, Len(pending) - 1)
                    /\ UNCHANGED pc
           ELSE pc' = "done" /\ UNCHANGED <<result, pending>>
        /\ UNCHANGED <<n, k, indices, sizes, current, tests>>

Next == Sizes \/ Cut \/ Iter
Spec == Init /\ [][Next]_vars

Done == pc = "done"
ModelSatisfiesProperty == Done => IsKFoldSplit(n, k, Shuffle, result)
Terminates == <>Done
=============================================================================
