CONSTANTS MaxN = 64  Shuffle = FALSE
SPECIFICATION Spec
INVARIANT ModelSatisfiesProperty
CHECK_DEADLOCK FALSE
