----------------------------- MODULE CrossVal -----------------------------
(***************************************************************************)
(* C16, part 2.  The cross-validation protocol as a state machine over the *)
(* events an instrumented estimator observes:                              *)
(*   Start(kind,n,k,shuffle)  Fit(f,rows,ys)  Predict(f,rows,out)          *)
(*   Score(s,ytrue,ypred)     Done(out)                                    *)
(* Row i carries identifier i in column 0 and target 500+i.  The           *)
(* estimator numbered f predicts f*1000 + id for a row, so a prediction    *)
(* value names the model that produced it and the row it was produced for. *)
(*                                                                         *)
(* Each event has a guard G_x(st, e) (what the property demands of it in   *)
(* protocol state st) and an effect E_x(st, e).  CrossValMC explores every *)
(* behaviour the guards admit and checks NoLeak / Placement on it (the     *)
(* guards are strong enough); ModelSelTrace evaluates the guards on the    *)
(* events recorded from cross_validate / cross_val_predict.                *)
(***************************************************************************)
EXTENDS KFoldPreds

(* custom = TRUE: the run uses a user-supplied splitter (any BaseKFold), whose (train, test)
   pairs are declared in the Start event (decl); the guards then demand that fold j is fitted
   on exactly decl[j].train and scored / predicted on exactly decl[j].test.  custom = FALSE:
   the built-in KFold, whose splits are not observed directly (see G_Fit). *)
InitState(kind, n, k, shuffle, custom, decl) ==
    [kind |-> kind, n |-> n, k |-> k, shuffle |-> shuffle, custom |-> custom, decl |-> decl,
     curTest |-> {},          \* held-out rows of the current fold
     phase |-> "idle",        \* idle | fitted | predicted (awaiting Score)
     folds |-> 0,             \* Fit events so far
     used |-> {},             \* ids already held out
     fitRows |-> {},          \* rows the current model has seen
     pending |-> "none",      \* which prediction awaits scoring: train | test | none
     lastRows |-> <<>>, lastOut |-> <<>>,
     didTrain |-> FALSE, didTest |-> FALSE,
     trS |-> <<>>, teS |-> <<>>,        \* score ids per fold
     exp |-> [i \in {} |-> 0],          \* id -> held-out prediction
     seenBy |-> [i \in {} |-> {}]]      \* history: fit number -> rows it saw

FoldComplete(st) ==
    \/ st.folds = 0
    \/ /\ st.phase = "fitted"
       /\ st.didTest
       /\ (st.kind = "validate" => st.didTrain)

G_FitCustom(st, e) ==
    /\ FoldComplete(st)
    /\ st.folds < Len(st.decl)
    /\ e.f = st.folds + 1
    /\ NoDup(e.rows)
    /\ Range(e.rows) = Range(st.decl[st.folds + 1].train)
    /\ Len(e.ys) = Len(e.rows)
    /\ \A i \in 1..Len(e.rows) : e.ys[i] = 500 + e.rows[i]

G_FitKFold(st, e) ==
    LET R == Range(e.rows)
        T == Ids(st.n) \ R
        q == st.n \div st.k
    IN  /\ FoldComplete(st)
        /\ st.folds < st.k
        /\ e.f = st.folds + 1
        /\ NoDup(e.rows)
        /\ R \subseteq Ids(st.n)
        /\ T # {}
        /\ T \cap st.used = {}
        /\ Cardinality(T) \in (IF st.n % st.k = 0 THEN {q} ELSE {q, q + 1})
        /\ (~st.shuffle => IsBlock(T))
        /\ Len(e.ys) = Len(e.rows)
        /\ \A i \in 1..Len(e.rows) : e.ys[i] = 500 + e.rows[i]

G_Fit(st, e) == IF st.custom THEN G_FitCustom(st, e) ELSE G_FitKFold(st, e)

HeldOut(st, e) == IF st.custom THEN Range(st.decl[st.folds + 1].test) ELSE Ids(st.n) \ Range(e.rows)

E_Fit(st, e) ==
    [st EXCEPT !.phase = "fitted", !.folds = st.folds + 1,
               !.used = st.used \cup HeldOut(st, e),
               !.curTest = HeldOut(st, e),
               !.fitRows = Range(e.rows),
               !.didTrain = FALSE, !.didTest = FALSE,
               !.seenBy = [x \in DOMAIN st.seenBy \cup {e.f} |->
                              IF x = e.f THEN Range(e.rows) ELSE st.seenBy[x]]]

PredKind(st, e) ==
    IF Range(e.rows) = st.fitRows THEN "train"
    ELSE IF Range(e.rows) = st.curTest THEN "test" ELSE "neither"

G_Predict(st, e) ==
    /\ st.phase = "fitted"
    /\ e.f = st.folds
    /\ NoDup(e.rows)
    /\ Len(e.out) = Len(e.rows)
    /\ \A i \in 1..Len(e.rows) : e.out[i] = e.f * 1000 + e.rows[i]
    /\ LET pk == PredKind(st, e)
       IN  \/ pk = "test" /\ ~st.didTest
           \/ pk = "train" /\ ~st.didTrain /\ st.kind = "validate"

(* the rows part of G_Predict (for a predict call that fails: it has no output) *)
G_PredictRows(st, e) ==
    /\ st.phase = "fitted"
    /\ e.f = st.folds
    /\ NoDup(e.rows)
    /\ LET pk == PredKind(st, e)
       IN  \/ pk = "test" /\ ~st.didTest
           \/ pk = "train" /\ ~st.didTrain /\ st.kind = "validate"

E_Predict(st, e) ==
    LET pk == PredKind(st, e) IN
    IF st.kind = "predict"
    THEN [st EXCEPT !.didTest = TRUE,
                    !.exp = [x \in DOMAIN st.exp \cup Range(e.rows) |->
                                IF x \in Range(e.rows)
                                THEN e.out[CHOOSE i \in 1..Len(e.rows) : e.rows[i] = x]
                                ELSE st.exp[x]]]
    ELSE [st EXCEPT !.phase = "predicted", !.pending = pk,
                    !.lastRows = e.rows, !.lastOut = e.out]

G_Score(st, e) ==
    /\ st.kind = "validate"
    /\ st.phase = "predicted"
    /\ e.ypred = st.lastOut
    /\ Len(e.ytrue) = Len(st.lastRows)
    /\ \A i \in 1..Len(st.lastRows) : e.ytrue[i] = 500 + st.lastRows[i]

E_Score(st, e) ==
    IF st.pending = "train"
    THEN [st EXCEPT !.phase = "fitted", !.pending = "none", !.didTrain = TRUE,
                    !.trS = Append(st.trS, e.s)]
    ELSE [st EXCEPT !.phase = "fitted", !.pending = "none", !.didTest = TRUE,
                    !.teS = Append(st.teS, e.s)]

(* A position that was never held out (possible only with a user-supplied      *)
(* splitter whose test sets do not cover every sample) has no out-of-fold       *)
(* prediction.  The statement does not say what is returned there, but "no      *)
(* sample is ever predicted by a model that has seen it" rules out two values:  *)
(* the sample's own target (500 + i: it would read as a perfect prediction) and *)
(* the prediction f*1000 + i of a model f that was fitted on row i.  Anything   *)
(* else (0 as in the code, a non-number, which the harness records as -999) is  *)
(* accepted.                                                                    *)
NotLeaked(st, i, v) ==
    /\ v # 500 + i
    /\ ~(/\ v >= 1000 /\ v % 1000 = i
         /\ (v \div 1000) \in DOMAIN st.seenBy
         /\ i \in st.seenBy[v \div 1000])

G_Done(st, e) ==
    /\ e.kind = st.kind
    /\ e.status = "ok"
    /\ FoldComplete(st)
    /\ (IF st.custom THEN st.folds = Len(st.decl) ELSE st.folds = st.k /\ st.used = Ids(st.n))
    /\ IF st.kind = "validate"
       THEN /\ e.out.trainScore = st.trS
            /\ e.out.testScore = st.teS
       ELSE /\ Len(e.out.yhat) = st.n
            /\ \A i \in st.used : e.out.yhat[i + 1] = st.exp[i]
            /\ \A i \in Ids(st.n) \ st.used : NotLeaked(st, i, e.out.yhat[i + 1])

(* A run in which the estimator failed on some fold (its Fit or Predict event   *)
(* carries failed = TRUE).  The statement promises one model per fold and a     *)
(* score / prediction for every fold's held-out rows; when a fold cannot be     *)
(* fitted or predicted that promise cannot be kept, and the only ways not to    *)
(* break it silently are to report the failure, or to return a result that      *)
(* still has one entry per fold (cross_validate) / per sample                   *)
(* (cross_val_predict).  A result with FEWER scores than folds presents an      *)
(* average over the surviving folds as the k-fold score and is rejected.        *)
NFolds(st) == IF st.custom THEN Len(st.decl) ELSE st.k
G_DoneAfterFailure(st, e) ==
    /\ e.kind = st.kind
    /\ \/ e.status = "err"
       \/ /\ e.status = "ok"
          /\ IF st.kind = "validate"
             THEN Len(e.out.trainScore) = NFolds(st) /\ Len(e.out.testScore) = NFolds(st)
             ELSE Len(e.out.yhat) = st.n

(* What the property promises about a completed run, stated on the state   *)
(* alone (checked by CrossValMC on every behaviour the guards admit).      *)
NoLeak(st) ==
    \A i \in DOMAIN st.exp :
        LET f == st.exp[i] \div 1000 IN
        /\ st.exp[i] % 1000 = i              \* prediction made for row i sits at position i
        /\ f \in DOMAIN st.seenBy
        /\ i \notin st.seenBy[f]             \* by a model that has not seen row i
=============================================================================
