\* repaired design, all layouts p <= 6 over kinds 0..3 (5 460 layouts x passing orders)
CONSTANTS MaxP = 6  Kinds = {0, 1, 2, 3}  AsBuilt = FALSE
SPECIFICATION Spec
INVARIANT FitOK
INVARIANT IdxOK
INVARIANT ModelSatisfiesProperty
INVARIANT EncodeAgrees
INVARIANT EmitReplay
CHECK_DEADLOCK FALSE
