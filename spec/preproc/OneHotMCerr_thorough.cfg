\* repaired design with the non-integer column kind 4 included: the error path of fit
CONSTANTS MaxP = 4  Kinds = {0, 1, 2, 3, 4}  AsBuilt = FALSE
SPECIFICATION Spec
INVARIANT FitOK
INVARIANT IdxOK
INVARIANT ModelSatisfiesProperty
INVARIANT EncodeAgrees
INVARIANT EmitReplay
CHECK_DEADLOCK FALSE
