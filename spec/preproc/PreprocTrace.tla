----------------------------- MODULE PreprocTrace -----------------------------
(***************************************************************************)
(* C18 trace validation (impl -> spec).  Consumes the ndjson file recorded *)
(* by the harness crate c18 from the real OneHotEncoder (DenseMatrix<f64>  *)
(* and <f32>) and CategoryMapper (<u16> and <String>), one independent     *)
(* event per step, and evaluates on each the property predicates of        *)
(* OneHot.tla / CategoryMapper.tla -- the same operators TLC model-checks  *)
(* on the design models.  The spec never blocks: a failing event prints    *)
(* <<"BAD", line, run, ev, clause>> and is counted.                        *)
(*                                                                         *)
(* Encode event:  X2 (matrix fitted, entries doubled), T2 (matrix          *)
(*   transformed), cats (indices as passed), fit in {ok, err, panic},      *)
(*   status in {ok, err, panic, none} of transform, out2 / outExact, Tnz / *)
(*   outnz (positions of negative zeros in T2 / out2, see OneHot.tla), ty  *)
(*   (f64, f32: DenseMatrix; nd64: column-major ndarray::Array2), and      *)
(*   for replayed model inputs hasExpect / expect2 (the model's matrix).   *)
(* Decision table (first matching row), straight from the statement:       *)
(*   a categorical column holds a non-integer      fit must be "err"       *)
(*   otherwise                                     fit must be "ok"        *)
(*   T2 holds a categorical value unseen in X2     transform must be "err" *)
(*   T2 # X2, all values seen                      statement silent        *)
(*   T2 = X2                                       transform "ok" and      *)
(*                                                 IsOneHot(X2, cats, out2)*)
(* A failing IsOneHot clause is tagged "@asbuilt-offset" when the layout   *)
(* is in the class MisIndexed and the output is exactly what the as-built  *)
(* find_new_idxs arithmetic produces (AsBuiltEncode): that is the one      *)
(* defect already recorded in known_findings/C18.json; any other wrong     *)
(* output, also on such layouts, keeps the plain clause name.              *)
(*                                                                         *)
(* Mapper event: ctor, items, probes, status, obs (see Observe in          *)
(*   CategoryMapper.tla), accepted iff MapperVerdict = "".                 *)
(* Real output that satisfies the predicate but differs from the model's   *)
(* expectation is counted under hits.Drift (MODEL-DRIFT, not a failure).   *)
(***************************************************************************)
EXTENDS CategoryMapper, TLC, Json, IOUtils

Rec == ndJsonDeserialize(IOEnv.TRACE)

VARIABLES l, nbad, hits
vars == <<l, nbad, hits>>

(* ---- Encode ---- *)
OneHotClause(X, tab, idx, out, xnz, onz) ==
    IF ~ShapeOK(X, tab, out) THEN "Shape"
    ELSE IF ~PassThroughOK(X, tab, idx, out) THEN "PassThrough"
    ELSE IF ~BlocksOK(X, tab, idx, out) THEN "Blocks"
    ELSE IF ~PassThroughSignOK(X, tab, idx, xnz, onz) THEN "PassThroughSignOfZero"
    ELSE ""
OneHotClause1(X, tab, out, xnz, onz) == OneHotClause(X, tab, NewIdxOf(NCols(X), tab), out, xnz, onz)

Tagged(c, X, cats, out) ==
    IF c # "" /\ MisIndexedX(X, cats) /\ out = AsBuiltEncode(X, cats)
    THEN c \o "@asbuilt-offset" ELSE c

(* well-formedness of the recorded input (a harness bug, not a property clause) *)
EncodeInputOK(e) ==
    /\ Len(e.X2) >= 1 /\ \A r \in 1..Len(e.X2) : Len(e.X2[r]) = Len(e.X2[1])
    /\ \A r \in 1..Len(e.T2) : Len(e.T2[r]) = Len(e.X2[1])
    /\ NoDup(e.cats) /\ \A i \in 1..Len(e.cats) : e.cats[i] \in 0..(Len(e.X2[1]) - 1)

EncodeClass(e, cats) ==
    IF HasNonInteger(e.X2, cats) THEN "FitErr"
    ELSE IF HasUnseen(e.X2, e.T2, cats) THEN "Unseen"
    ELSE IF e.T2 # e.X2 THEN "Unconstrained"
    ELSE "Encode"

(* every unseen value of T2 lies outside the u16 code range and its saturated code (0 for
   negative values, 65535 for large ones) is a fitted category of its column: the as-built
   `as u16` cast then silently encodes it as that category (known finding) *)
UnseenOnlyBySaturation(X, T, cats) ==
    \A j \in cats : \A r \in 1..NRows(T) :
        T[r][j + 1] \notin Range(ColOf(X, j)) =>
            /\ OutOfCodeRange(T[r][j + 1])
            /\ SaturatedCode2(T[r][j + 1]) \in Range(ColOf(X, j))

EncodeVerdict(e, cats, class) ==
    IF class = "FitErr" THEN (IF e.fit = "err" THEN "" ELSE "FitRejectsNonInteger")
    ELSE IF e.fit # "ok" THEN "FitSucceeds"
    ELSE IF class = "Unseen" THEN
        (IF e.status = "err" THEN ""
         ELSE IF e.status = "ok" /\ UnseenOnlyBySaturation(e.X2, e.T2, cats) THEN "TransformRejectsUnseen@saturated-code-seen"
         ELSE "TransformRejectsUnseen")
    ELSE IF class = "Unconstrained" THEN ""
    ELSE IF e.status # "ok" THEN "TransformSucceeds"
    ELSE IF ~e.outExact THEN "OutputValues"
    ELSE Tagged(OneHotClause1(e.X2, CatTable(e.X2, cats), e.out2, Range(e.Tnz), Range(e.outnz)), e.X2, cats, e.out2)

(* non-trivial layouts in the sense of DESIGN.md: two categorical columns followed by a
   further column, or a single-category column, or indices not passed in ascending order *)
NonTrivialLayout(e, cats) ==
    \/ \E a, b \in cats : a < b /\ b < Len(e.X2[1]) - 1
    \/ \E j \in cats : Len(CatsOf(e.X2, j)) = 1
    \/ e.cats # SortSet(cats)

(* ---- Mapper ---- *)
MapperVerdictE(e) ==
    IF e.status # "ok" THEN "MapperPanics"
    ELSE MapperVerdict(e.ctor, e.items, e.probes, e.obs)
ObsCore(o) == [num |-> o.num, getNum |-> o.getNum, ordinal |-> o.ordinal, ohSome |-> o.ohSome,
               oneHot |-> o.oneHot, getCat |-> o.getCat, invUnit |-> o.invUnit, invOH |-> o.invOH]

Hit(h, name) == [h EXCEPT ![name] = @ + 1]
HitNames == {"Encode", "EncodeNonTrivial", "FitErr", "Unseen", "Unconstrained", "NegZeroPassThrough", "RowLadder",
             "RowsDifferAcrossBlocks", "UnseenLateRow", "FitErrLateRow", "NdColumnMajor", "FitErrCancelling",
             "UnseenOutOfCodeRange", "UnseenSaturatesToSeen", "UnseenInfinite", "Mapper",
             "MapperUnconstrained", "MapperUnknownProbe", "Expect", "Drift"}

Bad(e, clause) == PrintT(<<"BAD", l, e.run, e.ev, clause>>)

StepEncode(e) ==
    LET cats  == Range(e.cats)
        class == EncodeClass(e, cats)
        v     == EncodeVerdict(e, cats, class)
        h1    == Hit(hits, class)
        h2    == IF class = "Encode" /\ NonTrivialLayout(e, cats) THEN Hit(h1, "EncodeNonTrivial") ELSE h1
        n     == Len(e.X2)
        (* a negative zero sits in a pass-through column of a same-matrix encode *)
        h2a   == IF class = "Encode" /\ (\E pr \in Range(e.Tnz) : pr[2] \notin cats) THEN Hit(h2, "NegZeroPassThrough") ELSE h2
        h2b   == IF class = "Encode" /\ n >= 63 THEN Hit(h2a, "RowLadder") ELSE h2a
        (* more than 64 rows and some categorical column whose row r differs from row r - 64 *)
        h2c   == IF class = "Encode" /\ n > 64 /\ (\E j \in cats : \E r \in 65..n : e.X2[r][j + 1] # e.X2[r - 64][j + 1])
                 THEN Hit(h2b, "RowsDifferAcrossBlocks") ELSE h2b
        (* the only unseen / non-integer value sits beyond row 64 *)
        h2d   == IF class = "Unseen" /\ n > 64 /\
                    (\A j \in cats : \A r \in 1..64 : e.T2[r][j + 1] \in Range(ColOf(e.X2, j)))
                 THEN Hit(h2c, "UnseenLateRow") ELSE h2c
        h2e   == IF class = "FitErr" /\ n > 64 /\ (\A j \in cats : \A r \in 1..64 : e.X2[r][j + 1] % Scale = 0)
                 THEN Hit(h2d, "FitErrLateRow") ELSE h2d
        h2f   == IF e.ty = "nd64" THEN Hit(h2e, "NdColumnMajor") ELSE h2e
        (* a categorical column with a negative and a positive non-integer value (deviations
           from the truncated codes of opposite sign) *)
        h2g   == IF class = "FitErr" /\ (\E j \in cats : \E r1, r2 \in 1..n :
                        e.X2[r1][j + 1] < 0 /\ e.X2[r1][j + 1] % Scale # 0 /\ e.X2[r2][j + 1] > 0 /\ e.X2[r2][j + 1] % Scale # 0)
                 THEN Hit(h2f, "FitErrCancelling") ELSE h2f
        oor   == class = "Unseen" /\ (\E j \in cats : \E r \in 1..Len(e.T2) :
                        OutOfCodeRange(e.T2[r][j + 1]) /\ e.T2[r][j + 1] \notin Range(ColOf(e.X2, j)))
        h2h   == IF oor THEN Hit(h2g, "UnseenOutOfCodeRange") ELSE h2g
        h2i   == IF oor /\ UnseenOnlyBySaturation(e.X2, e.T2, cats) THEN Hit(h2h, "UnseenSaturatesToSeen") ELSE h2h
        h2j   == IF oor /\ (\E j \in cats : \E r \in 1..Len(e.T2) : e.T2[r][j + 1] \in {INF2, NINF2})
                 THEN Hit(h2i, "UnseenInfinite") ELSE h2i
        h3    == IF e.hasExpect THEN Hit(h2j, "Expect") ELSE h2j
        h4    == IF e.hasExpect /\ v = "" /\ e.out2 # e.expect2 THEN Hit(h3, "Drift") ELSE h3
    IN  /\ hits' = h4
        /\ IF v = "" THEN nbad' = nbad ELSE Bad(e, v) /\ nbad' = nbad + 1

StepMapper(e) ==
    LET v  == MapperVerdictE(e)
        h1 == Hit(hits, IF Constrained(e.ctor, e.items) THEN "Mapper" ELSE "MapperUnconstrained")
        h2 == IF \E k \in 1..Len(e.probes) : e.probes[k] \notin Range(e.items)
              THEN Hit(h1, "MapperUnknownProbe") ELSE h1
        h3 == IF e.hasExpect THEN Hit(h2, "Expect") ELSE h2
        h4 == IF e.hasExpect /\ v = "" /\ ObsCore(e.obs) # ObsCore(e.expect) THEN Hit(h3, "Drift") ELSE h3
    IN  /\ hits' = h4
        /\ IF v = "" THEN nbad' = nbad ELSE Bad(e, v) /\ nbad' = nbad + 1

Step ==
    LET e == Rec[l] IN
    /\ l <= Len(Rec)
    /\ l' = l + 1
    /\ CASE e.ev = "Encode" ->
              IF EncodeInputOK(e) THEN StepEncode(e)
              ELSE Bad(e, "malformed input") /\ nbad' = nbad + 1 /\ UNCHANGED hits
         [] e.ev = "Mapper" -> StepMapper(e)
         [] OTHER -> Bad(e, "unknown event") /\ nbad' = nbad + 1 /\ UNCHANGED hits

Init == l = 1 /\ nbad = 0 /\ hits = [x \in HitNames |-> 0]
Next == Step
Spec == Init /\ [][Next]_vars

AtEnd == (l = Len(Rec) + 1) =>
            PrintT(<<"VERDICT", ToJson([consumed |-> l - 1, bad |-> nbad, hits |-> hits])>>)
=============================================================================
