--------------------------- MODULE CategoryMapper ---------------------------
(***************************************************************************)
(* C18, part 2: the category mapper (src/preprocessing/series_encoder.rs). *)
(*                                                                         *)
(*   "The category mapper's category-to-index, index-to-category, one-hot  *)
(*    and inverse-one-hot maps are mutually inverse, indices being         *)
(*    assigned in order of first appearance."                              *)
(*                                                                         *)
(* Section A -- the design: the mapper's state (hash map, category vector, *)
(* counter), its three constructors and its five queries as functions.     *)
(* CategoryMapperMC.tla runs the constructors as a state machine (one      *)
(* action per iteration of fit_to_iter's loop) over all short histories.   *)
(*                                                                         *)
(* Section P -- the property as a predicate over what a caller OBSERVES:   *)
(* the answers of get_num / get_ordinal / get_one_hot for a list of probe  *)
(* categories, get_cat / invert_one_hot(unit vector) for every index, and  *)
(* invert_one_hot(get_one_hot(c)).  MapperVerdict returns "" or the name   *)
(* of the first clause that fails.  The same operator is the invariant of  *)
(* the model (on Observe(model state)) and the acceptance condition of     *)
(* PreprocTrace for events recorded from CategoryMapper<u16> / <String>.   *)
(*                                                                         *)
(* Categories are natural numbers here (the harness maps strings "s<n>"    *)
(* to n); None is recorded as -1.                                          *)
(***************************************************************************)
EXTENDS OneHot

(***************************************************************************)
(*                              A.  DESIGN                                 *)
(***************************************************************************)
(* HashMap<C, usize> as a set of <<key, value>> pairs with unique keys *)
HasKey(map, c) == \E pr \in map : pr[1] = c
Lookup(map, c) == IF HasKey(map, c) THEN (CHOOSE pr \in map : pr[1] = c)[2] ELSE 0 - 1
Insert(map, c, i) == { pr \in map : pr[1] # c } \cup { <<c, i>> }    \* insert overwrites

EmptyMapper == [map |-> {}, cats |-> <<>>, num |-> 0]

(* body of the loop of fit_to_iter: a category not yet in the map gets the next number *)
FitStep(m, c) ==
    IF HasKey(m.map, c) THEN m
    ELSE [map |-> Insert(m.map, c, m.num), cats |-> Append(m.cats, c), num |-> m.num + 1]

RECURSIVE FitAll(_, _)
FitAll(m, s) == IF s = <<>> THEN m ELSE FitAll(FitStep(m, Head(s)), Tail(s))
FitToIter(s) == FitAll(EmptyMapper, s)

(* from_positional_category_vec: enumerate().collect() into the hash map (a later
   duplicate overwrites an earlier one), the vector is kept as given *)
RECURSIVE CollectVec(_, _, _)
CollectVec(map, v, i) == IF i > Len(v) THEN map ELSE CollectVec(Insert(map, v[i], i - 1), v, i + 1)
FromVec(v) == [map |-> CollectVec({}, v, 1), cats |-> v, num |-> Len(v)]

(* from_category_map: the pairs sorted by class number give the category vector *)
RECURSIVE SortPairs(_)
SortPairs(S) == IF S = {} THEN <<>>
                ELSE LET a == CHOOSE x \in S : \A y \in S : x[2] <= y[2]
                     IN  <<a[1]>> \o SortPairs(S \ {a})
FromMap(pairs) == [map |-> pairs, cats |-> SortPairs(pairs), num |-> Cardinality(pairs)]

(* queries *)
GetNum(m, c) == Lookup(m.map, c)                       \* -1 = None
GetOrdinal(m, c) == Lookup(m.map, c)                   \* U::from_usize(idx)
GetCat(m, i) == m.cats[i + 1]                          \* panics when i >= len
UnitVec(i, n) == [t \in 1..n |-> IF t - 1 = i THEN 1 ELSE 0]
GetOneHot(m, c) == IF HasKey(m.map, c) THEN [some |-> TRUE, v |-> UnitVec(Lookup(m.map, c), m.num)]
                   ELSE [some |-> FALSE, v |-> <<>>]
InvertOneHot(m, v) ==                                  \* exactly one entry equal to 1, else Err
    LET s == { i \in 1..Len(v) : v[i] = 1 }
    IN  IF Cardinality(s) = 1 THEN [ok |-> TRUE, cat |-> m.cats[CHOOSE i \in s : TRUE]]
        ELSE [ok |-> FALSE, cat |-> 0 - 1]

(* what a caller can observe of a mapper, in the shape of a recorded "Mapper" event *)
Observe(m, probes) ==
    [ num     |-> m.num,
      getNum  |-> [k \in 1..Len(probes) |-> GetNum(m, probes[k])],
      ordinal |-> [k \in 1..Len(probes) |-> GetOrdinal(m, probes[k])],
      ohSome  |-> [k \in 1..Len(probes) |-> GetOneHot(m, probes[k]).some],
      oneHot  |-> [k \in 1..Len(probes) |-> GetOneHot(m, probes[k]).v],
      getCat  |-> [i \in 1..m.num |-> GetCat(m, i - 1)],
      invUnit |-> [i \in 1..m.num |-> InvertOneHot(m, UnitVec(i - 1, m.num))],
      invOH   |-> [k \in 1..Len(probes) |->
                      IF GetOneHot(m, probes[k]).some THEN InvertOneHot(m, GetOneHot(m, probes[k]).v)
                      ELSE [ok |-> FALSE, cat |-> 0 - 1]] ]

(***************************************************************************)
(*                             P.  PROPERTY                                *)
(***************************************************************************)
(* The index assignment the statement prescribes: order of first appearance.  For the
   two "predefined" constructors the appearance order is the given vector / the order of
   the given class numbers; the statement only speaks about duplicate-free definitions
   there (with a duplicate, "first appearance" and the positional numbering disagree and
   the property text does not settle it), so those inputs are unconstrained. *)
Assigned(ctor, items) == IF ctor = "fit" THEN FirstApp(items, <<>>) ELSE items
Constrained(ctor, items) == ctor = "fit" \/ NoDup(items)

(* category -> index (get_num, get_ordinal): position of first appearance *)
CategoryToIndexOK(A, probes, o) ==
    \A k \in 1..Len(probes) :
        probes[k] \in Range(A) =>
            /\ o.getNum[k] = PosIn(A, probes[k])
            /\ o.ordinal[k] = PosIn(A, probes[k])
(* index -> category (get_cat) for exactly the assigned indices *)
IndexToCategoryOK(A, o) ==
    /\ Len(o.getCat) = Len(A)
    /\ \A i \in 1..Len(A) : o.getCat[i] = A[i]
(* get_cat o get_num = id wherever get_num answers (so an unknown category cannot be given
   a number), and get_num o get_cat = id on every index *)
MutuallyInverseOK(probes, o) ==
    /\ \A k \in 1..Len(probes) :
          o.getNum[k] >= 0 => /\ o.getNum[k] < Len(o.getCat)
                              /\ o.getCat[o.getNum[k] + 1] = probes[k]
    /\ \A i \in 1..Len(o.getCat) : \A k \in 1..Len(probes) :
          probes[k] = o.getCat[i] => o.getNum[k] = i - 1
(* one-hot: one entry per category, a single 1 at the category's index *)
OneHotOK(A, probes, o) ==
    \A k \in 1..Len(probes) :
        probes[k] \in Range(A) => o.ohSome[k] /\ o.oneHot[k] = UnitVec(PosIn(A, probes[k]), Len(A))
(* inverse one-hot undoes one-hot (hence one-hot cannot answer for an unknown category)
   and maps the i-th unit vector to the i-th category *)
InverseOneHotOK(A, probes, o) ==
    /\ \A k \in 1..Len(probes) : o.ohSome[k] => o.invOH[k].ok /\ o.invOH[k].cat = probes[k]
    /\ Len(o.invUnit) = Len(A)
    /\ \A i \in 1..Len(A) : o.invUnit[i].ok /\ o.invUnit[i].cat = A[i]

MapperVerdict1(A, probes, o) ==
    IF ~CategoryToIndexOK(A, probes, o) THEN "CategoryToIndex"
    ELSE IF ~IndexToCategoryOK(A, o) THEN "IndexToCategory"
    ELSE IF ~MutuallyInverseOK(probes, o) THEN "MutuallyInverse"
    ELSE IF ~OneHotOK(A, probes, o) THEN "OneHot"
    ELSE IF ~InverseOneHotOK(A, probes, o) THEN "InverseOneHot"
    ELSE ""
(* "" = every clause holds (or the input is unconstrained) *)
MapperVerdict(ctor, items, probes, o) ==
    IF ~Constrained(ctor, items) THEN "" ELSE MapperVerdict1(Assigned(ctor, items), probes, o)
=============================================================================
