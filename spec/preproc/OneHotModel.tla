----------------------------- MODULE OneHotModel -----------------------------
(***************************************************************************)
(* C18, design model (A) of OneHotEncoder::fit followed by ::transform on  *)
(* the same matrix, shaped like src/preprocessing/categorical.rs:          *)
(*                                                                         *)
(*   pc = "sort"    idxs.sort_unstable()                                   *)
(*   pc = "fit"     per categorical column: Validate (is every value an    *)
(*                  integer?  else -> "fitErr"), then one FitRow action    *)
(*                  per iteration of CategoryMapper::fit_to_iter           *)
(*   pc = "repeats" / "offsets" / "zip"   the three iterator stages of     *)
(*                  find_new_idxs, one action each                         *)
(*   pc = "blocks"  first loop of transform, one Block action per          *)
(*                  categorical column (copy the one-hot vectors)          *)
(*   pc = "copy"    second loop of transform, one Copy action per old      *)
(*                  column, with the cur_skip pointer                      *)
(*   pc = "done"                                                           *)
(*                                                                         *)
(* Inputs (initial states): every p in 1..MaxP, every assignment of a KIND *)
(* to each column -- 0 = plain, 1..3 = categorical with that many          *)
(* categories, 4 = categorical holding a non-integer value -- and the      *)
(* categorical indices passed in ascending, descending and rotated order.  *)
(* The 4-row matrix is a function of the layout (MkX): categorical codes   *)
(* are non-contiguous and appear in non-sorted order, plain columns hold   *)
(* pairwise distinct half-integers.                                        *)
(*                                                                         *)
(* AsBuilt = FALSE: the design with the accumulator of find_new_idxs       *)
(*   repaired (a = v + 1).  TLC checks, for every layout, that the         *)
(*   terminal matrix satisfies the property predicate IsOneHot, equals     *)
(*   Encode, that the index vector equals NewIdxOf, that the fitted        *)
(*   mappers equal CatsOf and that "fitErr" is reached exactly for the     *)
(*   layouts with a non-integer categorical column.  Every terminal state  *)
(*   prints a REPLAY line (spec -> impl).                                  *)
(* AsBuilt = TRUE: the arithmetic exactly as written (a = v).  TLC checks  *)
(*   the CHARACTERISATION of the defect: the index vector is right iff     *)
(*   ~MisIndexed(layout), and on these matrices the output satisfies       *)
(*   IsOneHot iff ~MisIndexed; and that the pure function AsBuiltEncode    *)
(*   (used by trace validation to recognise the known defect) agrees with  *)
(*   the state machine.                                                    *)
(***************************************************************************)
EXTENDS OneHot, TLC, Json

CONSTANTS MaxP,      \* largest number of columns
          Kinds,     \* subset of 0..4, the column kinds that are enumerated
          AsBuilt    \* BOOLEAN, see above

VARIABLES p, kinds, X, passed,      \* the input: kinds[j+1] is the kind of column j
          pc, idxs, mappers, ci, ri, reps, offs, nidx, res, bi, oi, sk
vars == <<p, kinds, X, passed, pc, idxs, mappers, ci, ri, reps, offs, nidx, res, bi, oi, sk>>

NR == 4
(* recorded (doubled) values.  Codes of column j are shifted by 10*j so that equal
   categories in different columns are different numbers. *)
CodeRow(k, r) == CASE k = 1 -> <<7, 7, 7, 7>>[r]
                   [] k = 2 -> <<9, 4, 9, 4>>[r]       \* first appearance 9, 4
                   [] k = 3 -> <<8, 2, 8, 5>>[r]       \* first appearance 8, 2, 5
MkCell(k, j, r) == IF k = 0 THEN 201 + 20 * j + 2 * r                  \* 100.5 + 10 j + r
                   ELSE IF k = 4 THEN (IF r % 2 = 0 THEN 13 ELSE 6) + 20 * j   \* 3, 6.5, 3, 6.5
                   ELSE Scale * (CodeRow(k, r) + 10 * j)
MkX(pp, kk) == [r \in 1..NR |-> [c \in 1..pp |-> MkCell(kk[c], c - 1, r)]]

CatSet(pp, kk) == { j \in 0..(pp - 1) : kk[j + 1] # 0 }
Reverse(s) == [i \in 1..Len(s) |-> s[Len(s) + 1 - i]]
Rotate(s) == IF s = <<>> THEN s ELSE Tail(s) \o <<Head(s)>>
PassOrders(S) == LET a == SortSet(S) IN {a, Reverse(a), Rotate(a)}

Init == /\ p \in 1..MaxP
        /\ kinds \in [1..p -> Kinds]
        /\ X = MkX(p, kinds)
        /\ passed \in PassOrders(CatSet(p, kinds))
        /\ pc = "sort" /\ idxs = <<>> /\ mappers = <<>> /\ ci = 1 /\ ri = 0
        /\ reps = <<>> /\ offs = <<>> /\ nidx = <<>> /\ res = <<>> /\ bi = 1 /\ oi = 0 /\ sk = 1

Sizes == [i \in 1..Len(mappers) |-> Len(mappers[i])]

Sort == /\ pc = "sort"
        /\ idxs' = SortSet(Range(passed))
        /\ pc' = "fit"
        /\ UNCHANGED <<p, kinds, X, passed, mappers, ci, ri, reps, offs, nidx, res, bi, oi, sk>>

(* validate_col_is_categorical: a value is valid iff it is (within 0.001 of) an integer;
   the matrices only hold integers and half-integers *)
Validate == /\ pc = "fit" /\ ci <= Len(idxs) /\ ri = 0
            /\ IF \E r \in 1..NR : X[r][idxs[ci] + 1] % Scale # 0
               THEN pc' = "fitErr" /\ UNCHANGED <<mappers, ri>>
               ELSE pc' = pc /\ mappers' = Append(mappers, <<>>) /\ ri' = 1
            /\ UNCHANGED <<p, kinds, X, passed, idxs, ci, reps, offs, nidx, res, bi, oi, sk>>

(* one iteration of CategoryMapper::fit_to_iter over the column *)
FitRow == /\ pc = "fit" /\ ci <= Len(idxs) /\ ri >= 1
          /\ LET v == X[ri][idxs[ci] + 1]
             IN  mappers' = [mappers EXCEPT ![ci] = IF v \in Range(@) THEN @ ELSE Append(@, v)]
          /\ IF ri < NR THEN ri' = ri + 1 /\ ci' = ci
                        ELSE ri' = 0 /\ ci' = ci + 1
          /\ UNCHANGED <<p, kinds, X, passed, pc, idxs, reps, offs, nidx, res, bi, oi, sk>>

FitEnd == /\ pc = "fit" /\ ci > Len(idxs)
          /\ pc' = "repeats"
          /\ UNCHANGED <<p, kinds, X, passed, idxs, mappers, ci, ri, reps, offs, nidx, res, bi, oi, sk>>

Repeats == /\ pc = "repeats"
           /\ reps' = ScanRepeats(idxs \o <<p>>, 0, ~AsBuilt)
           /\ pc' = "offsets"
           /\ UNCHANGED <<p, kinds, X, passed, idxs, mappers, ci, ri, offs, nidx, res, bi, oi, sk>>

Offsets == /\ pc = "offsets"
           /\ offs' = <<0>> \o ScanOffsets(Sizes, 0)
           /\ pc' = "zip"
           /\ UNCHANGED <<p, kinds, X, passed, idxs, mappers, ci, ri, reps, nidx, res, bi, oi, sk>>

Zip == /\ pc = "zip"
       /\ nidx' = ZipIdx(p, FlatRepeat(reps, offs))
       /\ res' = Zeros(NR, p + offs[Len(offs)])          \* M::zeros(nrows, expandws_p)
       /\ pc' = "blocks"
       /\ UNCHANGED <<p, kinds, X, passed, idxs, mappers, ci, ri, reps, offs, bi, oi, sk>>

Block == /\ pc = "blocks"
         /\ IF bi <= Len(idxs)
            THEN IF \E r \in 1..NR : X[r][idxs[bi] + 1] \notin Range(mappers[bi])
                 THEN pc' = "transformErr" /\ UNCHANGED <<res, bi>>      \* get_one_hot = None
                 ELSE /\ res' = WriteBlock(res, X, idxs[bi], nidx[idxs[bi] + 1], mappers[bi])
                      /\ bi' = bi + 1 /\ pc' = pc
            ELSE pc' = "copy" /\ UNCHANGED <<res, bi>>
         /\ UNCHANGED <<p, kinds, X, passed, idxs, mappers, ci, ri, reps, offs, nidx, oi, sk>>

Copy == /\ pc = "copy"
        /\ IF oi < p
           THEN /\ IF sk <= Len(idxs) /\ idxs[sk] = oi
                   THEN sk' = sk + 1 /\ res' = res                      \* treated variable: skip
                   ELSE sk' = sk /\ res' = CopyCol(res, X, oi, nidx[oi + 1])
                /\ oi' = oi + 1 /\ pc' = pc
           ELSE pc' = "done" /\ UNCHANGED <<res, oi, sk>>
        /\ UNCHANGED <<p, kinds, X, passed, idxs, mappers, ci, ri, reps, offs, nidx, bi>>

Next == Sort \/ Validate \/ FitRow \/ FitEnd \/ Repeats \/ Offsets \/ Zip \/ Block \/ Copy
Spec == Init /\ [][Next]_vars

(* ------------------------------ invariants ------------------------------ *)
Cats == CatSet(p, kinds)
Done == pc = "done"
HasIdx == pc \in {"blocks", "copy", "done"}
SeqOfFn(f, n) == [i \in 1..n |-> f[i - 1]]

(* fit: the mappers are the first-appearance category lists; errors exactly as stated *)
FitOK == /\ (pc \in {"repeats", "offsets", "zip", "blocks", "copy", "done"} =>
                 /\ Len(mappers) = Len(idxs)
                 /\ \A i \in 1..Len(idxs) : mappers[i] = CatsOf(X, idxs[i])
                 /\ ~HasNonInteger(X, Cats))
         /\ (pc = "fitErr" => HasNonInteger(X, Cats))
         /\ pc # "transformErr"

(* repaired design: index vector, property predicate, functional form *)
IdxOK == HasIdx => nidx = SeqOfFn(NewIdxOf(p, CatTable(X, Cats)), p)
ModelSatisfiesProperty == Done => IsOneHot(X, Cats, res)
EncodeAgrees == Done => /\ res = Encode(X, Cats)
                        /\ res = CodeEncode(X, Cats, TRUE)

(* as-built arithmetic: exact characterisation of the defect *)
AsBuiltIdxCharacterised ==
    HasIdx => ((nidx = SeqOfFn(NewIdxOf(p, CatTable(X, Cats)), p)) <=> ~MisIndexed(p, idxs, Sizes))
AsBuiltOutputCharacterised ==
    Done => /\ (IsOneHot(X, Cats, res) <=> ~MisIndexedX(X, Cats))
            /\ res = AsBuiltEncode(X, Cats)

(* spec -> impl *)
Terminal == pc \in {"done", "fitErr"}
EmitReplay == Terminal =>
    PrintT(<<"REPLAY", ToJson([kind |-> "encode", X2 |-> X, cats |-> passed,
                               fit |-> IF Done THEN "ok" ELSE "err",
                               expect2 |-> IF Done THEN res ELSE <<>>])>>)
=============================================================================
