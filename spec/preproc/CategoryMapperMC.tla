-------------------------- MODULE CategoryMapperMC --------------------------
(***************************************************************************)
(* Design model of CategoryMapper construction, explored exhaustively:     *)
(* every history of at most MaxLen items over Symbols for fit_to_iter      *)
(* (one FitItem action per loop iteration), every duplicate-free vector    *)
(* for from_positional_category_vec and from_category_map.  In every       *)
(* terminal state the property predicate MapperVerdict must accept what    *)
(* the design's queries answer (Observe) for the probe list Symbols +      *)
(* Unknown; LoopInv is the loop invariant of fit_to_iter.                  *)
(* spec -> impl: every terminal state prints one REPLAY line (constructor, *)
(* items, probes, the model's observable) which the harness replays        *)
(* through CategoryMapper<u16> and CategoryMapper<String>.                 *)
(***************************************************************************)
EXTENDS CategoryMapper, TLC, Json

CONSTANTS Symbols,      \* finite set of naturals used as categories
          Unknown,      \* a natural not in Symbols, probed but never fitted
          MaxLen        \* maximal number of items of a history

ASSUME Unknown \notin Symbols

VARIABLES ctor, items, pos, m, pc
vars == <<ctor, items, pos, m, pc>>

Probes == SortSet(Symbols \cup {Unknown})
Histories == UNION { [1..n -> Symbols] : n \in 0..MaxLen }

Init == /\ ctor \in {"fit", "vec", "map"}
        /\ items \in Histories
        /\ (ctor # "fit" => NoDup(items))
        /\ pos = 1 /\ m = EmptyMapper /\ pc = "build"

(* for l in categories { if !contains { insert; push; num += 1 } } *)
FitItem == /\ pc = "build" /\ ctor = "fit" /\ pos <= Len(items)
           /\ m' = FitStep(m, items[pos])
           /\ pos' = pos + 1
           /\ UNCHANGED <<ctor, items, pc>>
FitEnd  == /\ pc = "build" /\ ctor = "fit" /\ pos > Len(items)
           /\ pc' = "done"
           /\ UNCHANGED <<ctor, items, pos, m>>
VecBuild == /\ pc = "build" /\ ctor = "vec"
            /\ m' = FromVec(items)
            /\ pc' = "done"
            /\ UNCHANGED <<ctor, items, pos>>
MapBuild == /\ pc = "build" /\ ctor = "map"
            /\ m' = FromMap({ <<items[i], i - 1>> : i \in 1..Len(items) })
            /\ pc' = "done"
            /\ UNCHANGED <<ctor, items, pos>>

Next == FitItem \/ FitEnd \/ VecBuild \/ MapBuild
Spec == Init /\ [][Next]_vars

(* loop invariant of fit_to_iter: after consuming a prefix the vector holds the prefix's
   categories in order of first appearance and the map is its inverse *)
LoopInv == (ctor = "fit") =>
    /\ m.cats = FirstApp(SubSeq(items, 1, pos - 1), <<>>)
    /\ m.num = Len(m.cats)
    /\ m.map = { <<m.cats[i], i - 1>> : i \in 1..Len(m.cats) }

Done == pc = "done"
ModelSatisfiesProperty == Done => MapperVerdict(ctor, items, Probes, Observe(m, Probes)) = ""
(* the predicate is not vacuous on the model: a mapper built from a DIFFERENT history that
   assigns differently is rejected (checked on the reversal of the appearance order) *)
PredicateDiscriminates ==
    (Done /\ Len(m.cats) >= 2) =>
        MapperVerdict(ctor, items, Probes,
                      Observe(FromVec([i \in 1..Len(m.cats) |-> m.cats[Len(m.cats) + 1 - i]]), Probes)) # ""
EmitReplay == Done =>
    PrintT(<<"REPLAY", ToJson([kind |-> "mapper", ctor |-> ctor, items |-> items, probes |-> Probes,
                               expect |-> Observe(m, Probes)])>>)
=============================================================================
