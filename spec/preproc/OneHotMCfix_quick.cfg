\* repaired design, all layouts p <= 5 over kinds 0..3 (1 364 layouts x passing orders)
CONSTANTS MaxP = 5  Kinds = {0, 1, 2, 3}  AsBuilt = FALSE
SPECIFICATION Spec
INVARIANT FitOK
INVARIANT IdxOK
INVARIANT ModelSatisfiesProperty
INVARIANT EncodeAgrees
INVARIANT EmitReplay
CHECK_DEADLOCK FALSE
