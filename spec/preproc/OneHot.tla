------------------------------- MODULE OneHot -------------------------------
(***************************************************************************)
(* C18, part 1: one-hot encoding of the categorical columns of a matrix.   *)
(*                                                                         *)
(* Section P -- the PROPERTY, written from the statement of C18:           *)
(*   "fitting the one-hot encoder and applying it to the same matrix       *)
(*    yields n rows and p + SUM_j (k_j - 1) columns in which every non-    *)
(*    categorical column appears unchanged and in its original relative    *)
(*    order, and every categorical column j is replaced, at its own        *)
(*    position, by k_j indicator columns (one per category, in order of    *)
(*    first appearance) holding exactly one 1 per row at the position of   *)
(*    that row's category.  Transforming a value that was not seen during  *)
(*    fitting, or fitting a column with non-integer values, returns an     *)
(*    error."                                                              *)
(*   IsOneHot(X, cats, out) = ShapeOK /\ PassThroughOK /\ BlocksOK         *)
(*   HasNonInteger, HasUnseen  = the two error clauses                     *)
(*   Encode(X, cats)           = the unique matrix satisfying IsOneHot,    *)
(*                               defined independently by concatenation    *)
(*                                                                         *)
(* Section A -- the DESIGN of the code (src/preprocessing/categorical.rs)   *)
(* as pure functions, one per pipeline stage of find_new_idxs and one per  *)
(* loop body of OneHotEncoder::transform.  OneHotModel.tla strings them    *)
(* into a state machine; PreprocTrace.tla uses AsBuiltEncode to recognise  *)
(* the already known offset defect among failing events.                   *)
(*                                                                         *)
(* Conventions.  A matrix is a sequence of rows, a row a sequence of        *)
(* integers (1-based, as delivered by the Json module).  COLUMN INDICES    *)
(* ARE 0-BASED as in the Rust API and the statement: column j of X is      *)
(* X[r][j+1].  All recorded matrix entries are the real entries times      *)
(* Scale = 2 (exact: the generators only use multiples of 1/2), so that    *)
(* the non-integer values needed by the error clause and by pass-through   *)
(* columns are integers here.  An entry is integer-valued iff it is even;  *)
(* the indicator value 1.0 is recorded as One = 2.                         *)
(***************************************************************************)
EXTENDS Naturals, Integers, Sequences, FiniteSets

Scale == 2
One   == Scale

Range(s) == { s[i] : i \in DOMAIN s }
NoDup(s) == Cardinality(Range(s)) = Len(s)
MinOf(a, b) == IF a <= b THEN a ELSE b

NRows(X) == Len(X)
NCols(X) == IF Len(X) = 0 THEN 0 ELSE Len(X[1])
ColOf(X, j) == [r \in 1..Len(X) |-> X[r][j + 1]]

(* distinct values of a sequence in order of first appearance *)
RECURSIVE FirstApp(_, _)
FirstApp(s, acc) ==
    IF s = <<>> THEN acc
    ELSE FirstApp(Tail(s), IF Head(s) \in Range(acc) THEN acc ELSE Append(acc, Head(s)))

(* 0-based position of v in the duplicate-free sequence cs *)
PosIn(cs, v) == (CHOOSE i \in 1..Len(cs) : cs[i] = v) - 1

RECURSIVE SumOver(_, _)          \* SUM_{x \in S} f[x]
SumOver(S, f) == IF S = {} THEN 0
                 ELSE LET x == CHOOSE y \in S : TRUE IN f[x] + SumOver(S \ {x}, f)

(***************************************************************************)
(*                         P.  THE PROPERTY                                *)
(***************************************************************************)

(* categories of column j: the distinct values in order of first appearance *)
CatsOf(X, j) == FirstApp(ColOf(X, j), <<>>)
(* tab[j] = CatsOf(X, j) for the categorical columns; k_j = Len(tab[j]) *)
CatTable(X, cats) == [j \in cats |-> CatsOf(X, j)]
Extra(tab) == [j \in DOMAIN tab |-> Len(tab[j]) - 1]

(* p + SUM_j (k_j - 1) *)
WidthOf(p, tab) == p + SumOver(DOMAIN tab, Extra(tab))
(* "at its own position": every column keeps its place in the left-to-right order, so
   column j starts after the j original columns to its left plus the k_c - 1 additional
   columns of every categorical column c to its left *)
NewIdxOf(p, tab) ==
    [j \in 0..(p - 1) |-> j + SumOver({c \in DOMAIN tab : c < j}, Extra(tab))]

(* n rows and p + SUM (k_j - 1) columns *)
ShapeOK(X, tab, out) ==
    /\ Len(out) = NRows(X)
    /\ \A r \in 1..Len(out) : Len(out[r]) = WidthOf(NCols(X), tab)

(* every non-categorical column appears unchanged (and, by idx, in its original order) *)
PassThroughOK(X, tab, idx, out) ==
    \A j \in (0..(NCols(X) - 1)) \ DOMAIN tab :
        \A r \in 1..NRows(X) : out[r][idx[j] + 1] = X[r][j + 1]

(* every categorical column j is replaced, at its own position, by k_j indicator columns,
   one per category in order of first appearance, exactly one 1 per row, at the position
   of that row's category *)
BlocksOK(X, tab, idx, out) ==
    \A j \in DOMAIN tab :
        \A r \in 1..NRows(X) :
            \A t \in 1..Len(tab[j]) :
                out[r][idx[j] + t] = (IF tab[j][t] = X[r][j + 1] THEN One ELSE 0)

(* "unchanged" includes the sign of a zero: +0.0 and -0.0 compare equal but are different
   values (1/x, copysign, the bit pattern tell them apart).  The integer encoding cannot
   carry the sign, so an event lists the positions <<row, column>> (row 1-based, column
   0-based) at which the transformed matrix (xnz) and the returned matrix (onz) hold a
   negative zero; a pass-through column must carry exactly the negative zeros of its source.
   (Nothing is demanded of the sign of the zeros inside indicator blocks.) *)
PassThroughSignOK(X, tab, idx, xnz, onz) ==
    \A j \in (0..(NCols(X) - 1)) \ DOMAIN tab :
        \A r \in 1..NRows(X) : (<<r, j>> \in xnz) <=> (<<r, idx[j]>> \in onz)

IsOneHot2(X, tab, idx, out) ==
    /\ ShapeOK(X, tab, out)
    /\ PassThroughOK(X, tab, idx, out)
    /\ BlocksOK(X, tab, idx, out)
IsOneHot1(X, tab, out) == IsOneHot2(X, tab, NewIdxOf(NCols(X), tab), out)
(* cats: SET of 0-based column indices (the order in which they are passed is irrelevant) *)
IsOneHot(X, cats, out) == IsOneHot1(X, CatTable(X, cats), out)

(* error clause 1: fitting a column with non-integer values returns an error *)
HasNonInteger(X, cats) ==
    \E j \in cats : \E r \in 1..NRows(X) : X[r][j + 1] % Scale # 0
(* error clause 2: transforming (T) a value that was not seen during fitting (X) *)
HasUnseen(X, T, cats) ==
    \E j \in cats : \E r \in 1..NRows(T) : T[r][j + 1] \notin Range(ColOf(X, j))

(* Values outside the range of the u16 category codes.  Recorded (doubled) entries above
   2 * 65535 or below 0 are such values; INF2 / NINF2 stand for +infinity / -infinity.  They
   only ever occur in the matrix handed to transform, where they are unseen values like any
   other: HasUnseen demands an error.  SaturatedCode2 is what a saturating float -> u16 cast
   makes of them; PreprocTrace uses it to recognise one specific known defect. *)
INF2  == 2147483646
NINF2 == 0 - 2147483646
OutOfCodeRange(v) == v < 0 \/ v > Scale * 65535
SaturatedCode2(v) == IF v < 0 THEN 0 ELSE IF v > Scale * 65535 THEN Scale * 65535 ELSE v

(* The encoding as a function, by concatenation of per-column pieces (deliberately not
   via NewIdxOf, so that OneHotModel's check  IsOneHot(X, cats, Encode(X, cats))  compares
   two independent formulations of the statement). *)
RECURSIVE EncodeRow(_, _, _, _)
EncodeRow(row, tab, j, p) ==
    IF j = p THEN <<>>
    ELSE (IF j \in DOMAIN tab
          THEN [t \in 1..Len(tab[j]) |-> IF tab[j][t] = row[j + 1] THEN One ELSE 0]
          ELSE <<row[j + 1]>>) \o EncodeRow(row, tab, j + 1, p)
Encode1(X, tab) == [r \in 1..NRows(X) |-> EncodeRow(X[r], tab, 0, NCols(X))]
Encode(X, cats) == Encode1(X, CatTable(X, cats))

(***************************************************************************)
(*              A.  THE CODE'S ARITHMETIC, STAGE BY STAGE                  *)
(***************************************************************************)

(* ascending sequence of a finite set of naturals  (idxs.sort_unstable()) *)
RECURSIVE SortSet(_)
SortSet(S) == IF S = {} THEN <<>>
              ELSE LET a == CHOOSE x \in S : \A y \in S : x <= y IN <<a>> \o SortSet(S \ {a})

(* find_new_idxs, stage 1:  cat_idx.scan(0, |a, v| { im = v + 1 - a; a = v; im })
   over cat_idxs ++ [num_params].  `fixed` selects the repaired accumulator a = v + 1:
   the number of columns that share one offset is the distance between consecutive
   categorical indices, which needs the accumulator to point one past the previous one. *)
RECURSIVE ScanRepeats(_, _, _)
ScanRepeats(s, a, fixed) ==
    IF s = <<>> THEN <<>>
    ELSE LET v == Head(s)
         IN  <<v + 1 - a>> \o ScanRepeats(Tail(s), IF fixed THEN v + 1 ELSE v, fixed)

(* stage 2:  (0..1).chain(cat_sizes.scan(0, |a, v| { a = a + v - 1; a })) *)
RECURSIVE ScanOffsets(_, _)
ScanOffsets(sizes, a) ==
    IF sizes = <<>> THEN <<>>
    ELSE LET b == a + Head(sizes) - 1 IN <<b>> \o ScanOffsets(Tail(sizes), b)

(* stage 3:  repeats.zip(offset).flat_map(|(r, o)| repeat(o).take(r)) *)
RECURSIVE FlatRepeat(_, _)
FlatRepeat(reps, offs) ==
    IF reps = <<>> \/ offs = <<>> THEN <<>>
    ELSE [t \in 1..Head(reps) |-> Head(offs)] \o FlatRepeat(Tail(reps), Tail(offs))

(* stage 4:  (0..num_params).zip(flat).map(|(idx, ofst)| idx + ofst);  position j+1 of the
   result is the new index of old column j *)
ZipIdx(p, flat) == [i \in 1..MinOf(p, Len(flat)) |-> (i - 1) + flat[i]]

FindNewIdxs(p, sizes, idxs, fixed) ==
    ZipIdx(p, FlatRepeat(ScanRepeats(idxs \o <<p>>, 0, fixed), <<0>> \o ScanOffsets(sizes, 0)))

(* transform, first loop body: the one-hot vectors of categorical column j (categories cs)
   are copied to columns cidx .. cidx + Len(cs) - 1 of every row *)
WriteBlock(res, X, j, cidx, cs) ==
    [r \in 1..Len(res) |->
        [c \in 1..Len(res[r]) |->
            IF (c - 1) >= cidx /\ (c - 1) < cidx + Len(cs)
            THEN (IF cs[c - cidx] = X[r][j + 1] THEN One ELSE 0)
            ELSE res[r][c]]]
(* transform, second loop body: plain column j is copied to column np *)
CopyCol(res, X, j, np) ==
    [r \in 1..Len(res) |->
        [c \in 1..Len(res[r]) |-> IF c - 1 = np THEN X[r][j + 1] ELSE res[r][c]]]

Zeros(n, w) == [r \in 1..n |-> [c \in 1..w |-> 0]]

RECURSIVE FoldBlocks(_, _, _, _, _, _)
FoldBlocks(res, X, idxs, ms, nidx, i) ==
    IF i > Len(idxs) THEN res
    ELSE FoldBlocks(WriteBlock(res, X, idxs[i], nidx[idxs[i] + 1], ms[i]), X, idxs, ms, nidx, i + 1)
RECURSIVE FoldCopy(_, _, _, _, _)
FoldCopy(res, X, catset, nidx, j) ==
    IF j >= NCols(X) THEN res
    ELSE FoldCopy(IF j \in catset THEN res ELSE CopyCol(res, X, j, nidx[j + 1]), X, catset, nidx, j + 1)

(* the whole of fit + transform on the same matrix as the code computes it *)
CodeEncode(X, cats, fixed) ==
    LET idxs  == SortSet(cats)
        ms    == [i \in 1..Len(idxs) |-> CatsOf(X, idxs[i])]
        sizes == [i \in 1..Len(idxs) |-> Len(ms[i])]
        nidx  == FindNewIdxs(NCols(X), sizes, idxs, fixed)
        w     == NCols(X) + (IF sizes = <<>> THEN 0 ELSE ScanOffsets(sizes, 0)[Len(sizes)])
    IN  FoldCopy(FoldBlocks(Zeros(NRows(X), w), X, idxs, ms, nidx, 1), X, cats, nidx, 0)
AsBuiltEncode(X, cats) == CodeEncode(X, cats, FALSE)

(***************************************************************************)
(* Exact characterisation of the layouts on which the as-built accumulator *)
(* (a = v) goes wrong.  With c_1 < ... < c_m the sorted categorical        *)
(* indices, the as-built pipeline switches to the i-th offset at column    *)
(* c_i + i instead of c_i + 1, so column j is given a too small index iff  *)
(* c_i < j < c_i + i for some i with k_i > 1 (necessarily i >= 2).         *)
(* OneHotModel checks with TLC that this is exactly the set of layouts on  *)
(* which FindNewIdxs(.., FALSE) differs from NewIdxOf.                      *)
(***************************************************************************)
MisIndexed(p, idxs, sizes) ==
    \E i \in 2..Len(idxs) :
        /\ sizes[i] > 1
        /\ \E j \in 0..(p - 1) : idxs[i] < j /\ j < idxs[i] + i
MisIndexedX(X, cats) ==
    LET idxs == SortSet(cats)
    IN  MisIndexed(NCols(X), idxs, [i \in 1..Len(idxs) |-> Len(CatsOf(X, idxs[i]))])
=============================================================================
