\* the arithmetic exactly as written in find_new_idxs: characterisation of the defect
CONSTANTS MaxP = 5  Kinds = {0, 1, 2, 3}  AsBuilt = TRUE
SPECIFICATION Spec
INVARIANT FitOK
INVARIANT AsBuiltIdxCharacterised
INVARIANT AsBuiltOutputCharacterised
CHECK_DEADLOCK FALSE
