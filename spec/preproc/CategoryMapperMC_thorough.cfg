CONSTANTS Symbols = {0, 3, 17, 65535}  Unknown = 9  MaxLen = 6
SPECIFICATION Spec
INVARIANT LoopInv
INVARIANT ModelSatisfiesProperty
INVARIANT PredicateDiscriminates
INVARIANT EmitReplay
CHECK_DEADLOCK FALSE
