------------------------------- MODULE PcaMC -------------------------------
(***************************************************************************)
(* Design model for C14: a family of two-column data sets whose principal  *)
(* axes are rational, so that TLC can play the exact solver and confront   *)
(* the contract of Pca.tla with the exact answer.                          *)
(*                                                                         *)
(* Take integer vectors u, v of length M with u.v = 0 and (for PCA)        *)
(* sum u = sum v = 0, and the 3-4-5 rotation R = [[3,4],[-4,3]] / 5.  The  *)
(* data                                                                    *)
(*        X = [u v] (5 R) + offsets  =  [3u - 4v + c1 ,  4u + 3v + c2]     *)
(* has  Xc^T Xc = 25 R^T diag(|u|^2, |v|^2) R,  hence (for |u| >= |v|)     *)
(*        P = R^T = [[3/5, -4/5], [4/5, 3/5]] ,   Y = Xc P = [5u, 5v] ,    *)
(* eigenvalues 25|u|^2/M >= 25|v|^2/M.  For the truncated SVD (no          *)
(* centring, offsets 0) the right singular vectors are the same and the    *)
(* singular values are 5|u|, 5|v| (rational when |u|^2, |v|^2 are perfect  *)
(* squares, which is what the model restricts that action to).             *)
(*                                                                         *)
(* Actions: FitPcaFull (k = 2), FitPcaOne (k = 1), FitTsvdOne (k = 1).     *)
(* Invariants:                                                             *)
(*   Sound   every clause of the contract accepts the exact answer rounded *)
(*           to fixed point (also when |u| = |v|: a repeated eigenvalue);  *)
(*   Sharp   the contract rejects (a) the two components in the wrong      *)
(*           order when |u|^2 - |v|^2 is visible, (b) a k = 1 fit that     *)
(*           returns the second axis, (c) a projection entry moved by      *)
(*           Delta units, (d) a transform that forgot to centre.           *)
(* The correlation mode has irrational axes ((1, +-1)/sqrt 2 for p = 2)    *)
(* and is not part of this model; it is exercised by trace validation.     *)
(***************************************************************************)
EXTENDS Pca, TLC

CONSTANTS M, K, S, Delta         \* rows, data values -K..K, scale, perturbation
Vals == (-K)..K

VARIABLES u, v, off, phase, kind, P, Y, Yf, sv
vars == <<u, v, off, phase, kind, P, Y, Yf, sv>>

Idx == 1..M
Sq(w) == PcDot(w, w)
X == [i \in Idx |-> <<3 * u[i] - 4 * v[i] + off[1], 4 * u[i] + 3 * v[i] + off[2]>>]

RoundDiv(a, b) == (2 * a + b) \div (2 * b)
Fx(num, den) == RoundDiv(num * PcP2(S), den)
P1 == <<Fx(3, 5), Fx(4, 5)>>          \* first axis  (3, 4)/5
P2 == <<Fx(-4, 5), Fx(3, 5)>>         \* second axis (-4, 3)/5

RECURSIVE ISqrtBis(_, _, _)
ISqrtBis(lo, hi, w) == IF hi - lo <= 1 THEN lo
                       ELSE LET mid == (lo + hi) \div 2 IN
                            IF mid * mid <= w THEN ISqrtBis(mid, hi, w) ELSE ISqrtBis(lo, mid, w)
ISqrt(w) == ISqrtBis(0, 32768, w)
IsSquare(w) == ISqrt(w) * ISqrt(w) = w

Init == /\ u \in [Idx -> Vals] /\ v \in [Idx -> Vals]
        /\ PcDot(u, v) = 0 /\ Sq(u) >= Sq(v) /\ Sq(v) > 0
        /\ off \in {<<0, 0>>, <<7, -100>>}
        /\ phase = "input" /\ kind = "none"
        /\ P = <<>> /\ Y = <<>> /\ Yf = <<>> /\ sv = <<>>

Centred == PcSum(u) = 0 /\ PcSum(v) = 0
FullY == [i \in Idx |-> <<5 * u[i] * PcP2(S), 5 * v[i] * PcP2(S)>>]

FitPcaFull ==
    /\ phase = "input" /\ Centred
    /\ P' = <<<<P1[1], P2[1]>>, <<P1[2], P2[2]>>>>
    /\ Y' = FullY /\ Yf' = FullY /\ sv' = <<>>
    /\ kind' = "pca2" /\ phase' = "done" /\ UNCHANGED <<u, v, off>>

FitPcaOne ==
    /\ phase = "input" /\ Centred
    /\ P' = <<<<P1[1]>>, <<P1[2]>>>>
    /\ Y' = [i \in Idx |-> <<5 * u[i] * PcP2(S)>>] /\ Yf' = FullY /\ sv' = <<>>
    /\ kind' = "pca1" /\ phase' = "done" /\ UNCHANGED <<u, v, off>>

FitTsvdOne ==
    /\ phase = "input" /\ off = <<0, 0>> /\ IsSquare(Sq(u)) /\ IsSquare(Sq(v))
    /\ P' = <<<<P1[1]>>, <<P1[2]>>>>
    /\ Y' = [i \in Idx |-> <<5 * u[i] * PcP2(S)>>]
    /\ Yf' = <<<<P1[1], P2[1]>>, <<P1[2], P2[2]>>>>                       \* here: Vf
    /\ sv' = <<5 * ISqrt(Sq(u)) * PcP2(S), 5 * ISqrt(Sq(v)) * PcP2(S)>>
    /\ kind' = "tsvd1" /\ phase' = "done" /\ UNCHANGED <<u, v, off>>

Next == FitPcaFull \/ FitPcaOne \/ FitTsvdOne
Spec == Init /\ [][Next]_vars

\* the contract exactly as PcaTrace applies it (covariance mode)
PcaAccepts(Cq, p, y, yf, k) ==
    /\ PcInRange(Cq, p, y, M, k, S) /\ PcEnergyInRange(yf, 2)
    /\ Orthonormal(p, k, S)
    /\ AffineMap(Cq, p, y, M, k)
    /\ ZeroMean(y, k) /\ Uncorrelated(y, k) /\ Ordered(y, k)
    /\ EigenEquation(Cq, p, y, M, k, S)
    /\ (k < 2 => Captured(y, yf, k))

TsvdAccepts(c, y, vf, s, W, k) ==
    /\ PcSvdInRange(X, vf, s, <<>>, S) /\ PcSvdInRange2(X, W) /\ PcEnergyInRange(y, k)
    /\ Orthonormal(c, k, S)
    /\ LinearMap(X, c, y, k)
    /\ SingularBasis(X, vf, W, S)
    /\ SingularValues(X, W, s)
    /\ Frobenius(X, y, W, k)

SwapCols(m2) == [i \in 1..Len(m2) |-> <<m2[i][2], m2[i][1]>>]
Bump(p) == [p EXCEPT ![1] = [@ EXCEPT ![1] = @ + Delta]]
\* the transform of the uncentred data: Y + (offset row) P
Uncentred(y, p, k) == [i \in Idx |-> [a \in 1..k |-> y[i][a] + off[1] * p[1][a] + off[2] * p[2][a]]]

Sound == phase = "done" =>
    IF kind = "tsvd1" THEN TsvdAccepts(P, Y, Yf, sv, PcProject(X, Yf), 1)
    ELSE PcaAccepts(PcCentred(X), P, Y, Yf, IF kind = "pca2" THEN 2 ELSE 1)

Sharp == phase = "done" =>
    LET Cq == PcCentred(X) IN
    CASE kind = "pca2" ->
            /\ (Sq(u) > Sq(v) + 1 => ~PcaAccepts(Cq, SwapCols(P), SwapCols(Y), Yf, 2))
            /\ ~PcaAccepts(Cq, Bump(P), Y, Yf, 2)
            /\ (off # <<0, 0>> => ~PcaAccepts(Cq, P, Uncentred(Y, P, 2), Yf, 2))
      [] kind = "pca1" ->
            /\ (Sq(u) > Sq(v) + 1 =>
                   ~PcaAccepts(Cq, <<<<P2[1]>>, <<P2[2]>>>>, [i \in Idx |-> <<5 * v[i] * PcP2(S)>>], Yf, 1))
            /\ ~PcaAccepts(Cq, Bump(P), Y, Yf, 1)
      [] kind = "tsvd1" ->
            /\ (Sq(u) > Sq(v) + 1 =>
                   ~TsvdAccepts(<<<<P2[1]>>, <<P2[2]>>>>, [i \in Idx |-> <<5 * v[i] * PcP2(S)>>], Yf, sv, PcProject(X, Yf), 1))
            /\ ~TsvdAccepts(Bump(P), Y, Yf, sv, PcProject(X, Yf), 1)
=============================================================================
