-------------------------------- MODULE Pca --------------------------------
(***************************************************************************)
(* C14 -- PCA and truncated SVD yield orthonormal, variance-ordered,       *)
(* optimal projections.  Contract specification (kind B) over fixed-point  *)
(* integers; TLC evaluates it on every recorded fit / transform.           *)
(*                                                                         *)
(* DATA.  X is an m x p integer matrix.  With s_j the column sums,         *)
(*      C_ij = m X_ij - s_j       = m (X_ij - mu_j)      (integers)        *)
(*      V_j  = m sum_i X_ij^2 - s_j^2 = m^2 sigma_j^2    (population)      *)
(* The outputs are fixed point at a scale S taken from the event:          *)
(*      P  (p x k)  the projection returned by components()                *)
(*      Y  (m x k)  transform(X)                                           *)
(* The variance convention (1/m or 1/(m-1)) never matters: every clause    *)
(* is homogeneous in it.                                                   *)
(*                                                                         *)
(* CLAUSES, covariance mode.                                               *)
(*  Orthonormal     P^T P = I_k                                            *)
(*  AffineMap       m Y = C P        (the transform is x -> (x - mu) P)    *)
(*  ZeroMean        column sums of Y vanish                                *)
(*  Uncorrelated    Y_a . Y_b = 0 for a # b                                *)
(*  Ordered         ||Y_1||^2 >= ||Y_2||^2 >= ...                          *)
(*  EigenEquation   Xc^T Y_a = ||Y_a||^2 P_a, i.e. Cov P_a = var_a P_a     *)
(*                  with the exact centred data on the left; evaluated     *)
(*                  at reduced precision because the right-hand side is a  *)
(*                  product of three fixed-point numbers                   *)
(*  Captured        for k < p, with Yf the transform of the *full* fit     *)
(*                  (k = p) of the same data:                              *)
(*                     sum_{a<=k} ||Y_a||^2 = sum_{a<=k} ||Yf_a||^2 .      *)
(*  Why this is the statement's optimality clause: the full fit passes     *)
(*  Orthonormal (P square, so P P^T = I as well), AffineMap and            *)
(*  Uncorrelated, hence  Xc^T Xc = P (Y^T Y) P^T  with Y^T Y diagonal: the *)
(*  ||Yf_a||^2 / m are ALL the eigenvalues of the sample covariance, and   *)
(*  Ordered sorts them; so the right-hand side is m times the sum of the k *)
(*  largest eigenvalues, which by Ky Fan's theorem no orthonormal k-frame  *)
(*  can exceed.  Repeated eigenvalues are handled correctly: nothing here  *)
(*  compares individual vectors.                                           *)
(*                                                                         *)
(* CORRELATION MODE.  The code returns P = diag(1/sd) V; "the same holds   *)
(* for the standardised data" then reads, without any square root,         *)
(*  Orthonormal     sum_j P_ja P_jb V_j = delta_ab m^2                     *)
(*                  (P^T diag(sigma^2) P = I)                              *)
(* while AffineMap, ZeroMean, Uncorrelated, Ordered and Captured are       *)
(* literally the same formulas (Y is the transform of the standardised     *)
(* data by V).  A column with V_j = 0 has no standardisation: the event is *)
(* counted as unconstrained.                                               *)
(*                                                                         *)
(* TRUNCATED SVD (no centring).  Cm (p x k) = components(), Y = X Cm:      *)
(*  Orthonormal, LinearMap  Y = X Cm,                                      *)
(*  Frobenius       sum_a ||Y_a||^2 = sum_{a<=k} s_a^2, where the s_a^2    *)
(*                  are *derived in the spec* from the full matrix Vf of   *)
(*                  right singular vectors (linalg SVD of the same X):     *)
(*                  Vf orthonormal and square, W = X Vf has mutually       *)
(*                  orthogonal columns with non-increasing norms           *)
(*                  => ||W_a||^2 = s_a^2 are all eigenvalues of X^T X,     *)
(*                  sorted;  the recorded singular values must agree,      *)
(*  k = p           is rejected with an error.                             *)
(*                                                                         *)
(* STACKING.  transform of a stack of query rows equals the stack of the   *)
(* transforms (to one unit) and every row obeys the affine / linear map.   *)
(*                                                                         *)
(* TOLERANCES follow DESIGN 2.5: a quantised value is off by at most half  *)
(* a unit, so a sum of products  sum a_k b_k  of two quantised factors is  *)
(* off by at most  sum (|a_k| + |b_k| + 1) / 2, a product with an exact    *)
(* integer c_k by  sum |c_k| / 2;  PcSlack units are added for the         *)
(* floating-point error of the f64 code (far below one unit for the        *)
(* admitted magnitudes).  32-bit arithmetic: PcInRange admits a scale only *)
(* if every squared column norm stays below 2^28; the trace spec picks the *)
(* finest admissible scale of the event.                                   *)
(***************************************************************************)
EXTENDS Integers, Sequences, SequencesExt

PcSlack == 2

PcAbs(a) == IF a < 0 THEN -a ELSE a
RECURSIVE PcP2(_)
PcP2(k) == IF k <= 0 THEN 1 ELSE 2 * PcP2(k - 1)
\* sum of an integer sequence (SequencesExt!FoldLeft: linear time and no deep recursion, so
\* that columns of a thousand rows are affordable)
PcSum(s) == FoldLeft(LAMBDA a, b : a + b, 0, s)
PcDot(a, b) == PcSum([k \in 1..Len(a) |-> a[k] * b[k]])
PcAbsSum(s) == PcSum([k \in 1..Len(s) |-> PcAbs(s[k])])
PcCol(M, j) == [i \in 1..Len(M) |-> M[i][j]]
PcNCols(M) == Len(M[1])
PcMax(a, b) == IF a > b THEN a ELSE b
PcMaxAbs(s) == FoldLeft(LAMBDA a, b : PcMax(a, PcAbs(b)), 0, s)
PcMaxAbsM(M) == PcMaxAbs([i \in 1..Len(M) |-> PcMaxAbs(M[i])])

\* saturating arithmetic for the range guard (arguments >= 0)
PcLim == 536870912                                   \* 2^29
PcCap == 268435456                                   \* 2^28
PcSatMul(a, b) == IF a = 0 \/ b = 0 THEN 0
                  ELSE IF a >= PcLim \/ b >= PcLim THEN PcLim
                  ELSE IF a > PcLim \div b THEN PcLim ELSE a * b

\* ------------------------------------------------- exact data
PcColSum(X, j) == PcSum(PcCol(X, j))
\* (the column sums are an operator *argument* of the constructor below: a LET inside the
\* function constructor would be re-evaluated for every entry)
PcCentredWith(X, s) == [i \in 1..Len(X) |-> [j \in 1..PcNCols(X) |-> Len(X) * X[i][j] - s[j]]]
PcColSums(X) == [j \in 1..PcNCols(X) |-> PcColSum(X, j)]
PcCentred(X) == PcCentredWith(X, PcColSums(X))      \* C = m X - colsum  (m x p integers)
\* V_j = m sum x^2 - (sum x)^2, computed on the deviations from the first row (the value is
\* shift invariant; the deviations keep the intermediate products small for long columns
\* with large means)
PcVarN2(X, j) == LET d == [i \in 1..Len(X) |-> X[i][j] - X[1][j]] IN Len(X) * PcDot(d, d) - PcSum(d) * PcSum(d)

\* squared norm of column a of a fixed-point matrix (units 4^-S) and its quantisation error
PcEnergy(Y, a)    == PcDot(PcCol(Y, a), PcCol(Y, a))
PcEnergyErr(Y, a) == PcSum([i \in 1..Len(Y) |-> PcAbs(Y[i][a]) + 1])

\* ------------------------------------------------- shape
PcShape(M, r, c) == Len(M) = r /\ \A i \in 1..r : Len(M[i]) = c

\* ------------------------------------------------- orthonormality
\* P^T P = I  (P: p x k fixed point at scale S)
Orthonormal(P, k, S) ==
    \A a \in 1..k : \A b \in a..k :
        LET ca == PcCol(P, a) cb == PcCol(P, b)
            tol == (PcAbsSum(ca) + PcAbsSum(cb) + Len(P) + 1) \div 2 + PcSlack
        IN PcAbs(PcDot(ca, cb) - (IF a = b THEN PcP2(2 * S) ELSE 0)) <= tol

\* P^T diag(sigma^2) P = I, multiplied by m^2:  sum_j P_ja P_jb V_j = delta m^2 4^S
OrthonormalStd(P, Vn, m, k, S) ==
    \A a \in 1..k : \A b \in a..k :
        LET ca == PcCol(P, a) cb == PcCol(P, b)
            lhs == PcSum([j \in 1..Len(P) |-> ca[j] * cb[j] * Vn[j]])
            tol == (PcSum([j \in 1..Len(P) |-> (PcAbs(ca[j]) + PcAbs(cb[j]) + 1) * Vn[j]]) + 1) \div 2
                   + PcSlack * m * m
        IN PcAbs(lhs - (IF a = b THEN m * m * PcP2(2 * S) ELSE 0)) <= tol

\* ------------------------------------------------- the affine map
\* m Y_ia = sum_j C_ij P_ja  for every row of the (already centred-by-m) integer matrix Cq
AffineMap(Cq, P, Y, m, k) ==
    \A i \in 1..Len(Cq) : \A a \in 1..k :
        PcAbs(m * Y[i][a] - PcDot(Cq[i], PcCol(P, a))) <= (m + PcAbsSum(Cq[i]) + 1) \div 2 + PcSlack * m

\* Y_ia = sum_j X_ij Cm_ja  (truncated SVD: no centring)
LinearMap(X, Cm, Y, k) ==
    \A i \in 1..Len(X) : \A a \in 1..k :
        PcAbs(Y[i][a] - PcDot(X[i], PcCol(Cm, a))) <= (2 + PcAbsSum(X[i])) \div 2 + PcSlack

\* ------------------------------------------------- moments of the transformed data
ZeroMean(Y, k) == \A a \in 1..k : PcAbs(PcSum(PcCol(Y, a))) <= (Len(Y) + 1) \div 2 + PcSlack

Uncorrelated(Y, k) ==
    \A a \in 1..k : \A b \in (a + 1)..k :
        LET ca == PcCol(Y, a) cb == PcCol(Y, b) IN
        PcAbs(PcDot(ca, cb)) <= (PcAbsSum(ca) + PcAbsSum(cb) + Len(Y) + 1) \div 2 + PcSlack

Ordered(Y, k) ==
    \A a \in 1..(k - 1) :
        PcEnergy(Y, a) + PcEnergyErr(Y, a) + PcEnergyErr(Y, a + 1) + PcSlack >= PcEnergy(Y, a + 1)

\* sum of the first k column energies
PcTopEnergy(Y, k)    == PcSum([a \in 1..k |-> PcEnergy(Y, a)])
PcTopEnergyErr(Y, k) == PcSum([a \in 1..k |-> PcEnergyErr(Y, a)])

\* variance captured by the k-fit equals the sum of the k largest eigenvalues (full fit Yf)
Captured(Y, Yf, k) ==
    PcAbs(PcTopEnergy(Y, k) - PcTopEnergy(Yf, k)) <= PcTopEnergyErr(Y, k) + PcTopEnergyErr(Yf, k) + PcSlack

\* ------------------------------------------------- eigen-equation (covariance mode)
\* sum_i C_ij Y_ia  =  m ||Y_a||^2 P_ja   in units 2^-S, with E = ||Y_a||^2 in units 4^-S:
\*   rhs = m * floor( floor(E / 2^S) * P_ja / 2^S )
\* errors: Y in the left-hand side (sum_i |C_ij| / 2), the two floors (<= 2 m), the
\* quantisation of E (dE) and of P_ja (1/2):  m (dE (|P_ja| + 1) + E / 2) / 4^S
EigenEquation(Cq, P, Y, m, k, S) ==
    \A a \in 1..k :
        LET E  == PcEnergy(Y, a)
            dE == PcEnergyErr(Y, a)
            E1 == E \div PcP2(S)
            ya == PcCol(Y, a)
        IN \A j \in 1..Len(P) :
            LET lhs == PcDot(PcCol(Cq, j), ya)
                rhs == m * ((E1 * P[j][a]) \div PcP2(S))
                tol == (PcAbsSum(PcCol(Cq, j)) + 1) \div 2 + 2 * m
                       + m * ((dE * (PcAbs(P[j][a]) + 1) + E \div 2) \div PcP2(2 * S) + 1) + PcSlack * m
            IN PcAbs(lhs - rhs) <= tol

\* ------------------------------------------------- range guard
\* every squared column norm of Y (and the triple products of EigenEquation) fits
PcEnergyInRange(Y, k) ==
    LET my == PcMaxAbsM(Y) + 1 IN PcSatMul(Len(Y), PcSatMul(my, my)) < PcCap
PcInRange(Cq, P, Y, m, k, S) ==
    /\ PcEnergyInRange(Y, k)
    /\ PcSatMul(PcMaxAbsM(P) + 1, PcMaxAbsM(P) + 1) < PcCap \div (Len(P) + 1)
    /\ PcSatMul(PcNCols(Cq) * PcMaxAbsM(Cq), PcMaxAbsM(P) + 1) < PcCap
    /\ PcSatMul(Len(Cq) * PcMaxAbsM(Cq), PcMaxAbsM(Y) + 1) < PcCap
    /\ PcSatMul(m, PcMaxAbsM(Y) + 1) < PcCap
    /\ PcSatMul(m * m, PcP2(2 * S)) < PcCap
    \* EigenEquation: (E / 2^S) * P and dE * (|P| + 1)
    /\ PcSatMul(PcCap \div PcP2(S) + 1, PcMaxAbsM(P) + 1) < PcLim
    /\ PcSatMul(Len(Y) * (PcMaxAbsM(Y) + 1), PcMaxAbsM(P) + 2) < PcCap
\* correlation mode: the weighted Gram matrix
PcStdInRange(P, Vn, m, S) ==
    LET mp == PcMaxAbsM(P) + 1 IN
    PcSatMul(PcSatMul(mp, mp), PcSatMul(Len(P), PcMaxAbs(Vn))) < PcCap

\* ------------------------------------------------- stacking
StackEqual(Ystack, Ysep) ==
    /\ Len(Ystack) = Len(Ysep)
    /\ \A i \in 1..Len(Ystack) : /\ Len(Ystack[i]) = Len(Ysep[i])
                                 /\ \A a \in 1..Len(Ystack[i]) : PcAbs(Ystack[i][a] - Ysep[i][a]) <= 1

\* ------------------------------------------------- truncated SVD
\* W = X Vf in the spec (units 2^-S), its column energies are the squared singular values
PcProject(X, Vf) == [i \in 1..Len(X) |-> [a \in 1..PcNCols(Vf) |-> PcDot(X[i], PcCol(Vf, a))]]
\* quantisation error of W_ia: sum_j |X_ij| / 2; of W_a . W_b: sum_i (|W_ia| + |W_ib| + rowabs_i) rowabs_i / 2 (generous)
PcProjErr(X, W, a, b) ==
    PcSum([i \in 1..Len(X) |-> (PcAbs(W[i][a]) + PcAbs(W[i][b]) + PcAbsSum(X[i])) * PcAbsSum(X[i])]) \div 2 + PcSlack

\* Vf diagonalises X^T X with sorted eigenvalues
SingularBasis(X, Vf, W, S) ==
    LET p == PcNCols(X) IN
    /\ Orthonormal(Vf, p, S)
    /\ \A a \in 1..p : \A b \in (a + 1)..p : PcAbs(PcDot(PcCol(W, a), PcCol(W, b))) <= PcProjErr(X, W, a, b)
    /\ \A a \in 1..(p - 1) : PcEnergy(W, a) + PcProjErr(X, W, a, a) + PcProjErr(X, W, a + 1, a + 1) >= PcEnergy(W, a + 1)

\* recorded singular values agree with the derived ones:  sv_a^2 = ||W_a||^2
SingularValues(X, W, sv) ==
    \A a \in 1..Len(sv) :
        /\ sv[a] >= 0
        /\ PcAbs(sv[a] * sv[a] - PcEnergy(W, a)) <= sv[a] + 1 + PcProjErr(X, W, a, a)

\* ||X Cm||_F^2 = sum of the k largest squared singular values
Frobenius(X, Y, W, k) ==
    PcAbs(PcTopEnergy(Y, k) - PcTopEnergy(W, k))
        <= PcTopEnergyErr(Y, k) + PcSum([a \in 1..k |-> PcProjErr(X, W, a, a)]) + PcSlack

PcSvdInRange(X, Vf, sv, W, S) ==
    /\ PcSatMul(PcNCols(X) * PcMaxAbsM(X), PcMaxAbsM(Vf) + 1) < PcCap
    /\ PcSatMul(PcMaxAbs(sv) + 1, PcMaxAbs(sv) + 1) < PcCap
PcSvdInRange2(X, W) ==
    LET r == PcMaxAbs([i \in 1..Len(X) |-> PcAbsSum(X[i])]) IN
    /\ PcEnergyInRange(W, PcNCols(W))
    /\ PcSatMul(Len(X) * r, 2 * PcMaxAbsM(W) + r + 1) < PcCap
=============================================================================
